import Crem.Proofs.Naming
/-!
# C12 — saved results are faithful, complete and deterministically named and labelled

Property theorems about the models `Crem/Model/Naming.lean` (run ids, solution ids, labels,
`Summary.Id`, `Summary.FileNameSafeId`, the JSON set name - each taking THE KEY THE GO MAP HAPPENED
TO YIELD as an explicit argument) and `Crem/Model/SummaryCsv.lean` (the summary map, its sorting and
CSV rendering - taking THE ORDER IN WHICH THE MAP WAS ITERATED as an explicit argument).

The naming theorems are stated for the REPAIRED code (`Variant.fixed`: the as-is solution of a
solution set is called `<run id> Solution (As-Is)` like the single-objective one, and a label is
the LAST `\d+/\d+` match of the solution id), for every scenario name over the clean alphabet
`Clean` (none of `/ ( )`, no newline, neither `As-Is` nor `Solution` as a substring - `Solution`
also not after removing blanks), EVERY run number / run count, EVERY set size and both annealer
families.  The code as found (`Variant.current`) FAILS them: the refuting witnesses are the
`example`s at the end (defects D6, D7, D8 of DESIGN.md section 6).  `rows_are_asis_then_members`
holds for both variants and for every run id.

The property does not restrict scenario names, and `Variant.fixed` FAILS on names outside `Clean`
(`trial (1/1)`, `As-Is baseline`, `Best Solution`: refuting `example`s below).  Round 3 therefore adds
  * section "the repaired code (`Variant.anchored`)": labels, file name, set id, JSON set name for EVERY
    scenario name / run id, no `Clean` (`labels_unique_all`, `name_independent_of_key_all`,
    `run_files_differ_all`, `run_files_differ_keys_all`, `setName_total_all`,
    `jsonSetName_same_for_all_keys_all`);
  * section "the D6-D8 code on every scenario name": what `Variant.fixed` does EXACTLY, so that what the
    round-3 repair changes is stated exactly (`name_same_for_all_keys_fixed_all`: key independence never
    needed `Clean`; `labels_unique_iff`, `labels_unique_iff_one`: labels are unique iff the name holds
    neither `As-Is` nor `(1/1)`; `run_files_differ_iff`: runs write different files iff the blank-free
    name followed by `(` does not hold `Solution(`);
  * section "Detail level": detail file names never collide with each other or with a summary file, and
    R runs leave R distinct summary files (`one_file_per_run`), for every scenario name.

Every `theorem` in this file is audited by `./check C12` (`#print axioms`).
-/
namespace Crem.C12
open Crem.Naming Crem.SummaryCsv

/-! ## labels -/

/-- the as-is row is labelled `As-Is` -/
theorem label_asIs (name : Str) (hc : Clean name) (r R : Nat) (f : Family) :
    labelFixed (asIsKey .fixed f (runId name r R)) = sAsIs :=
  label_asIs_fixed hc r R f

/-- solution k of n of run r of R is labelled `k-of-n` (`Optimised` for the only solution), whatever r and R are -/
theorem label_member (name : Str) (hc : Clean name) (r R k n : Nat) :
    labelFixed (memberKey (runId name r R) k n) =
      if k = 1 ∧ n = 1 then sOptimised else natStr k ++ sOf ++ natStr n :=
  label_member_fixed hc r R k n

/-- Row labels are unique within one summary: any run count, any run, any set size, both families. -/
theorem labels_unique (name : Str) (hc : Clean name) (r R n : Nat) (f : Family) :
    ((keys .fixed f (runId name r R) n).map labelFixed).Nodup := by
  have hAO : sAsIs ≠ sOptimised := by decide
  have hAd : ∀ k m : Nat, sAsIs ≠ natStr k ++ sOf ++ natStr m := by
    intro k m h
    cases hk : natStr k with
    | nil => exact natStr_ne_nil k hk
    | cons d ds =>
      have hd : d.isDigit = true := digits_natStr k d (by simp [hk])
      rw [hk] at h
      simp [sAsIs] at h
      rw [← h.1] at hd
      exact absurd hd (by decide)
  simp only [keys, List.map_cons, List.nodup_cons, label_asIs name hc r R f]
  cases f with
  | single =>
    simp only [memberKeys, List.map_cons, List.map_nil, label_member name hc r R 1 1]
    simp [hAO]
  | multi =>
    simp only [memberKeys, List.map_map]
    constructor
    · intro hmem
      obtain ⟨i, _, hi⟩ := List.mem_map.mp hmem
      simp only [Function.comp, label_member name hc r R (i + 1) n] at hi
      split at hi
      · exact hAO hi.symm
      · exact hAd _ _ hi.symm
    · rw [List.Nodup, List.pairwise_map]
      refine List.Pairwise.imp_of_mem ?_ (List.nodup_range (n := n))
      intro i j hi hj hij heq
      simp only [Function.comp, label_member name hc r R _ n] at heq
      have hi' := List.mem_range.mp hi
      have hj' := List.mem_range.mp hj
      by_cases hn : n = 1
      · omega
      · rw [if_neg (by omega), if_neg (by omega), List.append_assoc, List.append_assoc] at heq
        have := natStr_inj (List.append_cancel_right heq)
        omega

/-! ## file name, set id, JSON set name -/

/-- Whichever key of the summary map is yielded, the summary's file name, its id and the JSON set
name are the stated functions of (scenario name, run number, number of runs, output type). -/
theorem name_independent_of_key (name : Str) (hc : Clean name) (r R n : Nat) (f : Family) (ot : OutputType)
    (key : Str) (hk : key ∈ keys .fixed f (runId name r R) n) :
    summaryFileName ot key = intendedFileName ot name r R ∧
    setIdOfKey key = intendedSetId name r R ∧
    jsonSetNameOfKey key = some (runId name r R) := by
  obtain ⟨T, hT, rfl⟩ := fixed_key_shape hk
  refine ⟨?_, ?_, ?_⟩
  · unfold summaryFileName intendedFileName
    rw [fileSafeId_keyOf (rid_stripped_no_newline hc r R) (rid_stripped_no_Solution hc r R) hT,
      rid_fileStem hc r R]
  · unfold intendedSetId
    exact setId_keyOf (rid_no_newline hc r R) (rid_no_Solution hc r R) hT
  · exact jsonSetName_keyOf (rid_no_newline hc r R) hT

/-- the same, as "no dependence on the key" -/
theorem name_same_for_all_keys (name : Str) (hc : Clean name) (r R n : Nat) (f : Family) (ot : OutputType)
    (k₁ k₂ : Str) (h₁ : k₁ ∈ keys .fixed f (runId name r R) n) (h₂ : k₂ ∈ keys .fixed f (runId name r R) n) :
    summaryFileName ot k₁ = summaryFileName ot k₂ ∧ setIdOfKey k₁ = setIdOfKey k₂ ∧
      jsonSetNameOfKey k₁ = jsonSetNameOfKey k₂ := by
  obtain ⟨a₁, b₁, c₁⟩ := name_independent_of_key name hc r R n f ot k₁ h₁
  obtain ⟨a₂, b₂, c₂⟩ := name_independent_of_key name hc r R n f ot k₂ h₂
  exact ⟨a₁.trans a₂.symm, b₁.trans b₂.symm, c₁.trans c₂.symm⟩

/-- No key makes the JSON set-name derivation fail (the index panic on a nil regexp match). -/
theorem setName_total (name : Str) (hc : Clean name) (r R n : Nat) (f : Family)
    (key : Str) (hk : key ∈ keys .fixed f (runId name r R) n) : (jsonSetNameOfKey key).isSome = true := by
  rw [(name_independent_of_key name hc r R n f .json key hk).2.2]; rfl

/-- different runs of one scenario write different files (run numbers within 1..R are not even needed) -/
theorem file_names_of_runs_differ (name : Str) (r₁ r₂ R : Nat) (hR : R > 1) (ot : OutputType)
    (h : intendedFileName ot name r₁ R = intendedFileName ot name r₂ R) : r₁ = r₂ := by
  unfold intendedFileName runFileStem at h
  rw [if_pos hR, if_pos hR] at h
  have h1 := List.append_cancel_right (List.append_cancel_right h)
  simp only [List.append_assoc] at h1
  have h2 := List.append_cancel_left h1
  have h3 : natStr r₁ ++ '_' :: (['o', 'f', '_'] ++ natStr R ++ [')']) =
      natStr r₂ ++ '_' :: (['o', 'f', '_'] ++ natStr R ++ [')']) := by simpa [sUOf] using h2
  exact natStr_inj (append_cons_unique ((digits_natStr r₁).not_mem (by decide))
    ((digits_natStr r₂).not_mem (by decide)) h3).1

/-! ## the repaired code (`Variant.anchored`): every scenario name -/

/-- `trial (1/1)`, `As-Is baseline`, `Best Solution`: names the clean alphabet excludes -/
def exTrial : Str := "trial (1/1)".toList
def exAsIsBase : Str := "As-Is baseline".toList
def exBestSol : Str := "Best Solution".toList

example : ¬ Clean exTrial ∧ ¬ Clean exAsIsBase ∧ ¬ Clean exBestSol := by decide

/-- the as-is row is labelled `As-Is`, whatever the run id holds -/
theorem label_asIs_all (rid : Str) (f : Family) : labelAnchored (asIsKey .anchored f rid) = sAsIs :=
  label_asIs_anchored f rid

example : labelAnchored (asIsKey .anchored .multi (runId exAsIsBase 1 1)) = sAsIs ∧
    labelAnchored (asIsKey .anchored .single (runId exTrial 1 1)) = sAsIs := by decide

/-- solution k of n is labelled `k-of-n` (`Optimised` for the only solution), whatever the run id holds -/
theorem label_member_all (rid : Str) (k n : Nat) :
    labelAnchored (memberKey rid k n) = if k = 1 ∧ n = 1 then sOptimised else natStr k ++ sOf ++ natStr n :=
  label_member_anchored rid k n

example : labelAnchored (memberKey (runId exAsIsBase 2 3) 2 3) = "2-of-3".toList ∧
    labelAnchored (memberKey (runId exTrial 1 1) 1 1) = sOptimised := by decide

/-- Row labels are unique within one summary, for EVERY run id (hence every scenario name). -/
theorem labels_unique_all (rid : Str) (n : Nat) (f : Family) :
    ((keys .anchored f rid n).map labelAnchored).Nodup :=
  labels_nodup_of_spec labelAnchored .anchored f rid n (label_asIs_anchored f rid) (label_member_anchored rid)

example : (keys .anchored .single (runId exTrial 1 1) 1).map labelAnchored = [sAsIs, sOptimised] := by decide
example : (keys .anchored .multi (runId exAsIsBase 2 3) 3).map labelAnchored =
    [sAsIs, "1-of-3".toList, "2-of-3".toList, "3-of-3".toList] := by decide

/-- Whichever key of the summary map is yielded, the summary's file name and its id are the stated
functions of (scenario name, run number, number of runs, output type) - for EVERY scenario name. -/
theorem name_independent_of_key_all (name : Str) (r R n : Nat) (f : Family) (ot : OutputType)
    (key : Str) (hk : key ∈ keys .anchored f (runId name r R) n) :
    summaryFileNameV .anchored ot key = intendedFileNameA ot name r R ∧
    setIdV .anchored key = intendedSetId name r R := by
  obtain ⟨T, hT, rfl⟩ := anchored_key_shape hk
  refine ⟨?_, ?_⟩
  · simp only [summaryFileNameV, fileSafeIdV, intendedFileNameA]
    rw [fileSafeIdA_keyOf _ hT, rid_fileStemA]
  · simp only [setIdV, intendedSetId]
    exact setIdA_keyOf _ hT

example : (keys .anchored .multi (runId exBestSol 2 3) 2).map
      (fun k => (summaryFileNameV .anchored .csv k, setIdV .anchored k)) =
    List.replicate 3 ("BestSolution(2_of_3)-Summary.csv".toList, "Best Solution (2/3) Summary".toList) := by decide
/-- a `/` of the name becomes `_of_` -/
example : intendedFileNameA .json "a/b c".toList 2 3 = "a_of_bc(2_of_3)-Summary.json".toList := by decide

/-- different runs of one scenario are meant to write different files, for every scenario name -/
theorem run_files_differ_all (name : Str) (r₁ r₂ R : Nat) (hR : R > 1) (ot : OutputType)
    (h : intendedFileNameA ot name r₁ R = intendedFileNameA ot name r₂ R) : r₁ = r₂ := by
  unfold intendedFileNameA at h
  exact runFileStemA_inj name hR (List.append_cancel_right (List.append_cancel_right h))

example : intendedFileNameA .csv exBestSol 1 3 ≠ intendedFileNameA .csv exBestSol 2 3 := by decide

/-- and they do: whichever keys the two maps yield, the summary files of two runs of one scenario differ -/
theorem run_files_differ_keys_all (name : Str) (r₁ r₂ R : Nat) (hR : R > 1) (hr : r₁ ≠ r₂)
    (n₁ n₂ : Nat) (f₁ f₂ : Family) (ot : OutputType) (k₁ k₂ : Str)
    (h₁ : k₁ ∈ keys .anchored f₁ (runId name r₁ R) n₁) (h₂ : k₂ ∈ keys .anchored f₂ (runId name r₂ R) n₂) :
    summaryFileNameV .anchored ot k₁ ≠ summaryFileNameV .anchored ot k₂ := by
  rw [(name_independent_of_key_all name r₁ R n₁ f₁ ot k₁ h₁).1,
    (name_independent_of_key_all name r₂ R n₂ f₂ ot k₂ h₂).1]
  exact fun h => hr (run_files_differ_all name r₁ r₂ R hR ot h)

example : (List.range 3).map (fun i => summaryFileNameV .anchored .csv (memberKey (runId exBestSol (i + 1) 3) 1 1)) =
    ["BestSolution(1_of_3)-Summary.csv".toList, "BestSolution(2_of_3)-Summary.csv".toList,
     "BestSolution(3_of_3)-Summary.csv".toList] := by decide

/-- No key makes the JSON set-name derivation fail, for EVERY run id (newlines in the scenario name included;
the function is the same in all variants). -/
theorem setName_total_all (rid : Str) (n : Nat) (f : Family)
    (key : Str) (hk : key ∈ keys .anchored f rid n) : (jsonSetNameOfKey key).isSome = true := by
  obtain ⟨T, hT, rfl⟩ := anchored_key_shape hk
  rw [jsonSetName_keyOf_all rid hT]
  cases (initLines rid).findSome? (beforeLast patSpSol) <;> rfl

/-- Whichever key of the summary map is yielded, the JSON set name is the same, for EVERY run id. -/
theorem jsonSetName_same_for_all_keys_all (rid : Str) (n : Nat) (f : Family)
    (k₁ k₂ : Str) (h₁ : k₁ ∈ keys .anchored f rid n) (h₂ : k₂ ∈ keys .anchored f rid n) :
    jsonSetNameOfKey k₁ = jsonSetNameOfKey k₂ := by
  obtain ⟨T₁, hT₁, rfl⟩ := anchored_key_shape h₁
  obtain ⟨T₂, hT₂, rfl⟩ := anchored_key_shape h₂
  rw [jsonSetName_keyOf_all rid hT₁, jsonSetName_keyOf_all rid hT₂]

/-- and it is the run id itself when that has no newline -/
theorem jsonSetName_is_run_id (rid : Str) (hr : '\n' ∉ rid) (n : Nat) (f : Family)
    (key : Str) (hk : key ∈ keys .anchored f rid n) : jsonSetNameOfKey key = some rid := by
  obtain ⟨T, hT, rfl⟩ := anchored_key_shape hk
  exact jsonSetName_keyOf hr hT

example : (keys .anchored .multi (runId exBestSol 2 3) 2).map jsonSetNameOfKey =
    List.replicate 3 (some "Best Solution (2/3)".toList) := by decide
/-- a newline in the name: the set name is the run id's last line for every key -/
example : (keys .anchored .multi (runId "a\nb".toList 2 3) 2).map jsonSetNameOfKey =
    List.replicate 3 (some "b (2/3)".toList) := by decide
/-- a newline after a ` Solution`: the set name comes from that earlier line, for every key -/
example : (keys .anchored .multi (runId "x Solution y\nb".toList 2 3) 2).map jsonSetNameOfKey =
    List.replicate 3 (some "x".toList) := by decide

/-! ### the D6-D8 code (`Variant.fixed`) fails on such names; the anchored code does not -/

/-- `trial (1/1)`, one run, one optimised solution: under `.fixed` both rows are `Optimised` -/
example : (keys .fixed .single (runId exTrial 1 1) 1).map labelFixed = [sOptimised, sOptimised] := by decide
example : ¬ ((keys .fixed .single (runId exTrial 1 1) 1).map labelFixed).Nodup := by decide
example : (keys .anchored .single (runId exTrial 1 1) 1).map labelAnchored = [sAsIs, sOptimised] := by decide

/-- `As-Is baseline`, a set of three: under `.fixed` every row is `As-Is` -/
example : (keys .fixed .multi (runId exAsIsBase 1 1) 3).map labelFixed = List.replicate 4 sAsIs := by decide
example : ¬ ((keys .fixed .multi (runId exAsIsBase 1 1) 3).map labelFixed).Nodup := by decide
example : (keys .anchored .multi (runId exAsIsBase 1 1) 3).map labelAnchored =
    [sAsIs, "1-of-3".toList, "2-of-3".toList, "3-of-3".toList] := by decide

/-- `Best Solution`, three runs: under `.fixed` every run writes `Best-Summary.csv` (each overwrites the last) -/
example : (List.range 3).map (fun i => summaryFileName .csv (memberKey (runId exBestSol (i + 1) 3) 1 1)) =
    List.replicate 3 "Best-Summary.csv".toList := by decide
example : (List.range 3).map (fun i => summaryFileNameV .anchored .csv (memberKey (runId exBestSol (i + 1) 3) 1 1)) =
    ["BestSolution(1_of_3)-Summary.csv".toList, "BestSolution(2_of_3)-Summary.csv".toList,
     "BestSolution(3_of_3)-Summary.csv".toList] := by decide
/-- and the set id loses the run under `.fixed` -/
example : setIdOfKey (memberKey (runId exBestSol 2 3) 1 1) = "Best Summary".toList ∧
    setIdV .anchored (memberKey (runId exBestSol 2 3) 1 1) = "Best Solution (2/3) Summary".toList := by decide

/-! ## the D6-D8 code (`Variant.fixed`) on every scenario name: what exactly the round-3 repair changes -/

/-- Under the D6-D8 code too, whichever key of the summary map is yielded, file name, set id and JSON
set name are the same - for EVERY run id (`name_same_for_all_keys` without `Clean`).  What `Clean` buys
is only that they are the INTENDED ones (`name_independent_of_key`). -/
theorem name_same_for_all_keys_fixed_all (rid : Str) (n : Nat) (f : Family) (ot : OutputType)
    (k₁ k₂ : Str) (h₁ : k₁ ∈ keys .fixed f rid n) (h₂ : k₂ ∈ keys .fixed f rid n) :
    summaryFileName ot k₁ = summaryFileName ot k₂ ∧ setIdOfKey k₁ = setIdOfKey k₂ ∧
      jsonSetNameOfKey k₁ = jsonSetNameOfKey k₂ := by
  obtain ⟨T₁, hT₁, rfl⟩ := fixed_key_shape h₁
  obtain ⟨T₂, hT₂, rfl⟩ := fixed_key_shape h₂
  refine ⟨?_, ?_, ?_⟩
  · unfold summaryFileName
    rw [fileSafeId_keyOf_all rid hT₁, fileSafeId_keyOf_all rid hT₂]
  · rw [setId_keyOf_all rid hT₁, setId_keyOf_all rid hT₂]
  · rw [jsonSetName_keyOf_all rid hT₁, jsonSetName_keyOf_all rid hT₂]

/-- `setName_total` without `Clean` -/
theorem setName_total_fixed_all (rid : Str) (n : Nat) (f : Family)
    (key : Str) (hk : key ∈ keys .fixed f rid n) : (jsonSetNameOfKey key).isSome = true := by
  have e : keys .fixed f rid n = keys .anchored f rid n := by cases f <;> rfl
  exact setName_total_all rid n f key (e ▸ hk)

example : (keys .fixed .multi (runId exBestSol 2 3) 2).map
      (fun k => (summaryFileName .csv k, setIdOfKey k, jsonSetNameOfKey k)) =
    List.replicate 3 ("Best-Summary.csv".toList, "Best Summary".toList, some "Best Solution (2/3)".toList) := by decide
example : (keys .fixed .multi (runId "a (b)\nSolution (c) d\ne".toList 2 3) 2).map
      (fun k => (summaryFileName .csv k, setIdOfKey k)) =
    List.replicate 3 ("a(b)\nd\ne(2_of_3)-Summary.csv".toList, "a (b)\nSummary d\ne (2/3) Summary".toList) := by decide

/-- EXACTLY when the D6-D8 code labels the rows of a solution set (two or more members) uniquely:
the run id holds neither `As-Is` nor `(1/1)`. -/
theorem labels_unique_iff_rid (rid : Str) (n : Nat) (hn : n ≥ 2) :
    ((keys .fixed .multi rid n).map labelFixed).Nodup ↔
      (contains sAsIs rid = false ∧ contains sOneOfOne rid = false) := by
  constructor
  · intro h
    obtain ⟨m, rfl⟩ : ∃ m, n = m + 2 := ⟨n - 2, by omega⟩
    obtain ⟨rest, e⟩ := keys_multi_succ_succ .fixed rid m
    rw [e] at h
    simp only [List.map_cons, List.nodup_cons, List.mem_cons, not_or] at h
    have h01 := h.1.1
    have h02 := h.1.2.1
    rw [label_asIs_fixed_any, label_member_fixed_any] at h01 h02
    rcases Bool.eq_false_or_eq_true (contains sOneOfOne rid) with h1 | h1
    · simp [h1] at h01
    · rcases Bool.eq_false_or_eq_true (contains sAsIs rid) with h2 | h2
      · simp [h1, h2] at h02
      · exact ⟨h2, h1⟩
  · rintro ⟨h2, h1⟩
    apply labels_nodup_of_spec labelFixed .fixed .multi rid n
    · rw [label_asIs_fixed_any]; simp [h1]
    · intro k m
      rw [label_member_fixed_any]; simp [h1, h2]

/-- the same in terms of the scenario name: the run's own ` (r/R)` never matters -/
theorem labels_unique_iff (name : Str) (r R n : Nat) (hn : n ≥ 2) :
    ((keys .fixed .multi (runId name r R) n).map labelFixed).Nodup ↔
      (contains sAsIs name = false ∧ contains sOneOfOne name = false) := by
  rw [labels_unique_iff_rid _ n hn, contains_asIs_runId, contains_oneOfOne_runId]

/-- with a single member (`single`, or a set of one) the rows are `As-Is`, `Optimised`: unique EXACTLY when
the name does not hold `(1/1)` (an `As-Is` in the name does no harm there) -/
theorem labels_unique_iff_one (name : Str) (r R n : Nat) (f : Family) (h : f = .single ∨ n = 1) :
    ((keys .fixed f (runId name r R) n).map labelFixed).Nodup ↔ contains sOneOfOne name = false := by
  have e : keys .fixed f (runId name r R) n =
      [asIsKey .fixed f (runId name r R), memberKey (runId name r R) 1 1] := by
    rcases h with rfl | rfl
    · rfl
    · cases f <;> rfl
  rw [e]
  simp only [List.map_cons, List.map_nil, List.nodup_cons, List.mem_singleton, List.not_mem_nil,
    not_false_eq_true, List.nodup_nil, and_true]
  rw [label_asIs_fixed_any, label_member_fixed_any, contains_oneOfOne_runId]
  rcases Bool.eq_false_or_eq_true (contains sOneOfOne name) with h1 | h1
  · simp [h1]
  · simp [h1]; decide

example : ¬ ((keys .fixed .multi (runId exAsIsBase 1 1) 2).map labelFixed).Nodup := by decide
example : ((keys .fixed .multi (runId exBestSol 2 3) 2).map labelFixed).Nodup := by decide
example : ((keys .fixed .multi (runId exAsIsBase 1 1) 1).map labelFixed).Nodup := by decide
example : ¬ ((keys .fixed .single (runId exTrial 1 1) 1).map labelFixed).Nodup := by decide
/-- a set of no members has the as-is row only -/
example (rid : Str) : ((keys .fixed .multi rid 0).map labelFixed).Nodup := by simp [keys, memberKeys]

/-- EXACTLY when the D6-D8 code gives two different runs of one scenario different summary files, whichever
keys the two maps yield: the last line of the blank-free scenario name, followed by `(`, does not hold
`Solution(` (for a name without newline: `run_files_differ_iff`).  Otherwise the greedy replacement starts
inside the name and swallows the run's own `(r/R)`: all R runs write one file. -/
theorem run_files_differ_iff_lines (name : Str) (r₁ r₂ R : Nat) (hR : R > 1) (hr : r₁ ≠ r₂)
    (n₁ n₂ : Nat) (f₁ f₂ : Family) (ot : OutputType) (k₁ k₂ : Str)
    (h₁ : k₁ ∈ keys .fixed f₁ (runId name r₁ R) n₁) (h₂ : k₂ ∈ keys .fixed f₂ (runId name r₂ R) n₂) :
    summaryFileName ot k₁ ≠ summaryFileName ot k₂ ↔
      contains patSolOpen ((splitLines (stripSpaces name)).getLast?.getD [] ++ ['(']) = false := by
  obtain ⟨T₁, hT₁, rfl⟩ := fixed_key_shape h₁
  obtain ⟨T₂, hT₂, rfl⟩ := fixed_key_shape h₂
  change _ ↔ contains patSolOpen (lastLine (stripSpaces name) ++ ['(']) = false
  rw [← fileSafeId_fixed_runs_differ_iff name hR hr hT₁ hT₂]
  unfold summaryFileName
  simp only [List.append_assoc, ne_eq, List.append_cancel_right_eq]

/-- for a scenario name without newline: the blank-free name followed by `(` does not hold `Solution(`,
i.e. the name with its blanks removed neither holds `Solution(` nor ends in `Solution` -/
theorem run_files_differ_iff (name : Str) (hnl : '\n' ∉ name) (r₁ r₂ R : Nat) (hR : R > 1) (hr : r₁ ≠ r₂)
    (n₁ n₂ : Nat) (f₁ f₂ : Family) (ot : OutputType) (k₁ k₂ : Str)
    (h₁ : k₁ ∈ keys .fixed f₁ (runId name r₁ R) n₁) (h₂ : k₂ ∈ keys .fixed f₂ (runId name r₂ R) n₂) :
    summaryFileName ot k₁ ≠ summaryFileName ot k₂ ↔
      contains patSolOpen (stripSpaces name ++ ['(']) = false := by
  rw [run_files_differ_iff_lines name r₁ r₂ R hR hr n₁ n₂ f₁ f₂ ot k₁ k₂ h₁ h₂,
    splitLines_of_no_newline (fun h => hnl (mem_stripSpaces h))]
  rfl

/-- `Best Solution`, `Sol ution`, `x Solution(`: collide; `Solution x`, `Solutio`: do not -/
example : ["Best Solution", "Sol ution", "x Solution(", "Solution x", "Solutio"].map (fun nm =>
      (decide (summaryFileName .csv (memberKey (runId nm.toList 1 2) 1 1) ≠
          summaryFileName .csv (asIsKey .fixed .multi (runId nm.toList 2 2))),
       contains patSolOpen (stripSpaces nm.toList ++ ['(']) == false)) =
    [(false, false), (false, false), (false, false), (true, true), (true, true)] := by decide
/-- with a newline only the last line of the name counts -/
example : ["Solution\nb", "a\nSolution"].map (fun nm =>
      (decide (summaryFileName .csv (memberKey (runId nm.toList 1 2) 1 1) ≠
          summaryFileName .csv (asIsKey .fixed .multi (runId nm.toList 2 2))),
       contains patSolOpen ((splitLines (stripSpaces nm.toList)).getLast?.getD [] ++ ['(']) == false)) =
    [(true, true), (false, false)] := by decide

/-! ## Detail level: the detail files (`OutputLevel = Detail`), and one summary file per run -/

/-- the detail files of one solution have different names -/
theorem detail_names_nodup (ot : OutputType) (id : Str) : (detailFileNames ot id).Nodup :=
  detailFileNames_nodup ot id

/-- two different solutions of one run (as-is included) never share a detail file name, for EVERY run id -/
theorem detail_names_of_one_run_disjoint (rid : Str) (n : Nat) (f : Family) (ot₁ ot₂ : OutputType)
    (k₁ k₂ : Str) (h₁ : k₁ ∈ keys .anchored f rid n) (h₂ : k₂ ∈ keys .anchored f rid n) (hne : k₁ ≠ k₂) :
    ∀ x ∈ detailFileNames ot₁ k₁, x ∉ detailFileNames ot₂ k₂ :=
  fun x hx₁ hx₂ => detail_disjoint_same_run h₁ h₂ hne ot₁ ot₂ x hx₁ hx₂

/-- nor do solutions of two different runs of one scenario, for EVERY scenario name -/
theorem detail_names_of_two_runs_disjoint (name : Str) (r₁ r₂ R : Nat) (hR : R > 1) (hr : r₁ ≠ r₂)
    (n₁ n₂ : Nat) (f₁ f₂ : Family) (ot₁ ot₂ : OutputType) (k₁ k₂ : Str)
    (h₁ : k₁ ∈ keys .anchored f₁ (runId name r₁ R) n₁) (h₂ : k₂ ∈ keys .anchored f₂ (runId name r₂ R) n₂) :
    ∀ x ∈ detailFileNames ot₁ k₁, x ∉ detailFileNames ot₂ k₂ :=
  fun x hx₁ hx₂ => detail_disjoint_two_runs name hR hr h₁ h₂ ot₁ ot₂ x hx₁ hx₂

/-- and no detail file has the name of a summary file - of any run, scenario, variant or output type
(a summary name ends in `-Summary.<ext>`, a detail name in `)-ManagementActions.csv`,
`)-NameMappedVariables.csv` or `).json`: the solution id keeps its closing `)`) -/
theorem detail_name_is_no_summary_name (rid : Str) (n : Nat) (f : Family) (ot : OutputType)
    (key : Str) (hk : key ∈ keys .anchored f rid n) (v : Variant) (ot' : OutputType) (key' : Str) :
    summaryFileNameV v ot' key' ∉ detailFileNames ot key := by
  obtain ⟨T, hT, rfl⟩ := anchored_key_shape hk
  exact detail_ne_summary (solutionFileSafeId_keyOf rid hT) _ ot'

example : (keys .anchored .multi (runId exBestSol 2 3) 1).map (detailFileNames .csv) =
    [["BestSolution(2_of_3)Solution(As-Is)-ManagementActions.csv".toList,
      "BestSolution(2_of_3)Solution(As-Is)-NameMappedVariables.csv".toList],
     ["BestSolution(2_of_3)Solution(1_of_1)-ManagementActions.csv".toList,
      "BestSolution(2_of_3)Solution(1_of_1)-NameMappedVariables.csv".toList]] := by decide
example : detailFileNames .json (memberKey (runId exTrial 1 1) 1 1) =
    ["trial(1_of_1)Solution(1_of_1).json".toList] := by decide

/-- R finished runs of one scenario leave exactly R distinct summary files, whichever key each run's map
yields, whatever family and set size each run has - for EVERY scenario name. -/
theorem one_file_per_run (name : Str) (R : Nat) (ot : OutputType) (f : Nat → Family) (n : Nat → Nat)
    (key : Nat → Str) (hkey : ∀ i < R, key i ∈ keys .anchored (f i) (runId name (i + 1) R) (n i)) :
    ((List.range R).map (fun i => summaryFileNameV .anchored ot (key i))).Nodup ∧
      ((List.range R).map (fun i => summaryFileNameV .anchored ot (key i))).length = R := by
  refine ⟨?_, by simp⟩
  rw [List.Nodup, List.pairwise_map]
  refine List.Pairwise.imp_of_mem ?_ (List.nodup_range (n := R))
  intro i j hi hj hij heq
  have hi' := List.mem_range.mp hi
  have hj' := List.mem_range.mp hj
  rw [(name_independent_of_key_all name (i + 1) R (n i) (f i) ot (key i) (hkey i hi')).1,
    (name_independent_of_key_all name (j + 1) R (n j) (f j) ot (key j) (hkey j hj')).1] at heq
  have := run_files_differ_all name (i + 1) (j + 1) R (by omega) ot heq
  omega

example : (List.range 3).map (fun i => summaryFileNameV .anchored .json
      (asIsKey .anchored .multi (runId exBestSol (i + 1) 3))) =
    ["BestSolution(1_of_3)-Summary.json".toList, "BestSolution(2_of_3)-Summary.json".toList,
     "BestSolution(3_of_3)-Summary.json".toList] := by decide
/-- under the D6-D8 code the three runs of `Best Solution` leave ONE file -/
example : ((List.range 3).map (fun i => summaryFileName .json
      (asIsKey .fixed .multi (runId exBestSol (i + 1) 3)))).eraseDups.length = 1 := by decide

/-! ## rows -/

/-- The rows of the written summary are exactly the as-is state followed by each member in archive
order - for EVERY order `iter` in which Go iterates the summary map, every run id (clean or not),
both variants, both families, every set size. -/
theorem rows_are_asis_then_members (v : Variant) (f : Family) (rid : Str) (asIs : Row) (members : List Row)
    (iter : List Entry) (hiter : iter.Perm (buildSummary v f rid asIs members)) :
    sortedRows iter =
      asIsEntry v f rid asIs :: memberEntries v f rid members.length 0 members := by
  rw [buildSummary_eq] at hiter
  exact sortedRows_of_perm (entriesInOrder_sorted v f rid asIs members) hiter

/-- one row per solution: nothing is lost in the map (ids never collide) -/
theorem row_count (v : Variant) (f : Family) (rid : Str) (asIs : Row) (members : List Row)
    (iter : List Entry) (hiter : iter.Perm (buildSummary v f rid asIs members)) :
    (sortedRows iter).length = 1 + members.length := by
  rw [rows_are_asis_then_members v f rid asIs members iter hiter]
  have : ∀ i (ms : List Row), (memberEntries v f rid members.length i ms).length = ms.length := by
    intro i ms
    induction ms generalizing i with
    | nil => rfl
    | cons m ms ih => simp [memberEntries, ih]
  simp [this]; omega

/-- hence the CSV text does not depend on the iteration order -/
theorem csv_independent_of_iteration (v : Variant) (f : Family) (rid : Str) (asIs : Row) (members : List Row)
    (iter₁ iter₂ : List Entry) (h₁ : iter₁.Perm (buildSummary v f rid asIs members))
    (h₂ : iter₂.Perm (buildSummary v f rid asIs members)) (y : Option Entry) :
    renderCsv iter₁ y = renderCsv iter₂ y := by
  unfold renderCsv
  rw [rows_are_asis_then_members v f rid asIs members iter₁ h₁,
    rows_are_asis_then_members v f rid asIs members iter₂ h₂]

/-! ## non-vacuity: the hypotheses are satisfiable, and the statements say something -/

/-- `My Run 7` -/
def exName : Str := ['M', 'y', ' ', 'R', 'u', 'n', ' ', '7']

example : Clean exName := by decide
example : Clean ['K', 'i', 'r', 'k', ' ', '-', ' ', 'B', 'l', 'a', 'c', 'k', ' ', 'B', 'o', 'x'] := by decide

/-- run 2 of 3, three solutions: labels `As-Is, 1-of-3, 2-of-3, 3-of-3` -/
example : (keys .fixed .multi (runId exName 2 3) 3).map labelFixed =
    [sAsIs, ['1'] ++ sOf ++ ['3'], ['2'] ++ sOf ++ ['3'], ['3'] ++ sOf ++ ['3']] := by decide

/-- every key of that summary gives the file `MyRun7(2_of_3)-Summary.csv` and the set name `My Run 7 (2/3)` -/
example : (keys .fixed .multi (runId exName 2 3) 3).map (summaryFileName .csv) =
    List.replicate 4 (['M', 'y', 'R', 'u', 'n', '7', '(', '2', '_', 'o', 'f', '_', '3', ')'] ++ sDashSummary ++ ext .csv) := by
  decide
example : (keys .fixed .multi (runId exName 2 3) 3).map jsonSetNameOfKey =
    List.replicate 4 (some (exName ++ [' ', '(', '2', '/', '3', ')'])) := by decide

/-- the hypothesis `Clean` is needed: a name holding `(1/1)` makes every row `Optimised` -/
example : ¬ ((keys .fixed .multi (runId ['A', '(', '1', '/', '1', ')'] 1 1) 2).map labelFixed).Nodup := by decide
/-- and so is its last clause: `Sol ution` becomes `Solution` once blanks are removed, and the file
names of run 1 and run 2 collapse -/
example : summaryFileName .csv (memberKey (runId ['S', 'o', 'l', ' ', 'u', 't', 'i', 'o', 'n'] 1 2) 1 1) =
    summaryFileName .csv (memberKey (runId ['S', 'o', 'l', ' ', 'u', 't', 'i', 'o', 'n'] 2 2) 1 1) := by decide

/-! ## the code as found fails the property (D6, D7, D8): refuting witnesses -/

/-- D6: scenario `X`, one run, one solution: the file is `XAs-Is-Summary.csv` or `X-Summary.csv`
depending on which of the two keys Go's map iteration yields -/
example : (keys .current .multi (runId ['X'] 1 1) 1).map (summaryFileName .csv) =
    [['X', 'A', 's', '-', 'I', 's'] ++ sDashSummary ++ ext .csv, ['X'] ++ sDashSummary ++ ext .csv] := by decide
example : ¬ ∀ k₁ ∈ keys .current .multi (runId ['X'] 1 1) 1, ∀ k₂ ∈ keys .current .multi (runId ['X'] 1 1) 1,
    summaryFileName .csv k₁ = summaryFileName .csv k₂ ∧ setIdOfKey k₁ = setIdOfKey k₂ := by decide

/-- D7: run 2 of 3 with two solutions: both rows are labelled `2-of-3` (the run's own `r/R` is the first match) -/
example : (keys .current .multi (runId ['X'] 2 3) 2).map labelCurrent =
    [sAsIs, ['2'] ++ sOf ++ ['3'], ['2'] ++ sOf ++ ['3']] := by decide
example : ¬ ((keys .current .multi (runId ['X'] 2 3) 2).map labelCurrent).Nodup := by decide

/-- D8: the as-is key of a solution set has no ` Solution` in it: the JSON set name derivation
indexes a nil match (`none` = the panic); the other key of the same map works -/
example : (keys .current .multi (runId ['X'] 1 1) 1).map jsonSetNameOfKey = [none, some ['X']] := by decide
example : ∃ key ∈ keys .current .multi (runId ['X'] 1 1) 1, (jsonSetNameOfKey key).isSome = false := by decide

/-- the single-objective family was never affected by D6/D8 -/
example : (keys .current .single (runId ['X'] 2 3) 1).map (fun k => (summaryFileName .json k, jsonSetNameOfKey k)) =
    List.replicate 2 (['X', '(', '2', '_', 'o', 'f', '_', '3', ')'] ++ sDashSummary ++ ext .json,
      some ['X', ' ', '(', '2', '/', '3', ')']) := by decide

end Crem.C12
