import Crem.Properties.C14
import Crem.Proofs.EngineRoutes
/-!
# C14, continued — the three write routes: any action set is reached by each, and they end in the same state

Complements `Properties/C14.lean` (same spec `Crem.Engine.step Quirks.spec`, same reading guide).  The three ways a client
sets the active actions are

  * PUT /api/v1/model/actions/active        a whole table (`putActiveReq`),
  * PUT /api/v1/model/subcatchment/<pu>     one planning unit at a time (`subPutReq`),
  * PATCH /api/v1/model                     an `Encoding` attribute (`patchReq`).

Proved here, for every scenario, every start state of the demanded behaviour (`Inv`), every target set `S`:
the subcatchment URL selects its handler (`sub_path_selects_handler`), the per-subcatchment update stated on `step`
(`put_sub_sets_step`), ANY `S` is reached by a full table (`full_table_reaches`, `put_full_table_reaches`) and by a
subcatchment sequence (`sub_sequence_reaches`, `put_sub_sequence_reaches`) — for the encoding patch this is
`patch_canonical_encoding_reaches` of `C14.lean` —, and the three routes end in states that differ in nothing a client can
read (`three_routes_same_state`, `three_routes_same_reads`).
Every `theorem` in this file is audited (`#print axioms`); helper lemmas are in `Proofs/EngineRoutes.lean`.
-/
namespace Crem.Engine

/-! ## the subcatchment URL -/

/-- For EVERY planning unit number `pu` the URL path `/api/v1/model/subcatchment/<pu>` (`subPath pu`, the decimal text
of `pu` appended) is none of the six fixed paths and selects the subcatchment handler with that decimal text; the
handler's `strconv.Atoi` reads it back as `pu` exactly when `pu < 2^63` (beyond, it is refused: a 404). -/
theorem sub_path_selects_handler (pu : Nat) :
    classifyPath (subPath pu) = .sub (toString pu) ∧
    (pu < 2 ^ 63 → atoi? (toString pu) = some pu) ∧
    (2 ^ 63 ≤ pu → atoi? (toString pu) = none) :=
  ⟨classifyPath_subPath pu, atoi?_toString pu, atoi?_toString_big pu⟩

/-- **Per-subcatchment update as a route, on `step`** (the restatement of `put_sub_sets`, which is about the handler).
A PUT to `/api/v1/model/subcatchment/<pu>` for a planning unit of the scenario whose entries pass the syntax check and
name actions that exist there is answered 200 and leaves active exactly what its entries say for that planning unit, in
order (`applySub`), everything else as before; the new model is live model and snapshot at once.  The content type
`ct` and the body text are ARBITRARY: the code checks no content type on this route (`v1subcatchmentHandler.go`), only
what JSON decoding makes of the body (`facts`). -/
theorem put_sub_sets_step (W : World) (s : State) (m : Mdl) (pu : Nat) (ct : String) (text : Bytes)
    (entries : List SubEntry)
    (hinv : Inv W s) (hlive : s.live = some m) (hlt : pu < 2 ^ 63) (hpu : m.u.pus.contains pu = true)
    (hsyn : subSyntaxOk entries = true) (hsup : subSupported m.u pu entries = true) :
    let r : Request := { method := .put, path := subPath pu, ctype := ct, text := text, facts := .sub (some entries) }
    (step Quirks.spec W s r).1 = ok .success ∧
    ∃ m', (step Quirks.spec W s r).2.live = some m' ∧ (step Quirks.spec W s r).2.snap = some m' ∧
      m'.active = applySub m.u pu entries m.active ∧ m'.u = m.u ∧ m'.id = m.id := by
  intro r
  have h := step_subPut W s m pu ct text entries hinv hlive hlt hpu hsyn hsup
  have hr : r = subPutReq pu ct text entries := rfl
  rw [hr, h]
  exact ⟨rfl, _, rfl, rfl, derive_active _ _ _ _, derive_u _ _ _ _, derive_id _ _ _ _⟩

/-! ## any action set is reached -/

/-- **The core of both PUT routes.**  Both apply a list of cells `((planning unit, action type), flag)` one after the
other with `setWhere` (`applyCells`).  If every cell that names an action of the scenario carries that action's flag in
`S`, and every action of the scenario is named by at least one cell, the result is `S` — from ANY set before, in
whatever order the cells come, with whatever repetitions and whatever cells for unknown planning units or types. -/
theorem cells_reach_any_set (u : Universe) (S set : ActiveSet) (cells : List ((Nat × String) × Bool))
    (hS : S.length = u.acts.length) (hset : set.length = u.acts.length)
    (hflags : ∀ c ∈ cells, ∀ (i : Nat) (hi : i < u.acts.length), u.acts[i] = c.1 → c.2 = S[i])
    (hcover : ∀ (i : Nat) (hi : i < u.acts.length), ∃ c ∈ cells, c.1 = u.acts[i]) :
    applyCells u cells set = S :=
  applyCells_reaches u S hS cells hflags hcover set hset

/-- **A full table reaches any `S`.**  When no two actions of the scenario share planning unit and type (the catchment
model's `KeysDistinct`) and the table `fullRows u tys pus S` — one row per planning unit of `pus`, one column per type of
`tys`, the cell of an existing action its flag in `S`, any other cell 0 — has a row for every action's planning unit and
a column for every action's type, `processRequestTable` turns ANY set into `S`. -/
theorem full_table_reaches (u : Universe) (tys : List String) (pus : List Nat) (S set : ActiveSet)
    (hnd : u.acts.Nodup) (hS : S.length = u.acts.length) (hset : set.length = u.acts.length)
    (hcover : ∀ a ∈ u.acts, a.1 ∈ pus ∧ a.2 ∈ tys) :
    applyTable u tys (fullRows u tys pus S) set = S :=
  applyTable_fullRows u tys pus S set hnd hS hset hcover

/-- **A subcatchment sequence reaches any `S`.**  `subEntriesFor u S pu` lists, for each action of the scenario at `pu`
in the model's order, its type with `Active` / `Inactive` as `S` says.  Each of these entry lists names only actions that
exist at its planning unit (`subSupported`) and — when the scenario's action types are among the four the engine knows —
passes the syntax check (`subSyntaxOk`); and when no two actions share planning unit and type, applying them for a list
`pus` (any order, repetitions allowed) that contains every action's planning unit turns ANY set into `S`. -/
theorem sub_sequence_reaches (u : Universe) (S set : ActiveSet) (pus : List Nat)
    (hnd : u.acts.Nodup) (hS : S.length = u.acts.length) (hset : set.length = u.acts.length)
    (hcover : ∀ a ∈ u.acts, a.1 ∈ pus) :
    pus.foldl (fun acc pu => applySub u pu (subEntriesFor u S pu) acc) set = S ∧
    (∀ pu, subSupported u pu (subEntriesFor u S pu) = true) ∧
    ((∀ a ∈ u.acts, a.2 ∈ actionTypes) → ∀ pu, subSyntaxOk (subEntriesFor u S pu) = true) :=
  ⟨applySubs_reaches u S pus set hnd hS hset hcover, subSupported_subEntriesFor u S,
    fun hty pu => subSyntaxOk_subEntriesFor u S pu hty⟩

/-- Whole-table upload reaches any `S`, on `step`: from ANY state of the demanded behaviour, a table classified as the
full table of `S` is answered 200 and leaves exactly `S` active. -/
theorem put_full_table_reaches (W : World) (s : State) (m : Mdl) (S : ActiveSet) (c : Csv) (tys : List String)
    (pus : List Nat)
    (hinv : Inv W s) (hlive : s.live = some m) (hnd : m.u.acts.Nodup) (hS : S.length = m.u.acts.length)
    (hcover : ∀ a ∈ m.u.acts, a.1 ∈ pus ∧ a.2 ∈ tys)
    (hc : classifyTable c = .ok tys (fullRows m.u tys pus S)) :
    (step Quirks.spec W s (putActiveReq c)).1 = ok .success ∧
    ∃ m', (step Quirks.spec W s (putActiveReq c)).2.live = some m' ∧ m'.active = S ∧ m'.u = m.u ∧ m'.id = m.id := by
  obtain ⟨h200, m', hs', hact, hu, hid, _⟩ := reached_table W s m S c tys pus hinv hlive hnd hS hcover hc
  refine ⟨h200, m', ?_, hact, hu, hid⟩
  have : putActiveReq c = putActiveReq' c := rfl
  rw [this, hs']

/-- Per-subcatchment updates reach any `S`, on `exec`: from ANY state of the demanded behaviour, the PUT sequence over a
list `pus` of planning units of the scenario (each below `2^63`; any order, repetitions allowed, planning units without
actions allowed — their entry list is empty) that contains every action's planning unit is answered 200 throughout and
leaves exactly `S` active.  Content type `ct` and body text of the requests are arbitrary. -/
theorem put_sub_sequence_reaches (W : World) (s : State) (m : Mdl) (S : ActiveSet) (pus : List Nat) (ct : String)
    (text : Bytes)
    (hinv : Inv W s) (hlive : s.live = some m) (hnd : m.u.acts.Nodup) (hS : S.length = m.u.acts.length)
    (hacts : ∀ a ∈ m.u.acts, a.1 ∈ pus ∧ a.2 ∈ actionTypes)
    (hpus : ∀ pu ∈ pus, pu < 2 ^ 63 ∧ m.u.pus.contains pu = true) :
    let rs := pus.map (fun pu => subPutReq pu ct text (subEntriesFor m.u S pu))
    (∀ resp ∈ (run Quirks.spec W s rs).1, resp = ok .success) ∧
    ∃ m', (exec Quirks.spec W s rs).live = some m' ∧ m'.active = S ∧ m'.u = m.u ∧ m'.id = m.id := by
  intro rs
  obtain ⟨h200, m', hs', hact, hu, hid, _⟩ :=
    reached_subPutSeq W m.u S ct text (fun a ha => (hacts a ha).2) pus hpus s m hinv hlive rfl
  refine ⟨h200, m', ?_, ?_, hu, hid⟩
  · have : rs = subPutSeq m.u S ct text pus := rfl
    rw [this, hs']
  · rw [hact]
    exact applySubs_reaches m.u S pus m.active hnd hS (hinv.shows m hlive).2 (fun a ha => (hacts a ha).1)

/-! ## the three routes end in the same state -/

/-- **Three routes, one state.**  From ANY state `s` of the demanded behaviour (`Inv`: in particular any reachable one,
whatever was posted, patched or PUT before, valid set or not) with live model `m`, for ANY target set `S`:

  * `s₁` after the whole-table PUT of the full table of `S` (rows `pusT`, columns `tys`),
  * `s₂` after the per-subcatchment PUT sequence of `S` over `pusS` (any content type, any body text),
  * `s₃` after `PATCH [Encoding := canonical encoding of S]`.

Every request is answered 200, and the three states have live models `m₁ m₂ m₃` — each also the served snapshot — with
exactly `S` active, the scenario and id of `m`, and pairwise the SAME REPRESENTATION (`SameRepr`: same scenario, id,
action set, and the same attribute entries up to the order of arrival); scenario text, scenario name, solutions text
and solution table are those of `s` in all three.  Hypotheses: no two actions share planning unit and type; at least one
action (the encoding of the empty set does not decode); every action's planning unit has a table row and its type a table
column; every action's planning unit is in `pusS`, whose members are planning units of the scenario below `2^63`; every
action type is one of the four the engine accepts on the subcatchment route. -/
theorem three_routes_same_state (W : World) (s : State) (m : Mdl) (S : ActiveSet)
    (c : Csv) (tys : List String) (pusT pusS : List Nat) (ct : String) (text : Bytes)
    (hinv : Inv W s) (hlive : s.live = some m) (hnd : m.u.acts.Nodup) (hn : 1 ≤ m.u.acts.length)
    (hS : S.length = m.u.acts.length)
    (hacts : ∀ a ∈ m.u.acts, a.1 ∈ pusT ∧ a.2 ∈ tys ∧ a.1 ∈ pusS ∧ a.2 ∈ actionTypes)
    (hpusS : ∀ pu ∈ pusS, pu < 2 ^ 63 ∧ m.u.pus.contains pu = true)
    (hc : classifyTable c = .ok tys (fullRows m.u tys pusT S)) :
    let r₁ := putActiveReq c
    let rs₂ := pusS.map (fun pu => subPutReq pu ct text (subEntriesFor m.u S pu))
    let r₃ := patchReq [{ name := "Encoding", val := strTok (encodeStr S), enc := .text (encodeStr S) }]
    let s₁ := (step Quirks.spec W s r₁).2
    let s₂ := exec Quirks.spec W s rs₂
    let s₃ := (step Quirks.spec W s r₃).2
    (step Quirks.spec W s r₁).1 = ok .success ∧
    (∀ resp ∈ (run Quirks.spec W s rs₂).1, resp = ok .success) ∧
    (step Quirks.spec W s r₃).1 = ok .success ∧
    ∃ m₁ m₂ m₃,
      (s₁.live = some m₁ ∧ s₁.snap = some m₁) ∧ (s₂.live = some m₂ ∧ s₂.snap = some m₂) ∧
      (s₃.live = some m₃ ∧ s₃.snap = some m₃) ∧
      (m₁.active = S ∧ m₂.active = S ∧ m₃.active = S) ∧
      (m₁.u = m.u ∧ m₂.u = m.u ∧ m₃.u = m.u) ∧ (m₁.id = m.id ∧ m₂.id = m.id ∧ m₃.id = m.id) ∧
      (SameRepr m₁ m₂ ∧ SameRepr m₂ m₃ ∧ SameRepr m₁ m₃) ∧
      (∀ s' ∈ [s₁, s₂, s₃], s'.scenText = s.scenText ∧ s'.scenName = s.scenName ∧ s'.solText = s.solText ∧
        s'.table = s.table) := by
  intro r₁ rs₂ r₃ s₁ s₂ s₃
  have h₁ := reached_table W s m S c tys pusT hinv hlive hnd hS (fun a ha => ⟨(hacts a ha).1, (hacts a ha).2.1⟩) hc
  have h₂ := reached_subPutSeq W m.u S ct text (fun a ha => (hacts a ha).2.2.2) pusS hpusS s m hinv hlive rfl
  rw [applySubs_reaches m.u S pusS m.active hnd hS (hinv.shows m hlive).2 (fun a ha => (hacts a ha).2.2.1)] at h₂
  have h₃ := reached_encPatch W s m S hinv hlive hn hS
  exact ⟨h₁.1, h₂.1, h₃.1, reached_three h₁.2 h₂.2 h₃.2⟩

/-- **Same state, same answers** (any two states, however reached).  Two states whose snapshots have the same
representation (`SameRepr`) and which agree on scenario text, scenario name, solutions text and solution table answer
EVERY GET other than GET /model identically — /scenario, /solutions, /solutions/<label>, /model/actions/active,
/model/actions/applicable, every /model/subcatchment/<id>, `/`, unknown paths —, their `view`s agree field by field, and
their GET /model documents are the two snapshots, the same up to the order of the attribute entries. -/
theorem same_state_same_reads (W : World) (s₁ s₂ : State) (m₁ m₂ : Mdl)
    (h₁ : s₁.snap = some m₁) (h₂ : s₂.snap = some m₂) (hr : SameRepr m₁ m₂)
    (ht : s₁.scenText = s₂.scenText) (hn : s₁.scenName = s₂.scenName) (hs : s₁.solText = s₂.solText)
    (htb : s₁.table = s₂.table) :
    (∀ r : Request, r.method = .get → classifyPath r.path ≠ .model →
      (step Quirks.spec W s₁ r).1 = (step Quirks.spec W s₂ r).1) ∧
    ViewSame (view Quirks.spec W s₁) (view Quirks.spec W s₂) :=
  ⟨get_same W s₁ s₂ m₁ m₂ h₁ h₂ hr.1 hr.2.2.1 ht hn hs htb, viewSame_of W s₁ s₂ m₁ m₂ h₁ h₂ hr ht hn hs htb⟩

/-- **Three routes, one set of answers** (corollary of `three_routes_same_state` and `same_state_same_reads`).  Under the
hypotheses of `three_routes_same_state` the three end states answer every GET other than GET /model identically
(/model/actions/active, /model/actions/applicable, every /model/subcatchment/<id>, /scenario, /solutions, …), and
their `view`s agree, the /model documents up to the order of their attribute entries (`ViewSame`). -/
theorem three_routes_same_reads (W : World) (s : State) (m : Mdl) (S : ActiveSet)
    (c : Csv) (tys : List String) (pusT pusS : List Nat) (ct : String) (text : Bytes)
    (hinv : Inv W s) (hlive : s.live = some m) (hnd : m.u.acts.Nodup) (hn : 1 ≤ m.u.acts.length)
    (hS : S.length = m.u.acts.length)
    (hacts : ∀ a ∈ m.u.acts, a.1 ∈ pusT ∧ a.2 ∈ tys ∧ a.1 ∈ pusS ∧ a.2 ∈ actionTypes)
    (hpusS : ∀ pu ∈ pusS, pu < 2 ^ 63 ∧ m.u.pus.contains pu = true)
    (hc : classifyTable c = .ok tys (fullRows m.u tys pusT S)) :
    let s₁ := (step Quirks.spec W s (putActiveReq c)).2
    let s₂ := exec Quirks.spec W s (pusS.map (fun pu => subPutReq pu ct text (subEntriesFor m.u S pu)))
    let s₃ := (step Quirks.spec W s
      (patchReq [{ name := "Encoding", val := strTok (encodeStr S), enc := .text (encodeStr S) }])).2
    (∀ r : Request, r.method = .get → classifyPath r.path ≠ .model →
      (step Quirks.spec W s₁ r).1 = (step Quirks.spec W s₂ r).1 ∧
      (step Quirks.spec W s₂ r).1 = (step Quirks.spec W s₃ r).1) ∧
    ViewSame (view Quirks.spec W s₁) (view Quirks.spec W s₂) ∧
    ViewSame (view Quirks.spec W s₂) (view Quirks.spec W s₃) ∧
    ViewSame (view Quirks.spec W s₁) (view Quirks.spec W s₃) := by
  intro s₁ s₂ s₃
  obtain ⟨_, _, _, m₁, m₂, m₃, ⟨_, sn₁⟩, ⟨_, sn₂⟩, ⟨_, sn₃⟩, _, _, _, ⟨r₁₂, r₂₃, r₁₃⟩, hfr⟩ :=
    three_routes_same_state W s m S c tys pusT pusS ct text hinv hlive hnd hn hS hacts hpusS hc
  obtain ⟨t₁, n₁, o₁, b₁⟩ := hfr s₁ (by simp [s₁])
  obtain ⟨t₂, n₂, o₂, b₂⟩ := hfr s₂ (by simp [s₂])
  obtain ⟨t₃, n₃, o₃, b₃⟩ := hfr s₃ (by simp [s₃])
  have a₁₂ := same_state_same_reads W s₁ s₂ m₁ m₂ sn₁ sn₂ r₁₂ (t₁.trans t₂.symm) (n₁.trans n₂.symm) (o₁.trans o₂.symm)
    (b₁.trans b₂.symm)
  have a₂₃ := same_state_same_reads W s₂ s₃ m₂ m₃ sn₂ sn₃ r₂₃ (t₂.trans t₃.symm) (n₂.trans n₃.symm) (o₂.trans o₃.symm)
    (b₂.trans b₃.symm)
  have a₁₃ := same_state_same_reads W s₁ s₃ m₁ m₃ sn₁ sn₃ r₁₃ (t₁.trans t₃.symm) (n₁.trans n₃.symm) (o₁.trans o₃.symm)
    (b₁.trans b₃.symm)
  exact ⟨fun r hg hp => ⟨a₁₂.1 r hg hp, a₂₃.1 r hg hp⟩, a₁₂.2, a₂₃.2, a₁₃.2⟩

/-! ## Non-vacuity and sanity examples (tests, labelled as such) -/

namespace Example

def S : ActiveSet := [true, false, true]
def tys : List String := ["GullyRestoration", "RiverBankRestoration"]

/-- a start state that is NOT the as-is state: it carries a posted attribute (`Note`) and an INVALID set (all three
actions active, the limit is two), hence a `ValidationErrors` entry -/
def sMid : State := exec Quirks.spec W s0 [patchReq [⟨"Note", "1", .notEncoding⟩, ⟨"Encoding", "\"7\"", .text "7"⟩]]

def mMid : Mdl :=
  { u := u, id := "S", active := [true, true, true],
    attrs := [⟨"ModelSuppliedPlanningUnitName", "\"SubCatchment\""⟩, ⟨"Encoding", "\"7\""⟩,
      ⟨"ValidAgainstScenario", "false"⟩, ⟨"Note", "1"⟩, ⟨"ValidationErrors", "VE"⟩] }

/-- (non-vacuity facts, named because several examples use them) -/
theorem sMid_inv : Inv W sMid := inv_exec W _ _ (inv_exec W _ _ (inv_init W))
theorem sMid_live : sMid.live = some mMid := by decide

/-! the subcatchment URL -/
example : subPath 42 = "/api/v1/model/subcatchment/42" := by decide
example : classifyPath "/api/v1/model/subcatchment/42" = .sub "42" := (sub_path_selects_handler 42).1
example : atoi? (toString (2 ^ 63 - 1)) = some (2 ^ 63 - 1) := (sub_path_selects_handler _).2.1 (by decide)
example : atoi? (toString (2 ^ 63)) = none := (sub_path_selects_handler _).2.2 (Nat.le_refl _)
example : atoi? "9223372036854775807" = some 9223372036854775807 ∧ atoi? "9223372036854775808" = none := by decide

/-! `put_sub_sets_step`: from the mid state, with a content type that is not JSON and a non-empty body text -/
example :
    let r : Request := { method := .put, path := subPath 1, ctype := "text/plain", text := [0x7b],
                         facts := .sub (some [⟨"GullyRestoration", .inactive⟩]) }
    (step Quirks.spec W sMid r).1 = ok .success ∧
    ∃ m', (step Quirks.spec W sMid r).2.live = some m' ∧ (step Quirks.spec W sMid r).2.snap = some m' ∧
      m'.active = applySub mMid.u 1 [⟨"GullyRestoration", .inactive⟩] mMid.active ∧ m'.u = mMid.u ∧ m'.id = mMid.id :=
  put_sub_sets_step W sMid mMid 1 "text/plain" [0x7b] [⟨"GullyRestoration", .inactive⟩] sMid_inv sMid_live
    (by decide) (by decide) (by decide) (by decide)
example : applySub mMid.u 1 [⟨"GullyRestoration", .inactive⟩] mMid.active = [false, true, true] := by decide
/-- the set is valid now: `ValidationErrors` is gone, the posted `Note` stays -/
example : ((step Quirks.spec W sMid (subPutReq 1 "text/plain" [0x7b] [⟨"GullyRestoration", .inactive⟩])).2.live.map (·.attrs)) = some
    [⟨"ModelSuppliedPlanningUnitName", "\"SubCatchment\""⟩, ⟨"Encoding", "\"6\""⟩, ⟨"ValidAgainstScenario", "true"⟩,
     ⟨"Note", "1"⟩] := by decide

/-! `cells_reach_any_set`: scrambled order, a repeated cell, a cell for an unknown planning unit -/
def cells : List ((Nat × String) × Bool) :=
  [((9, "GullyRestoration"), true), ((2, "RiverBankRestoration"), true), ((1, "RiverBankRestoration"), false),
   ((1, "GullyRestoration"), true), ((2, "RiverBankRestoration"), true)]
example : applyCells u cells [false, true, false] = S :=
  cells_reach_any_set u S [false, true, false] cells (by decide) (by decide) (by decide) (by decide)

/-! `full_table_reaches`, `sub_sequence_reaches`: from the invalid set, rows / updates also for planning units without
actions (3) and unknown ones (7, table only), an extra column -/
example : applyTable u ("HillSlopeRestoration" :: tys) (fullRows u ("HillSlopeRestoration" :: tys) [7, 2, 3, 1] S) [true, true, true] = S :=
  full_table_reaches u _ [7, 2, 3, 1] S [true, true, true] (by decide) (by decide) (by decide) (by decide)
example : fullRows u tys [1, 2] S = [(some 1, [true, false]), (some 2, [false, true])] := by decide
example : [2, 1, 3, 1].foldl (fun acc pu => applySub u pu (subEntriesFor u S pu) acc) [true, true, true] = S :=
  (sub_sequence_reaches u S [true, true, true] [2, 1, 3, 1] (by decide) (by decide) (by decide) (by decide)).1
example : subEntriesFor u S 1 = [⟨"GullyRestoration", .active⟩, ⟨"RiverBankRestoration", .inactive⟩] ∧
    subEntriesFor u S 2 = [⟨"RiverBankRestoration", .active⟩] ∧ subEntriesFor u S 3 = [] := by decide
example : ∀ a ∈ u.acts, a.2 ∈ actionTypes := by decide

/-! the routes on `step` / `exec`, from the mid state; `table` is the concrete `Csv` of `C14.lean` -/
example : classifyTable table = .ok tys (fullRows mMid.u tys [1, 2] S) := by decide

example : (step Quirks.spec W sMid (putActiveReq table)).1 = ok .success ∧
    ∃ m', (step Quirks.spec W sMid (putActiveReq table)).2.live = some m' ∧ m'.active = S ∧ m'.u = mMid.u ∧ m'.id = mMid.id :=
  put_full_table_reaches W sMid mMid S table tys [1, 2] sMid_inv sMid_live (by decide) (by decide) (by decide) (by decide)

example :
    let rs := [2, 1, 3, 1].map (fun pu => subPutReq pu "" [] (subEntriesFor mMid.u S pu))
    (∀ resp ∈ (run Quirks.spec W sMid rs).1, resp = ok .success) ∧
    ∃ m', (exec Quirks.spec W sMid rs).live = some m' ∧ m'.active = S ∧ m'.u = mMid.u ∧ m'.id = mMid.id :=
  put_sub_sequence_reaches W sMid mMid S [2, 1, 3, 1] "" [] sMid_inv sMid_live (by decide) (by decide) (by decide) (by decide)

/-- every hypothesis of `three_routes_same_state` / `three_routes_same_reads` holds at the mid state … -/
example := three_routes_same_state W sMid mMid S table tys [1, 2] [2, 1, 3, 1] "text/plain" [0x7b] sMid_inv sMid_live
  (by decide) (by decide) (by decide) (by decide) (by decide) (by decide)
example := three_routes_same_reads W sMid mMid S table tys [1, 2] [2, 1, 3, 1] "text/plain" [0x7b] sMid_inv sMid_live
  (by decide) (by decide) (by decide) (by decide) (by decide) (by decide)

def midTable : State := (step Quirks.spec W sMid (putActiveReq table)).2
def midSubs : State := exec Quirks.spec W sMid ([2, 1].map (fun pu => subPutReq pu "text/plain" [0x7b] (subEntriesFor u S pu)))
def midPatch : State := (step Quirks.spec W sMid (patchReq [⟨"Encoding", strTok (encodeStr S), .text (encodeStr S)⟩])).2

/-- … and, evaluated: the three end states coincide here (same order of arrival of the attributes), show `S`, keep the
posted `Note`, have dropped `ValidationErrors`, and differ from the start state; an update for a planning unit without
actions (3: no entries) is accepted and changes nothing -/
example : midTable = midSubs ∧ midSubs = midPatch ∧ midTable ≠ sMid := by decide
example : (step Quirks.spec W sMid (subPutReq 3 "" [] (subEntriesFor u S 3))).1 = ok .success ∧
    (step Quirks.spec W sMid (subPutReq 3 "" [] (subEntriesFor u S 3))).2 = sMid := by decide
example : midTable.live.map (·.active) = some S ∧ midTable.live.map (·.attrs) = some
    [⟨"ModelSuppliedPlanningUnitName", "\"SubCatchment\""⟩, ⟨"Encoding", "\"5\""⟩, ⟨"ValidAgainstScenario", "true"⟩,
     ⟨"Note", "1"⟩] := by decide

/-- `same_state_same_reads` is about MORE than equal states: the two histories of `C14.lean` end in states whose
attribute lists differ in order; they have the same representation, and so the same answers -/
example : ∃ m₁ m₂, hist₁.snap = some m₁ ∧ hist₂.snap = some m₂ ∧ m₁ ≠ m₂ ∧ SameRepr m₁ m₂ ∧
    ViewSame (view Quirks.spec W hist₁) (view Quirks.spec W hist₂) := by
  have hr : SameRepr (hist₁.snap.get (by decide)) (hist₂.snap.get (by decide)) := ⟨by decide, by decide, by decide, by decide⟩
  exact ⟨_, _, (Option.some_get _).symm, (Option.some_get _).symm, by decide, hr,
    (same_state_same_reads W hist₁ hist₂ _ _ (Option.some_get _).symm (Option.some_get _).symm hr
      (by decide) (by decide) (by decide) (by decide)).2⟩

end Example

end Crem.Engine
