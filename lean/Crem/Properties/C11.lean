import Crem.Properties.C01
import Crem.Proofs.CatchmentSums
/-!
# C11 — aggregates are consistent: total = sum of unit shares; total N = PN + DN

Consequences of the central invariant `Canon` (C01), exact in ℚ, for every dataset satisfying
`InitConsistent` / `KeysDistinct`, stated for canonical states and for every state reachable by a
conformant history (`run D txs`, C01).  The sum ranges over the planning units of the dataset
(`D.sed0`'s ids; `InitConsistent` says the three pollutant variables carry the same ids).

The output side (`MakeEncodeable` / `SolutionBuilder` copies, `GET /api/v1/model`) is decided by the
correspondence suites that re-sum the written numbers; it is not a statement about this model.

Every `theorem` in this file is audited by `./check C11` (`#print axioms`).
-/
namespace Crem.Catchment

/-- the planning units of the dataset -/
def planningUnits (D : Data) : List PU := D.sed0.map (·.1)

/-- sum of the per-planning-unit values of variable `v` -/
def unitSum (D : Data) (s : State) (v : VarId) : Rat :=
  ((planningUnits D).map (fun p => unitVal s v p)).sum

/-- each of the six totals equals the sum of its planning-unit values -/
theorem total_eq_sum {D : Data} {s : State} (hI : InitConsistent D) (hc : Canon D s) (v : VarId) :
    total s v = unitSum D s v := by
  have f := hI.facts
  unfold unitSum planningUnits
  cases v
  · exact hc.sed.total_eq_sum f.dsed
  · rw [f.kpn]; exact hc.pn.total_eq_sum f.dpn
  · rw [f.kdn]; exact hc.dn.total_eq_sum f.ddn
  · rw [f.kpn]; exact hc.tn.total_eq_sum f.dpn
  · exact hc.ic.total_eq_sum f.dsed
  · exact hc.oc.total_eq_sum f.dsed

/-- total nitrogen = particulate + dissolved nitrogen in every planning unit -/
theorem tn_eq_pn_plus_dn_unit {D : Data} {s : State} (hI : InitConsistent D) (hc : Canon D s) (p : PU) :
    unitVal s .tn p = unitVal s .pn p + unitVal s .dn p :=
  hc.unit_tn hI.facts p

/-- total nitrogen = particulate + dissolved nitrogen for the catchment -/
theorem tn_eq_pn_plus_dn {D : Data} {s : State} (hI : InitConsistent D) (hc : Canon D s) :
    total s .tn = total s .pn + total s .dn := by
  rw [total_eq_sum hI hc .tn, total_eq_sum hI hc .pn, total_eq_sum hI hc .dn]
  unfold unitSum
  rw [← sum_map_add]
  congr 1
  apply List.map_congr_left
  intro p _
  exact tn_eq_pn_plus_dn_unit hI hc p

/-- **in every reachable state**: all three statements after any conformant history -/
theorem aggregates_consistent {D : Data} (hI : InitConsistent D) (hK : KeysDistinct D.acts) (txs : List Tx) :
    (∀ v, total (run D txs) v = unitSum D (run D txs) v) ∧
    (∀ p, unitVal (run D txs) .tn p = unitVal (run D txs) .pn p + unitVal (run D txs) .dn p) ∧
    total (run D txs) .tn = total (run D txs) .pn + total (run D txs) .dn :=
  have hc := canon_of_history hI hK txs
  ⟨total_eq_sum hI hc, tn_eq_pn_plus_dn_unit hI hc, tn_eq_pn_plus_dn hI hc⟩

/-- every reported number of a reachable state lies on its reporting grid (10⁻³ t, 10⁻² $) -/
theorem totals_on_grid {D : Data} (hI : InitConsistent D) (hK : KeysDistinct D.acts) (txs : List Tx) :
    OnGrid 3 (total (run D txs) .sed) ∧ OnGrid 3 (total (run D txs) .pn) ∧
    OnGrid 3 (total (run D txs) .dn) ∧ OnGrid 3 (total (run D txs) .tn) ∧
    OnGrid 2 (total (run D txs) .ic) ∧ OnGrid 2 (total (run D txs) .oc) := by
  have hc := canon_of_history hI hK txs
  have htn := tn_eq_pn_plus_dn hI hc
  refine ⟨hc.sed.onGrid, hc.pn.onGrid, hc.dn.onGrid, ?_, ?_, ?_⟩
  · rw [htn]; exact hc.pn.onGrid.add hc.dn.onGrid
  · show OnGrid 2 (run D txs).ic.total
    rw [hc.ic.total, hc.ic.cells]
    apply sumS_onGrid
    intro c hcm
    obtain ⟨x, _, h⟩ := mem_mapC hcm
    rw [h]; exact costSum_onGrid _ _ _ _
  · show OnGrid 2 (run D txs).oc.total
    rw [hc.oc.total, hc.oc.cells]
    apply sumS_onGrid
    intro c hcm
    obtain ⟨x, _, h⟩ := mem_mapC hcm
    rw [h]; exact costSum_onGrid _ _ _ _

/-! Non-vacuity / sanity (tests, labelled as such): the concrete dataset and history of C01. -/

example : InitConsistent exData ∧ KeysDistinct exData.acts := by decide +kernel

example : total exS .tn = unitSum exData exS .tn ∧ total exS .tn = total exS .pn + total exS .dn ∧
    total exS .tn ≠ 0 ∧ unitVal exS .tn 1 ≠ unitVal exS .tn 2 := by decide +kernel

end Crem.Catchment
