import Crem.Model.CatchmentSpec
/-! # C11 — theorems under construction (see DESIGN.md section 5) -/
