import Crem.Properties.C02
import Crem.Proofs.CatchmentSums
/-!
# C11 — aggregates are consistent: total = sum of unit shares; total N = PN + DN

Consequences of the central invariant `Canon` (C01), exact in ℚ, for every dataset satisfying
`InitConsistent` / `KeysDistinct`, stated for canonical states and for every state reachable by a
conformant history (`run D txs`, C01).  The sum ranges over the planning units of the dataset
(`D.sed0`'s ids; `InitConsistent` says the three pollutant variables carry the same ids).

`aggregates_consistent` goes through the canonical form and therefore speaks about conformant histories.  The
three clauses need much less: `aggregates_consistent_any_history` proves them after ANY sequence of single interface
calls (`RawOp`, `runRaw`: Properties/C02.lean) — proposals never completed, `revert;revert`, `accept` of stale
commands, … — from the raw-operation invariant `SumInv` (Proofs/SumInv.lean), under `UnitsOK D` only (unit ids
distinct, same ids in the three pollutant variables, every action's unit exists; implied by `InitConsistent D`),
without `KeysDistinct` and without any consistency of the attribute records.

What the theorems do NOT say: they are exact in ℚ, where re-rounding an on-grid total is the identity.  That the
float code's incremental `RoundFloat(total + (new − old))` stays ON the grid value over long histories (no drift)
is the arithmetic abstraction of DESIGN 3.1; it is sampled by the walks (incl. the long ones of the thorough tier),
not proved.

The output side (`MakeEncodeable` / `SolutionBuilder` copies, `GET /api/v1/model`) is decided by the
correspondence suites that re-sum the written numbers; it is not a statement about this model.

Every `theorem` in this file is audited by `./check C11` (`#print axioms`).
-/
namespace Crem.Catchment

/-- the planning units of the dataset -/
def planningUnits (D : Data) : List PU := D.sed0.map (·.1)

/-- sum of the per-planning-unit values of variable `v` -/
def unitSum (D : Data) (s : State) (v : VarId) : Rat :=
  ((planningUnits D).map (fun p => unitVal s v p)).sum

/-- each of the six totals equals the sum of its planning-unit values -/
theorem total_eq_sum {D : Data} {s : State} (hI : InitConsistent D) (hc : Canon D s) (v : VarId) :
    total s v = unitSum D s v := by
  have f := hI.facts
  unfold unitSum planningUnits
  cases v
  · exact hc.sed.total_eq_sum f.dsed
  · rw [f.kpn]; exact hc.pn.total_eq_sum f.dpn
  · rw [f.kdn]; exact hc.dn.total_eq_sum f.ddn
  · rw [f.kpn]; exact hc.tn.total_eq_sum f.dpn
  · exact hc.ic.total_eq_sum f.dsed
  · exact hc.oc.total_eq_sum f.dsed

/-- total nitrogen = particulate + dissolved nitrogen in every planning unit -/
theorem tn_eq_pn_plus_dn_unit {D : Data} {s : State} (hI : InitConsistent D) (hc : Canon D s) (p : PU) :
    unitVal s .tn p = unitVal s .pn p + unitVal s .dn p :=
  hc.unit_tn hI.facts p

/-- total nitrogen = particulate + dissolved nitrogen for the catchment -/
theorem tn_eq_pn_plus_dn {D : Data} {s : State} (hI : InitConsistent D) (hc : Canon D s) :
    total s .tn = total s .pn + total s .dn := by
  rw [total_eq_sum hI hc .tn, total_eq_sum hI hc .pn, total_eq_sum hI hc .dn]
  unfold unitSum
  rw [← sum_map_add]
  congr 1
  apply List.map_congr_left
  intro p _
  exact tn_eq_pn_plus_dn_unit hI hc p

/-- **in every reachable state**: all three statements after any conformant history -/
theorem aggregates_consistent {D : Data} (hI : InitConsistent D) (hK : KeysDistinct D.acts) (txs : List Tx) :
    (∀ v, total (run D txs) v = unitSum D (run D txs) v) ∧
    (∀ p, unitVal (run D txs) .tn p = unitVal (run D txs) .pn p + unitVal (run D txs) .dn p) ∧
    total (run D txs) .tn = total (run D txs) .pn + total (run D txs) .dn :=
  have hc := canon_of_history hI hK txs
  ⟨total_eq_sum hI hc, tn_eq_pn_plus_dn_unit hI hc, tn_eq_pn_plus_dn hI hc⟩

/-- **after any operation history**: whatever single calls of the model interface were made, in whatever order
(API misuse included), each total equals the sum of its planning-unit values, total nitrogen equals particulate
plus dissolved nitrogen in every unit and for the catchment, and every total lies on its reporting grid -/
theorem aggregates_consistent_any_history {D : Data} (hU : UnitsOK D) (ops : List RawOp) :
    (∀ v, total (runRaw D ops) v = unitSum D (runRaw D ops) v) ∧
    (∀ p, unitVal (runRaw D ops) .tn p = unitVal (runRaw D ops) .pn p + unitVal (runRaw D ops) .dn p) ∧
    total (runRaw D ops) .tn = total (runRaw D ops) .pn + total (runRaw D ops) .dn ∧
    (∀ v, OnGrid (reportingPrecision v) (total (runRaw D ops) v)) := by
  have h := sumInv_of_any_history hU ops
  have h1 : ∀ v, total (runRaw D ops) v = unitSum D (runRaw D ops) v := h.total_eq_unitSum hU
  refine ⟨h1, h.unitTN, ?_, h.total_onGrid⟩
  rw [h1 .tn, h1 .pn, h1 .dn]
  unfold unitSum
  rw [← sum_map_add]
  congr 1
  apply List.map_congr_left
  intro p _
  exact h.unitTN p

/-- in particular for every dataset the conformant theorems cover -/
theorem aggregates_consistent_any_history_of_initConsistent {D : Data} (hI : InitConsistent D) (ops : List RawOp) :
    (∀ v, total (runRaw D ops) v = unitSum D (runRaw D ops) v) ∧
    (∀ p, unitVal (runRaw D ops) .tn p = unitVal (runRaw D ops) .pn p + unitVal (runRaw D ops) .dn p) ∧
    total (runRaw D ops) .tn = total (runRaw D ops) .pn + total (runRaw D ops) .dn ∧
    (∀ v, OnGrid (reportingPrecision v) (total (runRaw D ops) v)) :=
  aggregates_consistent_any_history (unitsOK_of_initConsistent hI) ops

/-- every reported number of a reachable state lies on its reporting grid (10⁻³ t, 10⁻² $) -/
theorem totals_on_grid {D : Data} (hI : InitConsistent D) (hK : KeysDistinct D.acts) (txs : List Tx) :
    OnGrid 3 (total (run D txs) .sed) ∧ OnGrid 3 (total (run D txs) .pn) ∧
    OnGrid 3 (total (run D txs) .dn) ∧ OnGrid 3 (total (run D txs) .tn) ∧
    OnGrid 2 (total (run D txs) .ic) ∧ OnGrid 2 (total (run D txs) .oc) := by
  have hc := canon_of_history hI hK txs
  have htn := tn_eq_pn_plus_dn hI hc
  refine ⟨hc.sed.onGrid, hc.pn.onGrid, hc.dn.onGrid, ?_, ?_, ?_⟩
  · rw [htn]; exact hc.pn.onGrid.add hc.dn.onGrid
  · show OnGrid 2 (run D txs).ic.total
    rw [hc.ic.total, hc.ic.cells]
    apply sumS_onGrid
    intro c hcm
    obtain ⟨x, _, h⟩ := mem_mapC hcm
    rw [h]; exact costSum_onGrid _ _ _ _
  · show OnGrid 2 (run D txs).oc.total
    rw [hc.oc.total, hc.oc.cells]
    apply sumS_onGrid
    intro c hcm
    obtain ⟨x, _, h⟩ := mem_mapC hcm
    rw [h]; exact costSum_onGrid _ _ _ _

/-! Non-vacuity / sanity (tests, labelled as such): the concrete dataset and history of C01. -/

example : InitConsistent exData ∧ KeysDistinct exData.acts := by decide +kernel

example : total exS .tn = unitSum exData exS .tn ∧ total exS .tn = total exS .pn + total exS .dn ∧
    total exS .tn ≠ 0 ∧ unitVal exS .tn 1 ≠ unitVal exS .tn 2 := by decide +kernel

/-- the raw theorem's hypothesis is satisfiable beyond the conformant theorems' reach: `exBad` (C01) violates
`InitConsistent`, its misuse history below leaves flags and values separated, and the aggregates still hold -/
example : unitsOK exBad = true ∧ ¬ InitConsistent exBad := by decide +kernel

example :
    let s := runRaw exBad [.propose 0, .propose 1, .accept, .revert, .revert, .propose 0, .accept, .accept]
    total s .sed = unitSum exBad s .sed ∧ total s .sed ≠ total (init exBad) .sed ∧
    total s .tn = total s .pn + total s .dn := by decide +kernel

/-- … and on the C01 dataset after the misuse history of C02 -/
example : total exMisuse .tn = unitSum exData exMisuse .tn ∧ total exMisuse .tn = total exMisuse .pn + total exMisuse .dn ∧
    unitVal exMisuse .tn 1 = unitVal exMisuse .pn 1 + unitVal exMisuse .dn 1 ∧ total exMisuse .tn ≠ total (init exData) .tn := by
  decide +kernel

end Crem.Catchment
