import Crem.Proofs.Locking
import Crem.Model.Engine
/-!
# C16 — concurrent engine requests behave as if executed one at a time  (partial)

Theorems about the micro-step model of request handling under one mutex (`Crem/Model/Locking.lean`):
any number of client threads, any programs, any handlers (any decomposition of a handler into micro-steps on the
shared state), every schedule.  The tie to the code is structural — `rest.MuxImpl.ServeHTTP` takes the lock
before dispatch and releases it by `defer`, no handler starts a goroutine (`engine-facts`, extracted from the
source on every run) — and behavioural (`engine-conc`: real concurrent clients against the real server, every
outcome compared with the engine's own serial executions, also under the race detector).
Partial because the Go memory model is trusted, not modelled (see the model file).
Every `theorem` in this file is audited by `./check C16` (`#print axioms`).
-/
namespace Crem.Locking

variable {S L R : Type}

/-- Mutual exclusion: under every schedule, whoever is inside its critical section holds the lock — so two
different threads are never inside at once. -/
theorem mutual_exclusion (s0 : S) (prog : Nat → List (Handler S L R)) (sched : List Nat)
    (t₁ t₂ : Nat) (h₁ h₂ : Handler S L R) (l₁ l₂ : L) (r₁ r₂ : List (L × S → L × S))
    (p₁ : ((exec (initial s0 prog) sched).threads t₁).phase = .running h₁ l₁ r₁)
    (p₂ : ((exec (initial s0 prog) sched).threads t₂).phase = .running h₂ l₂ r₂) : t₁ = t₂ := by
  have hinv := inv_exec s0 prog _ sched (inv_initial s0 prog)
  have a := hinv.excl t₁ h₁ l₁ r₁ p₁
  have b := hinv.excl t₂ h₂ l₂ r₂ p₂
  rw [a] at b; cases b; rfl

/-- **Every interleaving is equivalent to a serial order of whole requests.**  Under every schedule, once
everything sent has been answered, the acquisition log is a serial order of all the requests such that
  * the final shared state is the one that serial order produces,
  * every client has received exactly the responses that serial order produces for its requests, in order,
  * and each client's requests appear in the log in the order the client sent them. -/
theorem mutex_serialises (s0 : S) (prog : Nat → List (Handler S L R)) (sched : List Nat)
    (hq : Quiescent (exec (initial s0 prog) sched)) :
    (exec (initial s0 prog) sched).shared = serial s0 (exec (initial s0 prog) sched).log ∧
    (∀ t, ((exec (initial s0 prog) sched).threads t).out = respsOf s0 (exec (initial s0 prog) sched).log t) ∧
    (∀ t, requestsOf (exec (initial s0 prog) sched).log t = prog t) := by
  have hinv : Inv s0 prog (exec (initial s0 prog) sched) := inv_exec s0 prog _ sched (inv_initial s0 prog)
  generalize exec (initial s0 prog) sched = c at *
  have hfree : c.lock = none := by
    cases hl : c.lock with
    | none => rfl
    | some t =>
      obtain ⟨h, l, rem, pre, hp, _⟩ := hinv.held t hl
      have := (hq t).2
      rw [hp] at this; exact absurd this (by simp)
  refine ⟨hinv.free hfree, ?_, ?_⟩
  · intro t
    have := hinv.outs t
    have hidle : inflight (c.threads t).phase = [] := by
      have hq2 := (hq t).2
      cases hp : (c.threads t).phase <;> simp [hp] at hq2 <;> simp [inflight]
    simpa [hidle, completed, hfree] using this
  · intro t
    have := hinv.order t
    have hpend : pending (c.threads t).phase = [] := by
      have hq2 := (hq t).2
      cases hp : (c.threads t).phase <;> simp [hp] at hq2 <;> simp [pending]
    have htodo := (hq t).1
    rw [hpend, htodo] at this
    simpa using this

/-- The same at every moment the lock is free (not only at the end): the shared state is the serial result of the
requests logged so far, and every response already delivered is a serial response. -/
theorem at_rest_serial (s0 : S) (prog : Nat → List (Handler S L R)) (sched : List Nat)
    (hfree : (exec (initial s0 prog) sched).lock = none) :
    (exec (initial s0 prog) sched).shared = serial s0 (exec (initial s0 prog) sched).log ∧
    ∀ t, ∃ rest, respsOf s0 (exec (initial s0 prog) sched).log t = ((exec (initial s0 prog) sched).threads t).out ++ rest := by
  have hinv : Inv s0 prog (exec (initial s0 prog) sched) := inv_exec s0 prog _ sched (inv_initial s0 prog)
  generalize exec (initial s0 prog) sched = c at *
  refine ⟨hinv.free hfree, ?_⟩
  intro t
  have := hinv.outs t
  simp only [completed, hfree] at this
  exact ⟨_, this.symm⟩

/-- The log only ever grows at its end: what has acquired the lock before stays before.  (So the serial order
respects real time: a request answered before another one was even sent precedes it.) -/
theorem log_grows (c : Config S L R) (sched : List Nat) : ∃ more, (exec c sched).log = c.log ++ more := by
  induction sched generalizing c with
  | nil => exact ⟨[], by simp [exec]⟩
  | cons t ts ih =>
    obtain ⟨more, hm⟩ := ih (move c t)
    have hstep : ∃ m, (move c t).log = c.log ++ m := by
      unfold move
      simp only
      split
      · split
        · exact ⟨[], by simp⟩
        · exact ⟨[], by simp⟩
      · split
        · exact ⟨_, rfl⟩
        · exact ⟨[], by simp⟩
      · exact ⟨[], by simp⟩
      · exact ⟨[], by simp⟩
      · exact ⟨[], by simp⟩
    obtain ⟨m, hm'⟩ := hstep
    refine ⟨m ++ more, ?_⟩
    simp only [exec, List.foldl_cons] at hm ⊢
    rw [hm, hm', List.append_assoc]

/-! ## the responses are the engine spec's -/

section Spec
open Crem.Engine

variable {L : Type}

/-- a handler *implements* a request if, run alone, it does what the engine spec does for that request -/
def Implements (q : Quirks) (W : World) (h : Handler State L Response) (r : Request) : Prop :=
  ∀ s : State, h.atomic s = Crem.Engine.step q W s r

/-- If every handler implements its request of the spec (C14/C15), a serial order of handlers is the spec's run
of the corresponding request list: with `mutex_serialises`, every response a concurrent client receives and the
final state are those of `Crem.Engine.run` on some ordering of the requests. -/
theorem responses_from_spec (q : Quirks) (W : World) (reqOf : Handler State L Response → Request)
    (log : List (Nat × Handler State L Response))
    (himp : ∀ x ∈ log, Implements q W x.2 (reqOf x.2)) (s0 : State) :
    serial s0 log = Crem.Engine.exec q W s0 (log.map (fun x => reqOf x.2)) ∧
    (serialResps s0 log).map (·.2) = (Crem.Engine.run q W s0 (log.map (fun x => reqOf x.2))).1 := by
  induction log generalizing s0 with
  | nil => simp [serial, serialResps, Crem.Engine.exec, Crem.Engine.run]
  | cons x xs ih =>
    obtain ⟨t, h⟩ := x
    have hx := himp (t, h) (by simp)
    have ih' := ih (fun y hy => himp y (by simp [hy])) (h.atomic s0).2
    simp only [serial, serialResps, List.map_cons, Crem.Engine.exec, Crem.Engine.run] at ih' ⊢
    rw [← hx s0]
    exact ⟨ih'.1, by rw [ih'.2]⟩

end Spec

/-! ## Non-vacuity and sanity examples (tests, labelled as such) -/

namespace Example

/-- a handler that increments a shared counter in two micro-steps (read into the local, write local + 1) and
answers with the value it wrote -/
def incr : Handler Nat Nat Nat :=
  { pre := 0, steps := [fun (_, s) => (s, s), fun (l, _) => (l + 1, l + 1)], resp := fun l => l }

def prog : Nat → List (Handler Nat Nat Nat)
  | 0 => [incr, incr]
  | 1 => [incr]
  | _ => []

/-- a schedule that interleaves the two threads at micro-step granularity and lets everybody finish -/
def sched : List Nat := (List.replicate 12 [0, 1]).flatten ++ List.replicate 12 0 ++ List.replicate 6 1

example : (exec (initial 0 prog) sched).shared = 3 := by decide
example : ((exec (initial 0 prog) sched).threads 0).out = [1, 3] ∧ ((exec (initial 0 prog) sched).threads 1).out = [2] := by
  decide
example : (exec (initial 0 prog) sched).log.map (·.1) = [0, 1, 0] := by decide
/-- the hypothesis of `mutex_serialises` is satisfiable: this schedule lets everybody finish -/
example : ∀ t < 3, ((exec (initial 0 prog) sched).threads t).todo.length = 0 := by decide

/-- the same handlers without the lock (a thread enters its critical section whatever the lock says, as the code
does before D14 is repaired): an update is lost and two clients are told the same value — no serial order of
three increments answers 1, 1, 2 -/
def moveUnlocked (c : Config Nat Nat Nat) (t : Nat) : Config Nat Nat Nat :=
  match (c.threads t).phase with
  | .arrived h => { c with threads := upd c.threads t { c.threads t with phase := .running h h.pre h.steps } }
  | .running h l [] => { c with threads := upd c.threads t { c.threads t with phase := .responding h l } }
  | _ => move c t

def lost : Config Nat Nat Nat := sched.foldl moveUnlocked (initial 0 prog)

example : lost.shared = 2 ∧ (lost.threads 0).out = [1, 2] ∧ (lost.threads 1).out = [1] := by decide

end Example

end Crem.Locking
