import Crem.Proofs.Locking
import Crem.Model.Engine
/-!
# C16 — concurrent engine requests behave as if executed one at a time  (partial)

Theorems about the micro-step model of request handling under one mutex (`Crem/Model/Locking.lean`):
any number of client threads, any programs (fixed lists of requests), any handlers given as a list of
micro-steps on the shared state, every schedule.

What is compared with what.  A handler is GIVEN as its list of micro-steps; `Handler.atomic` runs those SAME
micro-steps without interruption.  The theorems compare the interleaved execution (threads take micro-steps
in any order the schedule says, a thread waiting for the taken lock does not move) with the uninterrupted
execution of the same micro-steps, request after request, in the order the lock was acquired.  What is proved
is that the lock makes the interleaving irrelevant — not that a handler is correct (that is C14/C15, brought
in through `Implements`), and not anything about how Go code decomposes into micro-steps.

Contents.
  * `mutual_exclusion`, `mutex_serialises`, `at_rest_serial`, `log_grows`: the serial order is the acquisition log;
    `quiescent_schedule_exists`: the hypothesis of `mutex_serialises` can always be met.
  * `real_time`, `real_time_order` (with `posOf_spec`, `posOf_is_kth`, `posOf_tags`): the serial order respects real time — a
    request whose answer a client had already received when another request had not yet been sent precedes it.
  * `responses_from_spec`, `concurrent_is_spec_run`: if every handler does, run alone, what the engine spec
    `Crem.Engine.step` does for its request, then whatever the schedule there is an interleaving of the clients'
    request lists on which `Crem.Engine.run` gives the final state and, client by client, every response received.
  * `engineHandler`, `engineHandler_implements`, `concurrent_engine_requests_serialise`: the same for a concrete
    two-micro-step (read, then write back) handler of every engine request, stated without handlers;
    `concurrent_engine_requests_real_time`: and the interleaving respects real time.
  * `Example`: non-vacuity (quiescent schedules exist; proved for ALL threads with the frame lemma) and the
    lost update that the same micro-steps produce without the lock.

The tie to the code is structural — `rest.MuxImpl.ServeHTTP` takes the lock before dispatch and releases it
by `defer`, no handler starts a goroutine (`engine-facts`, extracted from the source on every run) — and
behavioural (`engine-conc`: real concurrent clients against the real server, every outcome compared with the
engine's own serial executions, also under the race detector).

LIMITATIONS (why "partial").
  1. Mutual exclusion holds BY CONSTRUCTION of `move`.  Only a thread in phase `running` touches `shared`, and
     `running` is entered only by taking the free lock: an access to the shared state that is not under the
     lock cannot be expressed in this model.  `mutual_exclusion` is therefore a sanity property of the
     transition function, not evidence about the code.  The property's clause "never read or written
     unsynchronised" rests on the structural facts extracted from the Go source by `engine-facts` and on the
     race detector run of `engine-conc`, NOT on a Lean theorem.
  2. The Go memory model is trusted, not modelled (see the model file); so is `sync.Mutex`.
  3. Clients are NON-ADAPTIVE: `prog t` is fixed up front, a client's next request does not depend on the answers
     it has received.  Only the clause `Inv.order` of the invariant (`Proofs/Locking.lean`) mentions `prog`; the
     clauses behind `mutual_exclusion`, `at_rest_serial`, `log_grows` and the state / response parts of
     `mutex_serialises` do not, so one expects those to carry over to adaptive clients (a thread state
     `next : List R → Option (Handler S L R)` in place of `todo`), whereas the program-order statements
     (`real_time`, (a) of `concurrent_is_spec_run`, `concurrent_engine_requests_serialise`) would have to be
     restated for the requests actually sent.  Adaptive clients are NOT covered by any theorem here.
  4. Lock placement.  In the Go code the request body is read and the response is written INSIDE the critical
     section (`ServeHTTP` holds the lock around the whole handler); in the model `pre` (the request as read)
     is fixed before the lock is requested and delivery of `resp` comes after the release.  Harmless for
     safety: neither touches shared state; reading the body inside the lock only removes interleavings; a
     response flushed inside the lock can reach the client before the release — an order of events the model
     does not have, but the request was logged at acquisition, earlier still, which is all `real_time_order`
     uses.  It matters for liveness (one stalled upload blocks every client), which is outside the property.
     The model has no panic path either (`defer Unlock` after a handler that panics half way).
  5. Quiescence is a hypothesis of the end-to-end statements.  It is satisfiable for every finite set of clients
     (`quiescent_schedule_exists`; concrete interleaved schedules in `Example`), but nothing here says that the
     schedules the runtime produces reach it (no fairness, no liveness).

Every `theorem` in this file is audited by `./check C16` (`#print axioms`).
-/
namespace Crem.Locking

variable {S L R : Type}

/-- Mutual exclusion: under every schedule, whoever is inside its critical section holds the lock — so two
different threads are never inside at once.  (True by construction of `move`, see limitation 1 in the header:
this checks the transition function, it is not evidence that the code takes the lock.) -/
theorem mutual_exclusion (s0 : S) (prog : Nat → List (Handler S L R)) (sched : List Nat)
    (t₁ t₂ : Nat) (h₁ h₂ : Handler S L R) (l₁ l₂ : L) (r₁ r₂ : List (L × S → L × S))
    (p₁ : ((exec (initial s0 prog) sched).threads t₁).phase = .running h₁ l₁ r₁)
    (p₂ : ((exec (initial s0 prog) sched).threads t₂).phase = .running h₂ l₂ r₂) : t₁ = t₂ := by
  have hinv := inv_exec s0 prog _ sched (inv_initial s0 prog)
  have a := hinv.excl t₁ h₁ l₁ r₁ p₁
  have b := hinv.excl t₂ h₂ l₂ r₂ p₂
  rw [a] at b; cases b; rfl

/-- **Every interleaving is equivalent to a serial order of whole requests.**  Under every schedule, once
everything sent has been answered, the acquisition log is a serial order of all the requests — `serial`,
`respsOf` run each logged handler's micro-steps without interruption (`Handler.atomic`) — such that
  * the final shared state is the one that serial order produces,
  * every client has received exactly the responses that serial order produces for its requests, in order,
  * and each client's requests appear in the log in the order the client sent them. -/
theorem mutex_serialises (s0 : S) (prog : Nat → List (Handler S L R)) (sched : List Nat)
    (hq : Quiescent (exec (initial s0 prog) sched)) :
    (exec (initial s0 prog) sched).shared = serial s0 (exec (initial s0 prog) sched).log ∧
    (∀ t, ((exec (initial s0 prog) sched).threads t).out = respsOf s0 (exec (initial s0 prog) sched).log t) ∧
    (∀ t, requestsOf (exec (initial s0 prog) sched).log t = prog t) := by
  have hinv : Inv s0 prog (exec (initial s0 prog) sched) := inv_exec s0 prog _ sched (inv_initial s0 prog)
  generalize exec (initial s0 prog) sched = c at *
  have hfree : c.lock = none := by
    cases hl : c.lock with
    | none => rfl
    | some t =>
      obtain ⟨h, l, rem, pre, hp, _⟩ := hinv.held t hl
      have := (hq t).2
      rw [hp] at this; exact absurd this (by simp)
  refine ⟨hinv.free hfree, ?_, ?_⟩
  · intro t
    have := hinv.outs t
    have hidle : inflight (c.threads t).phase = [] := by
      have hq2 := (hq t).2
      cases hp : (c.threads t).phase <;> simp [hp] at hq2 <;> simp [inflight]
    simpa [hidle, completed, hfree] using this
  · intro t
    have := hinv.order t
    have hpend : pending (c.threads t).phase = [] := by
      have hq2 := (hq t).2
      cases hp : (c.threads t).phase <;> simp [hp] at hq2 <;> simp [pending]
    have htodo := (hq t).1
    rw [hpend, htodo] at this
    simpa using this

/-- The same at every moment the lock is free (not only at the end): the shared state is the serial result of the
requests logged so far, and every response already delivered is a serial response. -/
theorem at_rest_serial (s0 : S) (prog : Nat → List (Handler S L R)) (sched : List Nat)
    (hfree : (exec (initial s0 prog) sched).lock = none) :
    (exec (initial s0 prog) sched).shared = serial s0 (exec (initial s0 prog) sched).log ∧
    ∀ t, ∃ rest, respsOf s0 (exec (initial s0 prog) sched).log t = ((exec (initial s0 prog) sched).threads t).out ++ rest := by
  have hinv : Inv s0 prog (exec (initial s0 prog) sched) := inv_exec s0 prog _ sched (inv_initial s0 prog)
  generalize exec (initial s0 prog) sched = c at *
  refine ⟨hinv.free hfree, ?_⟩
  intro t
  have := hinv.outs t
  simp only [completed, hfree] at this
  exact ⟨_, this.symm⟩

/-- The log only ever grows at its end, from ANY configuration: what has acquired the lock before stays before.
By itself this says nothing about which requests are in the log at a given moment, hence nothing about real
time; `real_time` and `real_time_order` below combine it with the invariant to get the real-time order. -/
theorem log_grows (c : Config S L R) (sched : List Nat) : ∃ more, (exec c sched).log = c.log ++ more := by
  induction sched generalizing c with
  | nil => exact ⟨[], by simp [exec]⟩
  | cons t ts ih =>
    obtain ⟨more, hm⟩ := ih (move c t)
    have hstep : ∃ m, (move c t).log = c.log ++ m := by
      unfold move
      simp only
      split
      · split
        · exact ⟨[], by simp⟩
        · exact ⟨[], by simp⟩
      · split
        · exact ⟨_, rfl⟩
        · exact ⟨[], by simp⟩
      · exact ⟨[], by simp⟩
      · exact ⟨[], by simp⟩
      · exact ⟨[], by simp⟩
    obtain ⟨m, hm'⟩ := hstep
    refine ⟨m ++ more, ?_⟩
    simp only [exec, List.foldl_cons] at hm ⊢
    rw [hm, hm', List.append_assoc]

/-- The hypothesis `Quiescent` of the end-to-end statements is satisfiable for EVERY finite set of clients, every
program and every handler: some schedule lets everybody finish (serve the clients one after the other; nothing
is claimed about the schedules the runtime produces — no fairness, no liveness). -/
theorem quiescent_schedule_exists (s0 : S) (prog : Nat → List (Handler S L R)) (n : Nat)
    (hempty : ∀ t, n ≤ t → prog t = []) : ∃ sched, Quiescent (exec (initial s0 prog) sched) :=
  exists_quiescent_schedule s0 prog n hempty

/-! ## real-time order

`posOf log t k` (model file) is the position in the serial order `log` of the `k`-th request of client `t`. -/

/-- what `posOf` means: `posOf xs t k = some p` iff position `p` of `xs` carries the tag `t` and exactly `k`
entries before it carry that tag -/
theorem posOf_spec {α : Type} (xs : List (Nat × α)) (t k p : Nat) :
    posOf xs t k = some p ↔ (∃ a, xs[p]? = some (t, a)) ∧ (proj (xs.take p) t).length = k :=
  posOf_eq_some_iff xs t k p

/-- … so the entry at that position is the `k`-th entry of thread `t` (with `mutex_serialises`, at quiescence:
`log[posOf log t k] = (t, (prog t)[k])`), and there is such a position as soon as thread `t` has more than
`k` entries -/
theorem posOf_is_kth {α : Type} (xs : List (Nat × α)) (t k : Nat) :
    (∀ p, posOf xs t k = some p → ∃ a, xs[p]? = some (t, a) ∧ (proj xs t)[k]? = some a) ∧
    (k < (proj xs t).length → ∃ p, posOf xs t k = some p) :=
  ⟨fun p h => posOf_entry xs t k p h, posOf_isSome xs t k⟩

/-- `posOf` looks at the thread tags only: two lists with the same tags (the acquisition log of handlers and the
interleaving `order` of requests of `concurrent_is_spec_run`) give the same positions -/
theorem posOf_tags {α β : Type} (xs : List (Nat × α)) (ys : List (Nat × β))
    (h : xs.map (·.1) = ys.map (·.1)) (t k : Nat) : posOf xs t k = posOf ys t k :=
  posOf_congr_tags xs ys h t k

/-- **Real time, the bookkeeping.**  Stop the run `s₁ ++ s₂` after `s₁`: `c₁` is the configuration at that
moment, `c₂` the one at the end.  Then
  * the final log is the log at `c₁` followed by what was acquired later (`more`);
  * every response a client has RECEIVED at `c₁` is the serial response of a request already in the log at
    `c₁`, its `i`-th response that of its `i`-th logged request (`out` is a prefix of the serial responses of
    the log at `c₁`) — and it still is one in the final serial order;
  * the requests of client `t` in the log at `c₁` are exactly the first ones of `prog t`: those it is waiting
    with for the lock (`pending`, at most one) and those it has NOT YET SENT (`todo`) are not in the log at
    `c₁`; they are logged — if at all — inside `more`. -/
theorem real_time (s0 : S) (prog : Nat → List (Handler S L R)) (s₁ s₂ : List Nat) (c₁ c₂ : Config S L R)
    (h₁ : c₁ = exec (initial s0 prog) s₁) (h₂ : c₂ = exec (initial s0 prog) (s₁ ++ s₂)) :
    ∃ more, c₂.log = c₁.log ++ more ∧
      (∀ t, (c₁.threads t).out <+: respsOf s0 c₁.log t) ∧
      (∀ t, (c₁.threads t).out <+: respsOf s0 c₂.log t) ∧
      (∀ t, requestsOf c₁.log t ++ pending (c₁.threads t).phase ++ (c₁.threads t).todo = prog t) ∧
      (∀ t, requestsOf c₂.log t = requestsOf c₁.log t ++ requestsOf more t) := by
  have hinv : Inv s0 prog c₁ := h₁ ▸ inv_exec s0 prog _ s₁ (inv_initial s0 prog)
  obtain ⟨more, hmore⟩ := log_grows c₁ s₂
  have hlog : c₂.log = c₁.log ++ more := by rw [h₂, exec_append, ← h₁]; exact hmore
  have hpre : ∀ t, (c₁.threads t).out <+: respsOf s0 c₁.log t := fun t =>
    List.IsPrefix.trans ⟨_, hinv.outs t⟩ (respsOf_completed_prefix s0 c₁ t)
  refine ⟨more, hlog, hpre, ?_, hinv.order, ?_⟩
  · intro t
    rw [hlog, respsOf_append]
    exact List.IsPrefix.trans (hpre t) (List.prefix_append _ _)
  · intro t; rw [hlog, requestsOf_append]

/-- **The serial order respects real time.**  If at some moment of the run (after `s₁`) client `t` has already
RECEIVED the answer to its `i`-th request (`i < out.length`) and client `t'` has NOT YET SENT its `j`-th request
(it is still in `todo`: `todo` is the tail of `prog t'`, so that says `(prog t').length - todo.length ≤ j`), then
in the final serial order the `i`-th request of `t` comes before the `j`-th request of `t'`, wherever the
latter is logged (`p'`; at quiescence every `j < (prog t').length` is logged, `mutex_serialises`) — more
precisely the former was already in the log at that moment and the latter was not.  Requests are counted from 0. -/
theorem real_time_order (s0 : S) (prog : Nat → List (Handler S L R)) (s₁ s₂ : List Nat) (c₁ c₂ : Config S L R)
    (h₁ : c₁ = exec (initial s0 prog) s₁) (h₂ : c₂ = exec (initial s0 prog) (s₁ ++ s₂))
    (t t' i j p' : Nat)
    (hreceived : i < (c₁.threads t).out.length)
    (hnotsent : (prog t').length - (c₁.threads t').todo.length ≤ j)
    (hp' : posOf c₂.log t' j = some p') :
    ∃ p, posOf c₂.log t i = some p ∧ p < p' ∧ p < c₁.log.length ∧ c₁.log.length ≤ p' := by
  obtain ⟨more, hlog, hpre, _, hord, _⟩ := real_time s0 prog s₁ s₂ c₁ c₂ h₁ h₂
  have hi : i < (proj c₁.log t).length := by
    have := (hpre t).length_le
    rw [respsOf_length, requestsOf_eq_proj] at this
    omega
  obtain ⟨p, hp⟩ := posOf_isSome c₁.log t i hi
  have hplt := posOf_lt_length _ _ _ _ hp
  have hj : (proj c₁.log t').length ≤ j := by
    have := congrArg List.length (hord t')
    simp only [List.length_append, requestsOf_eq_proj] at this
    omega
  rw [hlog] at hp' ⊢
  have hge := posOf_append_ge c₁.log more t' j p' hj hp'
  exact ⟨p, posOf_append_left _ _ _ _ _ hp, by omega, hplt, hge⟩

/-! ## the responses are the engine spec's -/

section Spec
open Crem.Engine

variable {L : Type}

/-- a handler *implements* a request if, run alone, it does what the engine spec does for that request -/
def Implements (q : Quirks) (W : World) (h : Handler State L Response) (r : Request) : Prop :=
  ∀ s : State, h.atomic s = Crem.Engine.step q W s r

/-- If every handler implements its request of the spec (C14/C15), a serial order of handlers is the spec's run
of the corresponding request list: with `mutex_serialises`, every response a concurrent client receives and the
final state are those of `Crem.Engine.run` on some ordering of the requests. -/
theorem responses_from_spec (q : Quirks) (W : World) (reqOf : Handler State L Response → Request)
    (log : List (Nat × Handler State L Response))
    (himp : ∀ x ∈ log, Implements q W x.2 (reqOf x.2)) (s0 : State) :
    serial s0 log = Crem.Engine.exec q W s0 (log.map (fun x => reqOf x.2)) ∧
    (serialResps s0 log).map (·.2) = (Crem.Engine.run q W s0 (log.map (fun x => reqOf x.2))).1 := by
  induction log generalizing s0 with
  | nil => simp [serial, serialResps, Crem.Engine.exec, Crem.Engine.run]
  | cons x xs ih =>
    obtain ⟨t, h⟩ := x
    have hx := himp (t, h) (by simp)
    have ih' := ih (fun y hy => himp y (by simp [hy])) (h.atomic s0).2
    simp only [serial, serialResps, List.map_cons, Crem.Engine.exec, Crem.Engine.run] at ih' ⊢
    rw [← hx s0]
    exact ⟨ih'.1, by rw [ih'.2]⟩

/-- **The composed statement.**  Client programs whose handlers each implement, run alone, their request
`reqOf h` of the engine spec; any schedule; everything sent has been answered.  Then there is an interleaving
`order` of the clients' request lists (the acquisition log, each handler replaced by its request) such that
  (a) its projection on every client `t` is exactly the request list of `t` — program order, nothing lost,
      nothing added;
  (b) the final shared state is the engine spec's state after `order`, run one request at a time;
  (c) every client `t` has received exactly the spec's responses to its own requests in that serial run, in
      order: the responses `(Crem.Engine.run … order).1`, tagged with the clients of `order`, projected on `t`.
  (d) clause by clause `order` follows the acquisition log (same thread tags in the same places), so positions in
      `order` are positions in the log (`posOf_tags`) and `real_time_order` applies to it: the interleaving
      also respects real time. -/
theorem concurrent_is_spec_run (q : Quirks) (W : World) (reqOf : Handler State L Response → Request)
    (s0 : State) (prog : Nat → List (Handler State L Response))
    (himp : ∀ t, ∀ h ∈ prog t, Implements q W h (reqOf h))
    (sched : List Nat) (hq : Quiescent (exec (initial s0 prog) sched)) :
    ∃ order : List (Nat × Request),
      (∀ t, proj order t = (prog t).map reqOf) ∧
      (exec (initial s0 prog) sched).shared = Crem.Engine.exec q W s0 (order.map (·.2)) ∧
      (∀ t, ((exec (initial s0 prog) sched).threads t).out =
        proj ((order.map (·.1)).zip (Crem.Engine.run q W s0 (order.map (·.2))).1) t) ∧
      order.map (·.1) = (exec (initial s0 prog) sched).log.map (·.1) := by
  obtain ⟨hshared, houts, hreqs⟩ := mutex_serialises s0 prog sched hq
  generalize exec (initial s0 prog) sched = c at *
  have hlogimp : ∀ x ∈ c.log, Implements q W x.2 (reqOf x.2) := by
    intro x hx
    have := mem_proj_of_mem c.log x hx
    rw [← requestsOf_eq_proj, hreqs] at this
    exact himp x.1 x.2 this
  obtain ⟨hstate, hresps⟩ := responses_from_spec q W reqOf c.log hlogimp s0
  have hsnd : (c.log.map (fun x => (x.1, reqOf x.2))).map (·.2) = c.log.map (fun x => reqOf x.2) := by
    simp [List.map_map, Function.comp_def]
  have hfst : (c.log.map (fun x => (x.1, reqOf x.2))).map (·.1) = c.log.map (·.1) := by
    simp [List.map_map, Function.comp_def]
  refine ⟨c.log.map (fun x => (x.1, reqOf x.2)), ?_, ?_, ?_, hfst⟩
  · intro t; rw [proj_map_snd, ← requestsOf_eq_proj, hreqs]
  · rw [hshared, hstate, hsnd]
  · intro t
    rw [houts t, respsOf_eq_proj, hsnd, hfst, ← hresps, zip_tags_serialResps]

/-- A handler for the engine request `r` with two micro-steps, as a read-modify-write handler has them: the
first READS the shared engine state and computes the spec's `step` for the request into the thread's local
state (the local state also carries the request, as read by net/http before the lock: `pre`); the second WRITES
the computed state back.  Two such handlers interleaved without the lock lose an update (`Example.engineLost`). -/
def engineHandler (q : Quirks) (W : World) (r : Request) :
    Handler State (Request × Option (Response × State)) Response :=
  { pre := (r, none)
    steps := [ fun (l, s) => ((l.1, some (step q W s l.1)), s),
               fun (l, s) => (l, match l.2 with | some (_, s') => s' | none => s) ]
    resp := fun l => match l.2 with | some (resp, _) => resp | none => err 500 }

/-- run without interruption, the two micro-steps do what the spec does for the request -/
theorem engineHandler_implements (q : Quirks) (W : World) (r : Request) :
    Implements q W (engineHandler q W r) r := fun _ => rfl

/-- **Concurrent engine requests serialise** (no handlers in the statement).  Clients `t = 0, 1, …` send the
request lists `reqs t`, each request handled by the two-micro-step `engineHandler` under the one lock; any
schedule; everything sent has been answered.  Then there is an interleaving `order` of the `reqs t` (projection
on `t` is `reqs t`) such that the final engine state is `Crem.Engine.exec` of it and every client has received
exactly the responses `Crem.Engine.run` gives to its requests in it, in order; `order` follows the acquisition
log (last clause), so it respects real time (`real_time_order`, `posOf_tags`). -/
theorem concurrent_engine_requests_serialise (q : Quirks) (W : World) (s0 : State) (reqs : Nat → List Request)
    (sched : List Nat)
    (hq : Quiescent (exec (initial s0 (fun t => (reqs t).map (engineHandler q W))) sched)) :
    ∃ order : List (Nat × Request),
      (∀ t, proj order t = reqs t) ∧
      (exec (initial s0 (fun t => (reqs t).map (engineHandler q W))) sched).shared =
        Crem.Engine.exec q W s0 (order.map (·.2)) ∧
      (∀ t, ((exec (initial s0 (fun t => (reqs t).map (engineHandler q W))) sched).threads t).out =
        proj ((order.map (·.1)).zip (Crem.Engine.run q W s0 (order.map (·.2))).1) t) ∧
      order.map (·.1) = (exec (initial s0 (fun t => (reqs t).map (engineHandler q W))) sched).log.map (·.1) := by
  obtain ⟨order, ha, hb, hc, hd⟩ := concurrent_is_spec_run q W (fun h => h.pre.1) s0
    (fun t => (reqs t).map (engineHandler q W))
    (by
      intro t h hh
      obtain ⟨r, _, rfl⟩ := List.mem_map.1 hh
      exact engineHandler_implements q W r)
    sched hq
  refine ⟨order, ?_, hb, hc, hd⟩
  intro t
  rw [ha t, List.map_map]
  exact List.map_id'' (fun _ => rfl) _

/-- **… in an order that respects real time.**  The same, for a run `s₁ ++ s₂` observed also after `s₁`: the
interleaving `order` can be chosen such that moreover, whenever at that moment client `t` had already RECEIVED
the answer to its `i`-th request and client `t'` had NOT YET SENT its `j`-th request (still in `todo`), the
`i`-th request of `t` stands before the `j`-th request of `t'` in `order`. -/
theorem concurrent_engine_requests_real_time (q : Quirks) (W : World) (s0 : State) (reqs : Nat → List Request)
    (s₁ s₂ : List Nat)
    (hq : Quiescent (exec (initial s0 (fun t => (reqs t).map (engineHandler q W))) (s₁ ++ s₂))) :
    ∃ order : List (Nat × Request),
      (∀ t, proj order t = reqs t) ∧
      (exec (initial s0 (fun t => (reqs t).map (engineHandler q W))) (s₁ ++ s₂)).shared =
        Crem.Engine.exec q W s0 (order.map (·.2)) ∧
      (∀ t, ((exec (initial s0 (fun t => (reqs t).map (engineHandler q W))) (s₁ ++ s₂)).threads t).out =
        proj ((order.map (·.1)).zip (Crem.Engine.run q W s0 (order.map (·.2))).1) t) ∧
      (∀ t t' i j,
        i < ((exec (initial s0 (fun t => (reqs t).map (engineHandler q W))) s₁).threads t).out.length →
        (reqs t').length - ((exec (initial s0 (fun t => (reqs t).map (engineHandler q W))) s₁).threads t').todo.length ≤ j →
        j < (reqs t').length →
        ∃ p p', posOf order t i = some p ∧ posOf order t' j = some p' ∧ p < p') := by
  obtain ⟨order, ha, hb, hc, hd⟩ := concurrent_engine_requests_serialise q W s0 reqs (s₁ ++ s₂) hq
  refine ⟨order, ha, hb, hc, ?_⟩
  intro t t' i j hi hj hjlt
  obtain ⟨p', hp'⟩ := posOf_isSome order t' j (by rw [ha t']; exact hjlt)
  obtain ⟨p, hp, hlt, _, _⟩ := real_time_order s0 (fun t => (reqs t).map (engineHandler q W)) s₁ s₂ _ _ rfl rfl
    t t' i j p' hi (by simpa using hj) (by rw [← posOf_congr_tags _ _ hd]; exact hp')
  exact ⟨p, p', by rw [posOf_congr_tags _ _ hd]; exact hp, hp', hlt⟩

end Spec

/-! ## Non-vacuity and sanity examples (tests, labelled as such) -/

namespace Example

/-- a handler that increments a shared counter in two micro-steps (read into the local, write local + 1) and
answers with the value it wrote -/
def incr : Handler Nat Nat Nat :=
  { pre := 0, steps := [fun (_, s) => (s, s), fun (l, _) => (l + 1, l + 1)], resp := fun l => l }

def prog : Nat → List (Handler Nat Nat Nat)
  | 0 => [incr, incr]
  | 1 => [incr]
  | _ => []

/-- a schedule that interleaves the two threads at micro-step granularity and lets everybody finish -/
def sched : List Nat := (List.replicate 12 [0, 1]).flatten ++ List.replicate 12 0 ++ List.replicate 6 1

example : (exec (initial 0 prog) sched).shared = 3 := by decide
example : ((exec (initial 0 prog) sched).threads 0).out = [1, 3] ∧ ((exec (initial 0 prog) sched).threads 1).out = [2] := by
  decide
example : (exec (initial 0 prog) sched).log.map (·.1) = [0, 1, 0] := by decide
/-- the hypothesis of `mutex_serialises` is satisfiable: this schedule lets everybody finish — `Quiescent` for
ALL threads: the two with a program by evaluation, every other one by the frame lemma (a client with an empty
program never moves, `exec_initial_empty` through `quiescent_of_bounded`) -/
theorem sched_quiescent : Quiescent (exec (initial 0 prog) sched) := by
  apply quiescent_of_bounded 0 prog sched 2
  · intro t ht
    match t, ht with
    | t + 2, _ => rfl
  · intro t ht
    have : t = 0 ∨ t = 1 := by omega
    rcases this with rfl | rfl
    · exact ⟨List.eq_nil_of_length_eq_zero (by decide), True.intro⟩
    · exact ⟨List.eq_nil_of_length_eq_zero (by decide), True.intro⟩

/-- `quiescent_schedule_exists` applies (clients 2, 3, … have no program) -/
example : ∃ sched, Quiescent (exec (initial 0 prog) sched) :=
  quiescent_schedule_exists 0 prog 2 (fun t ht => match t, ht with | _ + 2, _ => rfl)

/-- … so `mutex_serialises` applies to it -/
example : (exec (initial 0 prog) sched).shared = serial 0 (exec (initial 0 prog) sched).log :=
  (mutex_serialises 0 prog sched sched_quiescent).1

/-- real time: let client 0 run alone until it has its first answer (six micro-steps: pick up, acquire, two
steps, release, deliver); client 1 has not sent anything yet; then let everybody finish -/
def s₁ : List Nat := List.replicate 6 0
def s₂ : List Nat := List.replicate 6 1 ++ List.replicate 6 0

/-- the hypotheses of `real_time_order` are satisfiable (client 0 has received answer 0, client 1 has not yet
sent its request 0, which ends up at position 1 of the final log), and its conclusion is the expected one:
request 0 of client 0 sits at a position before 1 -/
example : ∃ p, posOf (exec (initial 0 prog) (s₁ ++ s₂)).log 0 0 = some p ∧ p < 1 ∧
    p < (exec (initial 0 prog) s₁).log.length ∧ (exec (initial 0 prog) s₁).log.length ≤ 1 :=
  real_time_order 0 prog s₁ s₂ _ _ rfl rfl 0 1 0 0 1 (by decide) (by decide) (by decide)

example : ((exec (initial 0 prog) s₁).threads 0).out = [1] ∧ ((exec (initial 0 prog) s₁).threads 1).todo.length = 1 ∧
    (exec (initial 0 prog) (s₁ ++ s₂)).log.map (·.1) = [0, 1, 0] ∧
    Quiescent (exec (initial 0 prog) (s₁ ++ s₂)) := by
  refine ⟨by decide, by decide, by decide, ?_⟩
  apply quiescent_of_bounded 0 prog _ 2
  · intro t ht
    match t, ht with
    | t + 2, _ => rfl
  · intro t ht
    have : t = 0 ∨ t = 1 := by omega
    rcases this with rfl | rfl
    · exact ⟨List.eq_nil_of_length_eq_zero (by decide), True.intro⟩
    · exact ⟨List.eq_nil_of_length_eq_zero (by decide), True.intro⟩

/-- the same handlers without the lock (a thread enters its critical section whatever the lock says, as the code
does before D14 is repaired): an update is lost and two clients are told the same value — no serial order of
three increments answers 1, 1, 2 -/
def moveUnlocked {S L R : Type} (c : Config S L R) (t : Nat) : Config S L R :=
  match (c.threads t).phase with
  | .arrived h => { c with threads := upd c.threads t { c.threads t with phase := .running h h.pre h.steps } }
  | .running h l [] => { c with threads := upd c.threads t { c.threads t with phase := .responding h l } }
  | _ => move c t

def lost : Config Nat Nat Nat := sched.foldl moveUnlocked (initial 0 prog)

example : lost.shared = 2 ∧ (lost.threads 0).out = [1, 2] ∧ (lost.threads 1).out = [1] := by decide

/-! ### engine requests -/

section Engine
open Crem.Engine

def W : World := { valid := fun _ set => set.count true ≤ 2 }

def u : Universe :=
  { key := "k", acts := [(1, "GullyRestoration"), (2, "RiverBankRestoration")], pus := [1, 2], asIs := [] }

def text : Bytes := [0x5B, 0x53, 0x5D]

def postScen : Request :=
  { method := .post, path := "/api/v1/scenario", ctype := tomlMime, text := text, facts := .scen (.ok "S" u) }

def putSub (path : String) (entries : List SubEntry) : Request :=
  { method := .put, path := path, ctype := jsonMime, text := [], facts := .sub (some entries) }

/-- client 0 posts a scenario and then reads the model; client 1 reads the scenario text -/
def reqs : Nat → List Request
  | 0 => [postScen, getReq "/api/v1/model/actions/active"]
  | 1 => [getReq "/api/v1/scenario"]
  | _ => []

def engineProg : Nat → List (Handler State (Request × Option (Response × State)) Response) :=
  fun t => (reqs t).map (engineHandler Quirks.spec W)

/-- the hypothesis of `concurrent_engine_requests_serialise` is satisfiable (same schedule as above: the two
clients alternate micro-step by micro-step, then everybody finishes) -/
theorem engine_quiescent : Quiescent (exec (initial State.init engineProg) sched) := by
  apply quiescent_of_bounded State.init engineProg sched 2
  · intro t ht
    match t, ht with
    | t + 2, _ => rfl
  · intro t ht
    have : t = 0 ∨ t = 1 := by omega
    rcases this with rfl | rfl
    · exact ⟨List.eq_nil_of_length_eq_zero (by decide), True.intro⟩
    · exact ⟨List.eq_nil_of_length_eq_zero (by decide), True.intro⟩

example : ∃ order : List (Nat × Request),
    (∀ t, proj order t = reqs t) ∧
    (exec (initial State.init engineProg) sched).shared = Crem.Engine.exec Quirks.spec W State.init (order.map (·.2)) ∧
    (∀ t, ((exec (initial State.init engineProg) sched).threads t).out =
      proj ((order.map (·.1)).zip (Crem.Engine.run Quirks.spec W State.init (order.map (·.2))).1) t) ∧
    order.map (·.1) = (exec (initial State.init engineProg) sched).log.map (·.1) :=
  concurrent_engine_requests_serialise Quirks.spec W State.init reqs sched engine_quiescent

/-- the real-time form: client 0 alone until it has the answer to its POST (six micro-steps), then everybody; its
POST stands before client 1's read in the interleaving -/
example : ∃ order : List (Nat × Request), (∀ t, proj order t = reqs t) ∧
    ∃ p p', posOf order 0 0 = some p ∧ posOf order 1 0 = some p' ∧ p < p' := by
  have hq : Quiescent (exec (initial State.init engineProg) (s₁ ++ sched)) := by
    apply quiescent_of_bounded State.init engineProg _ 2
    · intro t ht
      match t, ht with
      | t + 2, _ => rfl
    · intro t ht
      have : t = 0 ∨ t = 1 := by omega
      rcases this with rfl | rfl
      · exact ⟨List.eq_nil_of_length_eq_zero (by decide), True.intro⟩
      · exact ⟨List.eq_nil_of_length_eq_zero (by decide), True.intro⟩
  obtain ⟨order, ha, _, _, hrt⟩ := concurrent_engine_requests_real_time Quirks.spec W State.init reqs s₁ sched hq
  exact ⟨order, ha, hrt 0 1 0 0 (by decide) (by decide) (by decide)⟩

/-- what actually happened under that schedule: client 0 acquired first, client 1's read of the scenario came
second (and saw the posted text), client 0's read of the active actions third -/
example : (exec (initial State.init engineProg) sched).log.map (·.1) = [0, 1, 0] := by decide
example : ((exec (initial State.init engineProg) sched).threads 1).out = [ok (.text .toml text false)] := by decide
example : ((exec (initial State.init engineProg) sched).threads 0).out =
    [ok .success, ok (.active u [false, false])] := by decide

/-- the same two micro-steps WITHOUT the lock lose an update: on a loaded scenario two clients each switch on
one action of a different planning unit; both read the state before either writes back; both are told 200; the
final state has only one of the two actions — no serial order of the two requests gives that -/
def loaded : State := Crem.Engine.exec Quirks.spec W State.init [postScen]

def subProg : Nat → List (Handler State (Request × Option (Response × State)) Response)
  | 0 => [engineHandler Quirks.spec W (putSub "/api/v1/model/subcatchment/1" [⟨"GullyRestoration", .active⟩])]
  | 1 => [engineHandler Quirks.spec W (putSub "/api/v1/model/subcatchment/2" [⟨"RiverBankRestoration", .active⟩])]
  | _ => []

def engineLost : Config State (Request × Option (Response × State)) Response :=
  sched.foldl moveUnlocked (initial loaded subProg)

example : (engineLost.threads 0).out = [ok .success] ∧ (engineLost.threads 1).out = [ok .success] ∧
    engineLost.shared.live.map (·.active) = some [false, true] := by decide

/-- with the lock both updates are there -/
example : (exec (initial loaded subProg) sched).shared.live.map (·.active) = some [true, true] := by decide

end Engine

end Example

end Crem.Locking
