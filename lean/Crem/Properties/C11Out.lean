import Crem.Properties.C11
import Crem.Proofs.Solution
/-!
# C11 (output side) — "the same holds for the figures written to solution files and served by the engine"

`Properties/C11.lean` proves the aggregate identities for the STATE of the model.  What a user reads is not the
state: every figure of a solution file (CSV / JSON summary rows, detail files) and of the engine's documents
(`GET /api/v1/model`, `/solutions/<label>`, the sub-catchment table) is produced by `variable.MakeEncodeable`, which
ROUNDS the total and every per-planning-unit value to the variable's precision once more, DROPS the units whose value
rounds to zero and SORTS the rest by unit id (`Crem/Model/Solution.lean`).  Each of the three steps could break
the identities on its own (re-rounding shares individually, dropping entries, reading a dropped unit); this file proves
that none does, for every dataset with well-formed units, after ANY history of single interface calls (`RawOp`,
misuse included — the Saver's decompression model and the engine's model are driven by `setAll` / `reinit`, the
explorers' by `propose` / `accept` / `revert`), and for every order in which Go's map yields the units:

* `encodeable_value_is_total`          the written `Value` is the model's total, exactly;
* `encodeable_lists_unit_values`       the listed entries are exactly the units with a non-zero value, each with the
                                       model's value (nothing re-rounded away, nothing invented);
* `encodeable_unit_reads_model_value`  reading any unit off the written list (absent = 0) gives the model's value;
* `encodeable_value_eq_sum_listed`     `Value` = sum of the LISTED per-unit figures (total = sum of unit shares);
* `encodeable_tn_is_pn_plus_dn`        total nitrogen = particulate + dissolved, for `Value` and for every unit read
                                       off the three written lists (a unit listed under TN but dropped under DN included);
* `encodeable_sorted`, `encodeable_independent_of_map_order`   the written list is sorted by unit id, has each unit
                                       at most once, and does not depend on the map's iteration order;
* `solution_variables_consistent`      all of it for `Solution.DecisionVariables` as the builder assembles it;
* `detail_cells_are_model_values`, `detail_value_eq_sum_cells`, `detail_tn_cells`, `detail_rows_are_model_rows`
                                       the detail file (`…-NameMappedVariables.csv`): every row's planning-unit cells are the
                                       model's per-unit values in the solution's unit order, `Value` = sum of the cells, the TN
                                       row is the PN row plus the DN row cell by cell;
* `action_cell_is_action_state`, `action_matrix_determines_flags`, `action_cell_sound`
                                       the management-actions file: the cell of an action's unit and type is that action's
                                       state, the file determines the action set, no cell is 1 without an active action;
* `written_figures_history_independent`, `written_figures_are_of_fresh_model`
                                       C01 seen from the files: two conformant histories ending in the same active set write
                                       the same decision variables, detail rows and action matrix — those of a fresh model
                                       loaded with that set.

Exact in ℚ (DESIGN 3.1); the tie to the Go code is the `enc` operation of the `catchment-walk` protocol (the real
`MakeEncodeable` / `SolutionBuilder` on the walked model against `solutionVariables`, line by line) and the direct
re-summation of every encodeable the harness obtains.  Every `theorem` in this file is audited by `./check C11`.
-/
namespace Crem.Catchment

/-- the written `Value` is the model's total: rounding an on-grid total once more changes nothing -/
theorem encodeable_value_is_total {D : Data} (hU : UnitsOK D) (ops : List RawOp) (units : List PU) (v : VarId) :
    (makeEncodeable units (runRaw D ops) v).value = total (runRaw D ops) v :=
  rnd_of_onGrid ((sumInv_of_any_history hU ops).total_onGrid v)

/-- the listed entries are exactly the units (of those the map yields) whose value is not zero, each with the
model's own value -/
theorem encodeable_lists_unit_values {D : Data} (hU : UnitsOK D) (ops : List RawOp) (units : List PU) (v : VarId)
    (p : PU) (x : Rat) :
    (p, x) ∈ (makeEncodeable units (runRaw D ops) v).perUnit ↔
      p ∈ units ∧ x = unitVal (runRaw D ops) v p ∧ x ≠ 0 := by
  unfold makeEncodeable
  rw [mem_encodeUnits, rnd_of_onGrid ((sumInv_of_any_history hU ops).unitVal_onGrid v p)]

/-- the written list is sorted by planning-unit id and lists no unit twice -/
theorem encodeable_sorted {D : Data} (hU : UnitsOK D) (s : State) (units : List PU) (v : VarId)
    (hperm : units.Perm (planningUnits D)) :
    (makeEncodeable units s v).perUnit.Pairwise (fun a b => a.1 ≤ b.1) ∧
    ((makeEncodeable units s v).perUnit.map (·.1)).Nodup := by
  have hd : units.Nodup := hperm.nodup_iff.mpr (nodup_of_pusDistinct hU.distinct)
  exact ⟨encodeUnits_sorted _ _ _, encodeUnits_keys_nodup _ hd⟩

/-- reading a unit of the dataset off the written list — the listed figure, 0 when the unit is not listed — gives
the model's per-unit value -/
theorem encodeable_unit_reads_model_value {D : Data} (hU : UnitsOK D) (ops : List RawOp) (units : List PU)
    (hperm : units.Perm (planningUnits D)) (v : VarId) (p : PU) (hp : p ∈ planningUnits D) :
    (makeEncodeable units (runRaw D ops) v).unit p = unitVal (runRaw D ops) v p := by
  have hd := (encodeable_sorted hU (runRaw D ops) units v hperm).2
  by_cases hz : unitVal (runRaw D ops) v p = 0
  · -- not listed: the reader finds nothing
    unfold EncVar.unit
    cases hf : (makeEncodeable units (runRaw D ops) v).perUnit.find? (fun x => x.1 == p) with
    | none => exact hz.symm
    | some e =>
      have hm := List.mem_of_find?_eq_some hf
      have hk : e.1 = p := by simpa using List.find?_some hf
      have := (encodeable_lists_unit_values hU ops units v e.1 e.2).mp hm
      rw [hk] at this
      exact absurd (this.2.1.trans hz) this.2.2
  · have hm : (p, unitVal (runRaw D ops) v p) ∈ (makeEncodeable units (runRaw D ops) v).perUnit :=
      (encodeable_lists_unit_values hU ops units v p _).mpr ⟨hperm.mem_iff.mpr hp, rfl, hz⟩
    unfold EncVar.unit
    rw [find_of_mem_nodup hd hm]

/-- **total = sum of unit shares, on the written figures**: `Value` equals the sum of the listed entries -/
theorem encodeable_value_eq_sum_listed {D : Data} (hU : UnitsOK D) (ops : List RawOp) (units : List PU)
    (hperm : units.Perm (planningUnits D)) (v : VarId) :
    (makeEncodeable units (runRaw D ops) v).value =
      ((makeEncodeable units (runRaw D ops) v).perUnit.map (·.2)).sum := by
  have h := sumInv_of_any_history hU ops
  rw [encodeable_value_is_total hU ops units v]
  unfold makeEncodeable
  rw [encodeUnits_sum, h.total_eq_unitSum hU v]
  have e : (units.map fun p => rnd (reportingPrecision v) (unitVal (runRaw D ops) v p)) =
      units.map (fun p => unitVal (runRaw D ops) v p) :=
    List.map_congr_left (fun p _ => rnd_of_onGrid (h.unitVal_onGrid v p))
  rw [e]
  exact (sum_perm_rat (hperm.map _)).symm

/-- **total nitrogen = particulate + dissolved, on the written figures**: for the catchment `Value`s and for every
planning unit read off the three written lists -/
theorem encodeable_tn_is_pn_plus_dn {D : Data} (hU : UnitsOK D) (ops : List RawOp) (units : List PU)
    (hperm : units.Perm (planningUnits D)) :
    (makeEncodeable units (runRaw D ops) .tn).value =
        (makeEncodeable units (runRaw D ops) .pn).value + (makeEncodeable units (runRaw D ops) .dn).value ∧
    ∀ p ∈ planningUnits D,
      (makeEncodeable units (runRaw D ops) .tn).unit p =
        (makeEncodeable units (runRaw D ops) .pn).unit p + (makeEncodeable units (runRaw D ops) .dn).unit p := by
  have h := aggregates_consistent_any_history hU ops
  refine ⟨?_, ?_⟩
  · rw [encodeable_value_is_total hU, encodeable_value_is_total hU, encodeable_value_is_total hU]
    exact h.2.2.1
  · intro p hp
    rw [encodeable_unit_reads_model_value hU ops units hperm _ p hp,
      encodeable_unit_reads_model_value hU ops units hperm _ p hp,
      encodeable_unit_reads_model_value hU ops units hperm _ p hp]
    exact h.2.1 p

/-- the written variable does not depend on the order in which Go's map yields the planning units -/
theorem encodeable_independent_of_map_order {D : Data} (hU : UnitsOK D) (s : State) (units₁ units₂ : List PU)
    (h₁ : units₁.Perm (planningUnits D)) (h₂ : units₂.Perm (planningUnits D)) (v : VarId) :
    makeEncodeable units₁ s v = makeEncodeable units₂ s v := by
  have hp : (makeEncodeable units₁ s v).perUnit.Perm (makeEncodeable units₂ s v).perUnit := by
    unfold makeEncodeable
    refine (encodeUnits_perm _ _ _).trans (List.Perm.trans ?_ (encodeUnits_perm _ _ _).symm)
    exact ((h₁.trans h₂.symm).map _).filter _
  have s₁ := encodeable_sorted hU s units₁ v h₁
  have s₂ := encodeable_sorted hU s units₂ v h₂
  have he : (makeEncodeable units₁ s v).perUnit = (makeEncodeable units₂ s v).perUnit := by
    refine List.Perm.eq_of_pairwise (le := fun a b => a.1 ≤ b.1) ?_ s₁.1 s₂.1 hp
    intro a b ha hb hab hba
    have hk : a.1 = b.1 := Int.le_antisymm hab hba
    have hb' : b ∈ (makeEncodeable units₁ s v).perUnit := hp.mem_iff.mpr hb
    have fa := find_of_mem_nodup s₁.2 (show (a.1, a.2) ∈ _ from ha)
    have fb := find_of_mem_nodup s₁.2 (show (b.1, b.2) ∈ _ from hb')
    rw [hk] at fa
    have h2 : a.2 = b.2 := (Prod.mk.inj (Option.some.inj (fa.symm.trans fb))).2
    exact Prod.ext hk h2
  show (⟨v, _, _⟩ : EncVar) = ⟨v, _, _⟩
  unfold makeEncodeable at he
  simp only at he
  rw [he]

/-- **`Solution.DecisionVariables` as the builder assembles it**: six variables in name order; for each the written
`Value` is the model's total and the sum of its listed entries; total nitrogen is particulate plus dissolved -/
theorem solution_variables_consistent {D : Data} (hU : UnitsOK D) (ops : List RawOp) (units : List PU)
    (hperm : units.Perm (planningUnits D)) :
    (solutionVariables units (runRaw D ops)).map (·.id) = varsByName ∧
    (∀ e ∈ solutionVariables units (runRaw D ops),
      e.value = total (runRaw D ops) e.id ∧ e.value = (e.perUnit.map (·.2)).sum ∧
      ∀ p ∈ planningUnits D, e.unit p = unitVal (runRaw D ops) e.id p) := by
  refine ⟨rfl, ?_⟩
  intro e he
  obtain ⟨v, _, rfl⟩ := List.mem_map.mp he
  exact ⟨encodeable_value_is_total hU ops units v, encodeable_value_eq_sum_listed hU ops units hperm v,
    fun p hp => encodeable_unit_reads_model_value hU ops units hperm v p hp⟩

/-! ## The detail file (`…-NameMappedVariables.csv`): one cell per planning unit of the solution -/

/-- the cell `planningUnitValueList` writes for a unit is what a reader of the encoded variable finds for it -/
theorem detail_cell_is_unit {D : Data} (hU : UnitsOK D) (s : State) (units : List PU)
    (hperm : units.Perm (planningUnits D)) (v : VarId) (p : PU) :
    unitLast (makeEncodeable units s v).perUnit p = (makeEncodeable units s v).unit p := by
  rw [unitLast_eq_find (encodeable_sorted hU s units v hperm).2]
  rfl

/-- **the row of a variable in the detail file is the model's row**: cell by cell, in the order `pus` in which the
solution lists its planning units (the model's `PlanningUnits()`: the row order of the sub-catchment table, which need
not be the order of the variables' maps), the model's per-unit values (a unit the encodeable dropped is written 0, which
is its value) -/
theorem detail_cells_are_model_values {D : Data} (hU : UnitsOK D) (ops : List RawOp) (units pus : List PU)
    (hperm : units.Perm (planningUnits D)) (hpus : ∀ p ∈ pus, p ∈ planningUnits D) (v : VarId) :
    detailCells (makeEncodeable units (runRaw D ops) v) pus = pus.map (unitVal (runRaw D ops) v) := by
  unfold detailCells
  apply List.map_congr_left
  intro p hp
  rw [detail_cell_is_unit hU _ units hperm v p, encodeable_unit_reads_model_value hU ops units hperm v p (hpus p hp)]

/-- **total = sum of unit shares, in the detail file**: the `Value` cell of every row equals the sum of the row's
planning-unit cells (zeros included), whatever the order in which the solution lists the units -/
theorem detail_value_eq_sum_cells {D : Data} (hU : UnitsOK D) (ops : List RawOp) (units pus : List PU)
    (hperm : units.Perm (planningUnits D)) (hpus : pus.Perm (planningUnits D)) (v : VarId) :
    (makeEncodeable units (runRaw D ops) v).value =
      (detailCells (makeEncodeable units (runRaw D ops) v) pus).sum := by
  rw [detail_cells_are_model_values hU ops units pus hperm (fun p hp => hpus.mem_iff.mp hp) v,
    encodeable_value_is_total hU ops units v, sum_perm_rat (hpus.map _)]
  exact (sumInv_of_any_history hU ops).total_eq_unitSum hU v

/-- **total nitrogen = particulate + dissolved, in the detail file**: cell by cell -/
theorem detail_tn_cells {D : Data} (hU : UnitsOK D) (ops : List RawOp) (units pus : List PU)
    (hperm : units.Perm (planningUnits D)) (hpus : ∀ p ∈ pus, p ∈ planningUnits D) :
    detailCells (makeEncodeable units (runRaw D ops) .tn) pus =
      List.zipWith (· + ·) (detailCells (makeEncodeable units (runRaw D ops) .pn) pus)
        (detailCells (makeEncodeable units (runRaw D ops) .dn) pus) := by
  rw [detail_cells_are_model_values hU ops units pus hperm hpus, detail_cells_are_model_values hU ops units pus hperm hpus,
    detail_cells_are_model_values hU ops units pus hperm hpus, List.zipWith_map_left, List.zipWith_map_right,
    List.zipWith_self]
  apply List.map_congr_left
  intro p _
  exact (aggregates_consistent_any_history hU ops).2.1 p

/-- the whole file: six rows in name order, each with the model's total and the model's per-unit row -/
theorem detail_rows_are_model_rows {D : Data} (hU : UnitsOK D) (ops : List RawOp) (units pus : List PU)
    (hperm : units.Perm (planningUnits D)) (hpus : ∀ p ∈ pus, p ∈ planningUnits D) :
    detailRows units pus (runRaw D ops) =
      varsByName.map fun v => (v, total (runRaw D ops) v, pus.map (unitVal (runRaw D ops) v)) := by
  unfold detailRows solutionVariables
  rw [List.map_map]
  apply List.map_congr_left
  intro v _
  show ((makeEncodeable units (runRaw D ops) v).id, (makeEncodeable units (runRaw D ops) v).value, _) = _
  rw [detail_cells_are_model_values hU ops units pus hperm hpus v, encodeable_value_is_total hU ops units v]
  rfl

example :
    let s := runRaw exData [.propose 0, .accept, .propose 1, .revert, .revert]
    detailRows (planningUnits exData) (planningUnits exData).reverse s =
      varsByName.map fun v => (v, total s v, (planningUnits exData).reverse.map (unitVal s v)) := by decide +kernel

/-! ## The management-actions file (`…-ManagementActions.csv`): the action set, losslessly -/

/-- the cell of an action's own planning unit and type is that action's state: 1 iff the action is active -/
theorem action_cell_is_action_state {acts : List Action} (hK : KeysDistinct acts) (flags : List Bool)
    (hl : flags.length = acts.length) (i : Nat) (hi : i < acts.length) :
    activeIn acts flags acts[i].pu acts[i].typ = flags[i]'(hl ▸ hi) :=
  activeIn_own hK hl i hi

/-- **the management-actions file determines the action set**: two solutions of one scenario whose files have the same
cells have the same action states (hence the same encoding), provided no two actions share (unit, type) and every action's
unit is among the solution's planning units.  Together with C09's `decode_encode` this is what makes the three written
views of a solution — the `Actions` text of its summary row, the management-actions file, the model state — interchangeable. -/
theorem action_matrix_determines_flags {acts : List Action} (hK : KeysDistinct acts) (pus : List PU)
    (hpus : ∀ a ∈ acts, a.pu ∈ pus) (f₁ f₂ : List Bool) (h₁ : f₁.length = acts.length) (h₂ : f₂.length = acts.length)
    (h : actionMatrix acts f₁ pus = actionMatrix acts f₂ pus) : f₁ = f₂ := by
  apply List.ext_getElem (h₁.trans h₂.symm)
  intro i hi₁ hi₂
  have hi : i < acts.length := h₁ ▸ hi₁
  have hrow := (List.map_inj_left.mp h) acts[i].pu (hpus _ (List.getElem_mem hi))
  have hcells := (List.map_inj_left.mp (Prod.mk.inj hrow).2) acts[i].typ (mem_typesPresent (List.getElem_mem hi))
  rw [activeIn_own hK h₁ i hi, activeIn_own hK h₂ i hi] at hcells
  exact hcells

/-- a cell is 1 only where an active action of that unit and type exists (nothing is invented) -/
theorem action_cell_sound {acts : List Action} {flags : List Bool} {p : PU} {t : ActType}
    (h : activeIn acts flags p t = true) : ∃ ab ∈ acts.zip flags, ab.2 = true ∧ ab.1.pu = p ∧ ab.1.typ = t := by
  unfold activeIn at h
  rw [List.any_eq_true] at h
  obtain ⟨ab, hm, hc⟩ := h
  simp only [Bool.and_eq_true, decide_eq_true_eq] at hc
  exact ⟨ab, hm, hc.1.1, hc.1.2, hc.2⟩

example : KeysDistinct exData.acts := by decide +kernel
/-- the hypothesis is needed: with two actions of the same unit and type the file cannot tell which one is active -/
example :
    let a : Action := { pu := 1, typ := .gully, k := default }
    actionMatrix [a, a] [true, false] [1] = actionMatrix [a, a] [false, true] [1] := by decide +kernel

/-! ## History independence of what is written (C01 seen from the files) -/

/-- the encodeable variable is a function of the totals and per-unit values alone -/
theorem makeEncodeable_congr {s₁ s₂ : State} (units : List PU) (v : VarId)
    (ht : total s₁ v = total s₂ v) (hu : ∀ p, unitVal s₁ v p = unitVal s₂ v p) :
    makeEncodeable units s₁ v = makeEncodeable units s₂ v := by
  unfold makeEncodeable
  rw [ht, show unitVal s₁ v = unitVal s₂ v from funext hu]

/-- **two histories that end in the same active set write the same files**: the decision variables of the solution, the
numeric content of the detail file and the management-actions file are identical — whatever was proposed, accepted,
reverted, set, re-initialised or randomised on the way (conformant histories, C01) -/
theorem written_figures_history_independent {D : Data} (hI : InitConsistent D) (hK : KeysDistinct D.acts)
    (h₁ h₂ : List Tx) (hf : (run D h₁).flags = (run D h₂).flags) (units pus : List PU) :
    solutionVariables units (run D h₁) = solutionVariables units (run D h₂) ∧
    detailRows units pus (run D h₁) = detailRows units pus (run D h₂) ∧
    actionMatrix D.acts (run D h₁).flags pus = actionMatrix D.acts (run D h₂).flags pus := by
  have hv := history_independent hI hK h₁ h₂ hf
  have hs : solutionVariables units (run D h₁) = solutionVariables units (run D h₂) := by
    unfold solutionVariables
    apply List.map_congr_left
    intro v _
    exact makeEncodeable_congr units v (hv v 0).1 (fun p => (hv v p).2)
  refine ⟨hs, ?_, by rw [hf]⟩
  unfold detailRows
  rw [hs]

/-- **… and they are the files of a freshly initialised model to which exactly that set is applied** -/
theorem written_figures_are_of_fresh_model {D : Data} (hI : InitConsistent D) (hK : KeysDistinct D.acts)
    (txs : List Tx) (units pus : List PU) :
    solutionVariables units (run D txs) = solutionVariables units (setAll D (init D) (run D txs).flags) ∧
    detailRows units pus (run D txs) = detailRows units pus (setAll D (init D) (run D txs).flags) ∧
    actionMatrix D.acts (run D txs).flags pus =
      actionMatrix D.acts (setAll D (init D) (run D txs).flags).flags pus := by
  obtain ⟨hfl, hv⟩ := equals_fresh_model hI hK txs
  have hs : solutionVariables units (run D txs) = solutionVariables units (setAll D (init D) (run D txs).flags) := by
    unfold solutionVariables
    apply List.map_congr_left
    intro v _
    exact makeEncodeable_congr units v (hv v 0).1 (fun p => (hv v p).2)
  refine ⟨hs, ?_, by rw [hfl]⟩
  unfold detailRows
  rw [hs]

/-! ## The rounding primitive (`pkg/math.RoundFloat`, tied directly by the suite `round-ops`)

What the four direct clauses of `round-ops` check on the Go function are theorems about `rnd`, the definition that suite
compares it with line by line — so the model's rounding is characterised completely: the nearest point of the 10⁻ᵖ grid,
the one away from zero when two are nearest. -/

/-- rounding commutes with negation: what an action added when switched on is what it takes back when switched off -/
theorem round_mirror (p : Nat) (x : Rat) : rnd p (-x) = -rnd p x := rnd_neg p x

/-- a figure on the grid stays where it is -/
theorem round_idempotent (p : Nat) (x : Rat) : rnd p (rnd p x) = rnd p x := rnd_rnd p x

/-- every rounded figure is a whole number of grid units -/
theorem round_on_grid (p : Nat) (x : Rat) : OnGrid p (rnd p x) := rnd_onGrid p x

/-- never further than half a grid unit from the value -/
theorem round_nearest (p : Nat) (x : Rat) :
    -(1/2) ≤ (rnd p x - x) * (10^p : Nat) ∧ (rnd p x - x) * (10^p : Nat) ≤ 1/2 := rnd_nearest p x

/-- exact ties go AWAY from zero, on both sides of it -/
theorem round_ties_away (p : Nat) (k : Nat) :
    rnd p ((((k : Int) : Rat) + 1/2) / (10^p : Nat)) = (((k : Int) + 1 : Int) : Rat) / (10^p : Nat) ∧
    rnd p (-((((k : Int) : Rat) + 1/2) / (10^p : Nat))) = -((((k : Int) + 1 : Int) : Rat) / (10^p : Nat)) :=
  rnd_tie_away p k

/-- the changed tie rule of the seeded changes C01k / C05k / C12k / C14k (`⌊x·10ᵖ + ½⌋`, "half up") is NOT this function:
it sends −0.125 to −0.12 where `rnd` gives −0.13, and so is not odd -/
example : rnd 2 (-(1 : Rat) / 8) = -(13 : Rat) / 100 ∧
    (((-(1 : Rat) / 8 * 100 + 1/2).floor : Int) : Rat) / 100 = -(12 : Rat) / 100 := by decide +kernel

/-! Non-vacuity / sanity (tests, labelled as such) on the C01 dataset: a state after a misuse history, the map
yielding the units backwards; a unit whose share is zero is dropped from the list and still read as 0. -/

example : unitsOK exData = true := by decide +kernel

example :
    let s := runRaw exData [.propose 0, .accept, .propose 1, .revert, .revert]
    let e := makeEncodeable (planningUnits exData).reverse s .tn
    e.value = (e.perUnit.map (·.2)).sum ∧ e.value = total s .tn ∧
      e = makeEncodeable (planningUnits exData) s .tn := by decide +kernel

/-- each of the three steps matters: WITHOUT the grid invariant (a per-unit value off the grid) re-rounding the
shares individually breaks "value = sum of the listed entries" — `encodeUnits` of two shares of 0.0004 lists nothing
although their total 0.0008 rounds to 0.001 -/
example : (encodeUnits 3 [1, 2] (fun _ => (4 : Rat) / 10000)).map (·.2) = [] ∧
    rnd 3 ((4 : Rat) / 10000 + 4 / 10000) = 1 / 1000 := by decide +kernel

end Crem.Catchment
