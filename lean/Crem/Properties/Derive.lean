import Crem.Proofs.CatchmentDerive
import Crem.Properties.C01
/-!
# C01, the data hypothesis discharged: crem's derivation of scenario data from the CSV tables

`Properties/C01.lean` proves history independence for every dataset `D` satisfying the decidable
hypotheses `InitConsistent D` ("the initial attribute records agree with the contexts later deltas
assume") and `KeysDistinct D.acts`.  There `D` is *extracted* from the running Go model and the
hypotheses are evaluated on it.  Here the derivation itself is in the model
(`Crem/Model/CatchmentDerive.lean`: `derive : Tables → Data`, transcribed from the four action groups,
the three sediment contribution calculators and the initial-state derivation of the three pollutant
variables, validated against the Go code by the `catchment-derive` suite), and the hypotheses
become **lemmas**: for every well-formed set of tables — any number of sub-catchments, gullies and
action rows, any cell values, any parameter values —

* `derive_initConsistent : WellFormedTables T → InitConsistent (derive T)`
* `derive_keysDistinct   : KeysDistinct (derive T).acts`            (no hypothesis needed)

and C01 follows with a hypothesis on the TABLES only (`history_independent_of_tables`).

`WellFormedTables T` (decidable): sub-catchment ids pairwise distinct, and every gully row names a
listed sub-catchment.  Both clauses are necessary (examples at the end): with a duplicated id the
sediment variable keeps the last row's vegetation while the nitrogen variables keep the first, and
a gully in an unlisted unit yields an action whose unit has no attribute record at all.
Nothing is required of the actions table (several rows for one (unit, type): the last wins, in the
action constants and in the initial records alike; unknown type texts are ignored by both).

Every `theorem` in this file is audited (`#print axioms`).
-/
namespace Crem.Catchment

/-- **The initial attribute records crem derives agree with the constants of the actions it builds.** -/
theorem derive_initConsistent {T : Tables} (hW : WellFormedTables T) : InitConsistent (derive T) := by
  unfold InitConsistent initConsistent derive
  simp only [Bool.and_eq_true, decide_eq_true_eq]
  refine ⟨⟨⟨⟨⟨⟨⟨?_, ?_⟩, ?_⟩, ?_⟩, ?_⟩, ?_⟩, ?_⟩, ?_⟩
  · exact derive_initConsistentFor hW .sed sedCtx rfl
  · exact derive_initConsistentFor hW .pn pnCtx rfl
  · exact derive_initConsistentFor hW .dn dnCtx rfl
  · exact pusDistinct_map (nodup_sortedUnits T)
  · exact pusDistinct_map (nodup_sortedUnits T)
  · exact pusDistinct_map (nodup_sortedUnits T)
  · simp [List.map_map, Function.comp_def]
  · simp [List.map_map, Function.comp_def]

/-- **No two derived actions share (planning unit, type)** — for every set of tables: each group
keeps its actions in a map keyed by planning unit and the four groups build four different types. -/
theorem derive_keysDistinct (T : Tables) : KeysDistinct (derive T).acts := by
  unfold KeysDistinct derive
  rw [keysDistinct_iff]
  exact ((isort_perm actLe _).pairwise_iff keyNe_symm).mpr (gatherActs_pairwise T)

/-- the derived action list is the gathered list of the four groups, rearranged … -/
theorem derive_acts_perm (T : Tables) : (derive T).acts.Perm (gatherActs T) := isort_perm actLe _

/-- … into the order of `ManagementActions.Less` (planning unit, then type string): no later
action is `Less` than an earlier one -/
theorem derive_acts_sorted (T : Tables) : (derive T).acts.Pairwise (fun a b => lessAct b a = false) := by
  have h := isort_sorted actLe actLe_total actLe_trans (gatherActs T)
  exact h.imp (fun {a b} hab => (actLe_iff_not_less a b).mp hab)

/-- **The derived action list does not depend on Go's map iteration order or sorting algorithm.**
`sort.Sort` is not transcribed but characterised by its contract: whatever order the four groups'
maps are ranged over (`l` is any permutation of the gathered actions) and however the slice is sorted
(no later element `Less` than an earlier one), the result is `(derive T).acts`. -/
theorem derive_acts_unique (T : Tables) (l : List Action) (hp : l.Perm (gatherActs T))
    (hs : l.Pairwise (fun a b => lessAct b a = false)) : l = (derive T).acts := by
  have hd : (derive T).acts.Perm (gatherActs T) := derive_acts_perm T
  have hk : l.Pairwise KeyNe := (hp.pairwise_iff keyNe_symm).mpr (gatherActs_pairwise T)
  have hl : l.Pairwise (fun a b => actLe a b = true) :=
    hs.imp (fun {a b} hab => (actLe_iff_not_less a b).mpr hab)
  have hm : (derive T).acts.Pairwise (fun a b => actLe a b = true) :=
    isort_sorted actLe actLe_total actLe_trans (gatherActs T)
  refine List.Perm.eq_of_pairwise ?_ hl hm (hp.trans hd.symm)
  intro a b ha hb h1 h2
  exact eq_of_key_eq hk ha ((hp.trans hd.symm).mem_iff.mpr hb) (actLe_antisymm_key h1 h2)

/-- the derived records cover exactly the sub-catchments of the table, each once -/
theorem derive_units (T : Tables) :
    ((derive T).sed0.map (·.1)).Nodup ∧ ∀ p, p ∈ (derive T).sed0.map (·.1) ↔ p ∈ T.subs.map (·.id) := by
  have h : (derive T).sed0.map (·.1) = sortedUnits T := by
    simp [derive, List.map_map, Function.comp_def]
  rw [h]
  exact ⟨nodup_sortedUnits T, fun _ => mem_sortedUnits⟩

/-- limits are scenario parameters, not table cells; they do not enter the hypotheses -/
theorem deriveWithLimits_hyps {T : Tables} (hW : WellFormedTables T) (L : Data) :
    InitConsistent (deriveWithLimits T L) ∧ KeysDistinct (deriveWithLimits T L).acts :=
  ⟨derive_initConsistent hW, derive_keysDistinct T⟩

/-- the central invariant on every state reachable by a conformant history, from the tables -/
theorem canon_of_history_of_tables {T : Tables} (hW : WellFormedTables T) (L : Data) (txs : List Tx) :
    Canon (deriveWithLimits T L) (run (deriveWithLimits T L) txs) :=
  canon_of_history (deriveWithLimits_hyps hW L).1 (deriveWithLimits_hyps hW L).2 txs

/-- **C01 with a hypothesis on the tables only**: for every well-formed set of tables (and any
limits `L`), two conformant histories of the model crem builds from them that end in the same
active set give the same catchment total and the same per-planning-unit value of every variable. -/
theorem history_independent_of_tables {T : Tables} (hW : WellFormedTables T) (L : Data)
    (h₁ h₂ : List Tx)
    (hf : (run (deriveWithLimits T L) h₁).flags = (run (deriveWithLimits T L) h₂).flags) :
    ∀ v p, total (run (deriveWithLimits T L) h₁) v = total (run (deriveWithLimits T L) h₂) v ∧
           unitVal (run (deriveWithLimits T L) h₁) v p = unitVal (run (deriveWithLimits T L) h₂) v p :=
  history_independent (deriveWithLimits_hyps hW L).1 (deriveWithLimits_hyps hW L).2 h₁ h₂ hf

/-- … and they agree with a freshly initialised model to which exactly that set is applied -/
theorem equals_fresh_model_of_tables {T : Tables} (hW : WellFormedTables T) (L : Data) (txs : List Tx) :
    let D := deriveWithLimits T L
    (setAll D (init D) (run D txs).flags).flags = (run D txs).flags ∧
    ∀ v p, total (run D txs) v = total (setAll D (init D) (run D txs).flags) v ∧
           unitVal (run D txs) v p = unitVal (setAll D (init D) (run D txs).flags) v p :=
  equals_fresh_model (deriveWithLimits_hyps hW L).1 (deriveWithLimits_hyps hW L).2 txs

/-! ### Non-vacuity and sanity examples (tests, labelled as such) -/

/-- three sub-catchments (listed out of order), gullies in two of them, all four action types, a
repeated (unit, type) actions row, a lower-case `wetland` row (ignored) and an unknown type text -/
def exTables : Tables :=
  { subs := [ { id := 7, veg := 3/10, bankPartial := 250 },
              { id := 2, veg := 4/5, bankPartial := 40 },
              { id := 5, veg := 1/5, bankPartial := 1000/3 } ],
    gullies := [ { unit := 7, volume := 4000 }, { unit := 5, volume := 0 }, { unit := 7, volume := 125/2 } ],
    actions := [ { unit := 7, typ := "Gully", oppCost := 10, implCost := 15146, pnOrig := 3/100, pnAct := 7/1000,
                   dnOrig := 1/10000, dnAct := 1/20000 },
                 { unit := 7, typ := "Hillslope", oppCost := 1, implCost := 1, pnOrig := 1, pnAct := 1, hillOrig := 1, hillAct := 1 },
                 { unit := 7, typ := "Hillslope", oppCost := 5449, implCost := 83690, pnOrig := 17/100, pnAct := 13/100,
                   hillOrig := 117/10, hillAct := 57/100, dnOrig := 3/2, dnAct := 7/5 },
                 { unit := 7, typ := "Riparian", oppCost := 700, implCost := 90000, fineOrig := 15/100, fineAct := 12/100,
                   dnOrig := 1/1000, dnAct := 1/2000, dnEff := 63/100 },
                 { unit := 2, typ := "Riparian", oppCost := 3, implCost := 4, fineOrig := 1/10, fineAct := 1/10 },
                 { unit := 2, typ := "Hillslope", hillOrig := 1/250, hillAct := 0, pnOrig := 2, dnOrig := 1 },
                 { unit := 5, typ := "Wetland", oppCost := 2000, implCost := 2500000, dnEff := 99/100, pnEff := 9/10, sedEff := 19/20 },
                 { unit := 2, typ := "wetland", oppCost := 1, implCost := 1, dnEff := 1/2, pnEff := 1/2, sedEff := 1/2 },
                 { unit := 5, typ := "Terracing", oppCost := 1, implCost := 1 } ] }

example : WellFormedTables exTables := by decide +kernel

/-- which actions exist, in which order: unit 2 has no riparian action (0.8 ≥ target), no hill-slope
action (0.004 × 0.05 × 0.25 rounds to 0) and no wetland (`wetland` ≠ `Wetland`); unit 5 has a gully
action although its only gully has volume 0; the second Hillslope row of unit 7 wins -/
example : (derive exTables).acts.map (fun a => (a.pu, a.typ)) =
    [(5, .gully), (5, .riparian), (5, .wetland), (7, .gully), (7, .hillslope), (7, .riparian)] := by
  decide +kernel

example : ((derive exTables).acts.map (·.k.origHillSed)) = [0, 0, 0, 0, 117/200, 0] := by decide +kernel

/-- some derived numbers: gully sediment 4000·1.5·0.5/100·0.5 + 62.5·… = 15 + 15/64, actioned = 20 % of it;
riparian sediment 250·(1 − 0.95·0.3); particulate riparian nitrogen = that × 0.15 × 0.01 -/
example : (getC (derive exTables).sed0 7) = some { veg := 3/10, rip := 715/4, gully := 975/64, hill := 117/200, wet := 0 } ∧
    ((derive exTables).acts.map (·.k.actGullySed)) = [0, 0, 0, 195/64, 0, 0] ∧
    ((getC (derive exTables).pn0 7).map (·.rip)) = some (715/4 * (15/100) * (1/100)) := by
  decide +kernel

example : InitConsistent (derive exTables) := derive_initConsistent (by decide +kernel)

/-- the derived model moves: the example is not trivially constant -/
example : total (run (derive exTables) [.acceptToggle 5]) .sed ≠ total (run (derive exTables) []) .sed := by
  decide +kernel

/-- **Distinct sub-catchment ids are necessary.**  Two rows for unit 1 (vegetation 0.3, then 0.5):
the sediment variable and the riparian action take the last row, the nitrogen variables the first;
`InitConsistent` fails, and switching the riparian action on and off again leaves the nitrogen
variables' vegetation attribute at 0.5 instead of 0.3, so that the hill-slope action then moves
particulate nitrogen by a different amount — a history-dependent valuation. -/
def exDupIds : Tables :=
  { subs := [ { id := 1, veg := 3/10, bankPartial := 100 }, { id := 1, veg := 1/2, bankPartial := 100 } ],
    gullies := [],
    actions := [ { unit := 1, typ := "Riparian", fineOrig := 1/10, fineAct := 1/10 },
                 { unit := 1, typ := "Hillslope", hillOrig := 100, hillAct := 50, pnOrig := 40, pnAct := 20 } ] }

example : ¬ WellFormedTables exDupIds ∧ ¬ InitConsistent (derive exDupIds) ∧
    (derive exDupIds).acts.map (fun a => (a.pu, a.typ)) = [(1, .hillslope), (1, .riparian)] ∧
    (run (derive exDupIds) [.acceptToggle 1, .acceptToggle 1, .acceptToggle 0]).flags
      = (run (derive exDupIds) [.acceptToggle 0]).flags ∧
    total (run (derive exDupIds) [.acceptToggle 1, .acceptToggle 1, .acceptToggle 0]) .pn
      ≠ total (run (derive exDupIds) [.acceptToggle 0]) .pn := by
  decide +kernel

/-- **Gullies must lie in listed sub-catchments.**  A gully in unit 9, which is not a sub-catchment:
crem builds a gully action for unit 9, for which no variable has an attribute record. -/
def exStrayGully : Tables :=
  { subs := [ { id := 1, veg := 3/10, bankPartial := 100 } ],
    gullies := [ { unit := 9, volume := 1000 } ],
    actions := [ { unit := 1, typ := "Riparian", fineOrig := 1/10, fineAct := 1/10 } ] }

example : ¬ WellFormedTables exStrayGully ∧ ¬ InitConsistent (derive exStrayGully) ∧
    (derive exStrayGully).acts.map (fun a => (a.pu, a.typ)) = [(1, .riparian), (9, .gully)] := by
  decide +kernel

end Crem.Catchment
