import Crem.Proofs.Kirkpatrick
import Crem.Properties.C02
import Mathlib.Analysis.Complex.Exponential
/-!
# C04 — single-objective acceptance follows the Metropolis rule in the set direction

Property theorems about the model of `kirkpatrick.Explorer.AcceptOrRevertChange` and
`kirkpatrick.Coolant.DecideIfAcceptable` (`Crem/Model/Kirkpatrick.lean`).

Reading of the arithmetic: `fieldArith exp` is exact arithmetic in an ordered field with `exp`
an *arbitrary* function (the decision theorems use no law of `exp` at all); the range theorem
uses exactly two laws, `0 ≤ exp x` and `x ≤ 0 → exp x ≤ 1`, and is instantiated with
`Real.exp`.  The compiled driver runs the same definitions with `floatArith` (IEEE binary64).
`0 < T` is the property's quantifier ("all positive temperatures"): the decision theorems do not
use it in their proofs, but it marks where the field reading and the float reading agree.
`T = 0` is NOT exotic: it is the default `StartingTemperature` (the coolant's parameter defaults to
0 under `IsNonNegativeDecimal`), so a configuration that does not set it anneals at `T = 0`
throughout.  There Go computes `exp(-|Δ|/0)`: `exp(-Inf) = 0` for `Δ ≠ 0` (never accepted: pure
descent) and `exp(NaN) = NaN` for `Δ = 0` (`NaN > u` is false: reverted, and the probability
reported is NaN, outside `[0,1]`); the field convention `x / 0 = 0` would say `exp 0 = 1`
instead.  The property quantifies over positive temperatures, so nothing is claimed for `T ≤ 0`;
the behaviour at `T = 0` is recorded as an observation (level note of `./check C04`; the
correspondence runs it through the Float model bit for bit).  Along a run the temperature stays
positive when it starts positive and the cooling factor is positive (`run_temperature_positive`),
which is what justifies carrying `0 < T` through sequences (`run_metropolis`).

Every `theorem` in this file is audited by `./check C04` (`#print axioms`).
-/
namespace Crem.Kirkpatrick

section decision
variable {α : Type} [Field α] [LinearOrder α]

/-- An invalid proposal is reverted whatever the change, the temperature, the direction and
the draw (any arithmetic, including the float one), and no draw is consumed. -/
theorem invalid_reverts {β : Type} (A : Arith β) (dir : Direction) (T Δ u : β) :
    acceptOrRevert A dir T false Δ u = .revertInvalid ∧
    (acceptOrRevert A dir T false Δ u).accepted = false ∧
    (acceptOrRevert A dir T false Δ u).drew = false := by
  simp [decide_invalid, Decision.accepted, Decision.drew]

/-- ... and at the level of `TryRandomChange`: the model receives `RevertChange`, never
`AcceptChange`, when it reports the change invalid. -/
theorem invalid_reverts_step {β σ χ : Type} (A : Arith β) (M : ModelOps σ χ β) (e : Explorer β)
    (s : σ) (c : χ) (u : β) (hinv : M.valid (M.tryChange s c) = false) :
    (tryRandomChange A M e s c u).model = M.revert (M.tryChange s c) ∧
    (tryRandomChange A M e s c u).decision = .revertInvalid := by
  simp [tryRandomChange, hinv, decide_invalid, Decision.accepted]

/-- A valid proposal that improves the objective in the configured direction (`Δ < 0` when
minimising, `0 < Δ` when maximising) is accepted with certainty: whatever the draw, with the
probability recorded as 1, and without consuming a draw. -/
theorem improving_accepts (exp : α → α) (dir : Direction) (T Δ u : α) (_hT : 0 < T)
    (h : improving dir Δ) :
    acceptOrRevert (fieldArith exp) dir T true Δ u = .acceptDesirable 1 := by
  exact decide_improving exp dir T Δ u h

theorem improving_accepts_minimising (exp : α → α) (T Δ u : α) (hT : 0 < T) (h : Δ < 0) :
    (acceptOrRevert (fieldArith exp) .minimising T true Δ u).accepted = true ∧
    (acceptOrRevert (fieldArith exp) .minimising T true Δ u).probability = some 1 := by
  rw [improving_accepts exp .minimising T Δ u hT h]; simp [Decision.accepted, Decision.probability]

theorem improving_accepts_maximising (exp : α → α) (T Δ u : α) (hT : 0 < T) (h : 0 < Δ) :
    (acceptOrRevert (fieldArith exp) .maximising T true Δ u).accepted = true ∧
    (acceptOrRevert (fieldArith exp) .maximising T true Δ u).probability = some 1 := by
  rw [improving_accepts exp .maximising T Δ u hT h]; simp [Decision.accepted, Decision.probability]

/-- Every other valid proposal (worsening, or `Δ = 0`, in either direction) is accepted exactly
when `exp(-|Δ|/T)` exceeds the uniform draw; that value is the probability reported, and one
draw is consumed. -/
theorem otherwise_iff (exp : α → α) (dir : Direction) (T Δ u : α) (_hT : 0 < T)
    (h : ¬ improving dir Δ) :
    ((acceptOrRevert (fieldArith exp) dir T true Δ u).accepted = true ↔ exp (-|Δ| / T) > u) ∧
    (acceptOrRevert (fieldArith exp) dir T true Δ u).probability = some (exp (-|Δ| / T)) ∧
    (acceptOrRevert (fieldArith exp) dir T true Δ u).drew = true := by
  rw [decide_not_improving exp dir T Δ u h]
  by_cases hu : u < exp (-|Δ| / T) <;> simp [hu, Decision.accepted, Decision.probability, Decision.drew]

/-- the two directions spelt out: when minimising "otherwise" is `0 ≤ Δ`, when maximising `Δ ≤ 0`
(so `Δ = 0` is decided by the draw in both). -/
theorem otherwise_iff_minimising (exp : α → α) (T Δ u : α) (hT : 0 < T) (h : 0 ≤ Δ) :
    (acceptOrRevert (fieldArith exp) .minimising T true Δ u).accepted = true ↔ exp (-|Δ| / T) > u :=
  (otherwise_iff exp .minimising T Δ u hT (by simpa [improving] using h)).1

theorem otherwise_iff_maximising (exp : α → α) (T Δ u : α) (hT : 0 < T) (h : Δ ≤ 0) :
    (acceptOrRevert (fieldArith exp) .maximising T true Δ u).accepted = true ↔ exp (-|Δ| / T) > u :=
  (otherwise_iff exp .maximising T Δ u hT (by simpa [improving] using h)).1

/-- The draw `Float64Unitary` produces from any source value lies in `[0,1]` (both ends are
reachable: `v = 0` and `v = 2^53 - 1`). -/
theorem unitary_range [IsStrictOrderedRing α] (exp : α → α) (v : Nat) :
    0 ≤ unitary (fieldArith exp) v ∧ unitary (fieldArith exp) v ≤ 1 := by
  have hlt : v % 2 ^ 53 < 2 ^ 53 := Nat.mod_lt _ (by norm_num)
  have hle : v % 2 ^ 53 ≤ 2 ^ 53 - 1 := by omega
  have hpos : (0 : α) < ((2 ^ 53 - 1 : Nat) : α) := by exact_mod_cast (by norm_num : 0 < 2 ^ 53 - 1)
  show (0 : α) ≤ ((v % 2 ^ 53 : Nat) : α) / ((2 ^ 53 - 1 : Nat) : α) ∧
    ((v % 2 ^ 53 : Nat) : α) / ((2 ^ 53 - 1 : Nat) : α) ≤ 1
  refine ⟨div_nonneg (Nat.cast_nonneg _) hpos.le, ?_⟩
  rw [div_le_one hpos]
  exact_mod_cast hle

/-- Range of the acceptance probability from the only two laws of `exp` that are used:
`0 ≤ exp x` and `x ≤ 0 → exp x ≤ 1`. -/
theorem prob_range_of_exp_laws [IsStrictOrderedRing α] (exp : α → α) (hnonneg : ∀ x, 0 ≤ exp x)
    (hle : ∀ x, x ≤ 0 → exp x ≤ 1) (T Δ : α) (hT : 0 < T) :
    0 ≤ acceptanceProbability (fieldArith exp) T Δ ∧ acceptanceProbability (fieldArith exp) T Δ ≤ 1 := by
  rw [acceptanceProbability_fieldArith]
  exact ⟨hnonneg _, hle _ (div_nonpos_of_nonpos_of_nonneg (neg_nonpos.mpr (abs_nonneg Δ)) hT.le)⟩

end decision

/-- Reported acceptance probabilities lie in `[0,1]` (in fact in `(0,1]`) for every positive
temperature and every change, over ℝ with the real exponential. -/
theorem prob_range (T Δ : ℝ) (hT : 0 < T) :
    0 < acceptanceProbability (fieldArith Real.exp) T Δ ∧
    acceptanceProbability (fieldArith Real.exp) T Δ ≤ 1 := by
  refine ⟨?_, (prob_range_of_exp_laws Real.exp (fun x => (Real.exp_pos x).le)
    (fun x hx => Real.exp_le_one_iff.mpr hx) T Δ hT).2⟩
  rw [acceptanceProbability_fieldArith]; exact Real.exp_pos _

/-- ... hence every probability any decision reports (the guaranteed 1 included) is in `[0,1]`. -/
theorem decision_prob_range (dir : Direction) (T Δ u : ℝ) (valid : Bool) (hT : 0 < T) (p : ℝ)
    (hp : (acceptOrRevert (fieldArith Real.exp) dir T valid Δ u).probability = some p) :
    0 ≤ p ∧ p ≤ 1 := by
  have hr := prob_range T Δ hT
  unfold acceptOrRevert at hp
  split at hp
  · simp [Decision.probability] at hp
  · split at hp
    · simp only [Decision.probability, Option.some.injEq] at hp
      subst hp; simp [fieldArith]
    · dsimp only at hp
      split at hp <;>
        (simp only [Decision.probability, Option.some.injEq] at hp; subst hp; exact ⟨hr.1.le, hr.2⟩)

section history
variable {σ χ α : Type} (A : Arith α) (M : ModelOps σ χ α) {inv : σ → Prop}

/-- Objective update, over arbitrarily long sequences of proposals and cool-downs, for every
lawful model, every arithmetic, every draw: the objective value after an iteration equals the
previous value plus the reported change if the proposal was accepted, and the previous value
otherwise.  (`e.dir ≠ unset`: the direction was configured — see the counterexample below.) -/
theorem objective_update (h : LawfulModel A M inv) (ops : List (Op χ α)) (e : Explorer α) (s : σ)
    (hdir : e.dir ≠ .unset) (hs : inv s) :
    ∀ r ∈ (run A M ops e s).1,
      r.after = if r.accepted then A.add r.before r.change else r.before :=
  (run_records A M h ops e s hdir hs).1

/-- ... and the ledger is gap-free: the final objective value is the initial one with exactly the
accepted reported changes added, in order. -/
theorem objective_final (h : LawfulModel A M inv) (ops : List (Op χ α)) (e : Explorer α) (s : σ)
    (hdir : e.dir ≠ .unset) (hs : inv s) :
    M.objective (run A M ops e s).2.2 =
      (run A M ops e s).1.foldl (fun obj r => if r.accepted then A.add obj r.change else obj)
        (M.objective s) :=
  (run_records A M h ops e s hdir hs).2.1

/-- The scripted model of the correspondence harness is lawful (so the two theorems above are
not vacuous, and apply to what `kirk-script` runs). -/
theorem scriptedModel_lawful : LawfulModel A (scriptedModel A) (fun _ => True) :=
  ⟨fun _ _ _ => trivial, fun _ _ _ => trivial, fun _ _ _ => rfl, fun _ _ _ => rfl⟩

end history

section step
variable {σ χ β : Type} (A : Arith β) (M : ModelOps σ χ β)

/-- The decision theorems tied to `TryRandomChange`: with the direction configured, the step's
decision IS `acceptOrRevert` at the coolant's current temperature, on the validity verdict and the
change the model reports for the state just proposed (`s₁ = M.tryChange s c`), with the draw on
offer; that change is the one the explorer reports; and the model receives `AcceptChange` exactly
when the decision is an accepting one, `RevertChange` otherwise.  Any arithmetic (the float one
included). -/
theorem step_decision (e : Explorer β) (s : σ) (c : χ) (u : β) (hdir : e.dir ≠ .unset) :
    (tryRandomChange A M e s c u).decision =
      acceptOrRevert A e.dir e.temperature (M.valid (M.tryChange s c)) (M.change (M.tryChange s c)) u ∧
    (tryRandomChange A M e s c u).explorer.objectiveValueChange = M.change (M.tryChange s c) ∧
    (tryRandomChange A M e s c u).model =
      if (tryRandomChange A M e s c u).decision.accepted then M.accept (M.tryChange s c)
      else M.revert (M.tryChange s c) :=
  ⟨tryRandomChange_decision A M e s c u hdir, tryRandomChange_reportedChange A M e s c u hdir, rfl⟩

/-- … and to the history: `steps` walks the same proposals as `run` (same reported changes, same
accept/revert flags, in order), and every one of them — after any number of earlier proposals and
cool-downs — was decided by `acceptOrRevert` in the direction set at the start, at the
temperature the coolant had at that moment, on the model's verdict and reported change. -/
theorem run_decision (ops : List (Op χ β)) (e : Explorer β) (s : σ) (hdir : e.dir ≠ .unset) :
    (steps A M ops e s).map (fun st => (st.change, st.decision.accepted)) =
      (run A M ops e s).1.map (fun r => (r.change, r.accepted)) ∧
    ∀ st ∈ steps A M ops e s,
      st.decision = acceptOrRevert A e.dir st.temperature st.valid st.change st.draw :=
  ⟨stepsFrom_run A M 0 ops e s hdir, stepsFrom_decision A M 0 ops e s hdir⟩

end step

section runlevel
variable {σ χ α : Type} [Field α] [LinearOrder α] [IsStrictOrderedRing α]
  (exp : α → α) (M : ModelOps σ χ α)

/-- The temperature a proposal is decided at is the starting temperature cooled so far,
`T0 * a^(number of CoolDowns before it)`; it is positive along the whole run when `0 < T0` and
`0 < a` (this is what justifies the hypothesis `0 < T` of the decision theorems over sequences). -/
theorem run_temperature_positive (ops : List (Op χ α)) (e : Explorer α) (s : σ)
    (hT : 0 < e.temperature) (ha : 0 < e.coolingFactor) :
    ∀ st ∈ steps (fieldArith exp) M ops e s,
      st.temperature = e.temperature * e.coolingFactor ^ st.cools ∧ 0 < st.temperature := by
  intro st hst
  obtain ⟨-, h⟩ := stepsFrom_temperature exp M 0 ops e s st hst
  rw [Nat.sub_zero] at h
  exact ⟨h, h ▸ mul_pos hT (pow_pos ha _)⟩

/-- The Metropolis rule for EVERY proposal of EVERY run (arbitrarily long sequences of proposals
and cool-downs, any model, any draws), direction configured, positive starting temperature and
cooling factor: an invalid proposal is reverted; a valid improving one is accepted with certainty
(probability recorded as 1); every other valid one is accepted exactly when `exp(-|Δ|/T)` exceeds
the draw, with `T` the (positive) temperature cooled so far, that value being the probability
reported and one draw consumed. -/
theorem run_metropolis (ops : List (Op χ α)) (e : Explorer α) (s : σ) (hdir : e.dir ≠ .unset)
    (hT : 0 < e.temperature) (ha : 0 < e.coolingFactor) :
    ∀ st ∈ steps (fieldArith exp) M ops e s,
      0 < st.temperature ∧
      (st.valid = false → st.decision = .revertInvalid) ∧
      (st.valid = true → improving e.dir st.change → st.decision = .acceptDesirable 1) ∧
      (st.valid = true → ¬ improving e.dir st.change →
        (st.decision.accepted = true ↔ exp (-|st.change| / st.temperature) > st.draw) ∧
        st.decision.probability = some (exp (-|st.change| / st.temperature)) ∧
        st.decision.drew = true) := by
  intro st hst
  have hpos := (run_temperature_positive exp M ops e s hT ha st hst).2
  have hd := (run_decision (fieldArith exp) M ops e s hdir).2 st hst
  refine ⟨hpos, ?_, ?_, ?_⟩
  · intro hv; rw [hd, hv]; exact (invalid_reverts _ _ _ _ _).1
  · intro hv hi; rw [hd, hv]; exact improving_accepts exp e.dir _ _ _ hpos hi
  · intro hv hi; rw [hd, hv]; exact otherwise_iff exp e.dir _ _ _ hpos hi

end runlevel

/-- … and over ℝ with the real exponential every probability reported along such a run lies in
`[0,1]`. -/
theorem run_prob_range {σ χ : Type} (M : ModelOps σ χ ℝ) (ops : List (Op χ ℝ)) (e : Explorer ℝ) (s : σ)
    (hdir : e.dir ≠ .unset) (hT : 0 < e.temperature) (ha : 0 < e.coolingFactor) :
    ∀ st ∈ steps (fieldArith Real.exp) M ops e s, ∀ p, st.decision.probability = some p → 0 ≤ p ∧ p ≤ 1 := by
  intro st hst p hp
  have hpos := (run_temperature_positive Real.exp M ops e s hT ha st hst).2
  rw [(run_decision (fieldArith Real.exp) M ops e s hdir).2 st hst] at hp
  exact decision_prob_range e.dir _ _ _ _ hpos p hp

section catchment
open Crem.Catchment in
/-- the Lean catchment model (C01/C02) as the explorer sees a `model.Model`: the choice is the index
of the action `TryRandomChange` toggles, the objective is the total of decision variable `v` -/
def catchmentOps (D : Crem.Catchment.Data) (v : Crem.Catchment.VarId) :
    ModelOps Crem.Catchment.State (Fin D.acts.length) ℚ where
  tryChange := fun s i => Crem.Catchment.propose D s i.val
  valid     := Crem.Catchment.changeIsValid D
  change    := fun s => Crem.Catchment.change s v
  accept    := Crem.Catchment.accept
  revert    := Crem.Catchment.revert
  objective := fun s => Crem.Catchment.total s v

/-- The catchment model is lawful, by C02's theorems (`accept_is_reported_change`, `revert_exact`)
and C01's invariant: on canonical states — every state a conformant history reaches — accepting a
proposal moves the objective by exactly the change reported for it and reverting restores it, for
each of the six decision variables as objective, any dataset satisfying C01's decidable hypotheses. -/
theorem catchmentModel_lawful (exp : ℚ → ℚ) {D : Crem.Catchment.Data} (v : Crem.Catchment.VarId)
    (hI : Crem.Catchment.InitConsistent D) (hK : Crem.Catchment.KeysDistinct D.acts) :
    LawfulModel (fieldArith exp) (catchmentOps D v) (Crem.Catchment.Canon D) where
  accept_inv := fun _ i hc => Crem.Catchment.accept_propose_canon hI.facts hK hc i.isLt
  revert_inv := fun _ i hc => Crem.Catchment.revert_propose_canon hI.facts hc i.isLt
  accept_obj := fun _ i hc => Crem.Catchment.accept_is_reported_change hI hK hc i.isLt v
  revert_obj := fun _ i hc => ((Crem.Catchment.revert_exact hI hc i.isLt).2 v).1

/-- Hence `objective_update` / `objective_final` apply to the real (Lean) catchment model: along any
Kirkpatrick run over it, started in any state a conformant history reaches, the objective after an
iteration is the previous value plus the reported change if the proposal was accepted and the
previous value otherwise, and the final value is the initial one plus exactly the accepted changes. -/
theorem objective_update_catchment (exp : ℚ → ℚ) {D : Crem.Catchment.Data} (v : Crem.Catchment.VarId)
    (hI : Crem.Catchment.InitConsistent D) (hK : Crem.Catchment.KeysDistinct D.acts)
    (txs : List Crem.Catchment.Tx) (ops : List (Op (Fin D.acts.length) ℚ)) (e : Explorer ℚ)
    (hdir : e.dir ≠ .unset) :
    (∀ r ∈ (run (fieldArith exp) (catchmentOps D v) ops e (Crem.Catchment.run D txs)).1,
      r.after = if r.accepted then r.before + r.change else r.before) ∧
    Crem.Catchment.total (run (fieldArith exp) (catchmentOps D v) ops e (Crem.Catchment.run D txs)).2.2 v =
      (run (fieldArith exp) (catchmentOps D v) ops e (Crem.Catchment.run D txs)).1.foldl
        (fun obj r => if r.accepted then obj + r.change else obj) (Crem.Catchment.total (Crem.Catchment.run D txs) v) := by
  have hl := catchmentModel_lawful exp v hI hK
  have hc := Crem.Catchment.canon_of_history hI hK txs
  exact ⟨objective_update (fieldArith exp) (catchmentOps D v) hl ops e _ hdir hc,
    objective_final (fieldArith exp) (catchmentOps D v) hl ops e _ hdir hc⟩

end catchment

/-! Non-vacuity and sanity examples (tests, labelled as such). -/

/-- ℚ with a stand-in `exp` (constant ½): worsening move, draw below / above ½ -/
example : (acceptOrRevert (fieldArith (fun _ : ℚ => 1/2)) .minimising 10 true 3 (1/4)).accepted = true := by
  norm_num [acceptOrRevert, desirable, acceptanceProbability, fieldArith, Decision.accepted]
example : (acceptOrRevert (fieldArith (fun _ : ℚ => 1/2)) .minimising 10 true 3 (3/4)).accepted = false := by
  have h := otherwise_iff_minimising (fun _ : ℚ => 1/2) 10 3 (3/4) (by norm_num) (by norm_num)
  rcases Bool.eq_false_or_eq_true
    (acceptOrRevert (fieldArith (fun _ : ℚ => 1/2)) .minimising 10 true 3 (3/4)).accepted with h' | h'
  · rw [h] at h'; norm_num at h'
  · exact h'
/-- the boundary is strict: `p > u`, so `u = p` reverts -/
example : (acceptOrRevert (fieldArith (fun _ : ℚ => 1/2)) .maximising 10 true (-3) (1/2)).accepted = false := by
  have h := otherwise_iff_maximising (fun _ : ℚ => 1/2) 10 (-3) (1/2) (by norm_num) (by norm_num)
  rcases Bool.eq_false_or_eq_true
    (acceptOrRevert (fieldArith (fun _ : ℚ => 1/2)) .maximising 10 true (-3) (1/2)).accepted with h' | h'
  · rw [h] at h'; norm_num at h'
  · exact h'
/-- improving in one direction is worsening in the other -/
example : improving .minimising (-3 : ℚ) ∧ ¬ improving .maximising (-3 : ℚ) ∧
    ¬ improving .minimising (0 : ℚ) ∧ ¬ improving .maximising (0 : ℚ) := by
  simp [improving]
/-- the hypotheses of `prob_range` are satisfiable and the bound 1 is attained (`Δ = 0`) -/
example : acceptanceProbability (fieldArith Real.exp) 1 0 = 1 := by
  simp [acceptanceProbability_fieldArith]
/-- `Float64Unitary` reaches 1 -/
example : unitary (fieldArith (fun x : ℚ => x)) (2 ^ 53 - 1) = 1 := by
  simp [unitary, fieldArith]
/-- why `objective_update` needs a configured direction: with the direction unset the explorer
never refreshes the change it reports, so an accepted change of 5 is reported as the stale 0 and
`after = before + reported change` fails. -/
example :
    let A := fieldArith (fun _ : ℚ => 1)
    let e : Explorer ℚ := { dir := .unset, temperature := 1, coolingFactor := 1,
                            acceptanceProbability := 0, objectiveValueChange := 0 }
    let r := (run A (scriptedModel A) [.try ((5 : ℚ), true) (0 : ℚ)] e ⟨100, 0, true⟩).1
    r.map (fun r => (r.before, r.change, r.accepted, r.after)) = [(100, 0, true, 105)] := by
  norm_num [run, tryRandomChange, acceptOrRevert, observedChange, desirable, acceptanceProbability,
    scriptedModel, fieldArith, Decision.accepted]

/-- `run_metropolis` / `run_temperature_positive` are about something: a worsening proposal at
`T = 10`, a cool-down (factor ½), an improving proposal decided at `T = 5` -/
example :
    let A := fieldArith (fun _ : ℚ => 1/2)
    let e : Explorer ℚ := { dir := .minimising, temperature := 10, coolingFactor := 1/2,
                            acceptanceProbability := 0, objectiveValueChange := 0 }
    (steps A (scriptedModel A) [.try ((3 : ℚ), true) (1/4), .cool, .try ((-2 : ℚ), true) 0] e ⟨100, 0, true⟩).map
      (fun st => (st.cools, st.temperature, st.valid, st.change, st.decision.accepted, st.decision.drew)) =
      [(0, 10, true, 3, true, true), (1, 5, true, -2, true, false)] := by
  norm_num [steps, stepsFrom, tryRandomChange, coolDown, acceptOrRevert, observedChange, desirable,
    acceptanceProbability, scriptedModel, fieldArith, Decision.accepted, Decision.drew, Decision.probability]
/-- the hypotheses of `catchmentModel_lawful` are satisfiable (the dataset of C01's examples), and
the instance is about a proposal with a non-zero reported change in a non-initial state -/
example : LawfulModel (fieldArith (fun _ : ℚ => 1/2)) (catchmentOps Crem.Catchment.exData .sed)
    (Crem.Catchment.Canon Crem.Catchment.exData) :=
  catchmentModel_lawful _ .sed (by decide +kernel) (by decide +kernel)
example : (catchmentOps Crem.Catchment.exData .sed).change
    ((catchmentOps Crem.Catchment.exData .sed).tryChange Crem.Catchment.exS ⟨0, by decide⟩) ≠ 0 := by
  decide +kernel

end Crem.Kirkpatrick
