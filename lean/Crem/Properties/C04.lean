import Crem.Proofs.Kirkpatrick
import Mathlib.Analysis.Complex.Exponential
/-!
# C04 — single-objective acceptance follows the Metropolis rule in the set direction

Property theorems about the model of `kirkpatrick.Explorer.AcceptOrRevertChange` and
`kirkpatrick.Coolant.DecideIfAcceptable` (`Crem/Model/Kirkpatrick.lean`).

Reading of the arithmetic: `fieldArith exp` is exact arithmetic in an ordered field with `exp`
an *arbitrary* function (the decision theorems use no law of `exp` at all); the range theorem
uses exactly two laws, `0 ≤ exp x` and `x ≤ 0 → exp x ≤ 1`, and is instantiated with
`Real.exp`.  The compiled driver runs the same definitions with `floatArith` (IEEE binary64).
`0 < T` is the property's quantifier ("all positive temperatures"): the decision theorems do not
use it in their proofs, but it marks where the field reading and the float reading agree
(at `T = 0` Go computes `exp(-x/0) = 0` or `NaN` and never accepts; the field convention
`x / 0 = 0` would say otherwise) — so nothing is claimed for `T ≤ 0`.

Every `theorem` in this file is audited by `./check C04` (`#print axioms`).
-/
namespace Crem.Kirkpatrick

section decision
variable {α : Type} [Field α] [LinearOrder α]

/-- An invalid proposal is reverted whatever the change, the temperature, the direction and
the draw (any arithmetic, including the float one), and no draw is consumed. -/
theorem invalid_reverts {β : Type} (A : Arith β) (dir : Direction) (T Δ u : β) :
    acceptOrRevert A dir T false Δ u = .revertInvalid ∧
    (acceptOrRevert A dir T false Δ u).accepted = false ∧
    (acceptOrRevert A dir T false Δ u).drew = false := by
  simp [decide_invalid, Decision.accepted, Decision.drew]

/-- ... and at the level of `TryRandomChange`: the model receives `RevertChange`, never
`AcceptChange`, when it reports the change invalid. -/
theorem invalid_reverts_step {β σ χ : Type} (A : Arith β) (M : ModelOps σ χ β) (e : Explorer β)
    (s : σ) (c : χ) (u : β) (hinv : M.valid (M.tryChange s c) = false) :
    (tryRandomChange A M e s c u).model = M.revert (M.tryChange s c) ∧
    (tryRandomChange A M e s c u).decision = .revertInvalid := by
  simp [tryRandomChange, hinv, decide_invalid, Decision.accepted]

/-- A valid proposal that improves the objective in the configured direction (`Δ < 0` when
minimising, `0 < Δ` when maximising) is accepted with certainty: whatever the draw, with the
probability recorded as 1, and without consuming a draw. -/
theorem improving_accepts (exp : α → α) (dir : Direction) (T Δ u : α) (_hT : 0 < T)
    (h : improving dir Δ) :
    acceptOrRevert (fieldArith exp) dir T true Δ u = .acceptDesirable 1 := by
  exact decide_improving exp dir T Δ u h

theorem improving_accepts_minimising (exp : α → α) (T Δ u : α) (hT : 0 < T) (h : Δ < 0) :
    (acceptOrRevert (fieldArith exp) .minimising T true Δ u).accepted = true ∧
    (acceptOrRevert (fieldArith exp) .minimising T true Δ u).probability = some 1 := by
  rw [improving_accepts exp .minimising T Δ u hT h]; simp [Decision.accepted, Decision.probability]

theorem improving_accepts_maximising (exp : α → α) (T Δ u : α) (hT : 0 < T) (h : 0 < Δ) :
    (acceptOrRevert (fieldArith exp) .maximising T true Δ u).accepted = true ∧
    (acceptOrRevert (fieldArith exp) .maximising T true Δ u).probability = some 1 := by
  rw [improving_accepts exp .maximising T Δ u hT h]; simp [Decision.accepted, Decision.probability]

/-- Every other valid proposal (worsening, or `Δ = 0`, in either direction) is accepted exactly
when `exp(-|Δ|/T)` exceeds the uniform draw; that value is the probability reported, and one
draw is consumed. -/
theorem otherwise_iff (exp : α → α) (dir : Direction) (T Δ u : α) (_hT : 0 < T)
    (h : ¬ improving dir Δ) :
    ((acceptOrRevert (fieldArith exp) dir T true Δ u).accepted = true ↔ exp (-|Δ| / T) > u) ∧
    (acceptOrRevert (fieldArith exp) dir T true Δ u).probability = some (exp (-|Δ| / T)) ∧
    (acceptOrRevert (fieldArith exp) dir T true Δ u).drew = true := by
  rw [decide_not_improving exp dir T Δ u h]
  by_cases hu : u < exp (-|Δ| / T) <;> simp [hu, Decision.accepted, Decision.probability, Decision.drew]

/-- the two directions spelt out: when minimising "otherwise" is `0 ≤ Δ`, when maximising `Δ ≤ 0`
(so `Δ = 0` is decided by the draw in both). -/
theorem otherwise_iff_minimising (exp : α → α) (T Δ u : α) (hT : 0 < T) (h : 0 ≤ Δ) :
    (acceptOrRevert (fieldArith exp) .minimising T true Δ u).accepted = true ↔ exp (-|Δ| / T) > u :=
  (otherwise_iff exp .minimising T Δ u hT (by simpa [improving] using h)).1

theorem otherwise_iff_maximising (exp : α → α) (T Δ u : α) (hT : 0 < T) (h : Δ ≤ 0) :
    (acceptOrRevert (fieldArith exp) .maximising T true Δ u).accepted = true ↔ exp (-|Δ| / T) > u :=
  (otherwise_iff exp .maximising T Δ u hT (by simpa [improving] using h)).1

/-- The draw `Float64Unitary` produces from any source value lies in `[0,1]` (both ends are
reachable: `v = 0` and `v = 2^53 - 1`). -/
theorem unitary_range [IsStrictOrderedRing α] (exp : α → α) (v : Nat) :
    0 ≤ unitary (fieldArith exp) v ∧ unitary (fieldArith exp) v ≤ 1 := by
  have hlt : v % 2 ^ 53 < 2 ^ 53 := Nat.mod_lt _ (by norm_num)
  have hle : v % 2 ^ 53 ≤ 2 ^ 53 - 1 := by omega
  have hpos : (0 : α) < ((2 ^ 53 - 1 : Nat) : α) := by exact_mod_cast (by norm_num : 0 < 2 ^ 53 - 1)
  show (0 : α) ≤ ((v % 2 ^ 53 : Nat) : α) / ((2 ^ 53 - 1 : Nat) : α) ∧
    ((v % 2 ^ 53 : Nat) : α) / ((2 ^ 53 - 1 : Nat) : α) ≤ 1
  refine ⟨div_nonneg (Nat.cast_nonneg _) hpos.le, ?_⟩
  rw [div_le_one hpos]
  exact_mod_cast hle

/-- Range of the acceptance probability from the only two laws of `exp` that are used:
`0 ≤ exp x` and `x ≤ 0 → exp x ≤ 1`. -/
theorem prob_range_of_exp_laws [IsStrictOrderedRing α] (exp : α → α) (hnonneg : ∀ x, 0 ≤ exp x)
    (hle : ∀ x, x ≤ 0 → exp x ≤ 1) (T Δ : α) (hT : 0 < T) :
    0 ≤ acceptanceProbability (fieldArith exp) T Δ ∧ acceptanceProbability (fieldArith exp) T Δ ≤ 1 := by
  rw [acceptanceProbability_fieldArith]
  exact ⟨hnonneg _, hle _ (div_nonpos_of_nonpos_of_nonneg (neg_nonpos.mpr (abs_nonneg Δ)) hT.le)⟩

end decision

/-- Reported acceptance probabilities lie in `[0,1]` (in fact in `(0,1]`) for every positive
temperature and every change, over ℝ with the real exponential. -/
theorem prob_range (T Δ : ℝ) (hT : 0 < T) :
    0 < acceptanceProbability (fieldArith Real.exp) T Δ ∧
    acceptanceProbability (fieldArith Real.exp) T Δ ≤ 1 := by
  refine ⟨?_, (prob_range_of_exp_laws Real.exp (fun x => (Real.exp_pos x).le)
    (fun x hx => Real.exp_le_one_iff.mpr hx) T Δ hT).2⟩
  rw [acceptanceProbability_fieldArith]; exact Real.exp_pos _

/-- ... hence every probability any decision reports (the guaranteed 1 included) is in `[0,1]`. -/
theorem decision_prob_range (dir : Direction) (T Δ u : ℝ) (valid : Bool) (hT : 0 < T) (p : ℝ)
    (hp : (acceptOrRevert (fieldArith Real.exp) dir T valid Δ u).probability = some p) :
    0 ≤ p ∧ p ≤ 1 := by
  have hr := prob_range T Δ hT
  unfold acceptOrRevert at hp
  split at hp
  · simp [Decision.probability] at hp
  · split at hp
    · simp only [Decision.probability, Option.some.injEq] at hp
      subst hp; simp [fieldArith]
    · dsimp only at hp
      split at hp <;>
        (simp only [Decision.probability, Option.some.injEq] at hp; subst hp; exact ⟨hr.1.le, hr.2⟩)

section history
variable {σ χ α : Type} (A : Arith α) (M : ModelOps σ χ α) {inv : σ → Prop}

/-- Objective update, over arbitrarily long sequences of proposals and cool-downs, for every
lawful model, every arithmetic, every draw: the objective value after an iteration equals the
previous value plus the reported change if the proposal was accepted, and the previous value
otherwise.  (`e.dir ≠ unset`: the direction was configured — see the counterexample below.) -/
theorem objective_update (h : LawfulModel A M inv) (ops : List (Op χ α)) (e : Explorer α) (s : σ)
    (hdir : e.dir ≠ .unset) (hs : inv s) :
    ∀ r ∈ (run A M ops e s).1,
      r.after = if r.accepted then A.add r.before r.change else r.before :=
  (run_records A M h ops e s hdir hs).1

/-- ... and the ledger is gap-free: the final objective value is the initial one with exactly the
accepted reported changes added, in order. -/
theorem objective_final (h : LawfulModel A M inv) (ops : List (Op χ α)) (e : Explorer α) (s : σ)
    (hdir : e.dir ≠ .unset) (hs : inv s) :
    M.objective (run A M ops e s).2.2 =
      (run A M ops e s).1.foldl (fun obj r => if r.accepted then A.add obj r.change else obj)
        (M.objective s) :=
  (run_records A M h ops e s hdir hs).2.1

/-- The scripted model of the correspondence harness is lawful (so the two theorems above are
not vacuous, and apply to what `kirk-script` runs). -/
theorem scriptedModel_lawful : LawfulModel A (scriptedModel A) (fun _ => True) :=
  ⟨fun _ _ _ => trivial, fun _ _ _ => trivial, fun _ _ _ => rfl, fun _ _ _ => rfl⟩

end history

/-! Non-vacuity and sanity examples (tests, labelled as such). -/

/-- ℚ with a stand-in `exp` (constant ½): worsening move, draw below / above ½ -/
example : (acceptOrRevert (fieldArith (fun _ : ℚ => 1/2)) .minimising 10 true 3 (1/4)).accepted = true := by
  norm_num [acceptOrRevert, desirable, acceptanceProbability, fieldArith, Decision.accepted]
example : (acceptOrRevert (fieldArith (fun _ : ℚ => 1/2)) .minimising 10 true 3 (3/4)).accepted = false := by
  have h := otherwise_iff_minimising (fun _ : ℚ => 1/2) 10 3 (3/4) (by norm_num) (by norm_num)
  rcases Bool.eq_false_or_eq_true
    (acceptOrRevert (fieldArith (fun _ : ℚ => 1/2)) .minimising 10 true 3 (3/4)).accepted with h' | h'
  · rw [h] at h'; norm_num at h'
  · exact h'
/-- the boundary is strict: `p > u`, so `u = p` reverts -/
example : (acceptOrRevert (fieldArith (fun _ : ℚ => 1/2)) .maximising 10 true (-3) (1/2)).accepted = false := by
  have h := otherwise_iff_maximising (fun _ : ℚ => 1/2) 10 (-3) (1/2) (by norm_num) (by norm_num)
  rcases Bool.eq_false_or_eq_true
    (acceptOrRevert (fieldArith (fun _ : ℚ => 1/2)) .maximising 10 true (-3) (1/2)).accepted with h' | h'
  · rw [h] at h'; norm_num at h'
  · exact h'
/-- improving in one direction is worsening in the other -/
example : improving .minimising (-3 : ℚ) ∧ ¬ improving .maximising (-3 : ℚ) ∧
    ¬ improving .minimising (0 : ℚ) ∧ ¬ improving .maximising (0 : ℚ) := by
  simp [improving]
/-- the hypotheses of `prob_range` are satisfiable and the bound 1 is attained (`Δ = 0`) -/
example : acceptanceProbability (fieldArith Real.exp) 1 0 = 1 := by
  simp [acceptanceProbability_fieldArith]
/-- `Float64Unitary` reaches 1 -/
example : unitary (fieldArith (fun x : ℚ => x)) (2 ^ 53 - 1) = 1 := by
  simp [unitary, fieldArith]
/-- why `objective_update` needs a configured direction: with the direction unset the explorer
never refreshes the change it reports, so an accepted change of 5 is reported as the stale 0 and
`after = before + reported change` fails. -/
example :
    let A := fieldArith (fun _ : ℚ => 1)
    let e : Explorer ℚ := { dir := .unset, temperature := 1, coolingFactor := 1,
                            acceptanceProbability := 0, objectiveValueChange := 0 }
    let r := (run A (scriptedModel A) [.try ((5 : ℚ), true) (0 : ℚ)] e ⟨100, 0, true⟩).1
    r.map (fun r => (r.before, r.change, r.accepted, r.after)) = [(100, 0, true, 105)] := by
  norm_num [run, tryRandomChange, acceptOrRevert, observedChange, desirable, acceptanceProbability,
    scriptedModel, fieldArith, Decision.accepted]

end Crem.Kirkpatrick
