import Crem.Proofs.Config
/-!
# C19 — accepted configurations run to completion; rejected ones give errors, not panics (partial)

Theorems about the model of the explorer's configuration pipeline (`Crem/Model/Config.lean`):
`load` (BurntSushi/toml v0.3.1 type unification over `defaultConfig()`, undecoded keys, mandatory
fields), `interpret` (model / annealer / scenario sections, the validated-or-default parameter
store) and `RunSafe` (the preconditions of every run-time failure site reachable from
`ConfigInterpreter.Interpret` + `Scenario.Run()` that reading the code found).

Everything is parametric in `r : Repairs`, the DECLARATION of which of the proposed repairs are in
the tree (default: none; the suite's `repairs=` argument).  What the property demands is

    theorem accept_safe (r : Repairs) (env : Env) (c : Cfg) (l : Loaded) :
        load r c = .ok l → interpret r l = [] → RunSafe r env l

and

    theorem reject_is_error (r : Repairs) (c : Cfg) :
        verdict r c = .accepted ∨ (∃ es, es ≠ [] ∧ verdict r c = .loadError es) ∨ (∃ es, es ≠ [] ∧ verdict r c = .interpretError es)

Both are FALSE for today's code: the `example`s below exhibit accepted configurations that violate a
site's precondition (each one crashes the real explorer; the `config-runs` suite replays them in
every check), and a configuration on which the interpreter itself panics.

What is proved instead, for EVERY structured configuration (all keys, all values, any number of
entries — no bound):

* `accept_safe_partial`: an accepted configuration satisfies `RunSafe` unless one of the named,
  decidable, purely syntactic finding predicates holds of it (fifteen hypotheses, plus the platform exclusion
  `ExcelOutput`; a sixteenth finding, `CatchmentDataSetMalformed`, is a special case of
  `CatchmentDataSourceNotLoadable`); a finding whose repair is declared needs no exclusion (`repaired_*`: with the
  repair such a configuration is rejected with an error value, or its site is guarded).  The predicates are evaluated
  by the Lean driver on the structured form of every generated configuration; a crash of the real explorer is
  suppressed as a known finding only if the predicate that the driver found to hold matches the panic — so what is
  suppressed is exactly what this theorem excludes, and a crash of a configuration the theorem covers is reported as
  `config:unexplained-crash`.
* `accept_safe_tree`: the same at `rTree`, the repairs that ARE in crem today (the suite's `repairs=` argument): nine
  exclusions remain; `findingNames_tree`: the driver can list no other finding there.
* `finding_unsafe_*`: conversely each finding, on an accepted configuration, really breaks a
  precondition: none of the exclusions is vacuous or too wide.  Together: `accept_safe_iff`.  (These relate two
  transcriptions of one list of failure sites — one on `Cfg`, one on `Loaded`; neither constrains crem.  The tie to
  crem is the correspondence: every accepted generated configuration is run.)
* `repaired_findings_rejected`, `repaired_names_on_accepted`: with its repair declared a finding no longer holds of
  any accepted configuration (or, for the three guarded sites, is harmless); the driver still lists such findings
  (`fixed=`) so that a crash at a repaired site is reported under the finding's own signature.
* `reject_is_error_partial`: unless the data source is a readable non-data-set or a value is too large to round,
  loader and interpreter return `accepted` or ONE error value with a non-empty list of classes; `load_total`.
  Both are STRUCTURAL: they say that the model's verdict function has the shape "accepted or a non-empty error
  value" outside its own panic clause (`interpretPanics`); what they are worth is what the correspondence shows
  about that clause (the generated space reaches it with the shipped table-less CSV, with mutated data sets and
  with huge initial values).

Missing for the full property (hence "partial"):
* TOML parsing is not modelled;
* `RunSafe` is an enumeration by reading (a missed site shows up in the correspondence as an unexplained crash, not
  silently — the third round found one that way: values beyond MaxFloat64/10^6 fail once the Annealing level is logged);
* that the real run COMPLETES under `RunSafe` is observed by the correspondence (every accepted generated
  configuration is run), not proved;
* the clause "WRITES A RESULT FOR EACH RUN" is covered by no theorem: there is no run function and no notion of a
  written result in the model.  `RunSafe.resultNameable` is only the static precondition of the saver found by
  reading (every run's summary file name is distinct and can be created); that each run of an accepted configuration
  leaves exactly one summary file is checked by the suite alone (direct check, exact count);
* the CONTENT of a CSV data set is a parameter of no theorem: it enters through the class of a path symbol
  (`PathKind`), realised by the harness (shipped files and a catalogue of edits of their copies).
-/
namespace Crem.Config

/-! ## repair declarations -/

/-- no repair declared -/
def r0 : Repairs := {}
/-- every proposed repair declared -/
def rAll : Repairs := ⟨true, true, true, true, true, true, true, true, true⟩
/-- the repairs that are in crem today (the `repairs=` argument in checkprops.py): all but D17's (proposed only) and
C12's re-anchored summary file name (proposed by the C12 work) -/
def rTree : Repairs := { rAll with objectiveChecked := false, summaryNameAnchored := false }

/-! ## the Boolean the driver prints is the proposition -/

theorem runSafe_iff (r : Repairs) (env : Env) (l : Loaded) : RunSafe r env l ↔ runSafeB r env l = true := by
  constructor
  · intro h
    obtain ⟨h1, h2, h3, h4, h5, h6, h8, h9, h10, h11, h12, h13, h14⟩ := h
    unfold runSafeB
    simp only [Bool.and_eq_true]
    refine ⟨⟨⟨⟨⟨⟨⟨⟨⟨⟨⟨⟨?_, ?_⟩, ?_⟩, ?_⟩, ?_⟩, ?_⟩, ?_⟩, ?_⟩, ?_⟩, ?_⟩, ?_⟩, ?_⟩, ?_⟩
    · rcases h1 with h | h | h
      · simp [h]
      · simp [h]
      · simp [h]
    · cases hk : isKirk l
      · rfl
      · simpa using h2 hk
    · cases hc : isCatchment l
      · rfl
      · simpa using h3 hc
    · rcases h4 with h | h
      · simp [h]
      · cases hi : l.loopInvariant
        · simp
        · simp [h hi]
    · cases hc : isCatchment l
      · rfl
      · simpa using h5 hc
    · simpa using h6
    · cases ho : l.outputPath with
      | path p => rcases h8 p ho with hd | hd <;> simp [hd]
      | _ => rfl
    · simpa using h9
    · rcases h10 with h | h
      · simp [h]
      · simp [h]
    · cases ho : l.cpuProfilePath with
      | path p => simpa using h11 p ho
      | _ => rfl
    · simpa using h12
    · simp [h13]
    · exact h14
  · intro h
    unfold runSafeB at h
    simp only [Bool.and_eq_true] at h
    obtain ⟨⟨⟨⟨⟨⟨⟨⟨⟨⟨⟨⟨h1, h2⟩, h3⟩, h4⟩, h5⟩, h6⟩, h8⟩, h9⟩, h10⟩, h11⟩, h12⟩, h13⟩, h14⟩ := h
    refine ⟨?_, ?_, ?_, ?_, ?_, ?_, ?_, ?_, ?_, ?_, ?_, ?_, ?_⟩
    · by_cases ha : l.reportEvery = 0
      · by_cases hb : annealingDiscarded l = true
        · exact .inr (.inl hb)
        · right; right
          simpa [ha, hb] using h1
      · exact .inl ha
    · intro hk; simpa [hk] using h2
    · intro hc; simpa [hc] using h3
    · cases hg : r.loopInvariantGuarded
      · right; intro hi; simpa [hg, hi] using h4
      · exact .inl rfl
    · intro hc; simpa [hc] using h5
    · simpa using h6
    · intro p hp; simpa [hp] using h8
    · simpa using h9
    · cases hg : r.concurrencyCapped
      · right; simpa [hg] using h10
      · exact .inl rfl
    · intro p hp; simpa [hp] using h11
    · simpa using h12
    · simpa using h13
    · exact h14

instance (r : Repairs) (env : Env) (l : Loaded) : Decidable (RunSafe r env l) :=
  decidable_of_iff _ (runSafe_iff r env l).symm

/-! ## accepted ⇒ safe, outside the named findings -/

/-- **accept_safe_partial.**  For every structured configuration that loader and interpreter
accept, every precondition of `RunSafe` holds, provided none of the named findings holds of it;
a finding whose repair is declared to be in the tree needs no exclusion.
(The full statement `accept_safe`, without the sixteen finding/platform hypotheses, is refuted below.) -/
theorem accept_safe_partial (r : Repairs) (env : Env) (c : Cfg) (l : Loaded)
    (hload : load r c = .ok l) (hinterp : interpret r l = [])
    (h1 : r.reportEveryChecked = true ∨ ReportingModuloZero c = false)
    (h2 : r.objectiveChecked = true ∨ ObjectiveNotOffered c = false)
    (h3 : LimitNeverBinds env c = false)
    (h4 : r.loopInvariantGuarded = true ∨ LoopInvariantWithMultiObjective c = false)
    (h5 : CatchmentWithoutDataSource c = false)
    (h6 : CatchmentDataSourceNotLoadable c = false)
    (h7 : NullModelUnderRealAnnealer c = false)
    (h9 : r.outputPathChecked = true ∨ OutputPathNotADirectory c = false)
    (h10 : r.runNumberBounded = true ∨ RunNumberOutOfRange c = false)
    (h11 : r.concurrencyCapped = true ∨ ConcurrencyOutOfRange c = false)
    (h12 : r.cpuProfilePathChecked = true ∨ CpuProfilePathNotCreatable c = false)
    (h12d : CpuProfilePathIsDirectory c = false)
    (h13 : r.outputPathStatChecked = true ∨ OutputPathNotUsable c = false)
    (h14 : ValueTooLargeToRound c = false)
    (h15 : ResultFileNotWritten r c = false)
    (hplatform : ExcelOutput c = false) :
    RunSafe r env l := by
  obtain ⟨rfl, he⟩ := load_ok hload
  obtain ⟨hm, ha, ho, hs⟩ := interpret_nil hinterp
  exact {
    modulo := site_modulo c (h1.elim (fun hr => repaired_modulo hr he) id)
    objective := site_objective c (h2.elim (fun hr => repaired_objective hr hm ha ho) id)
    limits := site_limits env h3
    loopInvariant := h4.elim .inl (fun h => .inr (site_loopInvariant he h))
    dataSource := site_dataSource hm h5 h6
    realModel := site_realModel h7
    outputPath := site_outputPath (h9.elim (fun hr => repaired_outputPath hr hs) id)
      (h13.elim (fun hr => repaired_outputPathStat hr hs) id)
    runNumber := site_runNumber (h10.elim (fun hr => repaired_runNumber hr he) id)
    concurrency := h11.elim .inl (fun h => .inr (site_concurrency h))
    cpuProfile := site_cpuProfile (h12.elim (fun hr => repaired_cpuProfile hr hs) id) h12d
    platform := site_platform hplatform
    roundable := runOverflows_false h14
    resultNameable := by simpa [ResultFileNotWritten] using h15 }

/-- the same, with the findings as the list the driver prints -/
theorem accept_safe_of_no_finding (r : Repairs) (env : Env) (c : Cfg) (l : Loaded)
    (hload : load r c = .ok l) (hinterp : interpret r l = []) (hnone : findingNames r env c = []) :
    RunSafe r env l := by
  have f : ∀ {b : Bool} {n : String}, (if b = true then [n] else []) = [] → b = false := by
    intro b n h; cases b <;> simp_all
  have g : ∀ {a b : Bool} {n : String}, (if (!a && b) = true then [n] else []) = [] → a = true ∨ b = false := by
    intro a b n h; cases a <;> cases b <;> simp_all
  unfold findingNames at hnone
  simp only [List.append_eq_nil_iff] at hnone
  obtain ⟨⟨⟨⟨⟨⟨⟨⟨⟨⟨⟨⟨⟨⟨⟨⟨h1, h2⟩, h3⟩, h4⟩, h5⟩, h6⟩, _h6m⟩, h7⟩, h9⟩, h9s⟩, h10⟩, h11⟩, h12⟩, h12d⟩, h14⟩, h15⟩, h13⟩ := hnone
  exact accept_safe_partial r env c l hload hinterp (g h1) (g h2) (f h3) (g h4) (f h5) (f h6) (f h7)
    (g h9) (g h10) (g h11) (g h12) (f h12d) (g h9s) (f h14) (f h15) (f h13)

/-! ## rejected ⇒ an error value -/

/-- loading is total and a rejection carries at least one error class (STRUCTURAL: the case split of `Except` plus the
`isEmpty` guard of `load`; it holds for any function of that shape) -/
theorem load_total (r : Repairs) (c : Cfg) : (∃ l, load r c = .ok l) ∨ (∃ es, es ≠ [] ∧ load r c = .error es) := by
  cases h : load r c with
  | ok l => exact .inl ⟨l, rfl⟩
  | error es => exact .inr ⟨es, load_error h, rfl⟩

/-- **reject_is_error_partial.**  Whatever the configuration, loader + interpreter answer with
`accepted` or with one error value naming at least one class / section — unless the data source
is a readable non-data-set or an initial value is too large to round (then `Saver.SetDecompressionModel` may panic
inside `Interpret`).  (STRUCTURAL: near-definitional in `verdict` and `interpretPanics`; the content is in the
correspondence, which compares `interp=panic` with crem on every generated configuration.) -/
theorem reject_is_error_partial (r : Repairs) (c : Cfg) (h : CatchmentDataSourceNotLoadable c = false)
    (hv : ValueTooLargeToRound c = false) :
    verdict r c = .accepted ∨ (∃ es, es ≠ [] ∧ verdict r c = .loadError es) ∨
    (∃ es, es ≠ [] ∧ verdict r c = .interpretError es) := by
  unfold verdict
  cases hl : load r c with
  | error es => exact .inr (.inl ⟨es, load_error hl, rfl⟩)
  | ok l =>
    obtain ⟨rfl, _⟩ := load_ok hl
    have hp : interpretPanics (mkLoaded c) = false := interpretPanics_false h hv
    simp only [hp]
    by_cases hi : (interpret r (mkLoaded c)).isEmpty = true
    · exact .inl (by simp [hi])
    · refine .inr (.inr ⟨interpret r (mkLoaded c), ?_, by simp [hi]⟩)
      intro he; simp [he] at hi

/-- the interpreter's panic is one of those two findings -/
theorem interpret_panic_is_finding (r : Repairs) (c : Cfg) (h : verdict r c = .interpretPanic) :
    CatchmentDataSourceNotLoadable c = true ∨ ValueTooLargeToRound c = true := by
  cases hf : CatchmentDataSourceNotLoadable c with
  | true => exact .inl rfl
  | false =>
    cases hv : ValueTooLargeToRound c with
    | true => exact .inr rfl
    | false =>
      rcases reject_is_error_partial r c hf hv with h' | ⟨es, _, h'⟩ | ⟨es, _, h'⟩ <;> rw [h] at h' <;> cases h'

/-! ## the exclusions are exact -/

/-- **finding_unsafe.**  On an accepted configuration every finding the driver lists (those whose
repair is not declared) breaks a precondition of `RunSafe`: no exclusion of `accept_safe_partial`
is vacuous or wider than the failure it names. -/
theorem finding_unsafe (r : Repairs) (env : Env) (c : Cfg) (l : Loaded)
    (hload : load r c = .ok l) (hinterp : interpret r l = []) (hsome : findingNames r env c ≠ []) :
    ¬ RunSafe r env l := by
  obtain ⟨rfl, _⟩ := load_ok hload
  obtain ⟨hm, _, _, _⟩ := interpret_nil hinterp
  rcases Bool.eq_false_or_eq_true (!r.reportEveryChecked && ReportingModuloZero c) with h1 | h1
  · simp only [Bool.and_eq_true, Bool.not_eq_true'] at h1; exact unsafe_modulo r env h1.2
  rcases Bool.eq_false_or_eq_true (!r.objectiveChecked && ObjectiveNotOffered c) with h2 | h2
  · simp only [Bool.and_eq_true, Bool.not_eq_true'] at h2; exact unsafe_objective r env h2.2
  rcases Bool.eq_false_or_eq_true (LimitNeverBinds env c) with h3 | h3
  · exact unsafe_limit r env hm h3
  rcases Bool.eq_false_or_eq_true (!r.loopInvariantGuarded && LoopInvariantWithMultiObjective c) with h4 | h4
  · simp only [Bool.and_eq_true, Bool.not_eq_true'] at h4; exact unsafe_loopInvariant r env h4.1 h4.2
  rcases Bool.eq_false_or_eq_true (CatchmentWithoutDataSource c) with h5 | h5
  · exact unsafe_noDataSource r env h5
  rcases Bool.eq_false_or_eq_true (CatchmentDataSourceNotLoadable c) with h6 | h6
  · exact unsafe_dataSourceNotLoadable r env h6
  rcases Bool.eq_false_or_eq_true (CatchmentDataSetMalformed c) with h6m | h6m
  · exact unsafe_dataSourceNotLoadable r env (malformed_notLoadable h6m)
  rcases Bool.eq_false_or_eq_true (NullModelUnderRealAnnealer c) with h7 | h7
  · exact unsafe_nullModel r env h7
  rcases Bool.eq_false_or_eq_true (!r.outputPathChecked && OutputPathNotADirectory c) with h9 | h9
  · simp only [Bool.and_eq_true, Bool.not_eq_true'] at h9; exact unsafe_outputPath r env h9.2
  rcases Bool.eq_false_or_eq_true (!r.outputPathStatChecked && OutputPathNotUsable c) with h9s | h9s
  · simp only [Bool.and_eq_true, Bool.not_eq_true'] at h9s; exact unsafe_outputPathStat r env h9s.2
  rcases Bool.eq_false_or_eq_true (!r.runNumberBounded && RunNumberOutOfRange c) with h10 | h10
  · simp only [Bool.and_eq_true, Bool.not_eq_true'] at h10; exact unsafe_runNumber r env h10.2
  rcases Bool.eq_false_or_eq_true (!r.concurrencyCapped && ConcurrencyOutOfRange c) with h11 | h11
  · simp only [Bool.and_eq_true, Bool.not_eq_true'] at h11; exact unsafe_concurrency r env h11.1 h11.2
  rcases Bool.eq_false_or_eq_true (!r.cpuProfilePathChecked && CpuProfilePathNotCreatable c) with h12 | h12
  · simp only [Bool.and_eq_true, Bool.not_eq_true'] at h12; exact unsafe_cpuProfile r env h12.2
  rcases Bool.eq_false_or_eq_true (CpuProfilePathIsDirectory c) with h12d | h12d
  · exact unsafe_cpuProfileDir r env h12d
  rcases Bool.eq_false_or_eq_true (ValueTooLargeToRound c) with h14 | h14
  · exact unsafe_roundable r env h14
  rcases Bool.eq_false_or_eq_true (ResultFileNotWritten r c) with h15 | h15
  · exact unsafe_resultFile r env h15
  rcases Bool.eq_false_or_eq_true (ExcelOutput c) with h13 | h13
  · exact unsafe_excel r env h13
  exact absurd (by simp [findingNames, h1, h2, h3, h4, h5, h6, h6m, h7, h9, h9s, h10, h11, h12, h12d, h13, h14, h15]) hsome

/-- **accept_safe_iff.**  For an accepted configuration, `RunSafe` holds exactly when the driver's
list of findings is empty. -/
theorem accept_safe_iff (r : Repairs) (env : Env) (c : Cfg) (l : Loaded)
    (hload : load r c = .ok l) (hinterp : interpret r l = []) :
    RunSafe r env l ↔ findingNames r env c = [] := by
  constructor
  · intro hs
    apply Classical.byContradiction
    intro hne
    exact finding_unsafe r env c l hload hinterp hne hs
  · exact accept_safe_of_no_finding r env c l hload hinterp

/-- **accept_safe_tree.**  `accept_safe_partial` at the repairs that are in crem TODAY (`rTree`, the `repairs=` argument
of the suite): an accepted configuration satisfies `RunSafe` unless one of the findings that are still open holds of
it - D17, D18, D23 (no data source / a data source the model cannot be built from), D24, a CPU profile path naming a
directory, a value too large to round, a summary file that is not written - or the Excel exclusion. -/
theorem accept_safe_tree (env : Env) (c : Cfg) (l : Loaded)
    (hload : load rTree c = .ok l) (hinterp : interpret rTree l = [])
    (h2 : ObjectiveNotOffered c = false) (h3 : LimitNeverBinds env c = false)
    (h5 : CatchmentWithoutDataSource c = false) (h6 : CatchmentDataSourceNotLoadable c = false)
    (h7 : NullModelUnderRealAnnealer c = false) (h12d : CpuProfilePathIsDirectory c = false)
    (h14 : ValueTooLargeToRound c = false) (h15 : ResultFileNotWritten rTree c = false)
    (hplatform : ExcelOutput c = false) : RunSafe rTree env l :=
  accept_safe_partial rTree env c l hload hinterp (.inl rfl) (.inr h2) h3 (.inl rfl) h5 h6 h7 (.inl rfl) (.inl rfl)
    (.inl rfl) (.inl rfl) h12d (.inl rfl) h14 h15 hplatform

/-- at `rTree` the driver can list these findings only (the other seven are repaired) -/
theorem findingNames_tree (env : Env) (c : Cfg) :
    ∀ n ∈ findingNames rTree env c, n ∈ ["ObjectiveNotOffered", "LimitNeverBinds", "CatchmentWithoutDataSource",
      "CatchmentDataSourceNotLoadable", "CatchmentDataSetMalformed", "NullModelUnderRealAnnealer",
      "CpuProfilePathIsDirectory", "ValueTooLargeToRound", "ResultFileNotWritten", "ExcelOutput"] := by
  intro n hn
  have f : ∀ {b : Bool} {m : String}, n ∈ (if b = true then [m] else []) → b = true ∧ n = m := by
    intro b m h; cases b <;> simp_all
  have g : ∀ {b : Bool} {m : String}, n ∈ (if (!true && b) = true then [m] else []) → False := by
    intro b m h; simp at h
  unfold findingNames at hn
  simp only [List.mem_append] at hn
  rcases hn with (((((((((((((((hn | hn) | hn) | hn) | hn) | hn) | hn) | hn) | hn) | hn) | hn) | hn) | hn) | hn) | hn) | hn) | hn
  · exact (g hn).elim
  · obtain ⟨_, rfl⟩ := f hn; simp
  · obtain ⟨_, rfl⟩ := f hn; simp
  · exact (g hn).elim
  · obtain ⟨_, rfl⟩ := f hn; simp
  · obtain ⟨_, rfl⟩ := f hn; simp
  · obtain ⟨_, rfl⟩ := f hn; simp
  · obtain ⟨_, rfl⟩ := f hn; simp
  · exact (g hn).elim
  · exact (g hn).elim
  · exact (g hn).elim
  · exact (g hn).elim
  · exact (g hn).elim
  · obtain ⟨_, rfl⟩ := f hn; simp
  · obtain ⟨_, rfl⟩ := f hn; simp
  · obtain ⟨_, rfl⟩ := f hn; simp
  · obtain ⟨_, rfl⟩ := f hn; simp

/-- with its repair declared, a configuration with the finding is no longer accepted
(D16, D17, run-number bound, output-path check, CPU-profile directory check) -/
theorem repaired_findings_rejected (r : Repairs) (c : Cfg) (l : Loaded)
    (hload : load r c = .ok l) (hinterp : interpret r l = []) :
    (r.reportEveryChecked = true → ReportingModuloZero c = false) ∧
    (r.objectiveChecked = true → ObjectiveNotOffered c = false) ∧
    (r.runNumberBounded = true → RunNumberOutOfRange c = false) ∧
    (r.outputPathChecked = true → OutputPathNotADirectory c = false) ∧
    (r.cpuProfilePathChecked = true → CpuProfilePathNotCreatable c = false) ∧
    (r.outputPathStatChecked = true → OutputPathNotUsable c = false) := by
  obtain ⟨rfl, he⟩ := load_ok hload
  obtain ⟨hm, ha, ho, hs⟩ := interpret_nil hinterp
  exact ⟨fun hr => repaired_modulo hr he, fun hr => repaired_objective hr hm ha ho,
    fun hr => repaired_runNumber hr he, fun hr => repaired_outputPath hr hs, fun hr => repaired_cpuProfile hr hs,
    fun hr => repaired_outputPathStat hr hs⟩

/-- what the driver prints as `fixed=` (findings that hold syntactically although their repair is declared):
on an accepted configuration these can only be the two whose repair guards the failure site instead of
rejecting the configuration - a crash attributed to any other of them shows that the declared repair is
not in the tree -/
theorem repaired_names_on_accepted (r : Repairs) (c : Cfg) (l : Loaded)
    (hload : load r c = .ok l) (hinterp : interpret r l = []) :
    ∀ n ∈ repairedNames r c, n = "LoopInvariantWithMultiObjective" ∨ n = "ConcurrencyOutOfRange" ∨
      n = "ResultFileNotWritten" := by
  obtain ⟨h1, h2, h3, h4, h5, h6⟩ := repaired_findings_rejected r c l hload hinterp
  intro n hn
  unfold repairedNames at hn
  simp only [List.mem_append] at hn
  have f : ∀ {a b : Bool} {m : String}, (a = true → b = false) → n ∈ (if (a && b) = true then [m] else []) → False := by
    intro a b m hab hm
    cases a <;> cases b <;> simp_all
  rcases hn with (((((((hn | hn) | hn) | hn) | hn) | hn) | hn) | hn) | hn
  · exact (f h1 hn).elim
  · exact (f h2 hn).elim
  · left
    cases hb : (r.loopInvariantGuarded && LoopInvariantWithMultiObjective c) <;> simp_all
  · exact (f h4 hn).elim
  · exact (f h6 hn).elim
  · exact (f h3 hn).elim
  · right; left
    cases hb : (r.concurrencyCapped && ConcurrencyOutOfRange c) <;> simp_all
  · exact (f h5 hn).elim
  · right; right
    split at hn <;> simp_all

/-! ## non-vacuity, and the refutation of the full statements at concrete witnesses

Every witness below is an ACCEPTED configuration (all of them are run against the real explorer by
the `config-runs` suite on every check, as `target:` cases).  TOML text in the comment. -/

/-- `[Scenario] Name="scn"  [Annealer] Type="Kirkpatrick"  [Annealer.Parameters] MaximumIterations=5  [Model] Type="DumbModel"` -/
def wBase : Cfg :=
  [⟨.scenario, "Name", .str "scn"⟩, ⟨.annealer, "Type", .str "Kirkpatrick"⟩, ⟨.model, "Type", .str "DumbModel"⟩,
   ⟨.annealerParams, "MaximumIterations", .int 5⟩]

/-- data facts used by the witnesses: on data set `valid` every limit up to 1.0 binds, none from 2000.0 does -/
def wEnv : Env := { zones := [("valid", List.replicate 6 ⟨1000000, 2000000000⟩)] }

/-- catchment model on the shipped data, Kirkpatrick minimising sediment -/
def wCatchment : Cfg :=
  [⟨.scenario, "Name", .str "scn"⟩, ⟨.annealer, "Type", .str "Kirkpatrick"⟩, ⟨.model, "Type", .str "CatchmentModel"⟩,
   ⟨.annealerParams, "MaximumIterations", .int 5⟩, ⟨.annealerParams, "DecisionVariable", .str "SedimentProduction"⟩,
   ⟨.modelParams, "DataSourcePath", .path "valid"⟩]

/-- the multi-objective annealer over the dumb model -/
def wSuppa : Cfg :=
  [⟨.scenario, "Name", .str "scn"⟩, ⟨.annealer, "Type", .str "Suppapitnarm"⟩, ⟨.model, "Type", .str "DumbModel"⟩,
   ⟨.annealerParams, "MaximumIterations", .int 5⟩]

/-- non-vacuity: accepted AND safe (with the DEFAULT objective: the dumb model answers to any name),
no finding holds -/
example : accepts r0 wBase = true ∧ RunSafe r0 wEnv (mkLoaded wBase) ∧ findingNames r0 wEnv wBase = [] := by decide
example : accepts r0 wCatchment = true ∧ RunSafe r0 wEnv (mkLoaded wCatchment) ∧ findingNames r0 wEnv wCatchment = [] := by decide
example : accepts r0 wSuppa = true ∧ RunSafe r0 wEnv (mkLoaded wSuppa) := by decide
/-- a binding limit is safe -/
example : let w := ⟨.modelParams, "MaximumImplementationCost", .flt 500000⟩ :: wCatchment
    accepts r0 w = true ∧ RunSafe r0 wEnv (mkLoaded w) := by decide
/-- modulo 0 is harmless while the Annealing level is discarded, or with a zero budget -/
example : let w := ⟨.reporting, "ReportEveryNumberOfIterations", .int 0⟩ :: ⟨.logDest, "Annealing", .str "Discarded"⟩ :: wBase
    accepts r0 w = true ∧ RunSafe r0 wEnv (mkLoaded w) := by decide
example : let w := [⟨.reporting, "ReportEveryNumberOfIterations", .int 0⟩, ⟨.scenario, "Name", .str "scn"⟩,
      ⟨.annealer, "Type", .str "Kirkpatrick"⟩, ⟨.model, "Type", .str "DumbModel"⟩]
    accepts r0 w = true ∧ RunSafe r0 wEnv (mkLoaded w) := by decide

/-- D16  `[Scenario.Reporting] ReportEveryNumberOfIterations = 0` -/
def wModulo : Cfg := ⟨.reporting, "ReportEveryNumberOfIterations", .int 0⟩ :: wBase
example : accepts r0 wModulo = true ∧ ¬ RunSafe r0 wEnv (mkLoaded wModulo) ∧ findingNames r0 wEnv wModulo = ["ReportingModuloZero"] := by decide

/-- D17  Kirkpatrick over the catchment model with `DecisionVariable` omitted (default `ObjectiveValue`) -/
def wObjective : Cfg :=
  [⟨.scenario, "Name", .str "scn"⟩, ⟨.annealer, "Type", .str "Kirkpatrick"⟩, ⟨.model, "Type", .str "CatchmentModel"⟩,
   ⟨.modelParams, "DataSourcePath", .path "valid"⟩]
example : accepts r0 wObjective = true ∧ ¬ RunSafe r0 wEnv (mkLoaded wObjective) ∧ findingNames r0 wEnv wObjective = ["ObjectiveNotOffered"] := by decide
/-- D17  … and over the multi-objective dumb model, or with a name the model lacks -/
example : let w := [⟨.scenario, "Name", .str "scn"⟩, ⟨.annealer, "Type", .str "Kirkpatrick"⟩, ⟨.model, "Type", .str "MultiObjectiveDumbModel"⟩]
    accepts r0 w = true ∧ ¬ RunSafe r0 wEnv (mkLoaded w) := by decide
example : let w := ⟨.annealerParams, "DecisionVariable", .str "SedimentVsCost"⟩ :: wObjective
    accepts r0 w = true ∧ ¬ RunSafe r0 wEnv (mkLoaded w) := by decide

/-- D18  `MaximumImplementationCost = 5000.0` where nothing costs that much -/
def wLimit : Cfg := ⟨.modelParams, "MaximumImplementationCost", .flt 5000000000⟩ :: wCatchment
example : accepts r0 wLimit = true ∧ ¬ RunSafe r0 wEnv (mkLoaded wLimit) ∧ findingNames r0 wEnv wLimit = ["LimitNeverBinds"] := by decide

/-- D22  `CheckingLoopInvariant = true` with Suppapitnarm -/
def wLoop : Cfg := ⟨.reporting, "CheckingLoopInvariant", .bool true⟩ :: wSuppa
example : accepts r0 wLoop = true ∧ ¬ RunSafe r0 wEnv (mkLoaded wLoop) ∧ findingNames r0 wEnv wLoop = ["LoopInvariantWithMultiObjective"] := by decide

/-- D23  catchment model without `DataSourcePath` -/
def wNoData : Cfg :=
  [⟨.scenario, "Name", .str "scn"⟩, ⟨.annealer, "Type", .str "Kirkpatrick"⟩, ⟨.model, "Type", .str "CatchmentModel"⟩,
   ⟨.annealerParams, "DecisionVariable", .str "SedimentProduction"⟩]
example : accepts r0 wNoData = true ∧ ¬ RunSafe r0 wEnv (mkLoaded wNoData) ∧ findingNames r0 wEnv wNoData = ["CatchmentWithoutDataSource"] := by decide

/-- D23 (extended)  `DataSourcePath` = a readable text file -/
def wNotLoadable : Cfg := ⟨.modelParams, "DataSourcePath", .path "notcsv"⟩ :: wNoData
example : accepts r0 wNotLoadable = true ∧ ¬ RunSafe r0 wEnv (mkLoaded wNotLoadable) ∧
    findingNames r0 wEnv wNotLoadable = ["CatchmentDataSourceNotLoadable"] := by decide

/-- D24  `Model.Type = "NullModel"` -/
def wNull : Cfg :=
  [⟨.scenario, "Name", .str "scn"⟩, ⟨.annealer, "Type", .str "Kirkpatrick"⟩, ⟨.model, "Type", .str "NullModel"⟩]
example : accepts r0 wNull = true ∧ ¬ RunSafe r0 wEnv (mkLoaded wNull) ∧ findingNames r0 wEnv wNull = ["NullModelUnderRealAnnealer"] := by decide

/-- D8 (repaired in crem fcd5efe)  `OutputType = "JSON"` with Suppapitnarm is safe now -/
def wJson : Cfg := ⟨.scenario, "OutputType", .str "JSON"⟩ :: wSuppa
example : accepts r0 wJson = true ∧ RunSafe r0 wEnv (mkLoaded wJson) ∧ findingNames r0 wEnv wJson = [] := by decide

/-- new  `OutputPath` = an existing regular file; a negative `RunNumber`; `MaximumConcurrentRunNumber = -1`
(as in crem's RichValidConfig.toml); `CpuProfilePath` in a missing directory; `CpuProfilePath` naming a directory -/
example : let w := ⟨.scenario, "OutputPath", .path "file"⟩ :: wBase
    accepts r0 w = true ∧ ¬ RunSafe r0 wEnv (mkLoaded w) ∧ findingNames r0 wEnv w = ["OutputPathNotADirectory"] := by decide
example : let w := ⟨.scenario, "RunNumber", .int (-1)⟩ :: wBase
    accepts r0 w = true ∧ ¬ RunSafe r0 wEnv (mkLoaded w) ∧ findingNames r0 wEnv w = ["RunNumberOutOfRange"] := by decide
example : let w := ⟨.scenario, "MaximumConcurrentRunNumber", .int (-1)⟩ :: wBase
    accepts r0 w = true ∧ ¬ RunSafe r0 wEnv (mkLoaded w) ∧ findingNames r0 wEnv w = ["ConcurrencyOutOfRange"] := by decide
example : let w := ⟨.scenario, "CpuProfilePath", .path "noprofdir"⟩ :: wBase
    accepts r0 w = true ∧ ¬ RunSafe r0 wEnv (mkLoaded w) ∧ findingNames r0 wEnv w = ["CpuProfilePathNotCreatable"] := by decide
example : let w := ⟨.scenario, "CpuProfilePath", .path "dir"⟩ :: wBase
    accepts r0 w = true ∧ ¬ RunSafe r0 wEnv (mkLoaded w) ∧ findingNames r0 wEnv w = ["CpuProfilePathIsDirectory"] := by decide
/-- a CPU profile in an existing directory is safe -/
example : let w := ⟨.scenario, "CpuProfilePath", .path "prof"⟩ :: wBase
    accepts r0 w = true ∧ RunSafe r0 wEnv (mkLoaded w) ∧ findingNames r0 wEnv w = [] := by decide

/-! ### the findings added after the audit (third round): data-set content, values too large to round, result file
names, an unusable output path; and the decoder facts the audit found missing -/

/-- `mant × 10^309` millionths = `mant × 10^303`: `big 180` is 1.8e305 -/
def big (mant : Int) : Int := mant * 1000000000000000000000000000000000000000000000000000000000000000000000000000000000000000000000000000000000000000000000000000000000000000000000000000000000000000000000000000000000000000000000000000000000000000000000000000000000000000000000000000000000000000000000000000000000000000000000000000000000000000000000

/-- D15 family (C18) seen from the configuration: `[Model.Parameters] InitialObjectiveValue = 1.8e305` is accepted and
every run fails in `RoundFloat`; 1.79e305 is safe (Annealing log level discarded) -/
def wHuge : Cfg := ⟨.logDest, "Annealing", .str "Discarded"⟩ :: ⟨.modelParams, "InitialObjectiveValue", .flt (big 180)⟩ :: wBase
example : accepts rTree wHuge = true ∧ ¬ RunSafe rTree wEnv (mkLoaded wHuge) ∧ findingNames rTree wEnv wHuge = ["ValueTooLargeToRound"] := by decide
example : let w := ⟨.logDest, "Annealing", .str "Discarded"⟩ :: ⟨.modelParams, "InitialObjectiveValue", .flt (big 179)⟩ :: wBase
    accepts rTree w = true ∧ RunSafe rTree wEnv (mkLoaded w) ∧ findingNames rTree wEnv w = [] := by decide
example : let w := ⟨.modelParams, "InitialObjectiveValue", .flt (-(big 180))⟩ :: wBase
    accepts rTree w = true ∧ ¬ RunSafe rTree wEnv (mkLoaded w) := by decide
/-- … while the Annealing level is logged (the default destination is standard output) every value is ALSO written with
six decimals: 1.8e302 fails, 1.79e302 does not - and the same goes for the annealer's `StartingTemperature` -/
example : let w := ⟨.logDest, "Annealing", .str "StandardOutput"⟩ :: ⟨.modelParams, "InitialObjectiveValue", .flt (big 179 / 1000)⟩ :: wBase
    accepts rTree w = true ∧ RunSafe rTree wEnv (mkLoaded w) := by decide
example : let w := ⟨.modelParams, "InitialObjectiveValue", .flt (big 180 / 1000)⟩ :: wBase
    accepts rTree w = true ∧ ¬ RunSafe rTree wEnv (mkLoaded w) ∧ findingNames rTree wEnv w = ["ValueTooLargeToRound"] := by decide
example : let w := ⟨.logDest, "Annealing", .str "Discarded"⟩ :: ⟨.modelParams, "InitialObjectiveValue", .flt (big 180 / 1000)⟩ :: wBase
    accepts rTree w = true ∧ RunSafe rTree wEnv (mkLoaded w) := by decide
example : let w := ⟨.annealerParams, "StartingTemperature", .flt (big 180 / 1000)⟩ :: wBase
    accepts rTree w = true ∧ ¬ RunSafe rTree wEnv (mkLoaded w) ∧ findingNames rTree wEnv w = ["ValueTooLargeToRound"] := by decide
example : let w := ⟨.logDest, "Annealing", .str "Discarded"⟩ :: ⟨.annealerParams, "StartingTemperature", .flt (big 100000)⟩ :: wBase
    accepts rTree w = true ∧ RunSafe rTree wEnv (mkLoaded w) := by decide
/-- … the multi-objective dumb model: beyond MaxFloat64/1000 every run fails, beyond MaxFloat64/100 `Interpret` itself panics -/
def wSuppaMo : Cfg :=
  [⟨.logDest, "Annealing", .str "Discarded"⟩, ⟨.scenario, "Name", .str "scn"⟩, ⟨.annealer, "Type", .str "Suppapitnarm"⟩, ⟨.model, "Type", .str "MultiObjectiveDumbModel"⟩,
   ⟨.annealerParams, "MaximumIterations", .int 5⟩]
example : accepts rTree wSuppaMo = true ∧ RunSafe rTree wEnv (mkLoaded wSuppaMo) := by decide
example : let w := ⟨.modelParams, "InitialObjectiveTwoValue", .flt (big 180)⟩ :: wSuppaMo
    accepts rTree w = true ∧ ¬ RunSafe rTree wEnv (mkLoaded w) ∧ findingNames rTree wEnv w = ["ValueTooLargeToRound"] := by decide
/-- … whose values the model itself rounds to 2 decimals only: it is the CSV summary and the Detail-level files that
round to 3, a JSON summary alone does not -/
example : let w := ⟨.scenario, "OutputType", .str "JSON"⟩ :: ⟨.modelParams, "InitialObjectiveTwoValue", .flt (big 180)⟩ :: wSuppaMo
    accepts rTree w = true ∧ RunSafe rTree wEnv (mkLoaded w) ∧ findingNames rTree wEnv w = [] := by decide
example : let w := ⟨.scenario, "OutputLevel", .str "Detail"⟩ :: ⟨.scenario, "OutputType", .str "JSON"⟩ ::
      ⟨.modelParams, "InitialObjectiveTwoValue", .flt (big 180)⟩ :: wSuppaMo
    accepts rTree w = true ∧ ¬ RunSafe rTree wEnv (mkLoaded w) := by decide
example : verdict rTree (⟨.modelParams, "InitialObjectiveThreeValue", .flt (big 1800)⟩ :: wSuppaMo) = .interpretPanic := by decide
example : verdict rTree (⟨.modelParams, "InitialObjectiveThreeValue", .flt (big 1790)⟩ :: wSuppaMo) = .accepted := by decide
/-- a decimal that is no finite double is a PARSE error wherever it stands (1.8e308) -/
example : verdict rTree (⟨.userDetail, "Anything", .flt (big 180000)⟩ :: wBase) = .loadError [.decode] := by decide
example : verdict rTree (⟨.userDetail, "Anything", .flt (big 100000)⟩ :: wBase) = .accepted := by decide

/-- the scenario name and the summary files.  `Name = "My Solution (a)"`, three runs: accepted, every run writes
`My-Summary.csv`; one run is fine; so is the name once C12's repair is declared -/
def wNamed (name : String) (runs : Int) : Cfg :=
  [⟨.scenario, "Name", .str name⟩, ⟨.scenario, "RunNumber", .int runs⟩, ⟨.annealer, "Type", .str "Kirkpatrick"⟩,
   ⟨.model, "Type", .str "DumbModel"⟩, ⟨.annealerParams, "MaximumIterations", .int 5⟩]
example : let w := wNamed "My Solution (a)" 3
    accepts rTree w = true ∧ ¬ RunSafe rTree wEnv (mkLoaded w) ∧ findingNames rTree wEnv w = ["ResultFileNotWritten"] ∧
    expectedSummaryFiles rTree (mkLoaded w) = 1 := by decide
example : let w := wNamed "My Solution (a)" 1
    accepts rTree w = true ∧ RunSafe rTree wEnv (mkLoaded w) ∧ findingNames rTree wEnv w = [] := by decide
example : let w := wNamed "Best Solution" 2
    accepts rTree w = true ∧ ¬ RunSafe rTree wEnv (mkLoaded w) := by decide
example : let w := wNamed "My Solution (a)" 3
    accepts rAll w = true ∧ RunSafe rAll wEnv (mkLoaded w) ∧ findingNames rAll wEnv w = [] ∧
    repairedNames rAll w = ["ResultFileNotWritten"] ∧ expectedSummaryFiles rAll (mkLoaded w) = 3 := by decide
example : summaryFileName rTree (mkLoaded (wNamed "Other Name/2" 3)) "Other Name/2" 2 = "OtherName_of_2(2_of_3)-Summary.csv".toList := by decide
set_option maxRecDepth 4000 in
/-- a file name component of more than 255 BYTES (61 four-byte characters + "-Summary.csv" = 256), or a NUL in it:
accepted, the run completes, nothing is written - with or without C12's repair -/
example : let w := wNamed (String.ofList (List.replicate 61 (Char.ofNat 0x1D11E))) 1
    accepts rAll w = true ∧ ¬ RunSafe rAll wEnv (mkLoaded w) ∧ findingNames rAll wEnv w = ["ResultFileNotWritten"] ∧
    expectedSummaryFiles rAll (mkLoaded w) = 0 := by decide
set_option maxRecDepth 4000 in
example : let w := wNamed (String.ofList (List.replicate 60 (Char.ofNat 0x1D11E))) 1
    accepts rAll w = true ∧ RunSafe rAll wEnv (mkLoaded w) := by decide
example : let w := wNamed (String.ofList ['a', Char.ofNat 0, 'b']) 1
    accepts rTree w = true ∧ ¬ RunSafe rTree wEnv (mkLoaded w) := by decide

/-- D23 family: a data set with the three tables whose content cannot be consumed: `Interpret` itself panics;
a meta-file whose table file does not load: accepted, the runs fail; a harmless variation: safe -/
example : let w := ⟨.modelParams, "DataSourcePath", .path "mal.valid.drop-A-14"⟩ :: wNoData
    verdict rTree w = .interpretPanic ∧
    findingNames rTree wEnv w = ["CatchmentDataSourceNotLoadable", "CatchmentDataSetMalformed"] := by decide
example : let w := ⟨.modelParams, "DataSourcePath", .path "unl.valid.gone-G"⟩ :: wNoData
    accepts rTree w = true ∧ ¬ RunSafe rTree wEnv (mkLoaded w) ∧ findingNames rTree wEnv w = ["CatchmentDataSourceNotLoadable"] := by decide
example : let w := ⟨.modelParams, "DataSourcePath", .path "okd.valid.extracol-A"⟩ :: wNoData
    accepts rTree w = true ∧ RunSafe rTree wEnv (mkLoaded w) ∧ findingNames rTree wEnv w = [] := by decide

/-- the output path: every EXISTING non-directory is rejected since af2e412 (a data-set file too); a path below a file
(`os.Stat` fails, but not with "does not exist") was accepted and made every run fail -/
example : verdict rTree (⟨.scenario, "OutputPath", .path "valid"⟩ :: wBase) = .interpretError [.scenario] := by decide
example : findingNames r0 wEnv (⟨.scenario, "OutputPath", .path "badcsv"⟩ :: wBase) = ["OutputPathNotADirectory"] := by decide
example : let w := ⟨.scenario, "OutputPath", .path "underfile"⟩ :: wBase
    let r : Repairs := { rTree with outputPathStatChecked := false }
    accepts r w = true ∧ ¬ RunSafe r wEnv (mkLoaded w) ∧ findingNames r wEnv w = ["OutputPathNotUsable"] ∧
    verdict rTree w = .interpretError [.scenario] := by decide

/-- the bank-erosion factor has accepted values (the audit found none expressible in thousandths) -/
example : ∃ v, validate .bankErosion v = true := ⟨.flt 150, by decide⟩
example : let w := ⟨.modelParams, "BankErosionFudgeFactor", .flt 150⟩ :: wCatchment
    accepts rTree w = true ∧ RunSafe rTree wEnv (mkLoaded w) := by decide
example : verdict rTree (⟨.modelParams, "BankErosionFudgeFactor", .flt 501⟩ :: wCatchment) = .interpretError [.model] := by decide
example : verdict rTree (⟨.modelParams, "BankErosionFudgeFactor", .flt 9⟩ :: wCatchment) = .interpretError [.model] := by decide

/-- keys of a struct table are matched up to case (`[scenario] name = …  [model] TYPE = …` runs), also with the
Kelvin sign for a `k`; keys of a map table are not -/
def wFolded : Cfg :=
  [⟨.scenario, "name", .str "scn"⟩, ⟨.annealer, "tYPE", .str "Kirkpatrick"⟩, ⟨.model, "TYPE", .str "DumbModel"⟩,
   ⟨.annealerParams, "MaximumIterations", .int 5⟩]
example : accepts rTree wFolded = true ∧ RunSafe rTree wEnv (mkLoaded wFolded) ∧
    (mkLoaded wFolded).name = .str "scn" ∧ (mkLoaded wFolded).annealerType = "Kirkpatrick" ∧ (mkLoaded wFolded).modelType = .str "DumbModel" := by decide
example : findingNames rTree wEnv [⟨.scenario, "NAME", .str "scn"⟩, ⟨.annealer, "type", .str "Kirkpatrick"⟩, ⟨.model, "type", .str "NullModel"⟩]
    = ["NullModelUnderRealAnnealer"] := by decide
example : (mkLoaded (⟨.reporting, String.ofList ['C', 'h', 'e', 'c', Char.ofNat 0x212A, 'i', 'n', 'g', 'L', 'o', 'o', 'p',
    'I', 'n', 'v', 'a', 'r', 'i', 'a', 'n', 't'], .bool true⟩ :: wBase)).loopInvariant = true := by decide
example : maxIterations (mkLoaded (⟨.annealerParams, "maximumiterations", .int 5⟩ :: wNull)) = 0 := by decide
/-- a scalar where a struct table is expected is a decode error; written as an inline table its key is unknown;
arrays and datetimes are taken by no scalar field, are skipped for a map field, and are stored in a free map -/
example : verdict rTree (⟨.scenario, "Reporting", .int 1⟩ :: wBase) = .loadError [.decode] := by decide
example : verdict rTree (⟨.scenario, "reporting", .table⟩ :: wBase) = .loadError [.unknown] := by decide
example : verdict rTree (⟨.top, "Model", .int 1⟩ :: wBase) = .loadError [.decode] := by decide
example : verdict rTree (⟨.top, "metadata", .table⟩ :: ⟨.top, "Bogus", .int 1⟩ :: wBase) = .loadError [.unknown] := by decide
example : verdict rTree (⟨.scenario, "RunNumber", .array⟩ :: wBase) = .loadError [.decode] := by decide
example : verdict rTree (⟨.reporting, "LogLevelDestinations", .datetime⟩ :: ⟨.userDetail, "Dates", .array⟩ :: wBase) = .accepted := by decide
example : verdict rTree (⟨.modelParams, "InitialObjectiveValue", .datetime⟩ :: wBase) = .interpretError [.model] := by decide

/-- the full statement stays false at the repairs that are in the tree -/
example : ¬ ∀ (env : Env) (c : Cfg) (l : Loaded), load rTree c = .ok l → interpret rTree l = [] → RunSafe rTree env l := by
  intro h
  exact absurd (h wEnv wHuge (mkLoaded wHuge) (by rfl) (by decide)) (by decide)

/-- the full statement `accept_safe` is false -/
example : ¬ ∀ (env : Env) (c : Cfg) (l : Loaded), load r0 c = .ok l → interpret r0 l = [] → RunSafe r0 env l := by
  intro h
  exact absurd (h wEnv wModulo (mkLoaded wModulo) (by rfl) (by decide)) (by decide)

/-- … and stays false with every proposed repair in the tree -/
example : ¬ ∀ (env : Env) (c : Cfg) (l : Loaded), load rAll c = .ok l → interpret rAll l = [] → RunSafe rAll env l := by
  intro h
  exact absurd (h wEnv wNull (mkLoaded wNull) (by rfl) (by decide)) (by decide)

/-- the full statement `reject_is_error` is false: a .csv without the tables makes `Interpret` itself
panic — here on a configuration that is REJECTED anyway (unrecognised log destination) -/
def wBadCsv : Cfg :=
  ⟨.modelParams, "DataSourcePath", .path "badcsv"⟩ :: ⟨.logDest, "Errors", .str "File"⟩ :: wNoData
example : verdict r0 wBadCsv = .interpretPanic ∧ interpret r0 (mkLoaded wBadCsv) = [.scenario] := by decide
example : ¬ ∀ c : Cfg, verdict r0 c = .accepted ∨ (∃ es, es ≠ [] ∧ verdict r0 c = .loadError es) ∨
    (∃ es, es ≠ [] ∧ verdict r0 c = .interpretError es) := by
  intro h
  have hv : verdict r0 wBadCsv = .interpretPanic := by decide
  rcases h wBadCsv with h' | ⟨es, _, h'⟩ | ⟨es, _, h'⟩ <;> rw [hv] at h' <;> cases h'

/-- rejections are error values: the fixtures of crem's own tests -/
example : verdict r0 [] = .loadError [.mandatory ["Name", "AnnealerType", "ModelType"]] := by decide
example : verdict r0 [⟨.scenario, "Name", .str ""⟩, ⟨.scenario, "RunNumber", .int 0⟩, ⟨.annealer, "Type", .str "Kirkpatrick"⟩,
      ⟨.model, "Type", .str "Unknown"⟩, ⟨.other, "TheInquisition", .bool true⟩]
    = .loadError [.unknown, .mandatory ["Name", "RunNumber"]] := by decide
example : verdict r0 (⟨.scenario, "Name", .int 42⟩ :: wBase) = .loadError [.decode] := by decide
example : verdict r0 [⟨.scenario, "Name", .str "s"⟩, ⟨.annealer, "Type", .str "Kirkpatrick"⟩, ⟨.model, "Type", .str "TestModel"⟩]
    = .interpretError [.model] := by decide
example : verdict r0 (⟨.annealerParams, "CoolingFactor", .flt 1500000⟩ :: ⟨.modelParams, "Rogue", .flt 200000⟩ :: wBase)
    = .interpretError [.model, .annealer] := by decide
/-- quirks of the decoder, transcribed: a negative integer is taken for an unsigned field, a map field
written as a string is silently skipped, an unknown annealer parameter is ignored -/
example : accepts r0 (⟨.reporting, "ReportEveryNumberOfIterations", .int (-1)⟩ :: ⟨.scenario, "UserDetail", .str "notATable"⟩ ::
    ⟨.annealerParams, "HereIsARogueAnnealerParameter", .flt 200000⟩ :: wBase) = true := by decide

/-! ### with the repairs declared, the repaired witnesses are rejected with an error value, or run safely -/
example : verdict rAll wModulo = .loadError [.mandatory ["ReportEvery"]] := by decide
example : verdict rAll wObjective = .interpretError [.objective] := by decide
example : verdict rAll (⟨.scenario, "RunNumber", .int (-1)⟩ :: wBase) = .loadError [.mandatory ["RunNumber"]] := by decide
example : verdict rAll (⟨.scenario, "OutputPath", .path "file"⟩ :: wBase) = .interpretError [.scenario] := by decide
example : verdict rAll (⟨.scenario, "CpuProfilePath", .path "noprofdir"⟩ :: wBase) = .interpretError [.scenario] := by decide
example : verdict rTree (⟨.scenario, "CpuProfilePath", .path "nested"⟩ :: wBase) = .interpretError [.scenario] := by decide
/-- the run-number bound is 2^31 - 1 (the `sync.WaitGroup` counter): accepted up to it and safe, rejected above it,
which includes every wrapped negative -/
example : let w := ⟨.scenario, "RunNumber", .int 2147483647⟩ :: wBase
    accepts rAll w = true ∧ RunSafe rAll wEnv (mkLoaded w) ∧ findingNames rAll wEnv w = [] := by decide
example : verdict rAll (⟨.scenario, "RunNumber", .int 2147483648⟩ :: wBase) = .loadError [.mandatory ["RunNumber"]] := by decide
example : verdict rAll (⟨.scenario, "RunNumber", .int (-9223372036854775808)⟩ :: wBase) = .loadError [.mandatory ["RunNumber"]] := by decide
example : accepts r0 (⟨.scenario, "RunNumber", .int 2147483648⟩ :: wBase) = true := by decide
example : accepts rAll wLoop = true ∧ RunSafe rAll wEnv (mkLoaded wLoop) := by decide
example : let w := ⟨.scenario, "MaximumConcurrentRunNumber", .int (-1)⟩ :: wBase
    accepts rAll w = true ∧ RunSafe rAll wEnv (mkLoaded w) := by decide
/-- the remaining findings stay: repairs do not touch them (a CPU profile path naming a directory is
accepted with the directory check too) -/
example : let w := ⟨.scenario, "CpuProfilePath", .path "dir"⟩ :: wBase
    accepts rAll w = true ∧ ¬ RunSafe rAll wEnv (mkLoaded w) ∧ findingNames rAll wEnv w = ["CpuProfilePathIsDirectory"] := by decide
example : accepts rAll wNull = true ∧ ¬ RunSafe rAll wEnv (mkLoaded wNull) := by decide
example : accepts rAll wLimit = true ∧ findingNames rAll wEnv wLimit = ["LimitNeverBinds"] := by decide
/-- with D17's repair the dumb model no longer answers to any name -/
example : verdict rAll (⟨.annealerParams, "DecisionVariable", .str "SedimentVsCost"⟩ :: wBase) = .interpretError [.objective] := by decide

end Crem.Config
