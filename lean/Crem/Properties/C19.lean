import Crem.Proofs.Config
/-!
# C19 — accepted configurations run to completion; rejected ones give errors, not panics (partial)

Theorems about the model of the explorer's configuration pipeline (`Crem/Model/Config.lean`):
`load` (BurntSushi/toml v0.3.1 type unification over `defaultConfig()`, undecoded keys, mandatory
fields), `interpret` (model / annealer / scenario sections, the validated-or-default parameter
store) and `RunSafe` (the preconditions of every run-time failure site reachable from
`ConfigInterpreter.Interpret` + `Scenario.Run()` that reading the code found).

Everything is parametric in `r : Repairs`, the DECLARATION of which of the proposed repairs are in
the tree (default: none; the suite's `repairs=` argument).  What the property demands is

    theorem accept_safe (r : Repairs) (env : Env) (c : Cfg) (l : Loaded) :
        load r c = .ok l → interpret r l = [] → RunSafe r env l

and

    theorem reject_is_error (r : Repairs) (c : Cfg) :
        verdict r c = .accepted ∨ (∃ es, es ≠ [] ∧ verdict r c = .loadError es) ∨ (∃ es, es ≠ [] ∧ verdict r c = .interpretError es)

Both are FALSE for today's code: the `example`s below exhibit accepted configurations that violate a
site's precondition (each one crashes the real explorer; the `config-runs` suite replays them in
every check), and a configuration on which the interpreter itself panics.

What is proved instead, for EVERY structured configuration (all keys, all values, any number of
entries — no bound):

* `accept_safe_partial`: an accepted configuration satisfies `RunSafe` unless one of twelve named,
  decidable, purely syntactic finding predicates holds of it (plus the platform exclusion
  `ExcelOutput`); a finding whose repair is declared needs no exclusion (`repaired_*`: with the
  repair such a configuration is rejected with an error value, or its site is guarded).  The predicates are evaluated by the Lean driver on the structured form of every
  generated configuration; a crash of the real explorer is suppressed as a known finding only if the
  predicate that the driver found to hold matches the panic — so what is suppressed is exactly what
  this theorem excludes, and a crash of a configuration the theorem covers is reported as
  `config:unexplained-crash`.
* `finding_unsafe_*`: conversely each finding, on an accepted configuration, really breaks a
  precondition: none of the exclusions is vacuous or too wide.  Together: `accept_safe_iff`.
* `repaired_findings_rejected`, `repaired_names_on_accepted`: with its repair declared a finding no longer holds of
  any accepted configuration (or, for the two guarded sites, is harmless); the driver still lists such findings
  (`fixed=`) so that a crash at a repaired site is reported under the finding's own signature.
* `reject_is_error_partial`: unless the data source is a readable non-data-set, loader and
  interpreter return `accepted` or ONE error value with a non-empty list of classes; `load_total`.

Missing for the full property (hence "partial"): TOML parsing is not modelled; `RunSafe` is an
enumeration by reading (a missed site shows up in the correspondence as an unexplained crash, not
silently); that the real run completes under `RunSafe` is observed by the correspondence
(every accepted generated configuration is run), not proved.
-/
namespace Crem.Config

/-! ## the Boolean the driver prints is the proposition -/

theorem runSafe_iff (r : Repairs) (env : Env) (l : Loaded) : RunSafe r env l ↔ runSafeB r env l = true := by
  constructor
  · intro h
    obtain ⟨h1, h2, h3, h4, h5, h6, h8, h9, h10, h11, h12⟩ := h
    unfold runSafeB
    simp only [Bool.and_eq_true]
    refine ⟨⟨⟨⟨⟨⟨⟨⟨⟨⟨?_, ?_⟩, ?_⟩, ?_⟩, ?_⟩, ?_⟩, ?_⟩, ?_⟩, ?_⟩, ?_⟩, ?_⟩
    · rcases h1 with h | h | h
      · simp [h]
      · simp [h]
      · simp [h]
    · cases hk : isKirk l
      · rfl
      · simpa using h2 hk
    · cases hc : isCatchment l
      · rfl
      · simpa using h3 hc
    · rcases h4 with h | h
      · simp [h]
      · cases hi : l.loopInvariant
        · simp
        · simp [h hi]
    · cases hc : isCatchment l
      · rfl
      · simpa using h5 hc
    · simpa using h6
    · cases ho : l.outputPath with
      | path p => simpa using h8 p ho
      | _ => rfl
    · simpa using h9
    · rcases h10 with h | h
      · simp [h]
      · simp [h]
    · cases ho : l.cpuProfilePath with
      | path p => simpa using h11 p ho
      | _ => rfl
    · simpa using h12
  · intro h
    unfold runSafeB at h
    simp only [Bool.and_eq_true] at h
    obtain ⟨⟨⟨⟨⟨⟨⟨⟨⟨⟨h1, h2⟩, h3⟩, h4⟩, h5⟩, h6⟩, h8⟩, h9⟩, h10⟩, h11⟩, h12⟩ := h
    refine ⟨?_, ?_, ?_, ?_, ?_, ?_, ?_, ?_, ?_, ?_, ?_⟩
    · by_cases ha : l.reportEvery = 0
      · by_cases hb : annealingDiscarded l = true
        · exact .inr (.inl hb)
        · right; right
          simpa [ha, hb] using h1
      · exact .inl ha
    · intro hk; simpa [hk] using h2
    · intro hc; simpa [hc] using h3
    · cases hg : r.loopInvariantGuarded
      · right; intro hi; simpa [hg, hi] using h4
      · exact .inl rfl
    · intro hc; simpa [hc] using h5
    · simpa using h6
    · intro p hp; simpa [hp] using h8
    · simpa using h9
    · cases hg : r.concurrencyCapped
      · right; simpa [hg] using h10
      · exact .inl rfl
    · intro p hp; simpa [hp] using h11
    · simpa using h12

instance (r : Repairs) (env : Env) (l : Loaded) : Decidable (RunSafe r env l) :=
  decidable_of_iff _ (runSafe_iff r env l).symm

/-! ## accepted ⇒ safe, outside the named findings -/

/-- **accept_safe_partial.**  For every structured configuration that loader and interpreter
accept, every precondition of `RunSafe` holds, provided none of the named findings holds of it;
a finding whose repair is declared to be in the tree needs no exclusion.
(The full statement `accept_safe`, without the thirteen finding/platform hypotheses, is refuted below.) -/
theorem accept_safe_partial (r : Repairs) (env : Env) (c : Cfg) (l : Loaded)
    (hload : load r c = .ok l) (hinterp : interpret r l = [])
    (h1 : r.reportEveryChecked = true ∨ ReportingModuloZero c = false)
    (h2 : r.objectiveChecked = true ∨ ObjectiveNotOffered c = false)
    (h3 : LimitNeverBinds env c = false)
    (h4 : r.loopInvariantGuarded = true ∨ LoopInvariantWithMultiObjective c = false)
    (h5 : CatchmentWithoutDataSource c = false)
    (h6 : CatchmentDataSourceNotLoadable c = false)
    (h7 : NullModelUnderRealAnnealer c = false)
    (h9 : r.outputPathChecked = true ∨ OutputPathNotADirectory c = false)
    (h10 : r.runNumberBounded = true ∨ RunNumberOutOfRange c = false)
    (h11 : r.concurrencyCapped = true ∨ ConcurrencyOutOfRange c = false)
    (h12 : r.cpuProfilePathChecked = true ∨ CpuProfilePathNotCreatable c = false)
    (h12d : CpuProfilePathIsDirectory c = false)
    (hplatform : ExcelOutput c = false) :
    RunSafe r env l := by
  obtain ⟨rfl, he⟩ := load_ok hload
  obtain ⟨hm, ha, ho, hs⟩ := interpret_nil hinterp
  exact {
    modulo := site_modulo c (h1.elim (fun hr => repaired_modulo hr he) id)
    objective := site_objective c (h2.elim (fun hr => repaired_objective hr hm ha ho) id)
    limits := site_limits env h3
    loopInvariant := h4.elim .inl (fun h => .inr (site_loopInvariant he h))
    dataSource := site_dataSource hm h5 h6
    realModel := site_realModel h7
    outputPath := site_outputPath (h9.elim (fun hr => repaired_outputPath hr hs) id)
    runNumber := site_runNumber (h10.elim (fun hr => repaired_runNumber hr he) id)
    concurrency := h11.elim .inl (fun h => .inr (site_concurrency h))
    cpuProfile := site_cpuProfile (h12.elim (fun hr => repaired_cpuProfile hr hs) id) h12d
    platform := site_platform hplatform }

/-- the same, with the findings as the list the driver prints -/
theorem accept_safe_of_no_finding (r : Repairs) (env : Env) (c : Cfg) (l : Loaded)
    (hload : load r c = .ok l) (hinterp : interpret r l = []) (hnone : findingNames r env c = []) :
    RunSafe r env l := by
  have f : ∀ {b : Bool} {n : String}, (if b = true then [n] else []) = [] → b = false := by
    intro b n h; cases b <;> simp_all
  have g : ∀ {a b : Bool} {n : String}, (if (!a && b) = true then [n] else []) = [] → a = true ∨ b = false := by
    intro a b n h; cases a <;> cases b <;> simp_all
  unfold findingNames at hnone
  simp only [List.append_eq_nil_iff] at hnone
  obtain ⟨⟨⟨⟨⟨⟨⟨⟨⟨⟨⟨⟨h1, h2⟩, h3⟩, h4⟩, h5⟩, h6⟩, h7⟩, h9⟩, h10⟩, h11⟩, h12⟩, h12d⟩, h13⟩ := hnone
  exact accept_safe_partial r env c l hload hinterp (g h1) (g h2) (f h3) (g h4) (f h5) (f h6) (f h7)
    (g h9) (g h10) (g h11) (g h12) (f h12d) (f h13)

/-! ## rejected ⇒ an error value -/

/-- loading is total and a rejection carries at least one error class -/
theorem load_total (r : Repairs) (c : Cfg) : (∃ l, load r c = .ok l) ∨ (∃ es, es ≠ [] ∧ load r c = .error es) := by
  cases h : load r c with
  | ok l => exact .inl ⟨l, rfl⟩
  | error es => exact .inr ⟨es, load_error h, rfl⟩

/-- **reject_is_error_partial.**  Whatever the configuration, loader + interpreter answer with
`accepted` or with one error value naming at least one class / section — unless the data source
is a readable non-data-set (then `Saver.SetDecompressionModel` may panic inside `Interpret`). -/
theorem reject_is_error_partial (r : Repairs) (c : Cfg) (h : CatchmentDataSourceNotLoadable c = false) :
    verdict r c = .accepted ∨ (∃ es, es ≠ [] ∧ verdict r c = .loadError es) ∨
    (∃ es, es ≠ [] ∧ verdict r c = .interpretError es) := by
  unfold verdict
  cases hl : load r c with
  | error es => exact .inr (.inl ⟨es, load_error hl, rfl⟩)
  | ok l =>
    obtain ⟨rfl, _⟩ := load_ok hl
    have hp : interpretPanics (mkLoaded c) = false := interpretPanics_false h
    simp only [hp]
    by_cases hi : (interpret r (mkLoaded c)).isEmpty = true
    · exact .inl (by simp [hi])
    · refine .inr (.inr ⟨interpret r (mkLoaded c), ?_, by simp [hi]⟩)
      intro he; simp [he] at hi

/-- the interpreter's panic is exactly that finding -/
theorem interpret_panic_is_finding (r : Repairs) (c : Cfg) (h : verdict r c = .interpretPanic) :
    CatchmentDataSourceNotLoadable c = true := by
  cases hf : CatchmentDataSourceNotLoadable c with
  | true => rfl
  | false =>
    rcases reject_is_error_partial r c hf with h' | ⟨es, _, h'⟩ | ⟨es, _, h'⟩ <;> rw [h] at h' <;> cases h'

/-! ## the exclusions are exact -/

/-- **finding_unsafe.**  On an accepted configuration every finding the driver lists (those whose
repair is not declared) breaks a precondition of `RunSafe`: no exclusion of `accept_safe_partial`
is vacuous or wider than the failure it names. -/
theorem finding_unsafe (r : Repairs) (env : Env) (c : Cfg) (l : Loaded)
    (hload : load r c = .ok l) (hinterp : interpret r l = []) (hsome : findingNames r env c ≠ []) :
    ¬ RunSafe r env l := by
  obtain ⟨rfl, _⟩ := load_ok hload
  obtain ⟨hm, _, _, _⟩ := interpret_nil hinterp
  rcases Bool.eq_false_or_eq_true (!r.reportEveryChecked && ReportingModuloZero c) with h1 | h1
  · simp only [Bool.and_eq_true, Bool.not_eq_true'] at h1; exact unsafe_modulo r env h1.2
  rcases Bool.eq_false_or_eq_true (!r.objectiveChecked && ObjectiveNotOffered c) with h2 | h2
  · simp only [Bool.and_eq_true, Bool.not_eq_true'] at h2; exact unsafe_objective r env h2.2
  rcases Bool.eq_false_or_eq_true (LimitNeverBinds env c) with h3 | h3
  · exact unsafe_limit r env hm h3
  rcases Bool.eq_false_or_eq_true (!r.loopInvariantGuarded && LoopInvariantWithMultiObjective c) with h4 | h4
  · simp only [Bool.and_eq_true, Bool.not_eq_true'] at h4; exact unsafe_loopInvariant r env h4.1 h4.2
  rcases Bool.eq_false_or_eq_true (CatchmentWithoutDataSource c) with h5 | h5
  · exact unsafe_noDataSource r env h5
  rcases Bool.eq_false_or_eq_true (CatchmentDataSourceNotLoadable c) with h6 | h6
  · exact unsafe_dataSourceNotLoadable r env h6
  rcases Bool.eq_false_or_eq_true (NullModelUnderRealAnnealer c) with h7 | h7
  · exact unsafe_nullModel r env h7
  rcases Bool.eq_false_or_eq_true (!r.outputPathChecked && OutputPathNotADirectory c) with h9 | h9
  · simp only [Bool.and_eq_true, Bool.not_eq_true'] at h9; exact unsafe_outputPath r env h9.2
  rcases Bool.eq_false_or_eq_true (!r.runNumberBounded && RunNumberOutOfRange c) with h10 | h10
  · simp only [Bool.and_eq_true, Bool.not_eq_true'] at h10; exact unsafe_runNumber r env h10.2
  rcases Bool.eq_false_or_eq_true (!r.concurrencyCapped && ConcurrencyOutOfRange c) with h11 | h11
  · simp only [Bool.and_eq_true, Bool.not_eq_true'] at h11; exact unsafe_concurrency r env h11.1 h11.2
  rcases Bool.eq_false_or_eq_true (!r.cpuProfilePathChecked && CpuProfilePathNotCreatable c) with h12 | h12
  · simp only [Bool.and_eq_true, Bool.not_eq_true'] at h12; exact unsafe_cpuProfile r env h12.2
  rcases Bool.eq_false_or_eq_true (CpuProfilePathIsDirectory c) with h12d | h12d
  · exact unsafe_cpuProfileDir r env h12d
  rcases Bool.eq_false_or_eq_true (ExcelOutput c) with h13 | h13
  · exact unsafe_excel r env h13
  exact absurd (by simp [findingNames, h1, h2, h3, h4, h5, h6, h7, h9, h10, h11, h12, h12d, h13]) hsome

/-- **accept_safe_iff.**  For an accepted configuration, `RunSafe` holds exactly when the driver's
list of findings is empty. -/
theorem accept_safe_iff (r : Repairs) (env : Env) (c : Cfg) (l : Loaded)
    (hload : load r c = .ok l) (hinterp : interpret r l = []) :
    RunSafe r env l ↔ findingNames r env c = [] := by
  constructor
  · intro hs
    apply Classical.byContradiction
    intro hne
    exact finding_unsafe r env c l hload hinterp hne hs
  · exact accept_safe_of_no_finding r env c l hload hinterp

/-- with its repair declared, a configuration with the finding is no longer accepted
(D16, D17, run-number bound, output-path check, CPU-profile directory check) -/
theorem repaired_findings_rejected (r : Repairs) (c : Cfg) (l : Loaded)
    (hload : load r c = .ok l) (hinterp : interpret r l = []) :
    (r.reportEveryChecked = true → ReportingModuloZero c = false) ∧
    (r.objectiveChecked = true → ObjectiveNotOffered c = false) ∧
    (r.runNumberBounded = true → RunNumberOutOfRange c = false) ∧
    (r.outputPathChecked = true → OutputPathNotADirectory c = false) ∧
    (r.cpuProfilePathChecked = true → CpuProfilePathNotCreatable c = false) := by
  obtain ⟨rfl, he⟩ := load_ok hload
  obtain ⟨hm, ha, ho, hs⟩ := interpret_nil hinterp
  exact ⟨fun hr => repaired_modulo hr he, fun hr => repaired_objective hr hm ha ho,
    fun hr => repaired_runNumber hr he, fun hr => repaired_outputPath hr hs, fun hr => repaired_cpuProfile hr hs⟩

/-- what the driver prints as `fixed=` (findings that hold syntactically although their repair is declared):
on an accepted configuration these can only be the two whose repair guards the failure site instead of
rejecting the configuration - a crash attributed to any other of them shows that the declared repair is
not in the tree -/
theorem repaired_names_on_accepted (r : Repairs) (c : Cfg) (l : Loaded)
    (hload : load r c = .ok l) (hinterp : interpret r l = []) :
    ∀ n ∈ repairedNames r c, n = "LoopInvariantWithMultiObjective" ∨ n = "ConcurrencyOutOfRange" := by
  obtain ⟨h1, h2, h3, h4, h5⟩ := repaired_findings_rejected r c l hload hinterp
  intro n hn
  unfold repairedNames at hn
  simp only [List.mem_append] at hn
  have f : ∀ {a b : Bool} {m : String}, (a = true → b = false) → n ∈ (if (a && b) = true then [m] else []) → False := by
    intro a b m hab hm
    cases a <;> cases b <;> simp_all
  rcases hn with (((((hn | hn) | hn) | hn) | hn) | hn) | hn
  · exact (f h1 hn).elim
  · exact (f h2 hn).elim
  · left
    cases hb : (r.loopInvariantGuarded && LoopInvariantWithMultiObjective c) <;> simp_all
  · exact (f h4 hn).elim
  · exact (f h3 hn).elim
  · right
    cases hb : (r.concurrencyCapped && ConcurrencyOutOfRange c) <;> simp_all
  · exact (f h5 hn).elim

/-! ## non-vacuity, and the refutation of the full statements at concrete witnesses

Every witness below is an ACCEPTED configuration (all of them are run against the real explorer by
the `config-runs` suite on every check, as `target:` cases).  TOML text in the comment. -/

/-- `[Scenario] Name="scn"  [Annealer] Type="Kirkpatrick"  [Annealer.Parameters] MaximumIterations=5  [Model] Type="DumbModel"` -/
def wBase : Cfg :=
  [⟨.scenario, "Name", .str "scn"⟩, ⟨.annealer, "Type", .str "Kirkpatrick"⟩, ⟨.model, "Type", .str "DumbModel"⟩,
   ⟨.annealerParams, "MaximumIterations", .int 5⟩]

/-- today's tree: no repair declared -/
def r0 : Repairs := {}
/-- every proposed repair declared -/
def rAll : Repairs := ⟨true, true, true, true, true, true, true⟩
/-- the repairs that are in crem today (the `repairs=` argument in checkprops.py) -/
def rTree : Repairs := { rAll with objectiveChecked := false }

/-- data facts used by the witnesses: on data set `valid` every limit up to 1.0 binds, none from 2000.0 does -/
def wEnv : Env := { zones := [("valid", List.replicate 6 ⟨1000, 2000000⟩)] }

/-- catchment model on the shipped data, Kirkpatrick minimising sediment -/
def wCatchment : Cfg :=
  [⟨.scenario, "Name", .str "scn"⟩, ⟨.annealer, "Type", .str "Kirkpatrick"⟩, ⟨.model, "Type", .str "CatchmentModel"⟩,
   ⟨.annealerParams, "MaximumIterations", .int 5⟩, ⟨.annealerParams, "DecisionVariable", .str "SedimentProduction"⟩,
   ⟨.modelParams, "DataSourcePath", .path "valid"⟩]

/-- the multi-objective annealer over the dumb model -/
def wSuppa : Cfg :=
  [⟨.scenario, "Name", .str "scn"⟩, ⟨.annealer, "Type", .str "Suppapitnarm"⟩, ⟨.model, "Type", .str "DumbModel"⟩,
   ⟨.annealerParams, "MaximumIterations", .int 5⟩]

/-- non-vacuity: accepted AND safe (with the DEFAULT objective: the dumb model answers to any name),
no finding holds -/
example : accepts r0 wBase = true ∧ RunSafe r0 wEnv (mkLoaded wBase) ∧ findingNames r0 wEnv wBase = [] := by decide
example : accepts r0 wCatchment = true ∧ RunSafe r0 wEnv (mkLoaded wCatchment) ∧ findingNames r0 wEnv wCatchment = [] := by decide
example : accepts r0 wSuppa = true ∧ RunSafe r0 wEnv (mkLoaded wSuppa) := by decide
/-- a binding limit is safe -/
example : let w := ⟨.modelParams, "MaximumImplementationCost", .flt 500⟩ :: wCatchment
    accepts r0 w = true ∧ RunSafe r0 wEnv (mkLoaded w) := by decide
/-- modulo 0 is harmless while the Annealing level is discarded, or with a zero budget -/
example : let w := ⟨.reporting, "ReportEveryNumberOfIterations", .int 0⟩ :: ⟨.logDest, "Annealing", .str "Discarded"⟩ :: wBase
    accepts r0 w = true ∧ RunSafe r0 wEnv (mkLoaded w) := by decide
example : let w := [⟨.reporting, "ReportEveryNumberOfIterations", .int 0⟩, ⟨.scenario, "Name", .str "scn"⟩,
      ⟨.annealer, "Type", .str "Kirkpatrick"⟩, ⟨.model, "Type", .str "DumbModel"⟩]
    accepts r0 w = true ∧ RunSafe r0 wEnv (mkLoaded w) := by decide

/-- D16  `[Scenario.Reporting] ReportEveryNumberOfIterations = 0` -/
def wModulo : Cfg := ⟨.reporting, "ReportEveryNumberOfIterations", .int 0⟩ :: wBase
example : accepts r0 wModulo = true ∧ ¬ RunSafe r0 wEnv (mkLoaded wModulo) ∧ findingNames r0 wEnv wModulo = ["ReportingModuloZero"] := by decide

/-- D17  Kirkpatrick over the catchment model with `DecisionVariable` omitted (default `ObjectiveValue`) -/
def wObjective : Cfg :=
  [⟨.scenario, "Name", .str "scn"⟩, ⟨.annealer, "Type", .str "Kirkpatrick"⟩, ⟨.model, "Type", .str "CatchmentModel"⟩,
   ⟨.modelParams, "DataSourcePath", .path "valid"⟩]
example : accepts r0 wObjective = true ∧ ¬ RunSafe r0 wEnv (mkLoaded wObjective) ∧ findingNames r0 wEnv wObjective = ["ObjectiveNotOffered"] := by decide
/-- D17  … and over the multi-objective dumb model, or with a name the model lacks -/
example : let w := [⟨.scenario, "Name", .str "scn"⟩, ⟨.annealer, "Type", .str "Kirkpatrick"⟩, ⟨.model, "Type", .str "MultiObjectiveDumbModel"⟩]
    accepts r0 w = true ∧ ¬ RunSafe r0 wEnv (mkLoaded w) := by decide
example : let w := ⟨.annealerParams, "DecisionVariable", .str "SedimentVsCost"⟩ :: wObjective
    accepts r0 w = true ∧ ¬ RunSafe r0 wEnv (mkLoaded w) := by decide

/-- D18  `MaximumImplementationCost = 5000.0` where nothing costs that much -/
def wLimit : Cfg := ⟨.modelParams, "MaximumImplementationCost", .flt 5000000⟩ :: wCatchment
example : accepts r0 wLimit = true ∧ ¬ RunSafe r0 wEnv (mkLoaded wLimit) ∧ findingNames r0 wEnv wLimit = ["LimitNeverBinds"] := by decide

/-- D22  `CheckingLoopInvariant = true` with Suppapitnarm -/
def wLoop : Cfg := ⟨.reporting, "CheckingLoopInvariant", .bool true⟩ :: wSuppa
example : accepts r0 wLoop = true ∧ ¬ RunSafe r0 wEnv (mkLoaded wLoop) ∧ findingNames r0 wEnv wLoop = ["LoopInvariantWithMultiObjective"] := by decide

/-- D23  catchment model without `DataSourcePath` -/
def wNoData : Cfg :=
  [⟨.scenario, "Name", .str "scn"⟩, ⟨.annealer, "Type", .str "Kirkpatrick"⟩, ⟨.model, "Type", .str "CatchmentModel"⟩,
   ⟨.annealerParams, "DecisionVariable", .str "SedimentProduction"⟩]
example : accepts r0 wNoData = true ∧ ¬ RunSafe r0 wEnv (mkLoaded wNoData) ∧ findingNames r0 wEnv wNoData = ["CatchmentWithoutDataSource"] := by decide

/-- D23 (extended)  `DataSourcePath` = a readable text file -/
def wNotLoadable : Cfg := ⟨.modelParams, "DataSourcePath", .path "notcsv"⟩ :: wNoData
example : accepts r0 wNotLoadable = true ∧ ¬ RunSafe r0 wEnv (mkLoaded wNotLoadable) ∧
    findingNames r0 wEnv wNotLoadable = ["CatchmentDataSourceNotLoadable"] := by decide

/-- D24  `Model.Type = "NullModel"` -/
def wNull : Cfg :=
  [⟨.scenario, "Name", .str "scn"⟩, ⟨.annealer, "Type", .str "Kirkpatrick"⟩, ⟨.model, "Type", .str "NullModel"⟩]
example : accepts r0 wNull = true ∧ ¬ RunSafe r0 wEnv (mkLoaded wNull) ∧ findingNames r0 wEnv wNull = ["NullModelUnderRealAnnealer"] := by decide

/-- D8 (repaired in crem fcd5efe)  `OutputType = "JSON"` with Suppapitnarm is safe now -/
def wJson : Cfg := ⟨.scenario, "OutputType", .str "JSON"⟩ :: wSuppa
example : accepts r0 wJson = true ∧ RunSafe r0 wEnv (mkLoaded wJson) ∧ findingNames r0 wEnv wJson = [] := by decide

/-- new  `OutputPath` = an existing regular file; a negative `RunNumber`; `MaximumConcurrentRunNumber = -1`
(as in crem's RichValidConfig.toml); `CpuProfilePath` in a missing directory; `CpuProfilePath` naming a directory -/
example : let w := ⟨.scenario, "OutputPath", .path "file"⟩ :: wBase
    accepts r0 w = true ∧ ¬ RunSafe r0 wEnv (mkLoaded w) ∧ findingNames r0 wEnv w = ["OutputPathNotADirectory"] := by decide
example : let w := ⟨.scenario, "RunNumber", .int (-1)⟩ :: wBase
    accepts r0 w = true ∧ ¬ RunSafe r0 wEnv (mkLoaded w) ∧ findingNames r0 wEnv w = ["RunNumberOutOfRange"] := by decide
example : let w := ⟨.scenario, "MaximumConcurrentRunNumber", .int (-1)⟩ :: wBase
    accepts r0 w = true ∧ ¬ RunSafe r0 wEnv (mkLoaded w) ∧ findingNames r0 wEnv w = ["ConcurrencyOutOfRange"] := by decide
example : let w := ⟨.scenario, "CpuProfilePath", .path "noprofdir"⟩ :: wBase
    accepts r0 w = true ∧ ¬ RunSafe r0 wEnv (mkLoaded w) ∧ findingNames r0 wEnv w = ["CpuProfilePathNotCreatable"] := by decide
example : let w := ⟨.scenario, "CpuProfilePath", .path "dir"⟩ :: wBase
    accepts r0 w = true ∧ ¬ RunSafe r0 wEnv (mkLoaded w) ∧ findingNames r0 wEnv w = ["CpuProfilePathIsDirectory"] := by decide
/-- a CPU profile in an existing directory is safe -/
example : let w := ⟨.scenario, "CpuProfilePath", .path "prof"⟩ :: wBase
    accepts r0 w = true ∧ RunSafe r0 wEnv (mkLoaded w) ∧ findingNames r0 wEnv w = [] := by decide

/-- the full statement `accept_safe` is false -/
example : ¬ ∀ (env : Env) (c : Cfg) (l : Loaded), load r0 c = .ok l → interpret r0 l = [] → RunSafe r0 env l := by
  intro h
  exact absurd (h wEnv wModulo (mkLoaded wModulo) (by rfl) (by decide)) (by decide)

/-- … and stays false with every proposed repair in the tree -/
example : ¬ ∀ (env : Env) (c : Cfg) (l : Loaded), load rAll c = .ok l → interpret rAll l = [] → RunSafe rAll env l := by
  intro h
  exact absurd (h wEnv wNull (mkLoaded wNull) (by rfl) (by decide)) (by decide)

/-- the full statement `reject_is_error` is false: a .csv without the tables makes `Interpret` itself
panic — here on a configuration that is REJECTED anyway (unrecognised log destination) -/
def wBadCsv : Cfg :=
  ⟨.modelParams, "DataSourcePath", .path "badcsv"⟩ :: ⟨.logDest, "Errors", .str "File"⟩ :: wNoData
example : verdict r0 wBadCsv = .interpretPanic ∧ interpret r0 (mkLoaded wBadCsv) = [.scenario] := by decide
example : ¬ ∀ c : Cfg, verdict r0 c = .accepted ∨ (∃ es, es ≠ [] ∧ verdict r0 c = .loadError es) ∨
    (∃ es, es ≠ [] ∧ verdict r0 c = .interpretError es) := by
  intro h
  have hv : verdict r0 wBadCsv = .interpretPanic := by decide
  rcases h wBadCsv with h' | ⟨es, _, h'⟩ | ⟨es, _, h'⟩ <;> rw [hv] at h' <;> cases h'

/-- rejections are error values: the fixtures of crem's own tests -/
example : verdict r0 [] = .loadError [.mandatory ["Name", "AnnealerType", "ModelType"]] := by decide
example : verdict r0 [⟨.scenario, "Name", .str ""⟩, ⟨.scenario, "RunNumber", .int 0⟩, ⟨.annealer, "Type", .str "Kirkpatrick"⟩,
      ⟨.model, "Type", .str "Unknown"⟩, ⟨.other, "TheInquisition", .bool true⟩]
    = .loadError [.unknown, .mandatory ["Name", "RunNumber"]] := by decide
example : verdict r0 (⟨.scenario, "Name", .int 42⟩ :: wBase) = .loadError [.decode] := by decide
example : verdict r0 [⟨.scenario, "Name", .str "s"⟩, ⟨.annealer, "Type", .str "Kirkpatrick"⟩, ⟨.model, "Type", .str "TestModel"⟩]
    = .interpretError [.model] := by decide
example : verdict r0 (⟨.annealerParams, "CoolingFactor", .flt 1500⟩ :: ⟨.modelParams, "Rogue", .flt 200⟩ :: wBase)
    = .interpretError [.model, .annealer] := by decide
/-- quirks of the decoder, transcribed: a negative integer is taken for an unsigned field, a map field
written as a string is silently skipped, an unknown annealer parameter is ignored -/
example : accepts r0 (⟨.reporting, "ReportEveryNumberOfIterations", .int (-1)⟩ :: ⟨.scenario, "UserDetail", .str "notATable"⟩ ::
    ⟨.annealerParams, "HereIsARogueAnnealerParameter", .flt 200⟩ :: wBase) = true := by decide

/-! ### with the repairs declared, the repaired witnesses are rejected with an error value, or run safely -/
example : verdict rAll wModulo = .loadError [.mandatory ["ReportEvery"]] := by decide
example : verdict rAll wObjective = .interpretError [.objective] := by decide
example : verdict rAll (⟨.scenario, "RunNumber", .int (-1)⟩ :: wBase) = .loadError [.mandatory ["RunNumber"]] := by decide
example : verdict rAll (⟨.scenario, "OutputPath", .path "file"⟩ :: wBase) = .interpretError [.scenario] := by decide
example : verdict rAll (⟨.scenario, "CpuProfilePath", .path "noprofdir"⟩ :: wBase) = .interpretError [.scenario] := by decide
example : verdict rTree (⟨.scenario, "CpuProfilePath", .path "nested"⟩ :: wBase) = .interpretError [.scenario] := by decide
/-- the run-number bound is 2^31 - 1 (the `sync.WaitGroup` counter): accepted up to it and safe, rejected above it,
which includes every wrapped negative -/
example : let w := ⟨.scenario, "RunNumber", .int 2147483647⟩ :: wBase
    accepts rAll w = true ∧ RunSafe rAll wEnv (mkLoaded w) ∧ findingNames rAll wEnv w = [] := by decide
example : verdict rAll (⟨.scenario, "RunNumber", .int 2147483648⟩ :: wBase) = .loadError [.mandatory ["RunNumber"]] := by decide
example : verdict rAll (⟨.scenario, "RunNumber", .int (-9223372036854775808)⟩ :: wBase) = .loadError [.mandatory ["RunNumber"]] := by decide
example : accepts r0 (⟨.scenario, "RunNumber", .int 2147483648⟩ :: wBase) = true := by decide
example : accepts rAll wLoop = true ∧ RunSafe rAll wEnv (mkLoaded wLoop) := by decide
example : let w := ⟨.scenario, "MaximumConcurrentRunNumber", .int (-1)⟩ :: wBase
    accepts rAll w = true ∧ RunSafe rAll wEnv (mkLoaded w) := by decide
/-- the remaining findings stay: repairs do not touch them (a CPU profile path naming a directory is
accepted with the directory check too) -/
example : let w := ⟨.scenario, "CpuProfilePath", .path "dir"⟩ :: wBase
    accepts rAll w = true ∧ ¬ RunSafe rAll wEnv (mkLoaded w) ∧ findingNames rAll wEnv w = ["CpuProfilePathIsDirectory"] := by decide
example : accepts rAll wNull = true ∧ ¬ RunSafe rAll wEnv (mkLoaded wNull) := by decide
example : accepts rAll wLimit = true ∧ findingNames rAll wEnv wLimit = ["LimitNeverBinds"] := by decide
/-- with D17's repair the dumb model no longer answers to any name -/
example : verdict rAll (⟨.annealerParams, "DecisionVariable", .str "SedimentVsCost"⟩ :: wBase) = .interpretError [.objective] := by decide

end Crem.Config
