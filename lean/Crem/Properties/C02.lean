import Crem.Model.CatchmentSpec
/-! # C02 — theorems under construction (see DESIGN.md section 5) -/
