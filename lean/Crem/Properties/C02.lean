import Crem.Properties.C01
/-!
# C02 — proposals are transactional: exact revert, accept = reported change

Theorems about the executable catchment model, exact in ℚ, for every dataset satisfying
`InitConsistent` / `KeysDistinct`, every canonical state `s` (`Canon D s`; by C01 every state
reachable by a conformant history is canonical — the `…_reachable` corollary spells that out) and
every action index `i`.

* `propose D s i`            = `TryRandomChange` with index `i` drawn / `ToggleAction`
* `accept`, `revert`         = `AcceptChange`, `RevertChange`
* `change s v`               = `DecisionVariableChange(v)` (done − undone value of the pending command)
* `total`, `unitVal`, `flags` = the observables (the solution encoding is a function of `flags`)

Every `theorem` in this file is audited by `./check C02` (`#print axioms`).
-/
namespace Crem.Catchment

/-- while a change is only proposed every total and every per-unit value stays put
(any state, any index — no hypothesis needed) -/
theorem propose_keeps_values (D : Data) (s : State) (i : Nat) :
    ∀ v, total (propose D s i) v = total s v ∧ ∀ p, unitVal (propose D s i) v p = unitVal s v p := by
  intro v
  rcases propose_cases D s i with h | ⟨a, cur, _, _, h⟩
  · rw [h]; exact ⟨rfl, fun _ => rfl⟩
  · rw [h]; exact ⟨observed_total _ _ _ _ _, observed_unitVal _ _ _ _ _⟩

/-- reverting a proposal restores every observable exactly: action flags, totals, per-unit values -/
theorem revert_exact {D : Data} {s : State} (hI : InitConsistent D) (hc : Canon D s)
    {i : Nat} (hi : i < D.acts.length) :
    (revert (propose D s i)).flags = s.flags ∧
    ∀ v, total (revert (propose D s i)) v = total s v ∧
         ∀ p, unitVal (revert (propose D s i)) v p = unitVal s v p := by
  have h := revert_propose_sameVals hI.facts hc hi
  exact ⟨h.flags, fun v => ⟨h.total_eq v, h.unitVal_eq v⟩⟩

/-- … including the hidden attribute records of the pollutant variables -/
theorem revert_exact_hidden {D : Data} {s : State} (hI : InitConsistent D) (hc : Canon D s)
    {i : Nat} (hi : i < D.acts.length) : SameVals s (revert (propose D s i)) :=
  revert_propose_sameVals hI.facts hc hi

/-- accepting a proposal moves every variable by exactly the change reported for the proposal -/
theorem accept_is_reported_change {D : Data} {s : State} (hI : InitConsistent D)
    (hK : KeysDistinct D.acts) (hc : Canon D s) {i : Nat} (hi : i < D.acts.length) :
    ∀ v, total (accept (propose D s i)) v = total s v + change (propose D s i) v := by
  obtain ⟨a, cur, _, _, hp, hacc, facts⟩ := propose_stepFacts hI.facts hK hc hi
  intro v
  rw [hacc, hp]
  exact facts.total v

/-- accepting flips exactly the proposed action's flag -/
theorem accept_flags {D : Data} {s : State} (hc : Canon D s) {i : Nat} (hi : i < D.acts.length) :
    (accept (propose D s i)).flags = flipFlag s.flags i := by
  obtain ⟨a, cur, _, hf, hp⟩ := propose_of_canon hc hi
  rw [hp, accept_observed]
  unfold flipFlag
  rw [hf]; rfl

/-- a single action change alters per-planning-unit values only in the action's own unit -/
theorem local_change {D : Data} {s : State} (hI : InitConsistent D) (hK : KeysDistinct D.acts)
    (hc : Canon D s) {i : Nat} {a : Action} (ha : D.acts[i]? = some a) {p : PU} (hp : p ≠ a.pu) :
    ∀ v, unitVal (accept (propose D s i)) v p = unitVal s v p := by
  have hi : i < D.acts.length := by
    rcases Nat.lt_or_ge i D.acts.length with h | h
    · exact h
    · simp [List.getElem?_eq_none h] at ha
  obtain ⟨a', cur, ha', _, _, hacc, facts⟩ := propose_stepFacts hI.facts hK hc hi
  rw [ha] at ha'
  have e : a = a' := Option.some.inj ha'
  subst e
  intro v
  rw [hacc]
  exact facts.other v p hp

/-- `AcceptChange` twice is `AcceptChange` once (the status guard) — any state -/
theorem accept_idem (s : State) : accept (accept s) = accept s := by
  simp only [accept, acceptAll, doP_idem, doS_idem]

/-- all of the above in every state reachable by a conformant history (C01) -/
theorem transactional_reachable {D : Data} (hI : InitConsistent D) (hK : KeysDistinct D.acts)
    (txs : List Tx) {i : Nat} (hi : i < D.acts.length) :
    (∀ v, total (propose D (run D txs) i) v = total (run D txs) v ∧
          ∀ p, unitVal (propose D (run D txs) i) v p = unitVal (run D txs) v p) ∧
    ((revert (propose D (run D txs) i)).flags = (run D txs).flags ∧
      ∀ v, total (revert (propose D (run D txs) i)) v = total (run D txs) v ∧
           ∀ p, unitVal (revert (propose D (run D txs) i)) v p = unitVal (run D txs) v p) ∧
    (∀ v, total (accept (propose D (run D txs) i)) v
            = total (run D txs) v + change (propose D (run D txs) i) v) ∧
    (∀ a, D.acts[i]? = some a → ∀ p, p ≠ a.pu →
       ∀ v, unitVal (accept (propose D (run D txs) i)) v p = unitVal (run D txs) v p) :=
  have hc := canon_of_history hI hK txs
  ⟨propose_keeps_values D _ i, revert_exact hI hc hi, accept_is_reported_change hI hK hc hi,
   fun _ ha _ hp => local_change hI hK hc ha hp⟩

/-! Non-vacuity / sanity (tests, labelled as such) on the concrete dataset of C01:
a proposal with a non-zero reported change in a non-initial state. -/

example : InitConsistent exData ∧ KeysDistinct exData.acts := by decide +kernel

example : change (propose exData exS 0) .sed ≠ 0 ∧
    total (propose exData exS 0) .sed = total exS .sed ∧
    total (accept (propose exData exS 0)) .sed = total exS .sed + change (propose exData exS 0) .sed ∧
    (revert (propose exData exS 0)).flags = exS.flags ∧
    unitVal (accept (propose exData exS 0)) .sed 2 = unitVal exS .sed 2 ∧
    unitVal (accept (propose exData exS 0)) .sed 1 ≠ unitVal exS .sed 1 := by decide +kernel

end Crem.Catchment
