import Crem.Properties.C01
import Crem.Proofs.SumInv
/-!
# C02 — proposals are transactional: exact revert, accept = reported change

Theorems about the executable catchment model, exact in ℚ, for every dataset satisfying
`InitConsistent` / `KeysDistinct`, every canonical state `s` (`Canon D s`; by C01 every state
reachable by a conformant history is canonical — the `…_reachable` corollary spells that out) and
every action index `i`.

* `propose D s i`            = `TryRandomChange` with index `i` drawn / `ToggleAction`
* `accept`, `revert`         = `AcceptChange`, `RevertChange`
* `change s v`               = `DecisionVariableChange(v)` (done − undone value of the pending command)
* `total`, `unitVal`, `flags` = the observables (the solution encoding is a function of `flags`)

**How to read `revert_exact`.**  In the code (and in the model) a proposal only *builds* the commands; the values
move on `AcceptChange`.  A revert of a pending proposal therefore finds all commands un-done and only flips the
action flag back: exactness of `propose; revert` is close to "nothing had been written yet".  The substantive
"put back" of an APPLIED change is `Randomize()`'s limit-seeking loop (`InitialisingActivation` followed by the
opposite `Initialising…` when the attempt was invalid); its exactness is `initialising_back_sameVals`
(Proofs/Limits.lean), used by C03's `seekLimit_valid`, and is checked on the real code by the `randomize` lines of
the catchment-walk suite.

**Raw histories.**  The last section drops conformance altogether: `RawOp` is the alphabet of *single* calls of the
`model.Model` interface in any order (API misuse included); what survives of C02 there is stated by the
`…_any_history` theorems (accept = reported change, own unit, locality).  Exact revert does NOT survive
(`revert;revert`, see C01's examples).

Every `theorem` in this file is audited by `./check C02` (`#print axioms`).
-/
namespace Crem.Catchment

/-- while a change is only proposed every total and every per-unit value stays put
(any state, any index — no hypothesis needed) -/
theorem propose_keeps_values (D : Data) (s : State) (i : Nat) :
    ∀ v, total (propose D s i) v = total s v ∧ ∀ p, unitVal (propose D s i) v p = unitVal s v p := by
  intro v
  rcases propose_cases D s i with h | ⟨a, cur, _, _, h⟩
  · rw [h]; exact ⟨rfl, fun _ => rfl⟩
  · rw [h]; exact ⟨observed_total _ _ _ _ _, observed_unitVal _ _ _ _ _⟩

/-- reverting a proposal restores every observable exactly: action flags, totals, per-unit values -/
theorem revert_exact {D : Data} {s : State} (hI : InitConsistent D) (hc : Canon D s)
    {i : Nat} (hi : i < D.acts.length) :
    (revert (propose D s i)).flags = s.flags ∧
    ∀ v, total (revert (propose D s i)) v = total s v ∧
         ∀ p, unitVal (revert (propose D s i)) v p = unitVal s v p := by
  have h := revert_propose_sameVals hI.facts hc hi
  exact ⟨h.flags, fun v => ⟨h.total_eq v, h.unitVal_eq v⟩⟩

/-- … including the hidden attribute records of the pollutant variables -/
theorem revert_exact_hidden {D : Data} {s : State} (hI : InitConsistent D) (hc : Canon D s)
    {i : Nat} (hi : i < D.acts.length) : SameVals s (revert (propose D s i)) :=
  revert_propose_sameVals hI.facts hc hi

/-- accepting a proposal moves every variable by exactly the change reported for the proposal -/
theorem accept_is_reported_change {D : Data} {s : State} (hI : InitConsistent D)
    (hK : KeysDistinct D.acts) (hc : Canon D s) {i : Nat} (hi : i < D.acts.length) :
    ∀ v, total (accept (propose D s i)) v = total s v + change (propose D s i) v := by
  obtain ⟨a, cur, _, _, hp, hacc, facts⟩ := propose_stepFacts hI.facts hK hc hi
  intro v
  rw [hacc, hp]
  exact facts.total v

/-- accepting flips exactly the proposed action's flag -/
theorem accept_flags {D : Data} {s : State} (hc : Canon D s) {i : Nat} (hi : i < D.acts.length) :
    (accept (propose D s i)).flags = flipFlag s.flags i := by
  obtain ⟨a, cur, _, hf, hp⟩ := propose_of_canon hc hi
  rw [hp, accept_observed]
  unfold flipFlag
  rw [hf]; rfl

/-- a single action change alters per-planning-unit values only in the action's own unit -/
theorem local_change {D : Data} {s : State} (hI : InitConsistent D) (hK : KeysDistinct D.acts)
    (hc : Canon D s) {i : Nat} {a : Action} (ha : D.acts[i]? = some a) {p : PU} (hp : p ≠ a.pu) :
    ∀ v, unitVal (accept (propose D s i)) v p = unitVal s v p := by
  have hi : i < D.acts.length := by
    rcases Nat.lt_or_ge i D.acts.length with h | h
    · exact h
    · simp [List.getElem?_eq_none h] at ha
  obtain ⟨a', cur, ha', _, _, hacc, facts⟩ := propose_stepFacts hI.facts hK hc hi
  rw [ha] at ha'
  have e : a = a' := Option.some.inj ha'
  subst e
  intro v
  rw [hacc]
  exact facts.other v p hp

/-- **the action's own unit**: accepting a proposal moves the per-planning-unit value of every variable in the
action's own planning unit by exactly the change reported for the proposal (`DecisionVariableChange` is the
command's per-unit `done − undone`); with `local_change` this accounts for every unit -/
theorem accept_moves_own_unit {D : Data} {s : State} (hI : InitConsistent D) (hc : Canon D s)
    {i : Nat} {a : Action} (ha : D.acts[i]? = some a) :
    ∀ v, unitVal (accept (propose D s i)) v a.pu = unitVal s v a.pu + change (propose D s i) v := by
  have hi : i < D.acts.length := by
    rcases Nat.lt_or_ge i D.acts.length with h | h
    · exact h
    · simp [List.getElem?_eq_none h] at ha
  obtain ⟨a', cur, ha', _, hp⟩ := propose_of_canon hc hi
  rw [ha] at ha'
  have e : a = a' := Option.some.inj ha'
  subst e
  intro v
  rw [hp, accept_observed]
  exact (toggled_own (hc.gridVals hI.facts) a (!cur) i (hI.facts.unitsOK.acts a (List.mem_of_getElem? ha)) v).1

/-- `AcceptChange` twice is `AcceptChange` once (the status guard) — any state -/
theorem accept_idem (s : State) : accept (accept s) = accept s := by
  simp only [accept, acceptAll, doP_idem, doS_idem]

/-- all of the above in every state reachable by a conformant history (C01) -/
theorem transactional_reachable {D : Data} (hI : InitConsistent D) (hK : KeysDistinct D.acts)
    (txs : List Tx) {i : Nat} (hi : i < D.acts.length) :
    (∀ v, total (propose D (run D txs) i) v = total (run D txs) v ∧
          ∀ p, unitVal (propose D (run D txs) i) v p = unitVal (run D txs) v p) ∧
    ((revert (propose D (run D txs) i)).flags = (run D txs).flags ∧
      ∀ v, total (revert (propose D (run D txs) i)) v = total (run D txs) v ∧
           ∀ p, unitVal (revert (propose D (run D txs) i)) v p = unitVal (run D txs) v p) ∧
    (∀ v, total (accept (propose D (run D txs) i)) v
            = total (run D txs) v + change (propose D (run D txs) i) v) ∧
    (∀ a, D.acts[i]? = some a → ∀ p, p ≠ a.pu →
       ∀ v, unitVal (accept (propose D (run D txs) i)) v p = unitVal (run D txs) v p) :=
  have hc := canon_of_history hI hK txs
  ⟨propose_keeps_values D _ i, revert_exact hI hc hi, accept_is_reported_change hI hK hc hi,
   fun _ ha _ hp => local_change hI hK hc ha hp⟩

/-! ### raw histories: single interface calls in ANY order

`UnitsOK D` (decidable as `unitsOK D`; implied by `InitConsistent D`): planning-unit ids distinct, the three
pollutant variables carry the same ids, every action's unit is a planning unit.  No `KeysDistinct`, nothing about the
attribute records. -/

/-- single calls of the `model.Model` interface (and the `Initialising…` calls of the actions) -/
inductive RawOp
  | propose (i : Nat)                    -- `TryRandomChange` with index `i` drawn / `ToggleAction`
  | accept                               -- `AcceptChange`
  | revert                               -- `RevertChange`
  | set (i : Nat) (b : Bool)             -- `SetManagementAction`
  | setAll (bits : List Bool)            -- `SynchroniseTo` / `Decompress`
  | initialising (i : Nat) (b : Bool)    -- `InitialisingActivation` / `InitialisingDeactivation`
  | reinit (k : InitKind)                -- `Initialise(kind)`
  | randomize (draws : List Nat)         -- `Randomize()`

def applyRaw (D : Data) (s : State) : RawOp → State
  | .propose i => propose D s i
  | .accept => accept s
  | .revert => revert s
  | .set i b => setAction D s i b
  | .setAll bits => setAll D s bits
  | .initialising i b => initialising D s i b
  | .reinit k => initialise D k
  | .randomize draws => (randomize D s draws).state

/-- the state after ANY sequence of single calls, starting from `Initialise(AsIs)` -/
def runRaw (D : Data) (ops : List RawOp) : State := ops.foldl (applyRaw D) (init D)

theorem unitsOK_of_initConsistent {D : Data} (hI : InitConsistent D) : UnitsOK D := hI.facts.unitsOK

/-- every single call preserves the raw-operation invariant `SumInv` (Proofs/SumInv.lean) -/
theorem applyRaw_sumInv {D : Data} (hU : UnitsOK D) {s : State} (h : SumInv D s) (op : RawOp) :
    SumInv D (applyRaw D s op) := by
  cases op with
  | propose i => exact propose_sumInv hU h i
  | accept => exact accept_sumInv h
  | revert => exact revert_sumInv h
  | set i b => exact setAction_sumInv hU h i b
  | setAll bits => exact setAll_sumInv hU h bits
  | initialising i b => exact initialising_sumInv hU h i b
  | reinit k => exact initialise_sumInv hU k
  | randomize draws => exact randomize_sumInv hU h draws

/-- … hence it holds after any history of single calls, misuse included -/
theorem sumInv_of_any_history {D : Data} (hU : UnitsOK D) (ops : List RawOp) : SumInv D (runRaw D ops) :=
  foldl_inv (SumInv D) (applyRaw D) (fun _ op h => applyRaw_sumInv hU h op) ops (init D) (sumInv_init hU)

/-- **accept = reported change, own unit, locality — after ANY history of single calls.**  In whatever state the
model has been left (pending, stale or twice-reverted commands included), a proposal that is followed at once by
`AcceptChange` moves every total and the action's own unit by exactly the change it reported, and moves no other
unit.  (Conformance is needed for *exact revert* and for C01, not for this.) -/
theorem accept_is_reported_change_any_history {D : Data} (hU : UnitsOK D) (ops : List RawOp)
    {i : Nat} {a : Action} {cur : Bool} (ha : D.acts[i]? = some a) (hf : (runRaw D ops).flags[i]? = some cur) :
    ∀ v, total (accept (propose D (runRaw D ops) i)) v
            = total (runRaw D ops) v + change (propose D (runRaw D ops) i) v ∧
         unitVal (accept (propose D (runRaw D ops) i)) v a.pu
            = unitVal (runRaw D ops) v a.pu + change (propose D (runRaw D ops) i) v ∧
         ∀ p, p ≠ a.pu → unitVal (accept (propose D (runRaw D ops) i)) v p = unitVal (runRaw D ops) v p := by
  intro v
  have hp : propose D (runRaw D ops) i = observed a (!cur) i (runRaw D ops) := by
    unfold propose; rw [hf]; exact toggleObserved_eq ha
  rw [hp, accept_observed]
  have := toggled_own (sumInv_of_any_history hU ops).gridVals a (!cur) i (hU.acts a (List.mem_of_getElem? ha)) v
  exact ⟨this.2.1, this.1, this.2.2⟩

/-! Non-vacuity / sanity (tests, labelled as such) on the concrete dataset of C01:
a proposal with a non-zero reported change in a non-initial state. -/

example : InitConsistent exData ∧ KeysDistinct exData.acts := by decide +kernel

example : change (propose exData exS 0) .sed ≠ 0 ∧
    total (propose exData exS 0) .sed = total exS .sed ∧
    total (accept (propose exData exS 0)) .sed = total exS .sed + change (propose exData exS 0) .sed ∧
    (revert (propose exData exS 0)).flags = exS.flags ∧
    unitVal (accept (propose exData exS 0)) .sed 2 = unitVal exS .sed 2 ∧
    unitVal (accept (propose exData exS 0)) .sed 1 ≠ unitVal exS .sed 1 := by decide +kernel

/-- the own unit moves by the reported change (sediment of unit 1, action 0) -/
example : unitVal (accept (propose exData exS 0)) .sed 1 = unitVal exS .sed 1 + change (propose exData exS 0) .sed ∧
    change (propose exData exS 0) .sed ≠ 0 := by decide +kernel

/-- a misuse history (`propose; revert; revert; accept; propose; propose; accept; revert; revert`) and, after it,
a proposal accepted at once: flags and values have separated (the state is not the canonical one of its flags),
yet the accepted proposal moves total and own unit by exactly what it reported -/
def exMisuse : State :=
  runRaw exData [.propose 0, .revert, .revert, .accept, .propose 1, .propose 2, .accept, .revert, .revert]

example : unitsOK exData = true ∧
    total exMisuse .sed ≠ total (setAll exData (init exData) exMisuse.flags) .sed ∧
    change (propose exData exMisuse 1) .sed ≠ 0 ∧
    total (accept (propose exData exMisuse 1)) .sed = total exMisuse .sed + change (propose exData exMisuse 1) .sed ∧
    unitVal (accept (propose exData exMisuse 1)) .sed 1
      = unitVal exMisuse .sed 1 + change (propose exData exMisuse 1) .sed := by decide +kernel

end Crem.Catchment
