import Crem.Properties.C01
import Crem.Properties.C03
import Crem.Properties.C09
import Crem.Properties.C11
/-!
# Compositions: what is written to a file / served by the engine is the run's own valuation

The explorer never writes a model's values directly.  At the end of a run every archived solution is
a *compressed* action set (`ModelCompressor.Compress`, C09); the `Saver` decodes its text into the
compressed state of ONE decompression model that it re-uses for every row of every run
(`Saver.SetDecompressionModel`, `deriveSolutionFrom…`), `Decompress`es it (a whole-set load, `setAll`)
and reads the values off that model.  The engine does the same with the encodings of an uploaded
summary (`SolutionPool.deriveSolutionFrom`, `reInitialiseModelWithEncoding`).  So the clause of C12
"every row giving the decision-variable values of the model evaluated at the row's action encoding"
and the clause of C13 "the served solution is the row's" rest on two facts proved separately:

* C09 — the encoding is lossless between two model instances of the same size (`compress_decompress`);
* C01 — the values of a model depend only on its active set, whatever it was used for before
  (`canon_of_history`).

The theorems below compose them over the executable models of both (no new definitions): for every
dataset, every history of the run's model, every history of the re-used decompression model.

Every `theorem` in this file is audited (`#print axioms`) by `./check C12`, `./check C13` and `./check C01`.
-/
namespace Crem.Catchment
open Crem.BoolArchive

variable {D : Data}

/-- **The saved / served row is the run's own valuation.**  Let the run's model have gone through any
conformant history `h` (so `(run D h).flags` is the archived action set) and let the decompression
model have gone through any other history `h'` (earlier rows, earlier runs).  Compressing the former,
taking the text, decoding it into the compressed state of the latter and decompressing succeeds, and
loading the resulting bits into the decompression model yields exactly the archived action set and,
for all six variables, exactly the totals and per-planning-unit values the run's model had. -/
theorem saved_row_is_run_valuation (hI : InitConsistent D) (hK : KeysDistinct D.acts)
    (h h' : List Tx) (hn : 1 ≤ D.acts.length) :
    ∃ a b, compress (run D h).flags = some a ∧ compress (run D h').flags = some b ∧
      (decodeC b (encoding a).2).2 = none ∧
      decompress (decodeC b (encoding a).2).1 = some (run D h).flags ∧
      (setAll D (run D h') (run D h).flags).flags = (run D h).flags ∧
      ∀ v p, total (setAll D (run D h') (run D h).flags) v = total (run D h) v ∧
             unitVal (setAll D (run D h') (run D h).flags) v p = unitVal (run D h) v p := by
  have hc := canon_of_history hI hK h
  have hc' := canon_of_history hI hK h'
  obtain ⟨a, b, ha, hb, hd, hz⟩ :=
    compress_decompress (run D h).flags (run D h').flags (by rw [hc.len]; exact hn) (by rw [hc.len, hc'.len])
  have hfl := setAll_flags hI hK hc' (run D h).flags hc.len
  have hcs := setAll_canon hI.facts hK hc' (run D h).flags
  have hs := hcs.sameVals hc hfl.symm
  exact ⟨a, b, ha, hb, hd, hz, hfl, fun v p => ⟨(hs.total_eq v).symm, (hs.unitVal_eq v p).symm⟩⟩

/-- … and it is the valuation of a *fresh* model evaluated at the row's encoding (the form in which the
`saved-runs` and `engine-summaries` suites re-evaluate every written / served row). -/
theorem saved_row_is_fresh_valuation (hI : InitConsistent D) (hK : KeysDistinct D.acts)
    (h' : List Tx) (bits : List Bool) (hl : bits.length = D.acts.length) :
    (setAll D (run D h') bits).flags = bits ∧
    ∀ v p, total (setAll D (run D h') bits) v = total (setAll D (init D) bits) v ∧
           unitVal (setAll D (run D h') bits) v p = unitVal (setAll D (init D) bits) v p := by
  have hc' := canon_of_history hI hK h'
  have hfl := setAll_flags hI hK hc' bits hl
  have hfl0 := setAll_init_flags hI hK bits hl
  have hcs := setAll_canon hI.facts hK hc' bits
  have hc0 := setAll_canon hI.facts hK (canon_init hI) bits
  have hs := hcs.sameVals hc0 (hfl0.trans hfl.symm)
  exact ⟨hfl, fun v p => ⟨(hs.total_eq v).symm, (hs.unitVal_eq v p).symm⟩⟩

/-- the rows of one summary are mutually independent: the order in which the saver (or the engine's
solution pool) decodes the members, and whatever it decoded in between, does not change any row -/
theorem saved_rows_order_independent (hI : InitConsistent D) (hK : KeysDistinct D.acts)
    (h₁ h₂ : List Tx) (bits : List Bool) (hl : bits.length = D.acts.length) :
    ∀ v p, total (setAll D (run D h₁) bits) v = total (setAll D (run D h₂) bits) v ∧
           unitVal (setAll D (run D h₁) bits) v p = unitVal (setAll D (run D h₂) bits) v p := by
  intro v p
  have a := (saved_row_is_fresh_valuation hI hK h₁ bits hl).2 v p
  have b := (saved_row_is_fresh_valuation hI hK h₂ bits hl).2 v p
  exact ⟨a.1.trans b.1.symm, a.2.trans b.2.symm⟩

/-- a limit-respecting archived solution is written / served as limit-respecting (C03's output clause):
validity is a function of the values, and those are the run's -/
theorem saved_row_valid (hI : InitConsistent D) (hK : KeysDistinct D.acts)
    (h h' : List Tx) (hv : Valid D (run D h)) :
    Valid D (setAll D (run D h') (run D h).flags) :=
  (syncTo_valid hI hK (canon_of_history hI hK h') (canon_of_history hI hK h) hv).2.1

/-- **The engine spec's `World` abstraction is sound.**  `Crem/Model/Engine.lean` (C14) treats
"valid against the scenario" as a function `World.valid` of the scenario and the active set alone, while
the real engine evaluates it on a live model that has been through every earlier request (table uploads,
per-subcatchment updates, encoding patches: whole-set loads and single sets).  Whatever that history was,
the live model's validity verdict is the verdict of a fresh model given exactly its active set — so it IS
a function of the set, and any two routes to one set carry the same `ValidAgainstScenario` entry. -/
theorem validity_is_a_function_of_the_set (hI : InitConsistent D) (hK : KeysDistinct D.acts) (txs : List Tx) :
    stateIsValid D (run D txs) = stateIsValid D (setAll D (init D) (run D txs).flags) := by
  have hc := canon_of_history hI hK txs
  have hfl := setAll_init_flags hI hK (run D txs).flags hc.len
  have hfresh := setAll_canon hI.facts hK (canon_init hI) (run D txs).flags
  have hs : SameVals (run D txs) (setAll D (init D) (run D txs).flags) := hc.sameVals hfresh hfl
  have := hs.valid (D := D)
  unfold Valid at this
  cases h1 : stateIsValid D (run D txs) <;> cases h2 : stateIsValid D (setAll D (init D) (run D txs).flags) <;>
    simp_all

theorem validity_route_independent (hI : InitConsistent D) (hK : KeysDistinct D.acts) (h₁ h₂ : List Tx)
    (hf : (run D h₁).flags = (run D h₂).flags) :
    stateIsValid D (run D h₁) = stateIsValid D (run D h₂) := by
  rw [validity_is_a_function_of_the_set hI hK h₁, validity_is_a_function_of_the_set hI hK h₂, hf]

/-! ### non-vacuity (tests, labelled as such): the example dataset and histories of `Properties/C01.lean` -/

/-- the run's model ends in the set {1, 2}; the decompression model has just served the set {0} -/
example :
    (run exData [.acceptToggle 0, .set 2 true, .revertToggle 1, .acceptToggle 1, .acceptToggle 0]).flags
        = [false, true, true] ∧
    (run exData [.setAll [true, false, false]]).flags = [true, false, false] ∧
    total (setAll exData (run exData [.setAll [true, false, false]]) [false, true, true]) .ic = 10401/100 ∧
    total (run exData [.setAll [true, false, false]]) .ic ≠ 10401/100 := by
  decide +kernel

end Crem.Catchment
