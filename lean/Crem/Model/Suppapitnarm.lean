import Crem.Model.Archive
/-
Model of the multi-objective explorer's step rule and return-to-base schedule
(`internal/pkg/annealing/explorer/suppapitnarm/Explorer.go`, the coolants
`cooling/coolants/suppapitnarm` and `cooling/coolants/averaged`).

The model is generic in
* the arithmetic `A : Arith α` (the driver runs it on `Float`, the same IEEE binary64 the Go code
  uses; the theorems use an ordered field with `exp`), and
* the optimised model, seen through `ModelOps σ` (compress to an archive entry, read the objective
  values, synchronise to an action set, produce the randomised candidate); the driver instantiates it
  with the catchment model.
Every random choice is an input: the candidate's randomisation draws, the uniform draw `u`, the
archive member picked on return-to-base.  Nothing else is an input: in particular the per-objective
changes the coolant receives (`VariableDifferences`) are computed by the model from the candidate's
and the current solution's objective values.  Core Lean only.
-/
namespace Crem.Suppa
open Crem.Archive

/-- the arithmetic the explorer needs -/
structure Arith (α : Type) where
  one : α
  zero : α
  add : α → α → α
  sub : α → α → α
  mul : α → α → α
  div : α → α → α
  neg : α → α
  abs : α → α
  exp : α → α
  max : α → α → α
  gt : α → α → Bool          -- `>`
  ofNat : Nat → α
  ofRat : Rat → α            -- the binary64 (or real) value of an objective that lies on a decimal grid
  trunc : α → Nat            -- Go's `uint64(x)` for 0 ≤ x < 2^64

inductive CoolantKind | product | averaged
deriving DecidableEq, Repr

/-- `calculateAcceptanceProbability`: Π exp(−|Δᵢ|/T), or the mean for the averaged coolant -/
def accProb {α : Type} (A : Arith α) (k : CoolantKind) (T : α) (diffs : List α) : α :=
  let ps := diffs.map fun d => A.exp (A.div (A.neg (A.abs d)) T)
  match k with
  | .product => ps.foldl A.mul A.one
  | .averaged => A.div (ps.foldl A.add A.zero) (A.ofNat diffs.length)

/-- `CompressedModelState.VariableDifferences`: candidate minus current, one entry per objective
(Go indexes the current vector by the candidate's indices; both always have the model's dimension) -/
def diffs {α : Type} (A : Arith α) (cand cur : List Rat) : List α :=
  List.zipWith (fun c b => A.sub (A.ofRat c) (A.ofRat b)) cand cur

/-- how the explorer sees the model it optimises -/
structure ModelOps (σ : Type) where
  compress : σ → Entry                 -- objective vector (order keys) and action set
  values : σ → List Rat                -- the objective values themselves (what `compress` keys), sorted-name order
  syncTo : σ → List Bool → σ           -- `SynchroniseTo` / `Decompress`: set exactly this action set
  randomize : σ → List Nat → σ         -- `Randomize()` with its draws given

structure Params (α : Type) where
  kind : CoolantKind
  minRate : α        -- float64(MinimumReturnToBaseRate)
  factor : α         -- ReturnToBaseAdjustmentFactor
  checkNonDominance : Bool := false   -- CheckNonDominance: run the archive's self-check every iteration

structure Ex (α σ : Type) where
  current : σ
  potential : σ
  archive : List Entry
  temperature : α
  countdown : BitVec 64      -- iterationsUntilReturnToBase (uint64)
  step : α                   -- returnToBaseStep
  iter : Nat                 -- currentIteration
  lastReturned : Nat

/-- what one iteration did -/
structure Out (α : Type) where
  result : Res               -- archive verdict on the candidate (before any forced store)
  desirable : Bool
  prob : Option α            -- acceptance probability computed (undesirable candidates only)
  moved : Bool               -- the current solution became the candidate
  forced : Bool
  returned : Bool            -- a return-to-base happened
  diffs : List α             -- `VariableDifferences(candidate, current)` as the coolant would receive them
  selfCheckPanic : Bool      -- `checkNonDominanceIfRequired` panicked ("Dominance detected …")
  emptyPickPanic : Bool      -- return-to-base on an empty archive (`Intn(0)` panics in Go)

/-- inputs of one iteration -/
structure In (α : Type) where
  draws : List Nat           -- the candidate's `Randomize()` draws
  u : α                      -- the coolant's uniform draw (consumed only for undesirable candidates)
  pick : Nat                 -- `SelectRandomModel()` index (consumed only on return-to-base)

def desirableRes : Res → Bool
  | .storedNoDom | .storedReplacing | .rejDuplicate => true
  | _ => false

/-- `shouldReturnToBase` + `adjustReturnToBaseRate` + `deriveIterationsUntilReturnToBase`:
decrement first, then test for zero (uint64: 0 - 1 wraps to 2^64 - 1) -/
def tick {α : Type} (A : Arith α) (P : Params α) (countdown : BitVec 64) (step : α) :
    Bool × BitVec 64 × α :=
  let c := countdown - 1
  if c = 0 then
    let step' := A.max P.minRate (A.mul step P.factor)
    (true, BitVec.ofNat 64 (A.trunc step'), step')
  else (false, c, step)

/-- `TryRandomChange` -/
def iterate {α σ : Type} (A : Arith α) (M : ModelOps σ) (P : Params α) (e : Ex α σ) (i : In α) :
    Ex α σ × Out α :=
  -- generatePotentialModel
  let pot := M.randomize (M.syncTo e.potential (M.compress e.current).act) i.draws
  let cand := M.compress pot
  let ds := diffs A (M.values pot) (M.values e.current)
  let (res, arch1) := Real.attempt e.archive cand
  let desirable := desirableRes res
  -- AcceptOrRevertChange
  let p := accProb A P.kind e.temperature ds
  let moved := desirable || A.gt p i.u
  let forced := !desirable && moved
  let arch2 := if forced then (Real.force arch1 cand).2 else arch1
  let cur1 := if moved then M.syncTo e.current cand.act else e.current
  -- ReturnToBaseIfRequired
  let (due, cd, st) := tick A P e.countdown e.step
  let cur2 := if due then
      match arch2[i.pick]? with
      | some m => M.syncTo cur1 m.act
      | none => cur1
    else cur1
  ({ current := cur2, potential := pot, archive := arch2, temperature := e.temperature,
     countdown := cd, step := st, iter := e.iter + 1,
     lastReturned := if due then e.iter else e.lastReturned },
   { result := res, desirable := desirable, prob := if desirable then none else some p,
     moved := moved, forced := forced, returned := due, diffs := ds,
     -- checkNonDominanceIfRequired (after the return-to-base, before the iteration counter advances)
     selfCheckPanic := P.checkNonDominance && !isNonDominantAsWritten Crem.Dominance.dominates arch2,
     emptyPickPanic := due && arch2.isEmpty })

/-- `CoolDown` -/
def coolDown {α σ : Type} (A : Arith α) (factor : α) (e : Ex α σ) : Ex α σ :=
  { e with temperature := A.mul e.temperature factor }

/-- what the annealer (or any other caller) does to an explorer -/
inductive Call (α : Type)
  | iter (i : In α)          -- `TryRandomChange`
  | cool (factor : α)        -- `CoolDown`

/-- any interleaving of `TryRandomChange` and `CoolDown` calls (the annealer's loop is
`iter, cool, iter, cool, …` with one factor); returns the final state and what each iteration did -/
def run {α σ : Type} (A : Arith α) (M : ModelOps σ) (P : Params α) : Ex α σ → List (Call α) → Ex α σ × List (Out α)
  | e, [] => (e, [])
  | e, .iter i :: cs =>
    let r := iterate A M P e i
    let rest := run A M P r.1 cs
    (rest.1, r.2 :: rest.2)
  | e, .cool f :: cs => run A M P (coolDown A f e) cs

/-- the annealer's loop (C07): `TryRandomChange`, `CoolDown`, `TryRandomChange`, `CoolDown`, … -/
def annealCalls {α : Type} (factor : α) : List (In α) → List (Call α)
  | [] => []
  | i :: is => .iter i :: .cool factor :: annealCalls factor is

/-- number of `TryRandomChange` calls in a call sequence -/
def iterCount {α : Type} : List (Call α) → Nat
  | [] => 0
  | .iter _ :: cs => iterCount cs + 1
  | .cool _ :: cs => iterCount cs

/-- 1-based positions (offset `k`) of the `true` flags -/
def timesOf : Nat → List Bool → List Nat
  | _, [] => []
  | k, b :: bs => if b then (k + 1) :: timesOf (k + 1) bs else timesOf (k + 1) bs

/-- the countdown sequence alone: `n` ticks from `(countdown, step)`; returns the list of
iterations (1-based, counted from the first tick) at which a return-to-base happened -/
def returns {α : Type} (A : Arith α) (P : Params α) : Nat → Nat → BitVec 64 → α → List Nat
  | 0, _, _, _ => []
  | n + 1, k, c, s =>
    let (due, c', s') := tick A P c s
    if due then (k + 1) :: returns A P n (k + 1) c' s' else returns A P n (k + 1) c' s'

end Crem.Suppa
