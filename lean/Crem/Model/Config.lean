/-
Model of the explorer's configuration pipeline (property C19), core Lean only.

Go sources transcribed:
  cmd/cremexplorer/config/data/Retrieval.go            retrieveConfig, defaultConfig, checkMandatoryFields
  cmd/cremexplorer/config/data/ScenarioConfig.go       OutputType / OutputLevel (TextUnmarshaler enums)
  internal/pkg/config/data/*.go                        AnnealerType, EventNotifierType, LoggerType, FormatterType
  github.com/BurntSushi/toml v0.3.1 decode.go          unify* : which TOML value types a Go field accepts
  cmd/cremexplorer/config/interpreter/*.go             ConfigInterpreter, ScenarioConfigInterpreter, ReportingConfigInterpreter
  internal/pkg/config/interpreter/*.go                 Model / Annealer / Logging interpreters
  internal/pkg/parameters/**                           Parameters (validated-or-default store), validators
  parameter specifications of the annealer, the two explorers, the three coolants, the three models
and, for `RunSafe`, every run-time failure site reachable from `Scenario.Run()` that reading found
(listed at `RunSafe` below with its Go location).

TOML *parsing* is not modelled: a configuration is a STRUCTURED value (`Cfg`): a list of
(section, key, typed value) entries; a key that is absent has no entry.  The correspondence
suite generates structured values from a grammar, renders them to TOML text for crem and sends
the structured form here.

Also transcribed since the third round: `scenario.Runner.generateCloneId`, `scenario.Saver` (encodeSummary,
ensureOutputPathIsUsable), `solution/set.Summary.FileNameSafeId` (the summary file of a run), `pkg/math.RoundFloat`
with its callers in the dumb models and in `annealing/observer.AnnealingMessageObserver` (values too large to round),
toml v0.3.1 `unifyStruct` (keys matched by `strings.EqualFold`, a struct field written as a scalar).
-/
namespace Crem.Config

/-! ## structured configuration -/

/-- the tables of the configuration file; `other` = a top-level table crem has no field for -/
inductive Sec
  | scenario        -- [Scenario]
  | userDetail      -- [Scenario.UserDetail]                       map[string]interface{}
  | reporting       -- [Scenario.Reporting]                        (ReportingConfig with embedded LoggingConfig)
  | logDest         -- [Scenario.Reporting.LogLevelDestinations]   map[string]string
  | annealer        -- [Annealer]
  | annealerParams  -- [Annealer.Parameters]                       parameters.Map
  | model           -- [Model]
  | modelParams     -- [Model.Parameters]                          parameters.Map
  | metaData        -- [MetaData]    (a decodable field of Config; overwritten after decoding)
  | other
  | top             -- bare keys before the first table header: the fields of `Config` itself written as values
  deriving DecidableEq, Repr

/-- a typed TOML value.  `flt m` is the decimal `m / 10^6` (any magnitude: `1e306` is `flt (10^312)`;
fine enough for the smallest documented range, the bank-erosion factor in [1e-5, 5e-4]); `path sym` is
a string whose text is a file-system path, named by a symbol the harness realises (`pathKind` says
what is there); `array` is a (homogeneous) TOML array and `datetime` a TOML datetime: values of a
type no field of the configuration takes -/
inductive Val
  | int (i : Int)
  | flt (micro : Int)
  | str (s : String)
  | bool (b : Bool)
  | path (sym : String)
  | table
  | array
  | datetime
  deriving DecidableEq, Repr

/-- the decimal unit: `flt m` denotes `m / unit` -/
def unit : Nat := 1000000

structure Entry where
  sec : Sec
  key : String
  val : Val
  deriving DecidableEq, Repr

/-- a structured configuration: the entries present (absent key = no entry) -/
abbrev Cfg := List Entry

/-- `strings.EqualFold` on one letter, for names made of ASCII letters: ASCII case is folded, and so are
the two non-ASCII characters whose simple case folding is an ASCII letter (U+212A KELVIN SIGN ↦ k,
U+017F LATIN SMALL LETTER LONG S ↦ s) -/
def foldChar (c : Char) : Char :=
  if c = Char.ofNat 0x212A then 'k' else if c = Char.ofNat 0x17F then 's' else c.toLower

/-- a key as the decoder compares it with the name of a Go struct field -/
def foldKey (k : String) : List Char := k.toList.map foldChar

/-- the tables decoded into a Go STRUCT: toml v0.3.1 `unifyStruct` matches a key with a field by
`strings.EqualFold` (an exact match is preferred, which makes no difference here: no two fields of
one struct differ by case only).  The keys of a table decoded into a Go MAP are kept as written. -/
def structSec : Sec → Bool
  | .scenario | .reporting | .annealer | .model | .metaData | .top => true
  | _ => false

/-- does the key `written` in table `s` denote `name`? -/
def keyIs (s : Sec) (written name : String) : Bool :=
  if structSec s then foldKey written == foldKey name else written == name

/-- the value written for `key` in table `sec`, if any (the first entry that denotes the key: a table
that spells one field in two ways is decoded in map order by Go and is outside the generated space) -/
def get : Cfg → Sec → String → Option Val
  | [], _, _ => none
  | e :: r, s, k => if e.sec = s ∧ keyIs s e.key k = true then some e.val else get r s k

/-- the entries of one table as a key/value list (a Go map after decoding) -/
def params : Cfg → Sec → List (String × Val)
  | [], _ => []
  | e :: r, s => if e.sec = s then (e.key, e.val) :: params r s else params r s

/-- map lookup -/
def getP : List (String × Val) → String → Option Val
  | [], _ => none
  | (k', v) :: r, k => if k' = k then some v else getP r k

/-! ## the file system as the configuration sees it -/

/-- what is at a path.  The CONTENT of a data set enters the model only through this classification:

* `dataset`: the meta-file names the Subcatchments, Gullies and Actions tables, every table file parses, has at
  least the columns the catchment model reads BY POSITION (12 / 4 / 15), a number in every cell it reads as one
  (Subcatchments columns 0 2 3 4 6 7 8 11, every Gullies column, Actions columns 0 and 2-14), and every planning
  unit the Gullies and Actions tables name has its Subcatchments row;
* `badDataset`: a table is not named by the meta-file;
* `malformedDataset`: the tables are there but one of the other conditions fails (a column dropped, text / an empty
  cell / a boolean where a number is read, a Subcatchments table without rows or without a referenced row);
* a meta-file naming a table file that is missing, empty or ragged does not LOAD (`csv.DataSet.Load` returns an
  error): for the model that is `file`, a readable file that is no data set. -/
inductive PathKind
  | missing      -- nothing there
  | file         -- a readable regular file that is not a loadable data set
  | dir          -- a directory
  | dataset      -- a CSV data set the catchment model can be built from (shipped ValidModel.csv, TestingModel.csv and harmless variations)
  | badDataset   -- a readable .csv whose tables are missing (shipped InvalidModel.csv)
  | malformedDataset -- a CSV data set with the three tables whose content `Initialise` cannot consume
  | underFile    -- a path BELOW a regular file: `os.Stat` fails with "not a directory", which is not "does not exist"
  deriving DecidableEq, Repr

def hasPrefix (p s : String) : Bool := p.toList.isPrefixOf s.toList

/-- what the path symbols of the generator denote (the harness creates exactly this).  `okd.<spec>`,
`mal.<spec>`, `unl.<spec>` are mutated COPIES of a shipped data set (`<spec>` names base, table and edit): the
harness's catalogue of edits puts each one in the class its prefix says -/
def pathKind (sym : String) : PathKind :=
  if sym = "valid" ∨ sym = "testing" ∨ hasPrefix "okd." sym = true then .dataset
  else if sym = "badcsv" then .badDataset
  else if hasPrefix "mal." sym = true then .malformedDataset
  else if sym = "notcsv" ∨ sym = "file" ∨ sym = "devnull" ∨ sym = "fifo" ∨ hasPrefix "unl." sym = true then .file
  else if sym = "dir" ∨ sym = "exists" then .dir
  else if sym = "underfile" then .underFile
  else .missing

/-- `os.OpenFile(path, O_RDONLY)` succeeds (directories open too) -/
def readable (sym : String) : Bool := pathKind sym != .missing && pathKind sym != .underFile

/-- `os.Stat` answers and what is there is no directory -/
def existsNotDir (k : PathKind) : Bool :=
  k == .file || k == .dataset || k == .badDataset || k == .malformedDataset

/-- the directory the path lies in exists (`os.Stat(filepath.Dir(path))` answers with a directory) -/
def parentIsDirectory (sym : String) : Bool := !(sym = "noprofdir" || sym = "nested" || sym = "underfile")

/-- a file can be created at the path (`os.Create` of the CPU profile): its directory exists and the
path itself is no directory -/
def creatable (sym : String) : Bool := parentIsDirectory sym && pathKind sym != .dir

/-- per data set and decision variable: limits `≤ bind` are certain to stop the random initialisation
before its last attempt; limits `≥ never` can never be violated.  Extracted from the running Go model. -/
structure Zone where
  bind : Int
  never : Int
  deriving Repr

/-- data facts the harness extracts from the real catchment model -/
structure Env where
  zones : List (String × List Zone) := []
  deriving Repr

def limitKeys : List String :=
  ["MaximumSedimentProduction", "MaximumParticulateNitrogenProduction", "MaximumDissolvedNitrogenProduction",
   "MaximumTotalNitrogenProduction", "MaximumImplementationCost", "MaximumOpportunityCost"]

def indexOfKey (k : String) : List String → Nat → Option Nat
  | [], _ => none
  | k' :: r, i => if k' = k then some i else indexOfKey k r (i + 1)

def lookupZones : List (String × List Zone) → String → Option (List Zone)
  | [], _ => none
  | (d, z) :: r, ds => if d = ds then some z else lookupZones r ds

/-- the zone of limit key `k` on data set `ds`; unknown data: nothing is certain -/
def Env.zone (env : Env) (ds k : String) : Option Zone :=
  match lookupZones env.zones ds, indexOfKey k limitKeys 0 with
  | some zs, some i => zs[i]?
  | _, _ => none

/-! ## which repairs are in the tree

Several failure sites have a one- or few-line repair (see the findings below).  Whether a repair has
been committed to crem is an explicit DECLARATION (the `repairs=` argument of the suite in
`checkprops.py`, sent to the driver as a `code` line): the model then transcribes the repaired code.
A declaration that does not match the tree shows up as a correspondence mismatch. -/
structure Repairs where
  /-- D16: `checkMandatoryFields` demands `ReportEveryNumberOfIterations >= 1` -/
  reportEveryChecked : Bool := false
  /-- D17: `ConfigInterpreter` checks the Kirkpatrick objective variable against an initialised clone of the configured model -/
  objectiveChecked : Bool := false
  /-- D22: `AnnealingInvariantObserver` ignores events without an `ObjectiveValue` attribute -/
  loopInvariantGuarded : Bool := false
  /-- new: `Runner.runScenario` caps the concurrency guard at the number of runs -/
  concurrencyCapped : Bool := false
  /-- new: `checkMandatoryFields` demands `RunNumber <= 2147483647` (math.MaxInt32: the counter of the
  `sync.WaitGroup` the runner waits on is 32 bits wide; every wrapped negative is far above it) -/
  runNumberBounded : Bool := false
  /-- new: `ScenarioConfigInterpreter` rejects an `OutputPath` that exists and is not a directory -/
  outputPathChecked : Bool := false
  /-- new: `ScenarioConfigInterpreter` rejects a `CpuProfilePath` whose parent is no existing directory
  (a path that itself names a directory is still accepted: crem's own interpreter test passes one) -/
  cpuProfilePathChecked : Bool := false
  /-- new: `ScenarioConfigInterpreter` rejects an `OutputPath` for which `os.Stat` fails with an error other than
  "does not exist" (a path below a regular file) -/
  outputPathStatChecked : Bool := false
  /-- C12: `Summary.FileNameSafeId` cuts the solution id at the LAST " Solution (" instead of deleting the greedy
  match of `Solution\(.+\)` (which eats the run part "(r/R)" of the id when the scenario name itself contains, or
  ends in, "Solution": every run then writes the same summary file) -/
  summaryNameAnchored : Bool := false
  deriving DecidableEq, Repr

/-! ## loading: TOML value types against Go field types (BurntSushi/toml v0.3.1 `unify`) -/

inductive Kind
  | text                         -- Go string
  | uint                         -- Go uint64
  | flag                         -- Go bool
  | enum (valid : List String)   -- encoding.TextUnmarshaler validating against a list
  | anyMap                       -- a map field written as a key of its parent table
  | struct                       -- a struct field (a sub-table) written as a key of its parent table
  | entryAny                     -- an entry of a map[string]interface{}
  | entryStr                     -- an entry of a map[string]string
  deriving Repr

def annealerTypes : List String := ["Kirkpatrick", "Suppapitnarm", "AveragedSuppapitnarm"]

/-- the Go field behind (table, folded key); `none` = no such field: the key stays undecoded -/
def fieldKindF : Sec → List Char → Option Kind
  | .scenario, k =>
    if k = "name".toList ∨ k = "outputpath".toList ∨ k = "cpuprofilepath".toList then some .text
    else if k = "runnumber".toList ∨ k = "maximumconcurrentrunnumber".toList then some .uint
    else if k = "outputtype".toList then some (.enum ["CSV", "JSON", "EXCEL"])
    else if k = "outputlevel".toList then some (.enum ["Summary", "Detail"])
    else if k = "userdetail".toList then some .anyMap
    else if k = "reporting".toList then some .struct
    else none
  | .userDetail, _ => some .entryAny
  | .reporting, k =>
    if k = "reporteverynumberofiterations".toList then some .uint
    else if k = "checkingloopinvariant".toList then some .flag
    else if k = "type".toList then some (.enum ["NativeLibrary", "BareBones"])
    else if k = "formatter".toList then some (.enum ["RawMessage", "JSON", "NameValuePair"])
    else if k = "logleveldestinations".toList then some .anyMap
    else none
  | .logDest, _ => some .entryStr
  | .annealer, k =>
    if k = "type".toList then some (.enum annealerTypes)
    else if k = "eventnotifier".toList then some (.enum ["Sequential", "Concurrent"])
    else if k = "parameters".toList then some .anyMap
    else none
  | .annealerParams, _ => some .entryAny
  | .model, k =>
    if k = "type".toList then some .text
    else if k = "parameters".toList then some .anyMap
    else none
  | .modelParams, _ => some .entryAny
  | .metaData, k =>
    if k = "filepath".toList ∨ k = "executablename".toList ∨ k = "executableversion".toList then some .text else none
  | .other, _ => none
  | .top, k =>
    if k = "scenario".toList ∨ k = "annealer".toList ∨ k = "model".toList ∨ k = "metadata".toList then some .struct else none

/-- the Go field behind (table, key).  In a struct table the key is compared by `strings.EqualFold`
(`[scenario] name = …`, `TYPE = …` are decoded); the keys of a map table are free. -/
def fieldKind (s : Sec) (k : String) : Option Kind := fieldKindF s (foldKey k)

/-- does the decoder accept the value for a field of this kind?
* `uint` takes every TOML integer (`unifyInt` converts `uint64(num)` without a sign check for 64-bit fields);
* an `enum` renders integers, decimals and booleans to text first, which is never a valid name;
* a map field written as a non-table value is silently skipped (`unifyMap` returns nil when the
  type assertion fails), and every value is fine inside a `map[string]interface{}`;
* a struct field takes a table only (`unifyStruct`: "type mismatch … expected table");
* arrays and datetimes are taken by no scalar field. -/
def compat : Kind → Val → Bool
  | .text, .str _ => true
  | .text, .path _ => true
  | .text, _ => false
  | .uint, .int _ => true
  | .uint, _ => false
  | .flag, .bool _ => true
  | .flag, _ => false
  | .enum valid, .str s => valid.contains s
  | .enum _, _ => false
  | .anyMap, _ => true
  | .struct, .table => true
  | .struct, _ => false
  | .entryAny, _ => true
  | .entryStr, .str _ => true
  | .entryStr, .path _ => true
  | .entryStr, _ => false

/-- the largest finite double, 2^1024 - 2^971 (written out: the kernel does not evaluate such powers) -/
def maxFloat64 : Nat :=
  179769313486231570814527423731704356798070567525844996598917476803157260780028538760589558632766878171540458953514382464234321326889464182768467546703537516986049910576551282076245490090389328944075868508455133942304583236903222948165808559332123348274797826204144723168738177180919299881250404026184124858368

/-- 2^1024 - 2^970, half a unit in the last place above `maxFloat64` -/
def floatOverflow : Nat :=
  179769313486231580793728971405303415079934132710037826936173778980444968292764750946649017977587207096330286416692887910946555547851940402630657488671505820681908902000708383676273854845817711531764475730270069855571366959622842914819860834936475292719074168444365510704342711559699508093042880177904174497792

/-- a decimal literal is a TOML float only if it rounds to a finite double, i.e. its magnitude is below
2^1024 - 2^970; beyond, the PARSER fails ("Float … is out of the range of 64-bit IEEE-754 floating-point
numbers"), wherever the value is written -/
def floatParses (m : Int) : Bool := decide (m.natAbs < floatOverflow * unit)

def entryDecodes (e : Entry) : Bool :=
  (match e.val with | .flt m => floatParses m | _ => true) &&
  match fieldKind e.sec e.key with
  | none => true
  | some k => compat k e.val

/-- is the key decoded?  A key without a Go field is not; neither are the keys INSIDE a table written
as a value of a `map[string]interface{}` (`unifyAnything` stores the nested table without marking
its keys) or as the value of a struct field: all end up in `MetaData.Undecoded()`. -/
def entryKnown (e : Entry) : Bool :=
  match fieldKind e.sec e.key with
  | none => false
  | some .entryAny => e.val != .table
  | some .struct => false     -- written as an inline table `{ inner = 1 }`: `inner` is no field of the struct
  | some _ => true

/-- Go's `uint64(int64)` conversion -/
def toUint64 (i : Int) : Nat := (i % 18446744073709551616).toNat

/-- the configuration after decoding over `defaultConfig()`: what interpretation and the run read -/
structure Loaded where
  name : Val
  runNumber : Nat
  maxConcurrent : Nat
  outputPath : Val
  outputType : String
  outputLevel : String
  cpuProfilePath : Val
  reportEvery : Nat
  loopInvariant : Bool
  logDest : List (String × Val)
  annealerType : String
  annealerParams : List (String × Val)
  modelType : Val
  modelParams : List (String × Val)
  deriving Repr

def uintField (c : Cfg) (s : Sec) (k : String) (dflt : Nat) : Nat :=
  match get c s k with
  | some (.int i) => toUint64 i
  | _ => dflt

def textField (c : Cfg) (s : Sec) (k : String) (dflt : String) : Val :=
  match get c s k with
  | some (.str t) => .str t
  | some (.path p) => .path p
  | _ => .str dflt

def enumField (c : Cfg) (s : Sec) (k : String) : String :=
  match get c s k with
  | some (.str t) => t
  | _ => ""

def flagField (c : Cfg) (s : Sec) (k : String) : Bool :=
  match get c s k with
  | some (.bool b) => b
  | _ => false

/-- decoding a well-typed configuration over the defaults of `defaultConfig()`
(RunNumber 1, MaximumConcurrentRunNumber 1, OutputPath ".", ReportEveryNumberOfIterations 1) -/
def mkLoaded (c : Cfg) : Loaded where
  name := textField c .scenario "Name" ""
  runNumber := uintField c .scenario "RunNumber" 1
  maxConcurrent := uintField c .scenario "MaximumConcurrentRunNumber" 1
  outputPath := textField c .scenario "OutputPath" "."
  outputType := enumField c .scenario "OutputType"
  outputLevel := enumField c .scenario "OutputLevel"
  cpuProfilePath := textField c .scenario "CpuProfilePath" ""
  reportEvery := uintField c .reporting "ReportEveryNumberOfIterations" 1
  loopInvariant := flagField c .reporting "CheckingLoopInvariant"
  logDest := params c .logDest
  annealerType := enumField c .annealer "Type"
  annealerParams := params c .annealerParams
  modelType := textField c .model "Type" ""
  modelParams := params c .modelParams

inductive LoadErr
  | decode                               -- "failed retrieving config from …" (type mismatch / invalid enum text)
  | unknown                              -- "unrecognised configuration key(s)"
  | mandatory (fields : List String)     -- "Missing mandatory configuration"
  deriving DecidableEq, Repr

/-- the largest `RunNumber` the repaired `checkMandatoryFields` takes (`maximumRunNumber` = 2^31 - 1) -/
def maxRunNumber : Nat := 2147483647

/-- `checkMandatoryFields` -/
def mandatoryMissing (r : Repairs) (l : Loaded) : List String :=
  (if l.name = .str "" then ["Name"] else []) ++
  (if l.runNumber < 1 ∨ (r.runNumberBounded = true ∧ maxRunNumber < l.runNumber) then ["RunNumber"] else []) ++
  (if r.reportEveryChecked = true ∧ l.reportEvery < 1 then ["ReportEvery"] else []) ++
  (if l.annealerType = "" then ["AnnealerType"] else []) ++
  (if l.modelType = .str "" then ["ModelType"] else [])

/-- `retrieveConfig`: decode, then undecoded keys, then mandatory fields; all errors are
collected and returned as ONE error value.  After a decode error the decoder has stopped at
an arbitrary (map-order dependent) point, so only the class `decode` is reported by the model. -/
def loadErrors (r : Repairs) (c : Cfg) : List LoadErr :=
  if !c.all entryDecodes then [.decode]
  else
    (if c.all entryKnown then [] else [LoadErr.unknown]) ++
    (if (mandatoryMissing r (mkLoaded c)).isEmpty then [] else [LoadErr.mandatory (mandatoryMissing r (mkLoaded c))])

def load (r : Repairs) (c : Cfg) : Except (List LoadErr) Loaded :=
  if (loadErrors r c).isEmpty then .ok (mkLoaded c) else .error (loadErrors r c)

/-! ## parameter specifications and validators (`internal/pkg/parameters/specification`) -/

inductive Validator
  | decimal            -- IsDecimal
  | nonNegDecimal      -- IsNonNegativeDecimal
  | unitDecimal        -- IsDecimalBetweenZeroAndOne
  | bankErosion        -- decimal in [1e-5, 5e-4]
  | integer            -- IsInteger
  | nonNegInt          -- IsNonNegativeInteger
  | posInt             -- YearsOfErosion: integer >= 1
  | text               -- IsString
  | flag               -- IsBoolean
  | readableFile       -- IsReadableFile
  | direction          -- "Minimising" | "Maximising"
  deriving DecidableEq, Repr

def validate : Validator → Val → Bool
  | .decimal, .flt _ => true
  | .nonNegDecimal, .flt m => 0 ≤ m
  | .unitDecimal, .flt m => 0 ≤ m ∧ m ≤ 1000000
  | .bankErosion, .flt m => 10 ≤ m ∧ m ≤ 500
  | .integer, .int _ => true
  | .nonNegInt, .int i => 0 ≤ i
  | .posInt, .int i => 1 ≤ i
  | .text, .str _ => true
  | .text, .path _ => true
  | .flag, .bool _ => true
  | .readableFile, .path p => readable p
  | .readableFile, .str _ => false   -- plain strings of the generator name no existing file
  | .direction, .str s => s = "Minimising" ∨ s = "Maximising"
  | _, _ => false

/-- a specification: validator and default (`none` = optional key without default) -/
structure Spec where
  validator : Validator
  dflt : Option Val

abbrev Specs := List (String × Spec)

def specOf : Specs → String → Option Spec
  | [], _ => none
  | (k', s) :: r, k => if k' = k then some s else specOf r k

/-- annealers.DefineSpecifications + kirkpatrick explorer + kirkpatrick coolant -/
def kirkSpecs : Specs :=
  [("MaximumIterations", ⟨.nonNegInt, some (.int 0)⟩),
   ("DecisionVariable", ⟨.text, some (.str "ObjectiveValue")⟩),
   ("OptimisationDirection", ⟨.direction, some (.str "Minimising")⟩),
   ("StartingTemperature", ⟨.nonNegDecimal, some (.flt 0)⟩),
   ("CoolingFactor", ⟨.unitDecimal, some (.flt 1000000)⟩)]

/-- annealers.DefineSpecifications + suppapitnarm explorer + (suppapitnarm | averaged) coolant -/
def suppaSpecs : Specs :=
  [("MaximumIterations", ⟨.nonNegInt, some (.int 0)⟩),
   ("ReturnToBaseAdjustmentFactor", ⟨.unitDecimal, some (.flt 950000)⟩),
   ("InitialReturnToBaseStep", ⟨.nonNegInt, some (.int 20000)⟩),
   ("MinimumReturnToBaseRate", ⟨.nonNegInt, some (.int 10)⟩),
   ("ReturnToBaseIsolationFraction", ⟨.unitDecimal, some (.flt 900000)⟩),
   ("CheckNonDominance", ⟨.flag, some (.bool false)⟩),
   ("StartingTemperature", ⟨.nonNegDecimal, some (.flt 0)⟩),
   ("CoolingFactor", ⟨.unitDecimal, some (.flt 1000000)⟩)]

def dumbSpecs : Specs :=
  [("InitialObjectiveValue", ⟨.decimal, some (.flt 1000000000)⟩),
   ("MinimumObjectiveValue", ⟨.decimal, some (.flt 0)⟩),
   ("MaximumObjectiveValue", ⟨.decimal, some (.flt 2000000000)⟩)]

def modumbSpecs : Specs :=
  [("InitialObjectiveOneValue", ⟨.decimal, some (.flt 1000000000)⟩),
   ("InitialObjectiveTwoValue", ⟨.decimal, some (.flt 2000000000)⟩),
   ("InitialObjectiveThreeValue", ⟨.decimal, some (.flt 3000000000)⟩),
   ("NumberOfPlanningUnits", ⟨.nonNegInt, some (.int 100)⟩)]

def catchmentSpecs : Specs :=
  [("DataSourcePath", ⟨.readableFile, some (.str "")⟩),
   ("BankErosionFudgeFactor", ⟨.bankErosion, some (.flt 150)⟩),
   ("WaterDensity", ⟨.decimal, some (.flt 1000000)⟩),
   ("LocalAcceleration", ⟨.decimal, some (.flt 9810000)⟩),
   ("GullyCompensationFactor", ⟨.decimal, some (.flt 500000)⟩),
   ("SedimentDensity", ⟨.decimal, some (.flt 1500000)⟩),
   ("SuspendedSedimentProportion", ⟨.decimal, some (.flt 500000)⟩),
   ("YearsOfErosion", ⟨.posInt, some (.int 100)⟩),
   ("RiparianBufferVegetationProportionTarget", ⟨.unitDecimal, some (.flt 750000)⟩),
   ("GullySedimentReductionTarget", ⟨.unitDecimal, some (.flt 800000)⟩),
   ("HillSlopeDeliveryRatio", ⟨.unitDecimal, some (.flt 50000)⟩),
   ("MaximumSedimentProduction", ⟨.nonNegDecimal, none⟩),
   ("MaximumParticulateNitrogenProduction", ⟨.nonNegDecimal, none⟩),
   ("MaximumDissolvedNitrogenProduction", ⟨.nonNegDecimal, none⟩),
   ("MaximumTotalNitrogenProduction", ⟨.nonNegDecimal, none⟩),
   ("MaximumImplementationCost", ⟨.nonNegDecimal, none⟩),
   ("MaximumOpportunityCost", ⟨.nonNegDecimal, none⟩)]

/-- `Parameters.AssignAllUserValues` leaves no validation error: every supplied key has a
specification and its value validates (models) -/
def allValid (specs : Specs) (ps : List (String × Val)) : Bool :=
  ps.all fun kv => match specOf specs kv.1 with
    | none => false
    | some s => validate s.validator kv.2

/-- `Parameters.AssignOnlyEnforcedUserValues` leaves no validation error: every SPECIFIED key the
user supplied validates; keys without a specification are ignored (annealers, explorers, coolants) -/
def enforcedValid (specs : Specs) (ps : List (String × Val)) : Bool :=
  specs.all fun ks => match getP ps ks.1 with
    | none => true
    | some v => validate ks.2.validator v

/-- the parameter store after assignment: the user's value where it validated, else the default -/
def effective (specs : Specs) (ps : List (String × Val)) (k : String) : Option Val :=
  match specOf specs k with
  | none => none
  | some s =>
    match getP ps k with
    | some v => if validate s.validator v then some v else s.dflt
    | none => s.dflt

/-! ## interpretation -/

inductive SecErr | model | annealer | scenario
  | objective   -- (repair D17) an error of the ConfigInterpreter itself, outside the three sections
  deriving DecidableEq, Repr

def isKirk (l : Loaded) : Bool := l.annealerType = "Kirkpatrick"
def isSuppa (l : Loaded) : Bool := l.annealerType = "Suppapitnarm" ∨ l.annealerType = "AveragedSuppapitnarm"

def annealerSpecs (l : Loaded) : Specs := if isKirk l then kirkSpecs else suppaSpecs

/-- `HasEntry` of an optional limit: it was supplied and validated -/
def limitSet (ps : List (String × Val)) (k : String) : Bool :=
  (effective catchmentSpecs ps k).isSome

/-- ModelConfigInterpreter: the type must be registered; parameter errors of the built model;
the catchment model additionally allows one limit at most.  `NullModel` is no parameter container:
its parameters are never looked at. -/
def modelErr (l : Loaded) : Bool :=
  if l.modelType = .str "NullModel" then false
  else if l.modelType = .str "DumbModel" then !allValid dumbSpecs l.modelParams
  else if l.modelType = .str "MultiObjectiveDumbModel" then !allValid modumbSpecs l.modelParams
  else if l.modelType = .str "CatchmentModel" then
    !allValid catchmentSpecs l.modelParams || decide (1 < (limitKeys.filter (limitSet l.modelParams)).length)
  else true

/-- AnnealerConfigInterpreter: the type must be registered (it is, after loading); parameter errors
of annealer + explorer + coolant.  The objective variable is checked against the explorer's model
at that moment, which is the NULL model: it "offers" every name, so nothing is checked. -/
def annealerErr (l : Loaded) : Bool :=
  if isKirk l then !enforcedValid kirkSpecs l.annealerParams
  else if isSuppa l then !enforcedValid suppaSpecs l.annealerParams
  else true

def validDestinations : List String := ["StandardOutput", "StandardError", "Discarded"]

/-- ScenarioConfigInterpreter → ReportingConfigInterpreter → LoggingConfigInterpreter:
every log level destination must be recognised (level names are free); (repairs) the output path is
no existing non-directory (`os.Stat` answers and `!IsDir()`: a text file, a data-set file …), `os.Stat` of it
fails with "does not exist" at worst; the directory of the CPU profile file exists -/
def scenarioErr (r : Repairs) (l : Loaded) : Bool :=
  (!l.logDest.all fun kv => match kv.2 with
    | .str s => validDestinations.contains s
    | _ => false) ||
  (r.outputPathChecked && (match l.outputPath with | .path p => existsNotDir (pathKind p) | _ => false)) ||
  (r.outputPathStatChecked && (match l.outputPath with | .path p => pathKind p == .underFile | _ => false)) ||
  (r.cpuProfilePathChecked && (match l.cpuProfilePath with | .path p => !parentIsDirectory p | _ => false))

/-! ## what the run reads -/

def isCatchment (l : Loaded) : Bool := l.modelType = .str "CatchmentModel"

def maxIterations (l : Loaded) : Nat :=
  match effective (annealerSpecs l) l.annealerParams "MaximumIterations" with
  | some (.int n) => n.toNat
  | _ => 0

/-- `logHandler.BeingDiscarded(AnnealingLogLevel)`; the default destination is standard output -/
def annealingDiscarded (l : Loaded) : Bool := getP l.logDest "Annealing" = some (.str "Discarded")

/-- the Kirkpatrick explorer's objective variable name -/
def objective (l : Loaded) : Val :=
  match effective kirkSpecs l.annealerParams "DecisionVariable" with
  | some v => v
  | none => .str "ObjectiveValue"

def catchmentVariables : List String :=
  ["SedimentProduction", "ParticulateNitrogen", "DissolvedNitrogen", "TotalNitrogen", "ImplementationCost", "OpportunityCost"]
def modumbVariables : List String := ["Objective_0", "Objective_1", "Objective_2"]

/-- does looking the variable up in the configured model succeed?  The dumb model answers
`DecisionVariable(name)` with its only variable whatever the name; the catchment and the
multi-objective dumb model PANIC on an unknown name (`UndoableDecisionVariables.find`). -/
def lookupSucceeds (modelType : Val) (v : Val) : Bool :=
  if modelType = .str "CatchmentModel" then (match v with | .str s => catchmentVariables.contains s | _ => false)
  else if modelType = .str "MultiObjectiveDumbModel" then (match v with | .str s => modumbVariables.contains s | _ => false)
  else true

/-- the data set the catchment model loads: `DataSourcePath` names a loadable CSV data set -/
def dataSet (l : Loaded) : Option String :=
  match effective catchmentSpecs l.modelParams "DataSourcePath" with
  | some (.path p) => if pathKind p = .dataset then some p else none
  | _ => none

/-- the data source is a readable file (it passed validation) that LOADS as a CSV data set but whose first
`Initialise` PANICS: a table is missing (deliberate panic in `fetchCsvTable` / `tables.ToCsvTable`), or the
content cannot be consumed (Go run-time errors of the unchecked positional table accesses: index out of
range, `interface {} is string / bool / nil, not float64`) -/
def dataSourceBroken (l : Loaded) : Bool :=
  match effective catchmentSpecs l.modelParams "DataSourcePath" with
  | some (.path p) => pathKind p == .badDataset || pathKind p == .malformedDataset
  | _ => false

/-- every configured limit is certain to bind on the loaded data set -/
def limitsBind (env : Env) (l : Loaded) : Bool :=
  limitKeys.all fun k =>
    match effective catchmentSpecs l.modelParams k, dataSet l with
    | some (.flt m), some ds => (match env.zone ds k with | some z => decide (m ≤ z.bind) | none => false)
    | _, _ => true

/-- some configured limit can certainly never be violated -/
def someLimitNeverBinds (env : Env) (l : Loaded) : Bool :=
  limitKeys.any fun k =>
    match effective catchmentSpecs l.modelParams k, dataSet l with
    | some (.flt m), some ds => (match env.zone ds k with | some z => decide (z.never ≤ m) | none => false)
    | _, _ => false

/-- (repair D17) does an initialised clone of the configured model offer the Kirkpatrick objective variable?
The dumb model offers `ObjectiveValue` only; a catchment model whose data did not load offers nothing. -/
def offered (l : Loaded) : Bool :=
  if l.modelType = .str "CatchmentModel" then (dataSet l).isSome && lookupSucceeds l.modelType (objective l)
  else if l.modelType = .str "MultiObjectiveDumbModel" then lookupSucceeds l.modelType (objective l)
  else if l.modelType = .str "DumbModel" then objective l == .str "ObjectiveValue"
  else true

/-! ### values too large to round (`pkg/math.RoundFloat`, the D15 family of C18 seen from the configuration)

`RoundFloat(value, precision)` PANICS when `|value| > MaxFloat64 / 10^precision`.  The dumb model's variable rounds
to 3 decimals at the first proposed change; the multi-objective dumb model rounds each initial value to 2 decimals
inside `Initialise` (`SetPlanningUnitValue`) - which `Saver.SetDecompressionModel` already calls while the
configuration is INTERPRETED - and its values are rounded to 3 decimals when a run's result is encoded (not by the
JSON summary encoder).  And unless the Annealing log level is discarded,
`AnnealingMessageObserver` writes every attribute of every event it lets through (the first one, StartedAnnealing,
always) with `strings.Converter` at SIX decimals: the objective value of a Kirkpatrick run, every decision variable
of the multi-objective dumb model (it notifies its observers; the dumb model sends no events) - and the temperature,
i.e. the annealer's `StartingTemperature`.  `IsDecimal` / `IsNonNegativeDecimal` accept every (non-negative) float,
so the value stored is the user's.  (Decimals within one unit in the last place of a threshold depend on binary
rounding and are outside the generated space.) -/

/-- `|m / unit| > MaxFloat64 / 10^digits` -/
def tooLargeFor (digits : Nat) (m : Int) : Bool := decide (maxFloat64 * unit < m.natAbs * 10 ^ digits)

/-- the decimal the user wrote for a key of a parameter map (0 when there is none: defaults are small) -/
def userDecimal (ps : List (String × Val)) (k : String) : Int :=
  match getP ps k with
  | some (.flt m) => m
  | _ => 0

def modumbInitialKeys : List String :=
  ["InitialObjectiveOneValue", "InitialObjectiveTwoValue", "InitialObjectiveThreeValue"]

/-- `modumb.Model.Initialise` panics -/
def initialiseOverflows (l : Loaded) : Bool :=
  l.modelType = .str "MultiObjectiveDumbModel" && modumbInitialKeys.any fun k => tooLargeFor 2 (userDecimal l.modelParams k)

/-- the decimals a value of the model is rounded to in a run: 3 by its variable, 6 when it is also logged -/
def roundDigits (discarded : Bool) : Nat := if discarded then 3 else 6

/-- the multi-objective dumb model's variables are not rounded to 3 decimals by the model but by the ENCODERS: the CSV
summary and every Detail-level solution file; a JSON summary alone leaves them as they are (2 decimals: `Initialise`) -/
def modumbDigits (discarded : Bool) (outputType outputLevel : String) : Nat :=
  if !discarded then 6 else if outputType = "JSON" ∧ outputLevel ≠ "Detail" then 2 else 3

/-- every run fails in `RoundFloat` -/
def runOverflows (l : Loaded) : Bool :=
  (l.modelType = .str "DumbModel" &&
    tooLargeFor (roundDigits (annealingDiscarded l || !isKirk l)) (userDecimal l.modelParams "InitialObjectiveValue")) ||
  (l.modelType = .str "MultiObjectiveDumbModel" &&
    modumbInitialKeys.any fun k =>
      tooLargeFor (modumbDigits (annealingDiscarded l) l.outputType l.outputLevel) (userDecimal l.modelParams k)) ||
  (!annealingDiscarded l && tooLargeFor 6 (userDecimal l.annealerParams "StartingTemperature"))

/-! ### the summary file of a run (`scenario.Runner.generateCloneId`, `scenario.Saver`, `solution/set.Summary.FileNameSafeId`)

Run `r` of `R` carries the id `<Name>` (R = 1) or `<Name> (r/R)`; its solutions are `<id> Solution (As-Is)`,
`<id> Solution (k/n)`; the summary file is `<OutputPath>/<FileNameSafeId of one of them>-Summary.<csv|json>`.
`FileNameSafeId` removes every blank, deletes every match of the regular expression `Solution\(.+\)` (GREEDY;
`.` matches anything but a line feed) and replaces `/` by `_of_`.  An encoding error (`os.OpenFile` fails) is
only LOGGED (`Saver.encodeSummary`): the run "completes" without its result. -/

def squeeze (s : List Char) : List Char := s.filter (· != ' ')

/-- the lines of a text (split at line feeds) -/
def splitLines : List Char → List (List Char)
  | [] => [[]]
  | c :: r =>
    match splitLines r with
    | [] => [[c]]                       -- unreachable: `splitLines` never answers []
    | l :: ls => if c = '\n' then [] :: l :: ls else (c :: l) :: ls

def joinLines : List (List Char) → List Char
  | [] => []
  | [l] => l
  | l :: ls => l ++ '\n' :: joinLines ls

/-- index of the first occurrence of `pat` -/
def firstIndexOf (pat : List Char) : List Char → Option Nat
  | [] => if pat.isEmpty then some 0 else none
  | c :: r => if pat.isPrefixOf (c :: r) then some 0 else (firstIndexOf pat r).map (· + 1)

/-- index of the last occurrence of the character -/
def lastIndexOfChar (ch : Char) : List Char → Option Nat
  | [] => none
  | c :: r =>
    match lastIndexOfChar ch r with
    | some i => some (i + 1)
    | none => if c = ch then some 0 else none

/-- `ReplaceAllString` of `Solution\(.+\)` by "" on ONE line: the leftmost match starts at the first
"Solution(" and - greedy - ends at the LAST ")" of the line, provided at least one character lies between;
nothing can match after it -/
def stripLine (l : List Char) : List Char :=
  match firstIndexOf "Solution(".toList l, lastIndexOfChar ')' l with
  | some i, some j => if i + 10 ≤ j then l.take i ++ l.drop (j + 1) else l
  | _, _ => l

def slashes (s : List Char) : List Char := s.flatMap fun c => if c = '/' then "_of_".toList else [c]

/-- `Runner.generateCloneId` -/
def runId (name : String) (run runs : Nat) : List Char :=
  if 1 < runs then name.toList ++ " (".toList ++ (Nat.repr run).toList ++ ['/'] ++ (Nat.repr runs).toList ++ [')']
  else name.toList

/-- the file-name-safe id of the summary of run `run` of `runs` -/
def summarySafeId (r : Repairs) (name : String) (run runs : Nat) : List Char :=
  if r.summaryNameAnchored then slashes (squeeze (runId name run runs))
  else slashes (joinLines ((splitLines (squeeze (runId name run runs ++ " Solution (As-Is)".toList))).map stripLine))

def summaryExtension (outputType : String) : List Char :=
  if outputType = "JSON" then ".json".toList else ".csv".toList

def summaryFileName (r : Repairs) (l : Loaded) (name : String) (run : Nat) : List Char :=
  summarySafeId r name run l.runNumber ++ "-Summary".toList ++ summaryExtension l.outputType

def utf8Length (s : List Char) : Nat := s.foldl (fun n c => n + c.utf8Size) 0

/-- `os.OpenFile` can create a file of that name in an existing directory: no NUL, at most 255 bytes
(the name holds no `/`: `slashes`) -/
def fileNameUsable (fn : List Char) : Bool := !fn.contains (Char.ofNat 0) && decide (utf8Length fn ≤ 255)

/-- the summary files of runs 1 and 2 differ: then those of any two runs do (the run part of the id survives), and
if they do not, EVERY run writes the same file -/
def runFilesDistinct (r : Repairs) (l : Loaded) (name : String) : Bool :=
  decide (l.runNumber ≤ 1) || summaryFileName r l name 1 != summaryFileName r l name 2

/-- every run writes its own summary file (the longest name is that of the last run) -/
def resultFilesOk (r : Repairs) (l : Loaded) : Bool :=
  match l.name with
  | .str n => fileNameUsable (summaryFileName r l n l.runNumber) && runFilesDistinct r l n
  | _ => true

/-- for the driver: how many summary files a scenario whose runs all complete leaves behind -/
def expectedSummaryFiles (r : Repairs) (l : Loaded) : Nat :=
  match l.name with
  | .str n =>
    if runFilesDistinct r l n then
      ((List.range l.runNumber).filter fun i => fileNameUsable (summaryFileName r l n (i + 1))).length
    else if fileNameUsable (summaryFileName r l n 1) then 1 else 0
  | _ => l.runNumber

def objectiveErr (r : Repairs) (l : Loaded) : Bool :=
  r.objectiveChecked && !modelErr l && !annealerErr l && isKirk l && !offered l

/-- `ConfigInterpreter.Interpret`: the errors of the sections are collected in this order -/
def interpret (r : Repairs) (l : Loaded) : List SecErr :=
  (if modelErr l then [SecErr.model] else []) ++
  (if annealerErr l then [SecErr.annealer] else []) ++
  (if objectiveErr r l then [SecErr.objective] else []) ++
  (if scenarioErr r l then [SecErr.scenario] else [])

/-- loader and interpreter report no error -/
def accepts (r : Repairs) (c : Cfg) : Bool :=
  match load r c with
  | .ok l => interpret r l == []
  | .error _ => false

/-- `RunSafe`: the conjunction of the preconditions of every run-time failure site reachable from
`ConfigInterpreter.Interpret` (which already initialises a clone of the model for the saver) and
`Scenario.Run()`, found by reading.  A failure inside a run (sites marked R) is recovered by
`scenario.Runner` since crem 7bb63cc: the run writes no result and `Run()` returns an error value; the
other sites still end the process.  (D8, the JSON set name of a multi-objective run, was repaired in
crem fcd5efe and is no site any more.)

* `modulo` (R)   filters.IterationCountFilter.ShouldFilterAnnealerSource: `currentIteration % modulo` is evaluated
                 for the explorer's initialisation events (iteration 0, neither first nor last when the budget
                 is ≥ 1) unless the Annealing log level is discarded (the `||` short-circuits)
* `objective` (R) kirkpatrick.Explorer.Initialise → ObjectiveValue() → Model().DecisionVariable(name): panics in
                 UndoableDecisionVariables.find for a name the model does not have
* `limits` (R)   catchment.CoreModel.RandomlyValidly(De)ActivateActions: deliberate panic
                 "Attempt limit reached …" when no attempt before the last one is invalid
* `loopInvariant` (R) AnnealingInvariantObserver.loopInvariantUpheld: `event.Attribute("ObjectiveValue").(float64)` on
                 StartedAnnealing; the Suppapitnarm explorers send no such attribute
* `dataSource` (R, and inside Interpret) catchment.Model.Initialise records a load error and returns with nothing built; the run then
                 dereferences the missing tables / variables; a .csv without tables panics in fetchCsvTable
* `realModel` (R) archive.ModelCompressor.Compress(NullModel): NameMappedVariables() is nil
* `outputPath` (R) scenario.Saver.ensureOutputPathIsUsable: panics when the path exists and is not a directory, and when
                 `os.Stat` fails with anything but "does not exist" (a path below a regular file)
* `roundable` (R) pkg/math.RoundFloat: panics for a value beyond MaxFloat64 / 10^precision (initial values of the dumb
                 and the multi-objective dumb model; the catchment model's physical parameters belong to C18)
* `resultNameable` scenario.Saver.encodeSummary only LOGS an encoding error, and `Summary.FileNameSafeId` may map the
                 ids of different runs to one file name: the run completes, its summary file is not (or no longer) there
* `runNumber`    scenario.Runner.runScenario: `runWaitGroup.Add(int(runNumber))` panics for values ≥ 2^63
                 (a negative TOML integer wraps).  The repair bounds the field by 2^31 - 1 (`maxRunNumber`), the
                 capacity of the WaitGroup's 32-bit counter, which excludes every wrapped negative
* `concurrency`  `make(chan struct{}, maxConcurrentRuns)` panics likewise
* `cpuProfile`   profiling.CpuProfileOfFunctionToFile: the run is never started when the file cannot be created
                 (its directory is missing, or the path names a directory)
* `platform`     OutputType EXCEL needs OLE (Windows only); excluded from generator and claim -/
structure RunSafe (r : Repairs) (env : Env) (l : Loaded) : Prop where
  modulo : l.reportEvery ≠ 0 ∨ annealingDiscarded l = true ∨ maxIterations l = 0
  objective : isKirk l = true → lookupSucceeds l.modelType (objective l) = true
  limits : isCatchment l = true → limitsBind env l = true
  loopInvariant : r.loopInvariantGuarded = true ∨ (l.loopInvariant = true → isKirk l = true)
  dataSource : isCatchment l = true → (dataSet l).isSome = true
  realModel : l.modelType ≠ .str "NullModel"
  outputPath : ∀ p, l.outputPath = .path p → pathKind p = .dir ∨ pathKind p = .missing
  runNumber : l.runNumber < 9223372036854775808
  concurrency : r.concurrencyCapped = true ∨ l.maxConcurrent < 9223372036854775808
  cpuProfile : ∀ p, l.cpuProfilePath = .path p → creatable p = true
  platform : l.outputType ≠ "EXCEL"
  roundable : runOverflows l = false
  resultNameable : resultFilesOk r l = true

/-- the same as a Boolean, for the driver -/
def runSafeB (r : Repairs) (env : Env) (l : Loaded) : Bool :=
  (l.reportEvery != 0 || annealingDiscarded l || maxIterations l == 0) &&
  (!isKirk l || lookupSucceeds l.modelType (objective l)) &&
  (!isCatchment l || limitsBind env l) &&
  (r.loopInvariantGuarded || !l.loopInvariant || isKirk l) &&
  (!isCatchment l || (dataSet l).isSome) &&
  (l.modelType != .str "NullModel") &&
  (match l.outputPath with | .path p => pathKind p == .dir || pathKind p == .missing | _ => true) &&
  decide (l.runNumber < 9223372036854775808) &&
  (r.concurrencyCapped || decide (l.maxConcurrent < 9223372036854775808)) &&
  (match l.cpuProfilePath with | .path p => creatable p | _ => true) &&
  (l.outputType != "EXCEL") &&
  !runOverflows l &&
  resultFilesOk r l

/-- the model panics while the interpreter wires the scenario (Saver.SetDecompressionModel
initialises a clone of the model): only when model and annealer sections were error-free -/
def interpretPanics (l : Loaded) : Bool :=
  !modelErr l && !annealerErr l && ((isCatchment l && dataSourceBroken l) || initialiseOverflows l)

/-- what loader + interpreter answer: a configuration is accepted, or ONE error value comes back
(a non-empty list of load error classes / of sections with errors) — or, today, the interpreter panics -/
inductive Verdict
  | accepted
  | loadError (es : List LoadErr)
  | interpretError (es : List SecErr)
  | interpretPanic
  deriving DecidableEq, Repr

def verdict (r : Repairs) (c : Cfg) : Verdict :=
  match load r c with
  | .error es => .loadError es
  | .ok l =>
    if interpretPanics l then .interpretPanic
    else if (interpret r l).isEmpty then .accepted
    else .interpretError (interpret r l)

/-! ## the named findings: syntactic predicates on the structured form -/

def annealerIs (c : Cfg) (t : String) : Bool := get c .annealer "Type" = some (.str t)
def annealerIsMulti (c : Cfg) : Bool := annealerIs c "Suppapitnarm" || annealerIs c "AveragedSuppapitnarm"
def modelIs (c : Cfg) (t : String) : Bool := get c .model "Type" = some (.str t)

/-- D16: `ReportEveryNumberOfIterations = 0` while the Annealing level is logged and at least one iteration runs -/
def ReportingModuloZero (c : Cfg) : Bool :=
  (match get c .reporting "ReportEveryNumberOfIterations" with | some (.int i) => toUint64 i == 0 | _ => false) &&
  get c .logDest "Annealing" != some (.str "Discarded") &&
  (match get c .annealerParams "MaximumIterations" with | some (.int n) => decide (1 ≤ n) | _ => false)

/-- D17: the Kirkpatrick objective variable — the DEFAULT `ObjectiveValue` when `DecisionVariable`
is omitted — is not a variable of the configured catchment / multi-objective dumb model -/
def ObjectiveNotOffered (c : Cfg) : Bool :=
  annealerIs c "Kirkpatrick" &&
  ((modelIs c "CatchmentModel" &&
      (match get c .annealerParams "DecisionVariable" with
       | none => true | some (.str s) => !catchmentVariables.contains s | some _ => true)) ||
   (modelIs c "MultiObjectiveDumbModel" &&
      (match get c .annealerParams "DecisionVariable" with
       | none => true | some (.str s) => !modumbVariables.contains s | some _ => true)))

/-- the data set named by a well-typed `DataSourcePath` -/
def cfgDataSet (c : Cfg) : Option String :=
  match get c .modelParams "DataSourcePath" with
  | some (.path p) => if pathKind p = .dataset then some p else none
  | _ => none

/-- D18: a limit is configured that is not certain to bind (else the deliberate "Attempt limit reached" panic) -/
def LimitNeverBinds (env : Env) (c : Cfg) : Bool :=
  modelIs c "CatchmentModel" &&
  limitKeys.any fun k =>
    match get c .modelParams k, cfgDataSet c with
    | some (.flt m), some ds => (match env.zone ds k with | some z => !decide (m ≤ z.bind) | none => true)
    | _, _ => false

/-- D22 -/
def LoopInvariantWithMultiObjective (c : Cfg) : Bool :=
  get c .reporting "CheckingLoopInvariant" = some (.bool true) && annealerIsMulti c

/-- D23: catchment model and no `DataSourcePath` at all -/
def CatchmentWithoutDataSource (c : Cfg) : Bool :=
  modelIs c "CatchmentModel" && get c .modelParams "DataSourcePath" = none

/-- D23 (extended): `DataSourcePath` names something readable that is not a data set the model can be built from
(another file type, a directory, a meta-file whose table files do not load, a .csv without the tables, a data set
with unusable content) -/
def CatchmentDataSourceNotLoadable (c : Cfg) : Bool :=
  modelIs c "CatchmentModel" &&
  (match get c .modelParams "DataSourcePath" with
   | some (.path p) => pathKind p != .dataset
   | _ => false)

/-- new (D23 family): `DataSourcePath` names a CSV data set that loads, has the three tables, but whose CONTENT the
model cannot consume (`PathKind.malformedDataset`): `Initialise` dies of a Go run-time error in an unchecked table
access - already inside `ConfigInterpreter.Interpret`.  (Such a data source is "not loadable" as well.) -/
def CatchmentDataSetMalformed (c : Cfg) : Bool :=
  modelIs c "CatchmentModel" &&
  (match get c .modelParams "DataSourcePath" with
   | some (.path p) => pathKind p == .malformedDataset
   | _ => false)

/-- D24 -/
def NullModelUnderRealAnnealer (c : Cfg) : Bool := modelIs c "NullModel"

/-- new: `OutputPath` exists and is not a directory -/
def OutputPathNotADirectory (c : Cfg) : Bool :=
  match get c .scenario "OutputPath" with
  | some (.path p) => existsNotDir (pathKind p)
  | _ => false

/-- new: `os.Stat(OutputPath)` fails with an error other than "does not exist" (the path lies below a regular file):
the interpreter's check looks at `statError == nil` only, the saver panics ("cannot get file info of output path") -/
def OutputPathNotUsable (c : Cfg) : Bool :=
  match get c .scenario "OutputPath" with
  | some (.path p) => pathKind p == .underFile
  | _ => false

/-- the decimal written for a parameter -/
def cfgDecimal (c : Cfg) (s : Sec) (k : String) : Int :=
  match get c s k with
  | some (.flt m) => m
  | _ => 0

/-- the Annealing log level is discarded -/
def cfgDiscarded (c : Cfg) : Bool := get c .logDest "Annealing" = some (.str "Discarded")

/-- C18's D15 family seen from the configuration: an initial value of the dumb / multi-objective dumb model beyond
MaxFloat64 / 1000 - beyond MaxFloat64 / 10^6 already while the Annealing level is logged (the dumb model's: in a
Kirkpatrick run), and then the same for the annealer's `StartingTemperature` -/
def ValueTooLargeToRound (c : Cfg) : Bool :=
  (modelIs c "DumbModel" &&
    tooLargeFor (roundDigits (cfgDiscarded c || !annealerIs c "Kirkpatrick")) (cfgDecimal c .modelParams "InitialObjectiveValue")) ||
  (modelIs c "MultiObjectiveDumbModel" &&
    modumbInitialKeys.any fun k =>
      tooLargeFor (modumbDigits (cfgDiscarded c) (enumField c .scenario "OutputType") (enumField c .scenario "OutputLevel"))
        (cfgDecimal c .modelParams k)) ||
  (!cfgDiscarded c && tooLargeFor 6 (cfgDecimal c .annealerParams "StartingTemperature"))

/-- new: some run's summary file cannot be created (name component over 255 bytes, a NUL) or is the file of every
other run too (the scenario name contains, or ends in, "Solution" followed by "(": the greedy expression of
`FileNameSafeId` eats the run number) -/
def ResultFileNotWritten (r : Repairs) (c : Cfg) : Bool := !resultFilesOk r (mkLoaded c)

/-- new: a negative `RunNumber` (the uint64 field wraps to ≥ 2^63) -/
def RunNumberOutOfRange (c : Cfg) : Bool :=
  match get c .scenario "RunNumber" with
  | some (.int i) => decide (9223372036854775808 ≤ toUint64 i)
  | _ => false

/-- new: a negative `MaximumConcurrentRunNumber` (crem's own RichValidConfig.toml writes -1) -/
def ConcurrencyOutOfRange (c : Cfg) : Bool :=
  match get c .scenario "MaximumConcurrentRunNumber" with
  | some (.int i) => decide (9223372036854775808 ≤ toUint64 i)
  | _ => false

/-- new: `CpuProfilePath` in a directory that does not exist: `Run()` returns the create error, nothing runs -/
def CpuProfilePathNotCreatable (c : Cfg) : Bool :=
  match get c .scenario "CpuProfilePath" with
  | some (.path p) => !parentIsDirectory p
  | _ => false

/-- new: `CpuProfilePath` names an existing directory: likewise (accepted also after the repair of the
previous finding: crem's own TestConfigInterpreter_ProfilingScenario_HasProfilingRunner passes a directory
and demands that it is accepted) -/
def CpuProfilePathIsDirectory (c : Cfg) : Bool :=
  match get c .scenario "CpuProfilePath" with
  | some (.path p) => pathKind p == .dir
  | _ => false

/-- platform exclusion, not a finding -/
def ExcelOutput (c : Cfg) : Bool := get c .scenario "OutputType" = some (.str "EXCEL")

/-! ## for the driver: which findings hold, and which are certain to end the run -/

def findingNames (r : Repairs) (env : Env) (c : Cfg) : List String :=
  (if !r.reportEveryChecked && ReportingModuloZero c then ["ReportingModuloZero"] else []) ++
  (if !r.objectiveChecked && ObjectiveNotOffered c then ["ObjectiveNotOffered"] else []) ++
  (if LimitNeverBinds env c then ["LimitNeverBinds"] else []) ++
  (if !r.loopInvariantGuarded && LoopInvariantWithMultiObjective c then ["LoopInvariantWithMultiObjective"] else []) ++
  (if CatchmentWithoutDataSource c then ["CatchmentWithoutDataSource"] else []) ++
  (if CatchmentDataSourceNotLoadable c then ["CatchmentDataSourceNotLoadable"] else []) ++
  (if CatchmentDataSetMalformed c then ["CatchmentDataSetMalformed"] else []) ++
  (if NullModelUnderRealAnnealer c then ["NullModelUnderRealAnnealer"] else []) ++
  (if !r.outputPathChecked && OutputPathNotADirectory c then ["OutputPathNotADirectory"] else []) ++
  (if !r.outputPathStatChecked && OutputPathNotUsable c then ["OutputPathNotUsable"] else []) ++
  (if !r.runNumberBounded && RunNumberOutOfRange c then ["RunNumberOutOfRange"] else []) ++
  (if !r.concurrencyCapped && ConcurrencyOutOfRange c then ["ConcurrencyOutOfRange"] else []) ++
  (if !r.cpuProfilePathChecked && CpuProfilePathNotCreatable c then ["CpuProfilePathNotCreatable"] else []) ++
  (if CpuProfilePathIsDirectory c then ["CpuProfilePathIsDirectory"] else []) ++
  (if ValueTooLargeToRound c then ["ValueTooLargeToRound"] else []) ++
  (if ResultFileNotWritten r c then ["ResultFileNotWritten"] else []) ++
  (if ExcelOutput c then ["ExcelOutput"] else [])

/-- the findings whose repair is DECLARED and whose predicate holds of the configuration.  With the repair
really in the tree such a configuration is rejected or its site is guarded (`repaired_findings_rejected`,
`accept_safe_partial`); the driver lists them so that a crash at such a site - the declared repair is
missing or no longer effective - is reported under the finding's own signature. -/
def repairedNames (r : Repairs) (c : Cfg) : List String :=
  (if r.reportEveryChecked && ReportingModuloZero c then ["ReportingModuloZero"] else []) ++
  (if r.objectiveChecked && ObjectiveNotOffered c then ["ObjectiveNotOffered"] else []) ++
  (if r.loopInvariantGuarded && LoopInvariantWithMultiObjective c then ["LoopInvariantWithMultiObjective"] else []) ++
  (if r.outputPathChecked && OutputPathNotADirectory c then ["OutputPathNotADirectory"] else []) ++
  (if r.outputPathStatChecked && OutputPathNotUsable c then ["OutputPathNotUsable"] else []) ++
  (if r.runNumberBounded && RunNumberOutOfRange c then ["RunNumberOutOfRange"] else []) ++
  (if r.concurrencyCapped && ConcurrencyOutOfRange c then ["ConcurrencyOutOfRange"] else []) ++
  (if r.cpuProfilePathChecked && CpuProfilePathNotCreatable c then ["CpuProfilePathNotCreatable"] else []) ++
  (if r.summaryNameAnchored && !ResultFileNotWritten r c && ResultFileNotWritten { r with summaryNameAnchored := false } c
   then ["ResultFileNotWritten"] else [])

/-- a finding whose failure site every run reaches (a limit between the two zone borders depends
on the random initialisation: it MAY end the run) -/
def certain (env : Env) (l : Loaded) (name : String) : Bool :=
  if name = "LimitNeverBinds" then someLimitNeverBinds env l
  else true

end Crem.Config
