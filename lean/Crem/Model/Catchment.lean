import Crem.Model.Round
/-
Executable model of the catchment model's decision-variable bookkeeping
(`internal/pkg/model/models/catchment/CoreModel.go`, the six variables under
`variables/`, `internal/pkg/model/variable/*`, `internal/pkg/model/action/*`).

Numbers are exact rationals; `rnd` is `math.RoundFloat` (Crem/Model/Round.lean).
The *data* of a scenario (`Data`) is extracted from the running Go code on every
check: the sorted action list with each action's `ModelVariableValue` constants,
and per planning unit the initial attribute record of the three pollutant
variables.  How crem derives those constants from the CSV tables is outside the
model.

Transcription notes (Go -> model):
* each pollutant variable (sediment, particulate N, dissolved N) keeps, per planning unit,
  an attribute record `Ctx` and a value; an observed action toggle builds a command from an
  as-is and a to-be context (`observeP`), `Do`/`Undo` are status guarded (`doP`/`undoP`);
* `ChangePerPlanningUnitDecisionVariableCommand.SetChange`: done = current unit value +
  rnd(change); `SetPlanningUnitValue`: unit := rnd(new), total := rnd(total + (new - old));
* total nitrogen's command is built from the *commands* of PN and DN (observer order);
* costs add ± rnd₂(cost).
Core Lean only (linked into the driver).
-/
namespace Crem.Catchment

abbrev PU := Int

/-- management action types, in the order of their Go type strings
("GullyRestoration" < "HillSlopeRestoration" < "RiverBankRestoration" < "WetlandsEstablishment") -/
inductive ActType | gully | hillslope | riparian | wetland
deriving DecidableEq, Repr, Inhabited

/-- an action's `ModelVariableValue` constants (absent names read as 0, as Go's map does) -/
structure Consts where
  implCost : Rat := 0     -- <Type>Cost
  oppCost : Rat := 0      -- <Type>OpportunityCost
  origVeg : Rat := 0      -- OriginalBufferVegetation
  actVeg : Rat := 0       -- ActionedBufferVegetation
  origRipSed : Rat := 0   -- OriginalRiparianSedimentProduction
  actRipSed : Rat := 0    -- ActionedRiparianSedimentProduction
  origFine : Rat := 0     -- FineSedimentOriginal
  actFine : Rat := 0      -- FineSedimentActioned
  origGullySed : Rat := 0 -- OriginalGullySediment
  actGullySed : Rat := 0  -- ActionedGullySediment
  origHillSed : Rat := 0  -- HillSlopeErosionOriginal
  actHillSed : Rat := 0   -- HillSlopeErosionActioned
  origPN : Rat := 0       -- ParticulateNitrogenOriginal
  actPN : Rat := 0        -- ParticulateNitrogenActioned
  origDN : Rat := 0       -- DissolvedNitrogenOriginal
  actDN : Rat := 0        -- DissolvedNitrogenActioned
  sedEff : Rat := 0       -- SedimentRemovalEfficiency
  pnEff : Rat := 0        -- ParticulateNitrogenRemovalEfficiency
  dnEff : Rat := 0        -- DissolvedNitrogenRemovalEfficiency
deriving DecidableEq, Repr, Inhabited

structure Action where
  pu : PU
  typ : ActType
  k : Consts
deriving DecidableEq, Repr, Inhabited

/-- per-planning-unit attribute record of a pollutant variable.
sediment: veg = RiverbankVegetationProportion, rip = RiverbankSedimentContribution, gully, hill,
wet = WetlandRemovalEfficiency; PN likewise with nitrogen contributions; DN additionally
aux = RiparianDissolvedNitrogenRemovalEfficiency (never changed by an action). -/
structure Ctx where
  veg : Rat := 0
  rip : Rat := 0
  gully : Rat := 0
  hill : Rat := 0
  wet : Rat := 0
  aux : Rat := 0
deriving DecidableEq, Repr, Inhabited

inductive VarKind | sed | pn | dn
deriving DecidableEq, Repr

/-- `riparianBufferFilter` -/
def riparianFilter (v : Rat) : Rat :=
  if v < 1/4 then 1 else if v > 3/4 then 1/4 else 1 - v

/-- the quantity `calculateSedimentProduction` / `calculateNitrogenProduction` (PN, DN) round -/
def rawP : VarKind → Ctx → Rat
  | .sed, c => c.rip + c.gully + ((1 - c.wet) * c.hill) * riparianFilter c.veg
  | .pn, c => c.rip + c.gully + ((1 - c.wet) * c.hill) * riparianFilter c.veg
  | .dn, c => c.rip + c.gully + ((1 - c.wet) * (1 - c.veg * c.aux)) * c.hill

/-- `calculateSedimentProduction` / `calculateNitrogenProduction` -/
def evalP (v : VarKind) (c : Ctx) : Rat := rnd 3 (rawP v c)

/-- which attribute fields an action type controls in a variable and what they are when the action
is active (`b = true`) / inactive: the to-be (b) and as-is (!b) contexts of the `handle*Action`s -/
def setP : VarKind → ActType → Bool → Consts → Ctx → Ctx
  | .sed, .riparian, b, k, x => { x with veg := if b then k.actVeg else k.origVeg,
                                          rip := if b then k.actRipSed else k.origRipSed }
  | .sed, .gully, b, k, x => { x with gully := if b then k.actGullySed else k.origGullySed }
  | .sed, .hillslope, b, k, x => { x with hill := if b then k.actHillSed else k.origHillSed }
  | .sed, .wetland, b, k, x => { x with wet := if b then k.sedEff else 0 }
  | .pn, .riparian, b, k, x => { x with veg := if b then k.actVeg else k.origVeg,
                                         rip := if b then k.actRipSed * k.actFine * (1/100)
                                                else k.origRipSed * k.origFine * (1/100) }
  | .pn, .gully, b, k, x => { x with gully := if b then k.actPN else k.origPN }
  | .pn, .hillslope, b, k, x => { x with hill := if b then k.actPN else k.origPN }
  | .pn, .wetland, b, k, x => { x with wet := if b then k.pnEff else 0 }
  | .dn, .riparian, b, k, x => { x with veg := if b then k.actVeg else k.origVeg,
                                         rip := if b then k.actDN else k.origDN }
  | .dn, .gully, b, k, x => { x with gully := if b then k.actDN else k.origDN }
  | .dn, .hillslope, b, k, x => { x with hill := if b then k.actDN else k.origDN }
  | .dn, .wetland, b, k, x => { x with wet := if b then k.dnEff else 0 }

/-- `Undo` of the four `*Command`s: restore the fields the type controls from the undone record -/
def copyFields : ActType → (src dst : Ctx) → Ctx
  | .riparian, s, d => { d with veg := s.veg, rip := s.rip }
  | .gully, s, d => { d with gully := s.gully }
  | .hillslope, s, d => { d with hill := s.hill }
  | .wetland, s, d => { d with wet := s.wet }

/-! ### per-planning-unit stores -/

def getC {α : Type} (s : List (PU × α)) (p : PU) : Option α :=
  match s with
  | [] => none
  | (q, c) :: rest => if q = p then some c else getC rest p

def putC {α : Type} (s : List (PU × α)) (p : PU) (c : α) : List (PU × α) :=
  match s with
  | [] => []
  | (q, d) :: rest => if q = p then (q, c) :: rest else (q, d) :: putC rest p c

/-! ### pollutant variables -/

structure Cell where
  ctx : Ctx
  val : Rat
deriving DecidableEq, Repr, Inhabited

/-- a `GullyRestorationCommand` / `RiverBankRestorationCommand` / `HillSlopeRevegetationCommand` /
`WetlandsEstablishmentCommand` -/
structure PCmd where
  pu : PU
  typ : ActType
  b : Bool            -- activity being moved to
  k : Consts
  undoneVal : Rat
  doneVal : Rat
  undoneCtx : Ctx
  done : Bool         -- BaseCommand.status = Done
deriving DecidableEq, Repr

structure PVar where
  cells : List (PU × Cell)
  total : Rat
  cmd : Option PCmd   -- none = NullChangeCommand
deriving DecidableEq, Repr

/-- `observeAction` of a pollutant variable for action `a` whose flag has just become `b` -/
def observeP (v : VarKind) (a : Action) (b : Bool) (s : PVar) : PVar :=
  match getC s.cells a.pu with
  | none => s
  | some cell =>
    let asIs := evalP v (setP v a.typ (!b) a.k cell.ctx)
    let toBe := evalP v (setP v a.typ b a.k cell.ctx)
    { s with cmd := some { pu := a.pu, typ := a.typ, b := b, k := a.k,
                           undoneVal := cell.val, doneVal := cell.val + rnd 3 (toBe - asIs),
                           undoneCtx := cell.ctx, done := false } }

/-- `SetPlanningUnitValue` on a (unit value, total) pair -/
def setPUValue (p : Nat) (old total new : Rat) : Rat × Rat :=
  (rnd p new, rnd p (total + (new - old)))

def doP (v : VarKind) (s : PVar) : PVar :=
  match s.cmd with
  | none => s
  | some c =>
    if c.done then s else
    match getC s.cells c.pu with
    | none => { s with cmd := some { c with done := true } }
    | some cell =>
      let (nv, nt) := setPUValue 3 cell.val s.total c.doneVal
      { cells := putC s.cells c.pu { ctx := setP v c.typ c.b c.k cell.ctx, val := nv },
        total := nt, cmd := some { c with done := true } }

def undoP (s : PVar) : PVar :=
  match s.cmd with
  | none => s
  | some c =>
    if !c.done then s else
    match getC s.cells c.pu with
    | none => { s with cmd := some { c with done := false } }
    | some cell =>
      let (nv, nt) := setPUValue 3 cell.val s.total c.undoneVal
      { cells := putC s.cells c.pu { ctx := copyFields c.typ c.undoneCtx cell.ctx, val := nv },
        total := nt, cmd := some { c with done := false } }

def changeP (s : PVar) : Rat :=
  match s.cmd with
  | none => 0
  | some c => c.doneVal - c.undoneVal

/-! ### simple variables: total nitrogen and the two costs -/

structure SCmd where
  pu : PU
  undoneVal : Rat
  doneVal : Rat
  done : Bool
deriving DecidableEq, Repr

structure SVar where
  cells : List (PU × Rat)
  total : Rat
  cmd : Option SCmd
deriving DecidableEq, Repr

/-- `new(ChangePerPlanningUnitDecisionVariableCommand).InPlanningUnit(pu).WithChange(change)` -/
def observeS (prec : Nat) (pu : PU) (change : Rat) (s : SVar) : SVar :=
  let cur := (getC s.cells pu).getD 0
  { s with cmd := some { pu := pu, undoneVal := cur, doneVal := cur + rnd prec change, done := false } }

def doS (prec : Nat) (s : SVar) : SVar :=
  match s.cmd with
  | none => s
  | some c =>
    if c.done then s else
    let cur := (getC s.cells c.pu).getD 0
    let (nv, nt) := setPUValue prec cur s.total c.doneVal
    { cells := putC s.cells c.pu nv, total := nt, cmd := some { c with done := true } }

def undoS (prec : Nat) (s : SVar) : SVar :=
  match s.cmd with
  | none => s
  | some c =>
    if !c.done then s else
    let cur := (getC s.cells c.pu).getD 0
    let (nv, nt) := setPUValue prec cur s.total c.undoneVal
    { cells := putC s.cells c.pu nv, total := nt, cmd := some { c with done := false } }

def changeS (s : SVar) : Rat :=
  match s.cmd with
  | none => 0
  | some c => c.doneVal - c.undoneVal

/-! ### the model -/

inductive VarId | sed | pn | dn | tn | ic | oc
deriving DecidableEq, Repr

/-- scenario data extracted from the running implementation -/
structure Data where
  acts : List Action               -- in the model's (sorted) action order
  sed0 : List (PU × Ctx)           -- initial attribute records, one entry per planning unit
  pn0 : List (PU × Ctx)
  dn0 : List (PU × Ctx)
  maxSed : Option Rat := none      -- MaximumSedimentProduction …
  maxPN : Option Rat := none
  maxDN : Option Rat := none
  maxTN : Option Rat := none
  maxIC : Option Rat := none
  maxOC : Option Rat := none
deriving Repr

structure State where
  flags : List Bool
  last : Option Nat                -- index of `lastApplied`
  sed : PVar
  pn : PVar
  dn : PVar
  tn : SVar
  ic : SVar
  oc : SVar
deriving DecidableEq, Repr

def sumVals (cs : List (PU × Cell)) : Rat := cs.foldl (fun t c => t + c.2.val) 0
def sumS (cs : List (PU × Rat)) : Rat := cs.foldl (fun t c => t + c.2) 0

def initP (v : VarKind) (c0 : List (PU × Ctx)) : PVar :=
  let cells := c0.map fun (p, x) => (p, ({ ctx := x, val := evalP v x } : Cell))
  { cells := cells, total := sumVals cells, cmd := none }

/-- `calculateTotalNitrogenForPlanningUnit` -/
def initTN (pn dn : PVar) : SVar :=
  let cells := pn.cells.map fun (p, c) =>
    (p, rnd 3 (rnd 3 c.val + rnd 3 (((getC dn.cells p).map (·.val)).getD 0)))
  { cells := cells, total := sumS cells, cmd := none }

def initCost (pus : List PU) : SVar :=
  { cells := pus.map (fun p => (p, 0)), total := 0, cmd := none }

/-- the state after `Initialise(AsIs)` -/
def init (D : Data) : State :=
  let sed := initP .sed D.sed0
  let pn := initP .pn D.pn0
  let dn := initP .dn D.dn0
  let pus := D.sed0.map (·.1)
  { flags := D.acts.map (fun _ => false), last := none,
    sed := sed, pn := pn, dn := dn, tn := initTN pn dn, ic := initCost pus, oc := initCost pus }

def costChange (b : Bool) (cost : Rat) : Rat := rnd 2 (if b then cost else -1 * cost)

/-- all six variables observe action `a` whose flag has just become `b`
(creation order: sediment, PN, DN, TN, implementation cost, opportunity cost) -/
def observeAll (a : Action) (b : Bool) (s : State) : State :=
  let sed := observeP .sed a b s.sed
  let pn := observeP .pn a b s.pn
  let dn := observeP .dn a b s.dn
  let tn := observeS 3 a.pu (rnd 3 (rnd 3 (changeP pn) + rnd 3 (changeP dn))) s.tn
  let ic := observeS 2 a.pu (costChange b a.k.implCost) s.ic
  let oc := observeS 2 a.pu (costChange b a.k.oppCost) s.oc
  { s with sed := sed, pn := pn, dn := dn, tn := tn, ic := ic, oc := oc }

/-- `ContainedDecisionVariables.AcceptAll` -/
def acceptAll (s : State) : State :=
  { s with sed := doP .sed s.sed, pn := doP .pn s.pn, dn := doP .dn s.dn,
           tn := doS 3 s.tn, ic := doS 2 s.ic, oc := doS 2 s.oc }

/-- `RejectAll` -/
def rejectAll (s : State) : State :=
  { s with sed := undoP s.sed, pn := undoP s.pn, dn := undoP s.dn,
           tn := undoS 3 s.tn, ic := undoS 2 s.ic, oc := undoS 2 s.oc }

def flipFlag (flags : List Bool) (i : Nat) : List Bool :=
  match flags[i]? with
  | some b => flags.set i (!b)
  | none => flags

/-- observed toggle of action `i` to activity `b` (`ToggleActivation` / `SetActivation`) -/
def toggleObserved (D : Data) (s : State) (i : Nat) (b : Bool) : State :=
  match D.acts[i]? with
  | none => s
  | some a => observeAll a b { s with flags := s.flags.set i b, last := some i }

/-- `TryRandomChange` with the random index given / `ToggleAction(pu, type)` -/
def propose (D : Data) (s : State) (i : Nat) : State :=
  match s.flags[i]? with
  | none => s
  | some cur => toggleObserved D s i (!cur)

/-- `AcceptChange` -/
def accept (s : State) : State := acceptAll s

/-- `RevertChange`: undo all, then flip the last applied action back unobserved -/
def revert (s : State) : State :=
  let s' := rejectAll s
  match s.last with
  | none => s'
  | some i => { s' with flags := flipFlag s'.flags i }

/-- `SetManagementAction(index, value)` -/
def setAction (D : Data) (s : State) (i : Nat) (b : Bool) : State :=
  match s.flags[i]? with
  | none => s
  | some cur => if cur = b then s else accept (toggleObserved D s i b)

/-- `SynchroniseTo(other)` / `ModelCompressor.Decompress`: `SetManagementAction(i, bits[i])` for every i -/
def setAll (D : Data) (s : State) (bits : List Bool) : State :=
  (bits.zipIdx).foldl (fun s (b, i) => setAction D s i b) s

/-- `InitialisingActivation` / `InitialisingDeactivation` of action `i`: no-op when already there;
otherwise flip unobserved, then every variable observes and immediately applies its command -/
def initialising (D : Data) (s : State) (i : Nat) (b : Bool) : State :=
  match s.flags[i]?, D.acts[i]? with
  | some cur, some a =>
    if cur = b then s else
    let s := { s with flags := s.flags.set i b }
    let sed := doP .sed (observeP .sed a b s.sed)
    let pn := doP .pn (observeP .pn a b s.pn)
    let dn := doP .dn (observeP .dn a b s.dn)
    let tn := doS 3 (observeS 3 a.pu (rnd 3 (rnd 3 (changeP pn) + rnd 3 (changeP dn))) s.tn)
    let ic := doS 2 (observeS 2 a.pu (costChange b a.k.implCost) s.ic)
    let oc := doS 2 (observeS 2 a.pu (costChange b a.k.oppCost) s.oc)
    { s with sed := sed, pn := pn, dn := dn, tn := tn, ic := ic, oc := oc }
  | _, _ => s

/-! ### limits -/

def total (s : State) : VarId → Rat
  | .sed => s.sed.total | .pn => s.pn.total | .dn => s.dn.total
  | .tn => s.tn.total | .ic => s.ic.total | .oc => s.oc.total

def change (s : State) : VarId → Rat
  | .sed => changeP s.sed | .pn => changeP s.pn | .dn => changeP s.dn
  | .tn => changeS s.tn | .ic => changeS s.ic | .oc => changeS s.oc

def maxOf (D : Data) : VarId → Option Rat
  | .sed => D.maxSed | .pn => D.maxPN | .dn => D.maxDN
  | .tn => D.maxTN | .ic => D.maxIC | .oc => D.maxOC

def allVars : List VarId := [.sed, .pn, .dn, .tn, .ic, .oc]

/-- the variable's reporting precision (`Precision()`): tonnes to 10⁻³, dollars to 10⁻² -/
def reportingPrecision : VarId → Nat
  | .ic => 2 | .oc => 2 | _ => 3

/-- `UndoableValue()`: the value the variable would take were the pending command applied -/
def undoableValue (s : State) (v : VarId) : Rat := total s v + change s v

/-- `Bounds.WithinBounds` -/
def withinBounds (D : Data) (v : VarId) (x : Rat) : Bool :=
  match maxOf D v with
  | some m => !(x > m)
  | none => true

/-- `ChangeIsValid` -/
def changeIsValid (D : Data) (s : State) : Bool :=
  allVars.all fun v => withinBounds D v (undoableValue s v)

/-- `StateIsValid` -/
def stateIsValid (D : Data) (s : State) : Bool :=
  allVars.all fun v => withinBounds D v (total s v)

/-! ### initialisation and randomisation -/

inductive InitKind | asIs | random | unchanged
deriving DecidableEq, Repr

def hasCostLimit (D : Data) : Bool := D.maxIC.isSome || D.maxOC.isSome
def hasPollutantLimit (D : Data) : Bool :=
  D.maxSed.isSome || D.maxPN.isSome || D.maxDN.isSome || D.maxTN.isSome

/-- `InitialiseAllActionsToActive` (in action order) -/
def allActive (D : Data) (s : State) : State :=
  (List.range D.acts.length).foldl (fun s i => initialising D s i true) s

/-- `Initialise(kind)`: variables and actions are rebuilt (all inactive), then `InitialiseActions` -/
def initialise (D : Data) (k : InitKind) : State :=
  let s := init D
  match k with
  | .unchanged => s
  | .asIs => s
  | .random =>
    if hasCostLimit D then s
    else if hasPollutantLimit D then allActive D s
    else s

/-- `randomlyInitialiseActionsUnbounded`: one `Intn(2)` draw per action; 0 activates -/
def randomizeUnbounded (D : Data) (s : State) (draws : List Nat) : State :=
  (draws.zipIdx).foldl (fun s (d, i) =>
    if d = 0 then initialising D { s with last := some i } i true else s) s

/-- outcome of the limit-seeking loops -/
inductive LoopOutcome
  | found (s : State)             -- "Solution close to limit found"
  | attemptLimit (s : State)      -- panics "Attempt limit reached …"
  | outOfDraws (s : State)        -- the scripted draws ran out (harness/model desynchronised)

/-- `RandomlyValidlyActivateActions` (b = true) / `RandomlyValidlyDeactivateActions` (b = false) with
the `Intn(len)` draws given.  `attempts` counts down from the number of actions. -/
def seekLimit (D : Data) (b : Bool) : (draws : List Nat) → (attempts : Nat) → State → LoopOutcome
  | _, 0, s => .attemptLimit s
  | [], _ + 1, s => .outOfDraws s
  | d :: ds, n + 1, s =>
    match s.flags[d]? with
    | none => .outOfDraws s
    | some cur =>
      if cur = b then seekLimit D b ds (n + 1) s        -- `continue`: nothing changed, no attempt used
      else
        let s1 := initialising D { s with last := some d } d b
        if changeIsValid D s1 then seekLimit D b ds n s1
        else
          -- invalid: put the action back; the loop ends (isValid = false)
          let s2 := initialising D s1 d (!b)
          if n = 0 then .attemptLimit s2 else .found s2

/-- `Randomize()` -/
def randomize (D : Data) (s : State) (draws : List Nat) : LoopOutcome :=
  if hasCostLimit D then seekLimit D true draws D.acts.length s
  else if hasPollutantLimit D then seekLimit D false draws D.acts.length s
  else .found (randomizeUnbounded D s draws)

/-! ### observables -/

def unitValP (s : PVar) (p : PU) : Rat := ((getC s.cells p).map (·.val)).getD 0
def unitValS (s : SVar) (p : PU) : Rat := (getC s.cells p).getD 0

def unitVal (s : State) (v : VarId) (p : PU) : Rat :=
  match v with
  | .sed => unitValP s.sed p | .pn => unitValP s.pn p | .dn => unitValP s.dn p
  | .tn => unitValS s.tn p | .ic => unitValS s.ic p | .oc => unitValS s.oc p

end Crem.Catchment
