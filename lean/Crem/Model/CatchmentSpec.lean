import Crem.Model.Catchment
/-
Decidable well-formedness predicates on extracted scenario data.  They are the
hypotheses of the catchment theorems (C01, C02, C10, C11, C03) and are
*evaluated by the driver on every dataset extracted from the running Go code*.
Core Lean only.
-/
namespace Crem.Catchment

/-- all (planning unit, type) keys distinct -/
def keysDistinct : List Action → Bool
  | [] => true
  | a :: as => as.all (fun a' => !(a.pu = a'.pu && a.typ = a'.typ)) && keysDistinct as

def KeysDistinct (acts : List Action) : Prop := keysDistinct acts = true
instance (acts : List Action) : Decidable (KeysDistinct acts) := by unfold KeysDistinct; infer_instance

/-- planning-unit ids pairwise distinct -/
def pusDistinct {α : Type} : List (PU × α) → Bool
  | [] => true
  | (p, _) :: rest => rest.all (fun q => q.1 ≠ p) && pusDistinct rest

/-- "initial attribute derivation agrees with the contexts later deltas assume": for every action and
every pollutant variable, the initial attribute record of the action's planning unit exists and
already carries the action's *inactive* (original) constants in the fields the action type controls -/
def initConsistentFor (v : VarKind) (c0 : List (PU × Ctx)) (acts : List Action) : Bool :=
  acts.all fun a =>
    match getC c0 a.pu with
    | none => false
    | some x => setP v a.typ false a.k x = x

def initConsistent (D : Data) : Bool :=
  initConsistentFor .sed D.sed0 D.acts && initConsistentFor .pn D.pn0 D.acts &&
  initConsistentFor .dn D.dn0 D.acts &&
  pusDistinct D.sed0 && pusDistinct D.pn0 && pusDistinct D.dn0 &&
  D.sed0.map (·.1) = D.pn0.map (·.1) && D.sed0.map (·.1) = D.dn0.map (·.1)

def InitConsistent (D : Data) : Prop := initConsistent D = true
instance (D : Data) : Decidable (InitConsistent D) := by unfold InitConsistent; infer_instance

/-- the part of `initConsistent` the aggregate clauses (C11) and the raw-operation invariant need: planning-unit ids
pairwise distinct, the three pollutant variables carry the same ids, every action's unit is a planning unit.
Nothing about the attribute records' *contents*. -/
def unitsOK (D : Data) : Bool :=
  pusDistinct D.sed0 && D.pn0.map (·.1) = D.sed0.map (·.1) && D.dn0.map (·.1) = D.sed0.map (·.1) &&
  D.acts.all (fun a => (D.sed0.map (·.1)).contains a.pu)

/-! ### normalisation of extracted initial attribute records

Go derives some initial attribute values by float arithmetic that differs in the last bits from the
float arithmetic its handlers use later for the same quantity (e.g. the particulate-nitrogen riparian
contribution `bank × fine × 0.01`).  The extracted records are therefore only *approximately*
consistent with the action constants.  The driver checks approximate consistency
(`approxConsistent`, relative 1e-12) and runs the model on the normalised data, for which exact
consistency holds (and is still evaluated). -/

def normaliseCtx (v : VarKind) (acts : List Action) (p : PU) (x : Ctx) : Ctx :=
  acts.foldl (fun x a => if a.pu = p then setP v a.typ false a.k x else x) x

def normalise (D : Data) : Data :=
  { D with sed0 := D.sed0.map (fun (p, x) => (p, normaliseCtx .sed D.acts p x)),
           pn0 := D.pn0.map (fun (p, x) => (p, normaliseCtx .pn D.acts p x)),
           dn0 := D.dn0.map (fun (p, x) => (p, normaliseCtx .dn D.acts p x)) }

def closeRat (a b : Rat) : Bool :=
  let d := if a ≥ b then a - b else b - a
  let m := max (if a < 0 then -a else a) (if b < 0 then -b else b)
  d * 1000000000000 ≤ m

def closeCtx (x y : Ctx) : Bool :=
  closeRat x.veg y.veg && closeRat x.rip y.rip && closeRat x.gully y.gully &&
  closeRat x.hill y.hill && closeRat x.wet y.wet && closeRat x.aux y.aux

def approxConsistentFor (v : VarKind) (c0 : List (PU × Ctx)) (acts : List Action) : Bool :=
  c0.all fun (p, x) => closeCtx x (normaliseCtx v acts p x)

def approxConsistent (D : Data) : Bool :=
  approxConsistentFor .sed D.sed0 D.acts && approxConsistentFor .pn D.pn0 D.acts &&
  approxConsistentFor .dn D.dn0 D.acts

end Crem.Catchment
