/-
Model of the annealing loop:

  internal/pkg/annealing/annealers/SimpleAnnealer.go      Anneal, handlePanicRecovery,
      annealingStarted, iterationStarted, iterationFinished, annealingFinished,
      initialDoneValue, checkIfDone
  internal/pkg/annealing/annealers/ElapsedTimeTrackingAnnealer.go   Anneal (delegates)
  internal/pkg/annealing/cooling/coolants/{kirkpatrick,suppapitnarm,averaged}/Coolant.go  CoolDown
  internal/pkg/observer/EventNotifier.go                   NotifyObserversOfEvent

```go
func (sa *SimpleAnnealer) Anneal() {
	defer sa.handlePanicRecovery()          // recover + re-panic (errors wrapped)
	sa.SolutionExplorer().Initialise()
	defer sa.SolutionExplorer().TearDown()  // registered only after Initialise() returned
	sa.annealingStarted()
	for done := sa.initialDoneValue(); !done; {   // MaximumIterations == 0
		sa.iterationStarted()                     // currentIteration++ ; event
		sa.SolutionExplorer().TryRandomChange()
		sa.SolutionExplorer().CoolDown()          // Temperature *= CoolingFactor
		sa.iterationFinished()
		done = sa.checkIfDone()                   // currentIteration >= MaximumIterations
	}
	sa.annealingFinished()
}
```

Quirks kept: `currentIteration` is set to 0 by `Initialise()` of the *annealer*, not by
`Anneal()`, so the model takes the counter's value on entry (`cur0`; 0 for every run crem
itself starts, because each run anneals a fresh clone); the temperature is whatever the
coolant holds on entry (`T0`).  The loop is written with a `fuel` argument only to make the
recursion structural; `Crem/Proofs/Anneal.lean` shows the fuel given by `anneal` is never
exhausted.  The temperature is updated by the same sequential multiplications as the Go code
(`[Mul α]`: `Float` in the driver, any monoid / ordered semiring in the theorems).
Core Lean only.
-/
namespace Crem.Anneal

/-- where a panic is injected; `k` counts iterations of this `Anneal()` call from 1 -/
inductive PanicSite where
  | initialise
  | tryRandomChange (k : Nat)
  | coolDown (k : Nat)
  deriving DecidableEq, Repr

/-- what happens during `Anneal()`, in order.  `startedAnnealing` … `finishedAnnealing` are
the events sent to the observers (with the attributes the property speaks about: iteration
number and temperature); the others are calls on the explorer. -/
inductive Event (α : Type) where
  | explorerInitialise
  | startedAnnealing (T : α)
  | startedIteration (k : Nat) (T : α)
  | tryRandomChange
  | coolDown
  | finishedIteration (k : Nat) (T : α)
  | finishedAnnealing (k : Nat) (T : α)
  | explorerTearDown
  deriving Repr, DecidableEq

inductive Outcome where
  | returned
  | repanicked     -- handlePanicRecovery re-raised the panic
  | outOfFuel      -- artefact of the structural recursion; unreachable (`anneal_fuel_sufficient`)
  deriving DecidableEq, Repr

inductive LoopExit (α : Type) where
  | done (cur : Nat) (T : α)
  | panicked (cur : Nat) (T : α)
  | outOfFuel (cur : Nat) (T : α)
  deriving Repr

structure Result (α : Type) where
  events : List (Event α)
  outcome : Outcome
  currentIteration : Nat
  temperature : α
  deriving Repr

section
variable {α : Type} [Mul α]

/-- the `for` loop of `Anneal()`, entered with `done = false`; `i` iterations of this call
have completed, `cur` is `currentIteration`, `T` the temperature -/
def loop (N : Nat) (a : α) (panicAt : Option PanicSite) :
    (fuel : Nat) → (i cur : Nat) → (T : α) → List (Event α) × LoopExit α
  | 0, _, cur, T => ([], .outOfFuel cur T)
  | fuel + 1, i, cur, T =>
    let i := i + 1
    let cur := cur + 1                                       -- iterationStarted
    if panicAt = some (.tryRandomChange i) then
      ([.startedIteration cur T, .tryRandomChange], .panicked cur T)
    else if panicAt = some (.coolDown i) then
      ([.startedIteration cur T, .tryRandomChange, .coolDown], .panicked cur T)
    else
      let T' := T * a                                        -- CoolDown
      let evs : List (Event α) :=
        [.startedIteration cur T, .tryRandomChange, .coolDown, .finishedIteration cur T']
      if cur ≥ N then (evs, .done cur T')                     -- checkIfDone
      else
        let rest := loop N a panicAt fuel i cur T'
        (evs ++ rest.1, rest.2)

/-- `SimpleAnnealer.Anneal()` with budget `N`, entered with `currentIteration = cur0` and
temperature `T0`, cooling factor `a` -/
def anneal (N cur0 : Nat) (T0 a : α) (panicAt : Option PanicSite) : Result α :=
  if panicAt = some .initialise then
    -- Initialise() panicked: TearDown is not yet deferred, only handlePanicRecovery runs
    ⟨[.explorerInitialise], .repanicked, cur0, T0⟩
  else if N = 0 then                                          -- initialDoneValue
    ⟨[.explorerInitialise, .startedAnnealing T0, .finishedAnnealing cur0 T0, .explorerTearDown],
      .returned, cur0, T0⟩
  else
    match loop N a panicAt (N - cur0 + 1) 0 cur0 T0 with
    | (evs, .done cur T) =>
      ⟨[.explorerInitialise, .startedAnnealing T0] ++ evs ++ [.finishedAnnealing cur T, .explorerTearDown],
        .returned, cur, T⟩
    | (evs, .panicked cur T) =>
      ⟨[.explorerInitialise, .startedAnnealing T0] ++ evs ++ [.explorerTearDown], .repanicked, cur, T⟩
    | (evs, .outOfFuel cur T) =>
      ⟨[.explorerInitialise, .startedAnnealing T0] ++ evs, .outOfFuel, cur, T⟩

/-- temperature after `k` cool-downs, by sequential multiplication -/
def temp (T0 a : α) : Nat → α
  | 0 => T0
  | k + 1 => temp T0 a k * a

/-- the four things one complete iteration `k` does, entered at temperature `T` -/
def iterationEvents (a : α) (k : Nat) (T : α) : List (Event α) :=
  [.startedIteration k T, .tryRandomChange, .coolDown, .finishedIteration k (T * a)]

/-- iterations `1 … n` of a run that starts at temperature `T0` -/
def iterations (T0 a : α) (n : Nat) : List (Event α) :=
  (List.range n).flatMap (fun j => iterationEvents a (j + 1) (temp T0 a j))

end

namespace Event
variable {α : Type}

/-- the events `NotifyObserversOfEvent` hands to observers -/
def observable : Event α → Bool
  | startedAnnealing _ | startedIteration _ _ | finishedIteration _ _ | finishedAnnealing _ _ => true
  | _ => false

def isTry : Event α → Bool
  | tryRandomChange => true
  | _ => false

def isStartedIteration : Event α → Bool
  | startedIteration _ _ => true
  | _ => false

def isFinishedIteration : Event α → Bool
  | finishedIteration _ _ => true
  | _ => false

def isFinishedAnnealing : Event α → Bool
  | finishedAnnealing _ _ => true
  | _ => false

/-- the temperature attribute an event carries -/
def temperature? : Event α → Option α
  | startedAnnealing T | startedIteration _ T | finishedIteration _ T | finishedAnnealing _ T => some T
  | _ => none

end Event

/-- `SynchronousAnnealingEventNotifier.NotifyObserversOfEvent` with `n` observers: every
observable event goes to observers `0 … n-1` in order.  Events are immutable values here —
exactly the assumption the Go notifier does not enforce (all observers get `Event` structs
whose attribute slices share one backing array; finding D21). -/
def deliveries {α : Type} (n : Nat) (evs : List (Event α)) : List (Nat × Event α) :=
  (evs.filter Event.observable).flatMap (fun e => (List.range n).map (fun i => (i, e)))

/-- what observer `i` received -/
def receivedBy {α : Type} (i : Nat) (d : List (Nat × Event α)) : List (Event α) :=
  d.filterMap (fun p => if p.1 = i then some p.2 else none)

end Crem.Anneal
