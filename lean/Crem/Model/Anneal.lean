/-
Model of the annealing loop:

  internal/pkg/annealing/annealers/SimpleAnnealer.go      Anneal, handlePanicRecovery,
      annealingStarted, iterationStarted, iterationFinished, annealingFinished,
      initialDoneValue, checkIfDone
  internal/pkg/annealing/annealers/ElapsedTimeTrackingAnnealer.go   Anneal (delegates)
  internal/pkg/annealing/cooling/coolants/{kirkpatrick,suppapitnarm,averaged}/Coolant.go  CoolDown
  internal/pkg/observer/EventNotifier.go                   NotifyObserversOfEvent

```go
func (sa *SimpleAnnealer) Anneal() {
	defer sa.handlePanicRecovery()          // recover + re-panic (errors wrapped)
	sa.SolutionExplorer().Initialise()
	defer sa.SolutionExplorer().TearDown()  // registered only after Initialise() returned
	sa.annealingStarted()
	for done := sa.initialDoneValue(); !done; {   // MaximumIterations == 0
		sa.iterationStarted()                     // currentIteration++ ; event
		sa.SolutionExplorer().TryRandomChange()
		sa.SolutionExplorer().CoolDown()          // Temperature *= CoolingFactor
		sa.iterationFinished()
		done = sa.checkIfDone()                   // currentIteration >= MaximumIterations
	}
	sa.annealingFinished()
}
```

Quirks kept: `currentIteration` is set to 0 by `Initialise()` of the *annealer*, not by
`Anneal()`, so the model takes the counter's value on entry (`cur0`; 0 for every run crem
itself starts, because each run anneals a fresh clone); the temperature is whatever the
coolant holds on entry (`T0`).  The loop is written with a `fuel` argument only to make the
recursion structural; `Crem/Proofs/Anneal.lean` shows the fuel given by `anneal` is never
exhausted.  The temperature is updated by the same sequential multiplications as the Go code
(`[Mul α]`: `Float` in the driver, any monoid / ordered semiring in the theorems).

Panics.  One panic may be injected per `Anneal()` call, at any of the places where foreign code
runs (`PanicSite`): the explorer's `Initialise`, `TryRandomChange`, `CoolDown` (before or after
the coolant has multiplied the temperature: `kirkpatrick.Explorer.CoolDown` cools first and then
notifies its own observers, so a panic out of that notification leaves the temperature cooled),
`TearDown`, the explorer's `EventAttributes(FinishedAnnealing)` (it compresses the model /
copies the archive: `fetchFinalCompressedModel`), and the `ObserveEvent` callback of observer
`j` at each of the four notify points.  `NotifyObserversOfEvent` is a plain loop over the
observers, so a panic in observer `j` means observers `0 … j` were handed the event (`j`
itself was called and did not return) and observers `j+1 …` never see it; in the event list
this is the marker `observerPanic j` right after the event.
Core Lean only.
-/
namespace Crem.Anneal

/-- the four places where `Anneal()` notifies the observers; `k` counts iterations of this
`Anneal()` call from 1 -/
inductive NotifyPoint where
  | startedAnnealing
  | startedIteration (k : Nat)
  | finishedIteration (k : Nat)
  | finishedAnnealing
  deriving DecidableEq, Repr

/-- where a panic is injected; `k` counts iterations of this `Anneal()` call from 1 -/
inductive PanicSite where
  | initialise
  | tryRandomChange (k : Nat)
  /-- `CoolDown` panics before the temperature is multiplied -/
  | coolDown (k : Nat)
  /-- `CoolDown` panics after the temperature was multiplied (Go: in `notifyCoolDown`) -/
  | coolDownAfter (k : Nat)
  /-- observer `j` (position in the notifier's list, from 0) panics in `ObserveEvent` -/
  | notify (pt : NotifyPoint) (j : Nat)
  /-- the explorer panics while the attributes of the finish event are put together -/
  | finishAttributes
  | tearDown
  deriving DecidableEq, Repr

/-- what happens during `Anneal()`, in order.  `startedAnnealing` … `finishedAnnealing` are
the events sent to the observers (with the attributes the property speaks about: iteration
number and temperature); `observerPanic j` marks that the delivery of the event just before it
stopped in observer `j`; the others are calls on the explorer. -/
inductive Event (α : Type) where
  | explorerInitialise
  | startedAnnealing (T : α)
  | startedIteration (k : Nat) (T : α)
  | tryRandomChange
  | coolDown
  | finishedIteration (k : Nat) (T : α)
  | finishedAnnealing (k : Nat) (T : α)
  | explorerTearDown
  | observerPanic (j : Nat)
  deriving Repr, DecidableEq

inductive Outcome where
  | returned
  | repanicked     -- handlePanicRecovery re-raised the panic
  | outOfFuel      -- artefact of the structural recursion; unreachable (`anneal_fuel_sufficient`)
  deriving DecidableEq, Repr

inductive LoopExit (α : Type) where
  | done (cur : Nat) (T : α)
  | panicked (cur : Nat) (T : α)
  | outOfFuel (cur : Nat) (T : α)
  deriving Repr

structure Result (α : Type) where
  events : List (Event α)
  outcome : Outcome
  currentIteration : Nat
  temperature : α
  deriving Repr

/-- the observer that panics at notify point `pt`, if the injected panic is there -/
def observerAt (p : Option PanicSite) (pt : NotifyPoint) : Option Nat :=
  match p with
  | some (.notify pt' j) => if pt' = pt then some j else none
  | _ => none

/-- A notify site names an observer that may not exist: with `n` observers attached, observer
`j ≥ n` is never called, so such a site cannot fire. -/
def effectiveSite (n : Nat) : Option PanicSite → Option PanicSite
  | some (.notify pt j) => if j < n then some (.notify pt j) else none
  | p => p

section
variable {α : Type} [Mul α]

/-- One iteration of the loop body in which the injected panic fires: the events up to the
panic and the temperature the coolant is left with.  `i` is the iteration of this call, `cur`
the (already incremented) `currentIteration`, `T` the temperature on entry.  In program order:

  iterationStarted()     observer `j` panics          s !j            T
  TryRandomChange()      panics                       s t             T
  CoolDown()             panics before cooling        s t c           T
                         panics after cooling         s t c           T·a
  iterationFinished()    observer `j` panics          s t c f !j      T·a

`none`: the panic (if any) is not in this iteration. -/
def iterationPanic (a : α) (p : Option PanicSite) (i cur : Nat) (T : α) :
    Option (List (Event α) × α) :=
  match p with
  | some (.notify (.startedIteration k) j) =>
    if k = i then some ([.startedIteration cur T, .observerPanic j], T) else none
  | some (.tryRandomChange k) =>
    if k = i then some ([.startedIteration cur T, .tryRandomChange], T) else none
  | some (.coolDown k) =>
    if k = i then some ([.startedIteration cur T, .tryRandomChange, .coolDown], T) else none
  | some (.coolDownAfter k) =>
    if k = i then some ([.startedIteration cur T, .tryRandomChange, .coolDown], T * a) else none
  | some (.notify (.finishedIteration k) j) =>
    if k = i then
      some ([.startedIteration cur T, .tryRandomChange, .coolDown, .finishedIteration cur (T * a),
             .observerPanic j], T * a)
    else none
  | _ => none

/-- the `for` loop of `Anneal()`, entered with `done = false`; `i` iterations of this call
have completed, `cur` is `currentIteration`, `T` the temperature -/
def loop (N : Nat) (a : α) (panicAt : Option PanicSite) :
    (fuel : Nat) → (i cur : Nat) → (T : α) → List (Event α) × LoopExit α
  | 0, _, cur, T => ([], .outOfFuel cur T)
  | fuel + 1, i, cur, T =>
    let i := i + 1
    let cur := cur + 1                                       -- iterationStarted
    match iterationPanic a panicAt i cur T with
    | some (evs, T') => (evs, .panicked cur T')
    | none =>
      let T' := T * a                                        -- CoolDown
      let evs : List (Event α) :=
        [.startedIteration cur T, .tryRandomChange, .coolDown, .finishedIteration cur T']
      if cur ≥ N then (evs, .done cur T')                     -- checkIfDone
      else
        let rest := loop N a panicAt fuel i cur T'
        (evs ++ rest.1, rest.2)

/-- the end of a run whose loop is done: `annealingFinished()` (build the event, notify), then
the deferred `TearDown()`, then `handlePanicRecovery`.  `pre` is everything that happened so far. -/
def finish (panicAt : Option PanicSite) (pre : List (Event α)) (cur : Nat) (T : α) : Result α :=
  if panicAt = some .finishAttributes then
    -- no finish event exists; TearDown runs, the panic is re-raised
    ⟨pre ++ [.explorerTearDown], .repanicked, cur, T⟩
  else
    match observerAt panicAt .finishedAnnealing with
    | some j =>
      ⟨pre ++ [.finishedAnnealing cur T, .observerPanic j, .explorerTearDown], .repanicked, cur, T⟩
    | none =>
      -- a panic out of the deferred TearDown() itself is recovered and re-raised like any other
      ⟨pre ++ [.finishedAnnealing cur T, .explorerTearDown],
        if panicAt = some .tearDown then .repanicked else .returned, cur, T⟩

/-- what `Anneal()` does once the loop has ended: `annealingFinished()` if it ended normally;
in any case the deferred `TearDown()` and `handlePanicRecovery` -/
def conclude (panicAt : Option PanicSite) (T0 : α) : List (Event α) × LoopExit α → Result α
  | (evs, .done cur T) =>
    finish panicAt ([.explorerInitialise, .startedAnnealing T0] ++ evs) cur T
  | (evs, .panicked cur T) =>
    ⟨[.explorerInitialise, .startedAnnealing T0] ++ evs ++ [.explorerTearDown], .repanicked, cur, T⟩
  | (evs, .outOfFuel cur T) =>
    ⟨[.explorerInitialise, .startedAnnealing T0] ++ evs, .outOfFuel, cur, T⟩

/-- `SimpleAnnealer.Anneal()` with budget `N`, entered with `currentIteration = cur0` and
temperature `T0`, cooling factor `a` -/
def anneal (N cur0 : Nat) (T0 a : α) (panicAt : Option PanicSite) : Result α :=
  if panicAt = some .initialise then
    -- Initialise() panicked: TearDown is not yet deferred, only handlePanicRecovery runs
    ⟨[.explorerInitialise], .repanicked, cur0, T0⟩
  else
    match observerAt panicAt .startedAnnealing with
    | some j =>                                               -- annealingStarted
      ⟨[.explorerInitialise, .startedAnnealing T0, .observerPanic j, .explorerTearDown],
        .repanicked, cur0, T0⟩
    | none =>
      if N = 0 then                                           -- initialDoneValue
        finish panicAt [.explorerInitialise, .startedAnnealing T0] cur0 T0
      else
        conclude panicAt T0 (loop N a panicAt (N - cur0 + 1) 0 cur0 T0)

/-- temperature after `k` cool-downs, by sequential multiplication -/
def temp (T0 a : α) : Nat → α
  | 0 => T0
  | k + 1 => temp T0 a k * a

/-- the four things one complete iteration `k` does, entered at temperature `T` -/
def iterationEvents (a : α) (k : Nat) (T : α) : List (Event α) :=
  [.startedIteration k T, .tryRandomChange, .coolDown, .finishedIteration k (T * a)]

/-- iterations `1 … n` of a run that starts at temperature `T0` -/
def iterations (T0 a : α) (n : Nat) : List (Event α) :=
  (List.range n).flatMap (fun j => iterationEvents a (j + 1) (temp T0 a j))

end

namespace Event
variable {α : Type}

/-- the events `Anneal()` itself hands to `NotifyObserversOfEvent`.  (When the explorer's and
the model's own events are forwarded through the annealer, as `scenario.Runner.wireObservers`
arranges, observers receive those too, some of them before `startedAnnealing` — the Suppapitnarm
explorer's `Initialise()` sends one; they are outside this model and the harness's recorders skip
them.) -/
def observable : Event α → Bool
  | startedAnnealing _ | startedIteration _ _ | finishedIteration _ _ | finishedAnnealing _ _ => true
  | _ => false

/-- the marker "delivery of the previous event stopped in observer `j`" -/
def isObserverPanic : Event α → Bool
  | observerPanic _ => true
  | _ => false

def isTearDown : Event α → Bool
  | explorerTearDown => true
  | _ => false

def isTry : Event α → Bool
  | tryRandomChange => true
  | _ => false

def isStartedIteration : Event α → Bool
  | startedIteration _ _ => true
  | _ => false

def isFinishedIteration : Event α → Bool
  | finishedIteration _ _ => true
  | _ => false

def isFinishedAnnealing : Event α → Bool
  | finishedAnnealing _ _ => true
  | _ => false

/-- the temperature attribute an event carries -/
def temperature? : Event α → Option α
  | startedAnnealing T | startedIteration _ T | finishedIteration _ T | finishedAnnealing _ T => some T
  | _ => none

end Event

/-- how many of `n` observers are handed an event, given what follows it in the event list:
all of them, unless the delivery stopped in observer `j` (who was called) -/
def reach {α : Type} (n : Nat) : List (Event α) → Nat
  | .observerPanic j :: _ => min (j + 1) n
  | _ => n

/-- `SynchronousAnnealingEventNotifier.NotifyObserversOfEvent` with `n` observers: every
observable event goes to observers `0 … n-1` in order (`0 … j` if observer `j` panics), one event
after the other.  Events are immutable values here — exactly the assumption the Go notifier does
not enforce (all observers get `Event` structs whose attribute slices share one backing array;
finding D21). -/
def deliveries {α : Type} (n : Nat) : List (Event α) → List (Nat × Event α)
  | [] => []
  | e :: rest =>
    (if e.observable then (List.range (reach n rest)).map (fun i => (i, e)) else []) ++
      deliveries n rest

/-- what observer `i` received -/
def receivedBy {α : Type} (i : Nat) (d : List (Nat × Event α)) : List (Event α) :=
  d.filterMap (fun p => if p.1 = i then some p.2 else none)

end Crem.Anneal
