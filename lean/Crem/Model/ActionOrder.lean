/-
Model of the action order of a model instance
(`internal/pkg/model/action/ModelManagementActions.go`, `CoreModel.observeActions`).

The catchment model creates its management actions by ranging over Go maps
(`GullyRestorationGroup.ManagementActions` and its three siblings: one map from
planning unit to action per action type), so the order in which
`observeActions` receives them differs from one construction to the next.  It
then calls `ModelManagementActions.Sort()` = `sort.Sort` with

    Less(i, j) = pu_i < pu_j  ||  (pu_i == pu_j && type_i < type_j)

Index `i` of the sorted slice is bit `i` of the action-set encoding, so an
encoding is portable between model instances exactly when the sorted order is
the same in each of them.

Here: an action is its key (`planningunit.Id` is a `uint64`, the type a Go
string; Go compares strings bytewise, Lean `String`s by code point — the same
order on valid UTF-8) plus a payload standing for everything else that
distinguishes one Go object from another; the gathered order is an *arbitrary
permutation*; `sort.Sort` is not transcribed (pdqsort, unstable) but
characterised by its contract: the result is a permutation of the input that is
sorted for `Less` (`Sorted`, trusted base: "sort.Sort returns a sorted
permutation").  `sortActions` is an executable insertion sort used by the driver;
`Properties/C09.lean` proves that under distinct keys *every* sorted permutation
of *every* gathering order is that same list.

Core Lean only.
-/
namespace Crem.ActionOrder

structure Action where
  pu : Nat          -- PlanningUnit()
  type : String     -- Type()
  payload : Nat     -- whatever else identifies the object (not looked at by the order)
  deriving DecidableEq, Repr

/-- `ManagementActions.Less`, transcribed -/
def less (a b : Action) : Bool :=
  if a.pu < b.pu then true
  else if a.pu = b.pu then (if a.type < b.type then true else false)
  else false

def sameKey (a b : Action) : Bool := a.pu == b.pu && a.type == b.type

/-- the contract of `sort.Sort`: no later element is `Less` than an earlier one -/
def Sorted : List Action → Prop
  | [] => True
  | a :: l => (∀ b ∈ l, less b a = false) ∧ Sorted l

/-- hypothesis H of C09: no two actions of the list share (planning unit, type) -/
def KeysDistinct : List Action → Prop
  | [] => True
  | a :: l => (∀ b ∈ l, sameKey a b = false) ∧ KeysDistinct l

/-- executable form of `KeysDistinct` (evaluated by the driver on every extracted action list) -/
def keysDistinct : List Action → Bool
  | [] => true
  | a :: l => l.all (fun b => !sameKey a b) && keysDistinct l

def insertSorted (a : Action) : List Action → List Action
  | [] => [a]
  | b :: l => if less a b then a :: b :: l else b :: insertSorted a l

/-- insertion sort by `less` -/
def sortActions : List Action → List Action
  | [] => []
  | a :: l => insertSorted a (sortActions l)

end Crem.ActionOrder
