import Crem.Model.Catchment
import Crem.Model.Suppapitnarm
/-
The multi-objective explorer's view of the catchment model (`ModelOps State`): what
`ModelCompressor.Compress`, `SynchroniseTo` / `Decompress` and `Randomize()` are on the catchment
model.  Used by the driver (suite `suppa-runs`) and by the C03 theorems.  Core Lean only.
-/
namespace Crem.Catchment
open Crem.Archive Crem.Suppa

/-- order keys of the six totals in the order of the sorted variable names
(DissolvedNitrogen, ImplementationCost, OpportunityCost, ParticulateNitrogen, SedimentProduction,
TotalNitrogen): value · 10^precision, an integer because totals lie on their grid -/
def keysOf (s : State) : List Int :=
  [(s.dn.total * 1000).floor, (s.ic.total * 100).floor, (s.oc.total * 100).floor,
   (s.pn.total * 1000).floor, (s.sed.total * 1000).floor, (s.tn.total * 1000).floor]

/-- the six totals themselves, in the same (sorted-name) order -/
def valuesOf (s : State) : List Rat :=
  [s.dn.total, s.ic.total, s.oc.total, s.pn.total, s.sed.total, s.tn.total]

/-- the state an outcome of the limit-seeking loops carries -/
def outcomeState : LoopOutcome → State
  | .found s => s
  | .attemptLimit s => s
  | .outOfDraws s => s

def modelOps (D : Data) : ModelOps State where
  compress := fun s => ⟨keysOf s, s.flags⟩
  values := valuesOf
  syncTo := fun s bits => setAll D s bits
  randomize := fun s draws => outcomeState (randomize D s draws)

end Crem.Catchment
