import Crem.Model.Catchment
/-!
# The output layer: `variable.MakeEncodeable` and `SolutionBuilder.addDecisionVariables`

Every figure crem writes to a solution file or serves from the engine (`GET /api/v1/model`, `/solutions/<label>`)
passes through ONE function: `variable.MakeEncodeable` (internal/pkg/model/variable/EncodableDecisionVariable.go),
called by `solution.SolutionBuilder.addDecisionVariables` for every variable of the model:

```go
Value:                math.RoundFloat(variable.Value(), int(variable.Precision())),
ValuePerPlanningUnit: encodeValuesPerPlanningUnit(variable)   // for each (unit, value) of the variable's map:
                                                               //   r := RoundFloat(value, precision); if r == 0 { continue }
                                                               //   append {unit, r};   then sort.Sort by unit id
```

and the builder sorts the encodeable variables by name.  This file transcribes that over the catchment model of
`Crem/Model/Catchment.lean` (core-only, exact `Rat`; executed by the driver's `enc` operation of the
`catchment-walk` protocol).  The Go map's iteration order is the arbitrary order in which `units` lists the
planning units; the sort removes it (`Properties/C11Out.lean`: `encodeable_independent_of_map_order`).
-/
namespace Crem.Catchment

/-- `EncodeableDecisionVariable` without name / unit of measure (both constants of the variable) -/
structure EncVar where
  id : VarId
  value : Rat
  perUnit : List (PU × Rat)
deriving Repr, DecidableEq

/-- insertion into a list sorted by planning-unit id (`PlanningUnitValues.Less` is `<` on the ids) -/
def insertPU (e : PU × Rat) : List (PU × Rat) → List (PU × Rat)
  | [] => [e]
  | x :: xs => if e.1 ≤ x.1 then e :: x :: xs else x :: insertPU e xs

/-- `sort.Sort(values)`: Go's sort is some sorting algorithm; with distinct ids (every map key occurs once) all of
them give the one list sorted by id, here computed by insertion (structural, so the kernel can run it) -/
def sortPU : List (PU × Rat) → List (PU × Rat)
  | [] => []
  | x :: xs => insertPU x (sortPU xs)

/-- `encodeValuesPerPlanningUnit`: round every per-unit value to the variable's precision, drop the entries that
round to zero, sort by planning-unit id.  `units` is the order in which the Go map yields its keys. -/
def encodeUnits (prec : Nat) (units : List PU) (val : PU → Rat) : List (PU × Rat) :=
  sortPU ((units.map fun p => (p, rnd prec (val p))).filter fun e => e.2 != 0)

/-- `MakeEncodeable(variable)` for variable `v` of the model in state `s`, the map yielding `units` -/
def makeEncodeable (units : List PU) (s : State) (v : VarId) : EncVar :=
  { id := v
    value := rnd (reportingPrecision v) (total s v)
    perUnit := encodeUnits (reportingPrecision v) units (unitVal s v) }

/-- the variables in the order of their Go names (`sort.Sort(solutionVariables)`, `Less` = `Name <`):
DissolvedNitrogen < ImplementationCost < OpportunityCost < ParticulateNitrogen < SedimentProduction < TotalNitrogen -/
def varsByName : List VarId := [.dn, .ic, .oc, .pn, .sed, .tn]

/-- `SolutionBuilder.addDecisionVariables`: `Solution.DecisionVariables` -/
def solutionVariables (units : List PU) (s : State) : List EncVar :=
  varsByName.map (makeEncodeable units s)

/-- the value a reader of the encoded variable finds for a planning unit: the listed figure, 0 when the unit is
not listed (this is how the CSV / JSON marshalers and the engine's sub-catchment documents read it) -/
def EncVar.unit (e : EncVar) (p : PU) : Rat :=
  match e.perUnit.find? (fun x => x.1 == p) with
  | some x => x.2
  | none => 0

/-! ## The detail file of a solution (`encoding/csv.DecisionVariableMarshaler`, `OutputLevel = Detail`)

One row per encodeable variable: name, `Value`, unit of measure, then ONE cell per planning unit of the solution
(`Solution.PlanningUnits` = the model's `PlanningUnits()`, in that order).  `planningUnitValueList` fills the cell of unit
`p` with 0 and then overwrites it with every listed entry of that unit in turn (no `break`): the LAST listed figure. -/

/-- the inner loop of `planningUnitValueList` for one planning unit -/
def unitLast (l : List (PU × Rat)) (p : PU) : Rat :=
  l.foldl (fun acc x => if x.1 = p then x.2 else acc) 0

/-- the planning-unit cells of the variable's row in `…-NameMappedVariables.csv` (as numbers; the text is
`strings.Converter` formatting at the variable's precision) -/
def detailCells (e : EncVar) (pus : List PU) : List Rat := pus.map (unitLast e.perUnit)

/-- the numeric content of the whole detail file: per variable its `Value` and its planning-unit cells -/
def detailRows (units : List PU) (pus : List PU) (s : State) : List (VarId × Rat × List Rat) :=
  (solutionVariables units s).map fun e => (e.id, e.value, detailCells e pus)

/-! ## The management-actions file of a solution (`encoding/csv.ManagementActionMarshaler`)

One row per planning unit of the solution, one 0/1 cell per action type the model offers (`Solution.ActionsAsStrings()`:
the keys of `Solution.ManagementActions`, sorted): 1 iff `Solution.ActiveManagementActions[unit]` holds that type, which
`SolutionBuilder.addPlanningUnitManagementActionMaps` fills from the model's actions that are active. -/

/-- does planning unit `p` have an ACTIVE action of type `t`? (`acts` and `flags` are aligned) -/
def activeIn (acts : List Action) (flags : List Bool) (p : PU) (t : ActType) : Bool :=
  (acts.zip flags).any fun ab => ab.2 && decide (ab.1.pu = p) && decide (ab.1.typ = t)

/-- the action types in the order of their Go names -/
def actionTypes : List ActType := [.gully, .hillslope, .riparian, .wetland]

/-- the column headings after the planning-unit column: the types some action of the model has, sorted -/
def typesPresent (acts : List Action) : List ActType :=
  actionTypes.filter fun t => acts.any fun a => decide (a.typ = t)

/-- the numeric content of `…-ManagementActions.csv`: per planning unit of the solution its row of 0/1 cells -/
def actionMatrix (acts : List Action) (flags : List Bool) (pus : List PU) : List (PU × List Bool) :=
  pus.map fun p => (p, (typesPresent acts).map (activeIn acts flags p))

end Crem.Catchment
