/-
Model of the single-objective (Kirkpatrick) explorer's accept/revert decision:

  internal/pkg/annealing/explorer/kirkpatrick/Explorer.go
      TryRandomChange, AcceptOrRevertChange, changeTriedIsDesirable, reportInvalidChange,
      AcceptLastChange, RevertLastChange, CoolDown
  internal/pkg/annealing/cooling/coolants/kirkpatrick/Coolant.go
      DecideIfAcceptable, calculateAcceptanceProbability, CoolDown
  internal/pkg/rand/Rand.go
      Float64Unitary

Numbers.  `p > u` compares a float computed with `math.Exp` against a float draw, so the
model is written over a small arithmetic signature `Arith α` with two instances:
`floatArith` (Lean `Float` = the same IEEE binary64; used by the compiled driver) and
`fieldArith` over an ordered field with an abstract `exp` (in `Crem/Proofs/Kirkpatrick.lean`;
used by the theorems, with `Real.exp` for the range theorem).  Core Lean only.
-/
namespace Crem.Kirkpatrick

/-- the arithmetic the explorer and its coolant use -/
structure Arith (α : Type) where
  zero  : α
  one   : α
  ofNat : Nat → α
  neg   : α → α
  abs   : α → α
  add   : α → α → α
  mul   : α → α → α
  div   : α → α → α
  exp   : α → α
  lt    : α → α → Bool

/-- IEEE binary64 instance (driver) -/
def floatArith : Arith Float where
  zero  := 0.0
  one   := 1.0
  ofNat := Float.ofNat
  neg   := fun x => -x
  abs   := Float.abs
  add   := fun x y => x + y
  mul   := fun x y => x * y
  div   := fun x y => x / y
  exp   := Float.exp
  lt    := fun x y => x < y

/-- `optimisationDirection`.  `unset` is the zero value `Invalid`, which an explorer built
with `kirkpatrick.New()` keeps until `SetParameters` is called (`SetParameters` itself can only
produce `Minimising` or `Maximising`: an unparsable value is rejected by the validator and the
default `Minimising` stays). -/
inductive Direction where
  | unset | minimising | maximising
  deriving DecidableEq, Repr, Inhabited

/-- the four outcomes of `AcceptOrRevertChange`; `p` is the acceptance probability the
explorer reports in the matching event -/
inductive Decision (α : Type) where
  | revertInvalid
  | acceptDesirable (p : α)
  | acceptUndesirable (p : α)
  | revertUndesirable (p : α)
  deriving Repr, Inhabited

namespace Decision
variable {α : Type}

/-- `acceptChange()` is called (as opposed to `revertChange()`) -/
def accepted : Decision α → Bool
  | acceptDesirable _ | acceptUndesirable _ => true
  | revertInvalid | revertUndesirable _ => false

/-- the probability reported with the decision (none for an invalid change) -/
def probability : Decision α → Option α
  | revertInvalid => none
  | acceptDesirable p | acceptUndesirable p | revertUndesirable p => some p

/-- the decision consumed one uniform draw (`DecideIfAcceptable` was called) -/
def drew : Decision α → Bool
  | acceptUndesirable _ | revertUndesirable _ => true
  | revertInvalid | acceptDesirable _ => false

end Decision

section
variable {α : Type} (A : Arith α)

/-- the comparison inside `changeTriedIsDesirable` -/
def desirable (dir : Direction) (Δ : α) : Bool :=
  match dir with
  | .minimising => A.lt Δ A.zero      -- change < 0
  | .maximising => A.lt A.zero Δ      -- change > 0
  | .unset      => false              -- neither `case` of the switch matches

/-- `Coolant.calculateAcceptanceProbability`: `math.Exp(-math.Abs(change) / Temperature)` -/
def acceptanceProbability (T Δ : α) : α :=
  A.exp (A.div (A.neg (A.abs Δ)) T)

/-- `Rand.Float64Unitary` when the source's next `Int63()` is `v`:
`Int63n(2^53)` masks (power of two), the result is divided by `2^53 - 1`. -/
def unitary (v : Nat) : α :=
  A.div (A.ofNat (v % 2 ^ 53)) (A.ofNat (2 ^ 53 - 1))

/-- `AcceptOrRevertChange`: validity first, then desirability by the sign of the change,
then `DecideIfAcceptable` (`AcceptanceProbability > randomValue`).  `Δ` is the value of
`ke.objectiveValueChange` at the moment of the decision, `u` the uniform draw that is
taken only in the last branch.  `setAcceptanceProbability(Guaranteed)` stores
`math.Min(1, 1) = 1`. -/
def acceptOrRevert (dir : Direction) (T : α) (valid : Bool) (Δ u : α) : Decision α :=
  if !valid then .revertInvalid
  else if desirable A dir Δ then .acceptDesirable A.one
  else
    let p := acceptanceProbability A T Δ
    if A.lt u p then .acceptUndesirable p else .revertUndesirable p

/-- the explorer/coolant state the decision reads and writes -/
structure Explorer (α : Type) where
  dir : Direction
  temperature : α
  coolingFactor : α
  /-- `Coolant.AcceptanceProbability` (persists between iterations) -/
  acceptanceProbability : α
  /-- `ke.objectiveValueChange` (persists between iterations) -/
  objectiveValueChange : α
  deriving Repr, Inhabited

/-- events the explorer sends during `TryRandomChange` / `CoolDown` -/
inductive Event (α : Type) where
  | trying                                  -- note "Trying Random Model Change"
  | invalidChange (Δ : α)                   -- "Invalid Change" (ChangeInObjectiveValue)
  | desirability (Δ : α) (desirable : Bool) -- ChangeInObjectiveValue, ChangeIsDesirable
  | acceptingDesirable (p : α)
  | acceptingUndesirable (p : α)
  | revertingUndesirable (p : α)
  | cooling (T : α)
  deriving Repr, Inhabited

/-- the part of `model.Model` the explorer uses.  `χ` is the model's own random choice. -/
structure ModelOps (σ χ α : Type) where
  tryChange : σ → χ → σ     -- TryRandomChange
  valid     : σ → Bool      -- ChangeIsValid
  change    : σ → α         -- DecisionVariableChange(objective)
  accept    : σ → σ         -- AcceptChange
  revert    : σ → σ         -- RevertChange
  objective : σ → α         -- DecisionVariable(objective).Value()

structure Step (σ α : Type) where
  explorer : Explorer α
  model    : σ
  decision : Decision α
  events   : List (Event α)

/-- which change the explorer has in hand when it decides: `reportInvalidChange` and the
`Minimising`/`Maximising` cases call `calculateChangeInObjectiveValue`; with the direction
unset nothing refreshes `objectiveValueChange` on the valid path and the stale value is used. -/
def observedChange (dir : Direction) (valid : Bool) (stale fresh : α) : α :=
  if !valid then fresh
  else match dir with
    | .unset => stale
    | _ => fresh

/-- `Explorer.TryRandomChange` -/
def tryRandomChange {σ χ : Type} (M : ModelOps σ χ α) (e : Explorer α) (s : σ) (c : χ) (u : α) : Step σ α :=
  let s₁ := M.tryChange s c
  let valid := M.valid s₁
  let Δ := observedChange e.dir valid e.objectiveValueChange (M.change s₁)
  let d := acceptOrRevert A e.dir e.temperature valid Δ u
  let p' := match d.probability with
    | some p => p
    | none => e.acceptanceProbability
  let s₂ := if d.accepted then M.accept s₁ else M.revert s₁
  let evs : List (Event α) := .trying :: match d with
    | .revertInvalid => [.invalidChange Δ]
    | .acceptDesirable p => [.desirability Δ true, .acceptingDesirable p]
    | .acceptUndesirable p => [.desirability Δ false, .acceptingUndesirable p]
    | .revertUndesirable p => [.desirability Δ false, .revertingUndesirable p]
  { explorer := { e with acceptanceProbability := p', objectiveValueChange := Δ }
    model := s₂, decision := d, events := evs }

/-- `Explorer.CoolDown` (`Temperature *= CoolingFactor`, then the "Cooling" event) -/
def coolDown (e : Explorer α) : Explorer α × Event α :=
  let T := A.mul e.temperature e.coolingFactor
  ({ e with temperature := T }, .cooling T)

/-- what a driver of the explorer may do next -/
inductive Op (χ α : Type) where
  | try (c : χ) (u : α)
  | cool

/-- one line of the objective-value ledger -/
structure Record (α : Type) where
  before   : α      -- objective value before the proposal
  change   : α      -- the change the explorer reports (`ke.objectiveValueChange`)
  accepted : Bool
  after    : α      -- objective value after accept/revert
  deriving Repr

/-- thread `tryRandomChange` / `coolDown` over an arbitrary operation sequence -/
def run {σ χ : Type} (M : ModelOps σ χ α) : List (Op χ α) → Explorer α → σ → List (Record α) × Explorer α × σ
  | [], e, s => ([], e, s)
  | .cool :: ops, e, s => run M ops (coolDown A e).1 s
  | .try c u :: ops, e, s =>
    let st := tryRandomChange A M e s c u
    let r : Record α :=
      { before := M.objective s, change := st.explorer.objectiveValueChange
        accepted := st.decision.accepted, after := M.objective st.model }
    let rest := run M ops st.explorer st.model
    (r :: rest.1, rest.2)

/-- what one proposal of a `run` was decided on: how many `CoolDown`s preceded it, the coolant's
temperature at that moment, the model's verdict on the proposed state, the change the model
reports for it, the uniform draw on offer, and the decision `tryRandomChange` took -/
structure StepView (α : Type) where
  cools       : Nat
  temperature : α
  valid       : Bool
  change      : α
  draw        : α
  decision    : Decision α

/-- the same threading as `run`, recording per proposal what it was decided on (`n` = number of
cool-downs so far) -/
def stepsFrom {σ χ : Type} (M : ModelOps σ χ α) : Nat → List (Op χ α) → Explorer α → σ → List (StepView α)
  | _, [], _, _ => []
  | n, .cool :: ops, e, s => stepsFrom M (n + 1) ops (coolDown A e).1 s
  | n, .try c u :: ops, e, s =>
    let st := tryRandomChange A M e s c u
    let s₁ := M.tryChange s c
    { cools := n, temperature := e.temperature, valid := M.valid s₁, change := M.change s₁,
      draw := u, decision := st.decision } :: stepsFrom M n ops st.explorer st.model

def steps {σ χ : Type} (M : ModelOps σ χ α) (ops : List (Op χ α)) (e : Explorer α) (s : σ) :
    List (StepView α) :=
  stepsFrom A M 0 ops e s

/-- the scripted model the correspondence harness uses (Go: `scriptedModel` in
`harness/cmd/suite_kirk.go`): the choice *is* the (change, validity) pair; accepting adds
the change to the objective value, reverting leaves it. -/
structure Scripted (α : Type) where
  objective : α
  pendingChange : α
  pendingValid : Bool
  deriving Repr, Inhabited

def scriptedModel : ModelOps (Scripted α) (α × Bool) α where
  tryChange := fun s c => { s with pendingChange := c.1, pendingValid := c.2 }
  valid     := fun s => s.pendingValid
  change    := fun s => s.pendingChange
  accept    := fun s => { s with objective := A.add s.objective s.pendingChange }
  revert    := fun s => s
  objective := fun s => s.objective

end

end Crem.Kirkpatrick
