import Crem.Model.Catchment
/-
Executable model of crem's derivation of the scenario data `Data` from the three CSV tables:
which management actions exist, every action's `ModelVariableValue` constants, the action order,
and the initial attribute records of the three pollutant variables.

Transcribed from
  internal/pkg/model/models/catchment/actions/ActionsContainer.go            (`Container`)
  …/actions/{Gully,RiverBank,HillSlope}RestorationGroup.go, WetlandsEstablishmentGroup.go
  …/actions/{Bank,Gully,HillSlope}SedimentContribution.go
  …/variables/sedimentproduction/SedimentProduction.go       (`deriveInitialSedimentProduction`)
  …/variables/particulatenitrogen/ParticulateNitrogenProduction.go (`deriveInitialNitrogen`)
  …/variables/dissolvednitrogen/DissolvedNitrogenProduction.go     (`deriveInitialNitrogen`)
  …/CoreModel.go (`buildModelActions`, `observeActions`), internal/pkg/model/action/ModelManagementActions.go (`Sort`)

`Tables` holds exactly the cells the derivation reads, as the exact rationals of the float64 cells.
One quantity is an *input* rather than computed: `bankPartial`, the value of
`BankSedimentContribution.partialBankSedimentContribution(row)`, because it involves `math.Exp` and
`math.Pow` (it is a function of the row and the parameters only, never of an action's state).
Float constants of the Go source are idealised (`0.95` = 95/100, `0.01` = 1/100, thresholds 1/4 and
3/4 are exact anyway); what is abstracted is IEEE-754 rounding only (DESIGN.md 3.1).

Transcription notes (Go -> model)
* A `Container` with a filter maps `"<unit>,<attribute>"` to the cell of the LAST actions row whose
  type text equals the filter *exactly* (`sourceType != c.filter`, a byte comparison: the shipped
  data's lower-case `wetland` row is ignored); a missing key reads as 0 (Go map).  The unfiltered
  containers of the two nitrogen variables map `"<unit>,<type text>,<attribute>"` likewise and only
  ever look at the type texts `Gully`, `Hillslope`, `Riparian`.  Both are `lastRow`.
  (Assumption on the type text: it contains no comma — `DeriveMapKeyComponents` splits the key at
  commas.  The CSV loader delivers a type cell as text; the harness never generates a comma in it.)
* Maps keyed by planning unit built by ranging over the sub-catchment rows keep the LAST row of an
  id (`lastSub`); the nitrogen variables `Add` to an attribute list and read the FIRST match
  (`firstSub`).  The two agree when ids are distinct (`WellFormedTables`).
* Each action group holds its actions in a Go map keyed by planning unit, so a group contributes at
  most one action per unit; the four groups are gathered (`gully ++ riparian ++ hillslope ++ wetland`,
  each in map-iteration = arbitrary order) and sorted with `Less = (pu, type string)`.  Here: each
  group in first-occurrence order of its ids, then an insertion sort — `Properties/C09.lean` proves
  that with distinct keys every sorted permutation of every gathering order is the same list.
* The variables keep their attribute records in Go maps keyed by unit (no order); `Data` lists them
  by ascending unit id, the convention `emitLoad` (harness/cmd/cmodel.go) extracts them in.
* `planningunit.Id(float64)` is applied by the harness: ids are integers here.
Core Lean only (linked into the driver).
-/
namespace Crem.Catchment

/-- a row of the Subcatchments table: column 0, column 8 (`ProportionOfRiparianVegetation`) and the
row's `partialBankSedimentContribution` -/
structure SubRow where
  id : PU
  veg : Rat
  bankPartial : Rat
deriving DecidableEq, Repr, Inhabited

/-- a row of the Gullies table: columns 1 (`Subcatchment`) and 2 (`Volume`) -/
structure GullyRow where
  unit : PU
  volume : Rat
deriving DecidableEq, Repr, Inhabited

/-- a row of the Actions table: column 0, the type text of column 1, and the thirteen numeric columns -/
structure ActionRow where
  unit : PU
  typ : String
  oppCost : Rat := 0      -- 2
  implCost : Rat := 0     -- 3
  pnOrig : Rat := 0       -- 4
  pnAct : Rat := 0        -- 5
  hillOrig : Rat := 0     -- 6
  hillAct : Rat := 0      -- 7
  fineOrig : Rat := 0     -- 8
  fineAct : Rat := 0      -- 9
  dnOrig : Rat := 0       -- 10
  dnAct : Rat := 0        -- 11
  dnEff : Rat := 0        -- 12
  pnEff : Rat := 0        -- 13
  sedEff : Rat := 0       -- 14
deriving DecidableEq, Repr, Inhabited

/-- the catchment parameters the derivation reads (`parameters/Parameters.go`) -/
structure Params where
  deliveryRatio : Rat := 1/20        -- HillSlopeDeliveryRatio
  vegTarget : Rat := 3/4             -- RiparianBufferVegetationProportionTarget
  gullyReduction : Rat := 4/5        -- GullySedimentReductionTarget
  sedimentDensity : Rat := 3/2       -- SedimentDensity
  gullyCompensation : Rat := 1/2     -- GullyCompensationFactor
  yearsOfErosion : Rat := 100        -- float64(YearsOfErosion)
  suspendedProportion : Rat := 1/2   -- SuspendedSedimentProportion
deriving DecidableEq, Repr, Inhabited

structure Tables where
  subs : List SubRow
  gullies : List GullyRow
  actions : List ActionRow
  P : Params := {}
deriving Repr, Inhabited

/-! ### generic helpers (structural recursion throughout) -/

/-- the distinct elements of a list (the key set of a Go map filled by ranging over it) -/
def dedup : List PU → List PU
  | [] => []
  | a :: l => if l.contains a then dedup l else a :: dedup l

def insertBy {α : Type} (le : α → α → Bool) (a : α) : List α → List α
  | [] => [a]
  | b :: l => if le a b then a :: b :: l else b :: insertBy le a l

/-- insertion sort -/
def isort {α : Type} (le : α → α → Bool) : List α → List α
  | [] => []
  | a :: l => insertBy le a (isort le l)

def findLast {α : Type} (p : α → Bool) : List α → Option α
  | [] => none
  | a :: l => match findLast p l with
    | some b => some b
    | none => if p a then some a else none

/-! ### the three tables as Go reads them -/

/-- keys of every map filled by ranging over the sub-catchment rows -/
def subIds (T : Tables) : List PU := dedup (T.subs.map (·.id))

/-- `contributionMap[id]` of `BankSedimentContribution` & co.: the last row of an id wins -/
def lastSub (T : Tables) (p : PU) : Option SubRow := findLast (fun r => r.id = p) T.subs

/-- attribute lists built with `Add` and read with `Value`: the first row of an id wins -/
def firstSub (T : Tables) (p : PU) : Option SubRow := T.subs.find? (fun r => r.id = p)

/-- `Container.WithFilter(typ).WithActionsTable`: the cells a (unit, type text) key maps to -/
def lastRow (T : Tables) (typ : String) (p : PU) : Option ActionRow :=
  findLast (fun r => r.typ = typ && r.unit = p) T.actions

/-- a Go map read: a missing key gives 0 -/
def cell (r : Option ActionRow) (f : ActionRow → Rat) : Rat :=
  match r with
  | some r => f r
  | none => 0

def gullyText : String := "Gully"
def hillText : String := "Hillslope"
def ripText : String := "Riparian"
def wetText : String := "Wetland"

/-- `GullySedimentContribution.SedimentFromVolume` -/
def sedimentFromVolume (P : Params) (v : Rat) : Rat :=
  if v = 0 then 0
  else ((v * P.sedimentDensity * P.gullyCompensation) / P.yearsOfErosion) * P.suspendedProportion

/-- `GullySedimentContribution.SedimentContribution(planningUnit)`: sum over the unit's trackers in row order -/
def gullySediment (T : Tables) (p : PU) : Rat :=
  T.gullies.foldl (fun t g => if g.unit = p then t + sedimentFromVolume T.P g.volume else t) 0

/-- keys of `GullySedimentContribution.contributionMap` -/
def gullyIds (T : Tables) : List PU := dedup (T.gullies.map (·.unit))

/-- `BankSedimentContribution.adjustedProportionOfIntactVegetation` -/
def adjustedVeg (v : Rat) : Rat := 1 - 95/100 * v

/-- `BankSedimentContribution.PlanningUnitSedimentContribution(id, proportion)` -/
def bankSediment (T : Tables) (p : PU) (v : Rat) : Rat :=
  match lastSub T p with
  | some r => r.bankPartial * adjustedVeg v
  | none => 0     -- Go: assertion failure; never reached for ids taken from the table

/-! ### initial attribute records -/

/-- `SedimentProduction.deriveInitialSedimentProduction` (after the D1 repair the hill-slope attribute
is the delivery-adjusted, UNfiltered original contribution) -/
def sedCtx (T : Tables) (p : PU) : Ctx :=
  let veg := ((lastSub T p).map (·.veg)).getD 0
  { veg := veg,
    rip := bankSediment T p veg,
    gully := gullySediment T p,
    hill := cell (lastRow T hillText p) (·.hillOrig) * T.P.deliveryRatio,
    wet := 0 }

/-- `ParticulateNitrogenProduction.deriveInitialNitrogen`: defaults, then
`calculateGullyAndHillSlopeContributions`, `calculateRiparianFineSediment`,
`calculateRiparianNitrogenContributionAttribute` (sediment's riverbank attribute × fine sediment × 0.01) -/
def pnCtx (T : Tables) (p : PU) : Ctx :=
  { veg := ((firstSub T p).map (·.veg)).getD 0,
    rip := (sedCtx T p).rip * cell (lastRow T ripText p) (·.fineOrig) * (1/100),
    gully := cell (lastRow T gullyText p) (·.pnOrig),
    hill := cell (lastRow T hillText p) (·.pnOrig) * T.P.deliveryRatio,
    wet := 0 }

/-- `DissolvedNitrogenProduction.deriveInitialNitrogen` -/
def dnCtx (T : Tables) (p : PU) : Ctx :=
  { veg := ((firstSub T p).map (·.veg)).getD 0,
    rip := cell (lastRow T ripText p) (·.dnOrig),
    gully := cell (lastRow T gullyText p) (·.dnOrig),
    hill := cell (lastRow T hillText p) (·.dnOrig),
    wet := 0,
    aux := cell (lastRow T ripText p) (·.dnEff) }

/-! ### the four action groups -/

/-- `GullyRestorationGroup.createManagementAction` (one per key of the gully contribution map) -/
def gullyAct (T : Tables) (p : PU) : Action :=
  let r := lastRow T gullyText p
  let orig := gullySediment T p
  { pu := p, typ := .gully,
    k := { implCost := cell r (·.implCost), oppCost := cell r (·.oppCost),
           origGullySed := orig, actGullySed := (1 - T.P.gullyReduction) * orig,
           origPN := cell r (·.pnOrig), actPN := cell r (·.pnAct),
           origDN := cell r (·.dnOrig), actDN := cell r (·.dnAct) } }

/-- `RiverBankRestorationGroup.createManagementAction` ranges over the rows and overwrites
`actionMap[id]`; a row whose vegetation is not below the target returns early.  The action of an id
therefore comes from the last of its rows below the target. -/
def ripAct (T : Tables) (p : PU) : Option Action :=
  match findLast (fun r => r.id = p && decide (r.veg < T.P.vegTarget)) T.subs with
  | none => none
  | some row =>
    let r := lastRow T ripText p
    some { pu := p, typ := .riparian,
           k := { implCost := cell r (·.implCost), oppCost := cell r (·.oppCost),
                  origVeg := row.veg, actVeg := T.P.vegTarget,
                  origRipSed := bankSediment T p row.veg, actRipSed := bankSediment T p T.P.vegTarget,
                  origPN := cell r (·.pnOrig), actPN := cell r (·.pnAct),
                  origFine := cell r (·.fineOrig), actFine := cell r (·.fineAct),
                  origDN := cell r (·.dnOrig), actDN := cell r (·.dnAct),
                  dnEff := cell r (·.dnEff) } }

/-- `HillSlopeRestorationGroup.actionNeededFor` with the row's riparian filter -/
def hillNeeded (T : Tables) (p : PU) (veg : Rat) : Bool :=
  let orig := cell (lastRow T hillText p) (·.hillOrig)
  if orig = 0 then false
  else decide (rnd 3 (orig * T.P.deliveryRatio * riparianFilter veg) > 0)

/-- `HillSlopeRestorationGroup.createManagementAction`: the constants do not depend on the row -/
def hillAct (T : Tables) (p : PU) : Option Action :=
  if T.subs.any (fun row => row.id = p && hillNeeded T p row.veg) then
    let r := lastRow T hillText p
    let d := T.P.deliveryRatio
    some { pu := p, typ := .hillslope,
           k := { implCost := cell r (·.implCost), oppCost := cell r (·.oppCost),
                  origHillSed := cell r (·.hillOrig) * d, actHillSed := cell r (·.hillAct) * d,
                  origPN := cell r (·.pnOrig) * d, actPN := cell r (·.pnAct) * d,
                  origDN := cell r (·.dnOrig), actDN := cell r (·.dnAct) } }
  else none

/-- `WetlandsEstablishmentGroup.createManagementAction`: `mapsToPlanningUnit` = a row with type text
exactly `Wetland` exists for the unit -/
def wetAct (T : Tables) (p : PU) : Option Action :=
  match lastRow T wetText p with
  | none => none
  | some r =>
    some { pu := p, typ := .wetland,
           k := { implCost := r.implCost, oppCost := r.oppCost,
                  dnEff := r.dnEff, pnEff := r.pnEff, sedEff := r.sedEff } }

/-- `CoreModel.buildModelActions` -/
def gatherActs (T : Tables) : List Action :=
  (gullyIds T).map (gullyAct T) ++ (subIds T).filterMap (ripAct T) ++
  (subIds T).filterMap (hillAct T) ++ (subIds T).filterMap (wetAct T)

def typRank : ActType → Nat
  | .gully => 0 | .hillslope => 1 | .riparian => 2 | .wetland => 3

/-- not `Less(b, a)` for `ManagementActions.Less` = planning unit, then type string -/
def actLe (a b : Action) : Bool :=
  decide (a.pu < b.pu) || (decide (a.pu = b.pu) && decide (typRank a.typ ≤ typRank b.typ))

def puLe (a b : PU) : Bool := decide (a ≤ b)

/-- the units of the variables' attribute maps, ascending -/
def sortedUnits (T : Tables) : List PU := isort puLe (subIds T)

/-- **the scenario data crem derives from the tables** -/
def derive (T : Tables) : Data :=
  { acts := isort actLe (gatherActs T),
    sed0 := (sortedUnits T).map (fun p => (p, sedCtx T p)),
    pn0 := (sortedUnits T).map (fun p => (p, pnCtx T p)),
    dn0 := (sortedUnits T).map (fun p => (p, dnCtx T p)) }

/-- `derive` with the optional limits of the scenario (they are parameters, not table cells) -/
def deriveWithLimits (T : Tables) (L : Data) : Data :=
  { derive T with maxSed := L.maxSed, maxPN := L.maxPN, maxDN := L.maxDN, maxTN := L.maxTN,
                  maxIC := L.maxIC, maxOC := L.maxOC }

/-! ### well-formed tables -/

def nodupB : List PU → Bool
  | [] => true
  | a :: l => !l.contains a && nodupB l

/-- the hypothesis on the TABLES under which the derived data satisfies `InitConsistent`:
sub-catchment ids are pairwise distinct, and every gully lies in a listed sub-catchment.
(Neither can be dropped: see the examples in `Properties/Derive.lean`.) -/
def wellFormedTables (T : Tables) : Bool :=
  nodupB (T.subs.map (·.id)) && T.gullies.all (fun g => (T.subs.map (·.id)).contains g.unit)

def WellFormedTables (T : Tables) : Prop := wellFormedTables T = true
instance (T : Tables) : Decidable (WellFormedTables T) := by unfold WellFormedTables; infer_instance

/-- when `CoreModel.Initialise` panics instead of producing a model (observed, not needed by the
theorems): an actions row of type `Gully`, `Hillslope` or `Riparian` for a unit that is not a
sub-catchment makes the nitrogen variables create a nil attribute list which they then read
(`nil.(float64)`); a model without any action panics at `ManagementActions()[0]`. -/
def loadPanics (T : Tables) : Bool :=
  T.actions.any (fun r => (r.typ = gullyText || r.typ = hillText || r.typ = ripText) &&
                          !(T.subs.map (·.id)).contains r.unit) ||
  (gatherActs T).isEmpty

end Crem.Catchment
