import Crem.Model.Engine
/-!
# The REST engine's handlers, Go-shaped: guards first, partial operations at their use sites (property C15)

`Crem.Engine.step` (Model/Engine.lean) is a TOTAL function: every partial Go operation is fused there with the guard that
protects it into a total classifier (`classifyTable`, `classifySols` / `checkAsIsRow`, `paretoHas` with `getD`,
`decodeEntries`, the `match s.snap, s.live` of the writers).  "The handler never panics" cannot fail for such a
function, and removing a Go guard breaks nothing.  This file transcribes the same handlers THE WAY THE GO CODE IS
WRITTEN:

  * an outcome type with an explicit panic: `Go α := Except Panic α`;
  * every partial Go operation is a primitive that can answer `.error`:
      `x.(T)`                          `assertFloat64`, `attrString` (`m.Attribute(key).(string)` on an absent entry)
      `xs[i]`                          `index`, `indexInt` (Go `int` index, negative = out of range)
      `p.method()` / `p.field`, p nil  `deref`
      `panic(variableMissing(name))`   `decisionVariable`
      `colSize - 2` on a `uint`        `usub` (wraps modulo 2^64; the `index` that follows is then out of range)
  * every Go guard is its own named function (`headingIsSubCatchment`, `firstColumnGuard`, `cellGuard`,
    `solHeadingsOk`, `verifyAsIsRow`'s `colIndex >= colSize` and `asIsCellMatches`'s `isModelVariable` tests, `containsEntry`, `prevalidate`,
    the `modelSolution == nil` / `HasAttribute` tests), evaluated FIRST; the code that runs after a guard is a named
    continuation (`processRequestTable`, `solHeadingsOk`, `encodingPresentInParetoFront`, `solutionDetailOf`,
    `applyEncodings`, …) that uses the primitives.

`Proofs/EngineGo.lean` proves one lemma per guard (guard holds ⇒ the protected primitive answers `.ok`), and
`Properties/C15.lean` the theorem `stepGo_eq_step`: in every state satisfying the invariant, on every request whose CSV
facts are a table as `deriveTableFromRecords` builds it, `stepGo` answers `.ok (step …)`: no panic, and the total
spec is what the Go-shaped handlers compute.  The `example`s there run the continuations on inputs the guards reject
and get `.error`: remove a guard and the proof obligation fails.

What is NOT re-transcribed: the total parts (`derive`'s attribute bookkeeping, `join`, `applySub`, `subEntries`,
`classifyPath`, the response documents) are reused from `Crem.Engine`; the handler-level quirk variants `patchEager`
and `scenarioEager` (defects that no longer exist in the code) defer to the spec's variant; the solution pool
(property C13) has no state here, so `getSolutionDetail` is evaluated on every GET /solutions/<label> (the code skips
it on a pool hit: fewer partial operations, not more).

Rectangular tables.  `tables.baseTable` is `cells [][]interface{}` allocated by `SetColumnAndRowSize(len(records[0]),
len(records)-1)` and `Header()` is `records[0]`; `encoding/csv` never delivers a record without a field and (with
`FieldsPerRecord = 0`) rejects records of differing lengths.  So in Go a table has a non-empty header and every row has
`len(Header())` cells.  The Lean type `Csv.table header rows` can also hold ragged lists; `csvRect` is the predicate,
`reqWf` the hypothesis of the theorems (the driver builds its tables with `chunks`, always rectangular).

The last section (`JDoc`, `JsonText`, `bodyDoc`) is the JSON layer without a raw constructor.

Core Lean only (the driver links this file).
-/
namespace Crem.EngineGo
open Crem.Engine

/-! ## Outcomes -/

/-- the kinds of Go run-time panic the handlers can hit; `site` names the Go expression -/
inductive Panic
  | typeAssertion (site : String)     -- `interface conversion`: `x.(T)` on a value of another dynamic type, or on nil
  | indexOutOfRange (site : String)   -- `index out of range`
  | nilDereference (site : String)    -- `invalid memory address or nil pointer dereference`
  | explicitPanic (site : String)     -- `panic(…)` called by the code (`variableMissing`)
  deriving DecidableEq, Repr, Inhabited

abbrev Go (α : Type) := Except Panic α

deriving instance DecidableEq for Except

/-- the outcome is a panic -/
def panicked {α : Type} (x : Go α) : Bool :=
  match x with
  | .error _ => true
  | .ok _ => false

/-! ## The partial operations -/

/-- `m.Attribute(key).(string)`: `Value(key)` is nil when there is no such entry, and `nil.(string)` panics -/
def attrString {α : Type} (v : Option α) (site : String) : Go α :=
  match v with
  | some x => pure x
  | none => throw (.typeAssertion site)

/-- a method call or field access through a pointer (`m.model`, `detail`) -/
def deref {α : Type} (p : Option α) (site : String) : Go α :=
  match p with
  | some x => pure x
  | none => throw (.nilDereference site)

/-- `xs[i]` for an unsigned (or known non-negative) index -/
def index {α : Type} (xs : List α) (i : Nat) (site : String) : Go α :=
  match xs[i]? with
  | some x => pure x
  | none => throw (.indexOutOfRange site)

/-- `xs[i]` for a Go `int` index -/
def indexInt {α : Type} (xs : List α) (i : Int) (site : String) : Go α :=
  if i < 0 then throw (.indexOutOfRange site) else index xs i.toNat site

/-- `c.(float64)`: the IEEE bits of a number cell -/
def assertFloat64 (c : Cell) (site : String) : Go Nat :=
  match c with
  | .num bits _ => pure bits
  | _ => throw (.typeAssertion site)

/-- `a - b` on Go `uint` (64 bit): wraps -/
def usub (a b : Nat) : Nat := if b ≤ a then a - b else a + 2 ^ 64 - b

/-- `asIsModel.DecisionVariable(name)`: `UndoableDecisionVariables.find` ends in `panic(variableMissing(name))` -/
def decisionVariable (asIs : List (String × Nat)) (name : String) (site : String) : Go Nat :=
  match asIs.find? (fun v => v.1 = name) with
  | some v => pure v.2
  | none => throw (.explicitPanic site)

/-- a float64 is `== 0` (either zero) -/
def isZeroBits (bits : Nat) : Bool := bits = bitsZero || bits = bitsNegZero

/-! ## Tables as `deriveTableFromRecords` builds them -/

/-- non-empty header, every row as long as the header -/
def csvRect : Csv → Bool
  | .error => true
  | .table header rows => !header.isEmpty && rows.all (fun row => row.length == header.length)

/-- the request's CSV facts (if any) are a table as the engine's reader builds it -/
def reqWf (r : Request) : Bool :=
  match r.facts with
  | .csv c => csvRect c
  | _ => true

/-- what holds of an accepted solution-summary table: at least two columns, every row `colSize` cells -/
def tableWf (t : SolTable) : Bool := decide (2 ≤ t.colSize) && t.rows.all (fun row => row.length == t.colSize)

/-! ## `deriveExtraModelAttributes` (MuxSupport.go) -/

/-- the row loop of `encodingPresentInSolutionSummaryParetoFront` (no early exit in the code) -/
def paretoLoop (encodingIndex : Nat) (enc : String) : List (List String) → Go Bool
  | [] => pure false
  | row :: rest => do
    let c ← index row encodingIndex "encodingPresentInSolutionSummaryParetoFront: CellString(colSize-2,row)"
    let found ← paretoLoop encodingIndex enc rest
    pure (c == enc || found)

/-- `encodingPresentInSolutionSummaryParetoFront`: `encodingIndex = colSize - 2` on a `uint`, rows 1.. .
NO GUARD in this function: what protects it is that `deriveSolutionsRequestTable` rejected one-column tables
when the table was accepted (`tableWf`, an invariant of the state). -/
def encodingPresentInParetoFront (t : SolTable) (enc : String) : Go Bool :=
  paretoLoop (usub t.colSize 2) enc (t.rows.drop 1)

/-- `deriveExtraModelAttributes`: `Crem.Engine.derive` with the solution-table look-up as the code does it -/
def deriveGo (q : Quirks) (W : World) (tbl : Option SolTable) (m : Mdl) : Go Mdl := do
  let e := encodeStr m.active
  let a1 := replaceAttr q m.attrs "Encoding" (strTok e)
  let a2 ← match tbl with                                 -- `if m.solutionSetTable == nil { return }`
    | none => pure a1
    | some t => do
      let found ← encodingPresentInParetoFront t e
      pure (replaceAttr q a1 "ParetoFrontMember" (boolTok found))
  let v := W.valid m.u.key m.active
  let a3 := replaceAttr q a2 "ValidAgainstScenario" (boolTok v)
  let a4 := if v then removeAttr q a3 "ValidationErrors" else replaceAttr q a3 "ValidationErrors" veTok
  pure { m with attrs := a4 }

/-! ## GET handlers: `m.Attribute(scenarioNameKey).(string)` after the `modelSolution == nil` / `HasAttribute` guard -/

/-- GET /api/v1/scenario: guard `!HasAttribute(scenarioTextKey)`; then `Attribute(scenarioTextKey).(string)` (the very
entry the guard asked for) and, in `logScenarioGetResponse`, `Attribute(scenarioNameKey).(string)` — which the guard
did NOT ask for: safe only because the two entries are always set together (invariant). -/
def getScenarioGo (q : Quirks) (s : State) : Go (Response × State) :=
  if s.scenText.isNone then pure (err 404, s)
  else do
    let t ← attrString s.scenText "buildScenarioGetResponse: m.Attribute(scenarioTextKey).(string)"
    let _ ← attrString s.scenName "logScenarioGetResponse: m.Attribute(scenarioNameKey).(string)"
    pure (ok (textBody q .toml t), s)

/-- GET /api/v1/solutions -/
def getSolutionsGo (q : Quirks) (s : State) : Go (Response × State) :=
  if s.scenText.isNone then pure (err 404, s)
  else if s.solText.isNone then pure (err 404, s)
  else do
    let t ← attrString s.solText "buildSolutionsGetResponse: m.Attribute(solutionsTextKey).(string)"
    let _ ← attrString s.scenName "logSolutionsGetResponse: m.Attribute(scenarioNameKey).(string)"
    pure (ok (textBody q .csv t), s)

/-- GET /api/v1/model: guard `m.modelSolution == nil`; then `m.Attribute(scenarioNameKey).(string)`
(needs: a snapshot exists only while a scenario name is stored) -/
def getModelGo (s : State) : Go (Response × State) :=
  match s.snap with
  | none => pure (err 404, s)
  | some m => do
    let _ ← attrString s.scenName "v1GetModelHandler: m.Attribute(scenarioNameKey).(string)"
    pure (ok (.model m), s)

/-- GET /api/v1/model/actions/active -/
def getActiveGo (s : State) : Go (Response × State) :=
  match s.snap with
  | none => pure (err 404, s)
  | some m => do
    let _ ← attrString s.scenName "writeActiveActionResponse: m.Attribute(scenarioNameKey).(string)"
    pure (ok (.active m.u m.active), s)

/-- GET /api/v1/model/actions/applicable -/
def getApplicableGo (s : State) : Go (Response × State) :=
  match s.snap with
  | none => pure (err 404, s)
  | some m => do
    let _ ← attrString s.scenName "logApplicableActionsMessage: m.Attribute(scenarioNameKey).(string)"
    pure (ok (.applicable m.u), s)

/-- GET /api/v1/model/subcatchment/<id>: `toPlanningUnitId` RETURNS `Atoi`'s error (no panic left there); the map
look-ups of `deriveResponseAttributesFor` are total in Go (a missing key is a nil slice) -/
def getSubGo (s : State) (id : String) : Go (Response × State) :=
  match s.snap with
  | none => pure (err 404, s)
  | some m =>
    match atoi? id with
    | none => pure (err 404, s)
    | some pu =>
      if m.u.pus.contains pu then do
        let _ ← attrString s.scenName "logSubcatchmentStateMessage: m.Attribute(scenarioNameKey).(string)"
        pure (ok (.sub (subEntries m pu)), s)
      else pure (err 404, s)

/-! ## GET /api/v1/solutions/<label> (v1solutionHandler.go) -/

/-- `solutionSetTableContainsEntry`: `CellString(0,row) == label`, first hit returns -/
def containsEntry (label : String) : List (List String) → Go Bool
  | [] => pure false
  | row :: rest => do
    let c ← index row 0 "solutionSetTableContainsEntry: CellString(0,row)"
    if c == label then pure true else containsEntry label rest

structure SolutionDetail where
  label : String
  encoding : String
  summary : String
  deriving DecidableEq, Repr

/-- the row loop of `getSolutionDetail`; falls off the end with `return nil` -/
def detailLoop (label : String) (encodingIndex summaryIndex : Nat) : List (List String) → Go (Option SolutionDetail)
  | [] => pure none
  | row :: rest => do
    let c ← index row 0 "getSolutionDetail: CellString(0,row)"
    if c == label then do
      let e ← index row encodingIndex "getSolutionDetail: CellString(colSize-2,row)"
      let sm ← index row summaryIndex "getSolutionDetail: CellString(colSize-1,row)"
      pure (some ⟨label, e, sm⟩)
    else detailLoop label encodingIndex summaryIndex rest

/-- `getSolutionDetail` (a `*solutionDetail`, nil when no row carries the label) -/
def getSolutionDetail (t : SolTable) (label : String) : Go (Option SolutionDetail) :=
  detailLoop label (usub t.colSize 2) (usub t.colSize 1) t.rows

/-- what runs after the containment guard: `detail := m.getSolutionDetail(label)`, then `detail.encoding` -/
def solutionDetailOf (t : SolTable) (label : String) : Go SolutionDetail := do
  let detail ← getSolutionDetail t label
  deref detail "v1GetSolutionHandler: detail.encoding"

def getSolutionGo (s : State) (label : String) : Go (Response × State) :=
  if s.scenName.isNone then pure (err 404, s)             -- `!m.HasAttribute(scenarioNameKey)`
  else
    match s.table with
    | none => pure (err 404, s)                           -- `m.solutionSetTable == nil`
    | some t => do
      let found ← containsEntry label t.rows
      if !found then pure (err 404, s)                    -- `!m.solutionSetTableContainsEntry(label)`
      else do
        let _ ← solutionDetailOf t label
        let _ ← attrString s.scenName "v1GetSolutionHandler: m.Attribute(scenarioNameKey).(string)"
        pure (ok (.solution label), s)

/-! ## POST /api/v1/scenario -/

/-- no request-driven partial operation of its own (`deriveInitialisedCatchmentModel` recovers from the model's
panics); `rememberModelState` runs `deriveExtraModelAttributes`, hence `encodingPresentInParetoFront` when a solution
table is loaded.  The `scenarioEager` variant defers to the spec. -/
def postScenarioGo (q : Quirks) (W : World) (s : State) (r : Request) : Go (Response × State) :=
  if r.ctype ≠ tomlMime then pure (err 405, s)
  else
    match r.facts with
    | .scen (.ok name u) => do
      let m ← deriveGo q W s.table { u := u, id := name, active := allInactive u,
                                     attrs := [⟨"ModelSuppliedPlanningUnitName", strTok "SubCatchment"⟩] }
      let m := if q.poolAlias && s.table.isSome then { m with attrs := replaceAll m.attrs "ParetoFrontMember" (boolTok false) } else m
      pure (ok .success, { s with scenText := some r.text, scenName := some name, live := some m, snap := some m })
    | _ => pure (postScenario q W s r)                    -- 400s (and the `scenarioEager` variant)

/-! ## POST /api/v1/solutions (v1solutionSetHandler.go) -/

/-- the three heading tests of `deriveSolutionsRequestTable`, which run AFTER the guard `headerLength < 2`:
`Header()[0]`, `Header()[headerLength-2]`, `Header()[headerLength-1]` (`int` arithmetic) -/
def solHeadingsOk (header : List String) : Go Bool := do
  let L : Int := header.length
  let h0 ← index header 0 "deriveSolutionsRequestTable: Header()[0]"
  let ha ← indexInt header (L - 2) "deriveSolutionsRequestTable: Header()[headerLength-2]"
  let hs ← indexInt header (L - 1) "deriveSolutionsRequestTable: Header()[headerLength-1]"
  pure (h0 == "Solution" && ha == "Actions" && hs == "Summary")

/-- what runs after the guard `!isModelVariable || !isNumber`: `asIsModel.DecisionVariable(name).Value()` and the
comparison `tableValue != modelValue` -/
def asIsValueMatches (asIs : List (String × Nat)) (name : String) (tableValue : Nat) : Go Bool := do
  let modelValue ← decisionVariable asIs name "verifySolutionSummaryMatchesScenario: asIsModel.DecisionVariable(name)"
  pure (floatEq tableValue modelValue)

/-- what runs after the guard `colIndex >= colSize`: `Header()[colIndex]`, `Cell(colIndex,rowIndex)`, the comma-ok
`.(float64)`, the `NameMappedVariables` look-up (the guard of `DecisionVariable`) -/
def asIsCellMatches (asIs : List (String × Nat)) (header : List String) (row : List Cell) (col : Nat) : Go Bool := do
  let name ← index header col "verifySolutionSummaryMatchesScenario: Header()[colIndex]"
  let cell ← index row col "verifySolutionSummaryMatchesScenario: Cell(colIndex,rowIndex)"
  let (tableValue, isNumber) := match cell with           -- `tableValue, isNumber := ….(float64)`: comma-ok, no panic
    | .num bits _ => (bits, true)
    | _ => (0, false)
  let isModelVariable := asIs.any (fun v => v.1 = name)
  if !isModelVariable || !isNumber then pure false        -- `return mismatchError`
  else asIsValueMatches asIs name tableValue

/-- one "As-Is" row of `verifySolutionSummaryMatchesScenario`, columns `col ..` for `fuel` more decision variables
(`for colIndex := uint(1); colIndex <= uint(numberOfDecisionVariables)`); `false` = `mismatchError` -/
def verifyAsIsRow (asIs : List (String × Nat)) (header : List String) (row : List Cell) : Nat → Nat → Go Bool
  | 0, _ => pure true
  | fuel + 1, col =>
    if col ≥ header.length then pure false                -- `if colIndex >= colSize { return mismatchError }`
    else do
      let fine ← asIsCellMatches asIs header row col
      if !fine then pure false else verifyAsIsRow asIs header row fuel (col + 1)

/-- the row loop of `verifySolutionSummaryMatchesScenario` (`CellString(0,row) == "As-Is"`) -/
def verifySummary (asIs : List (String × Nat)) (header : List String) : List (List Cell) → Go Bool
  | [] => pure true
  | row :: rest => do
    let label ← index row 0 "verifySolutionSummaryMatchesScenario: CellString(0,rowIndex)"
    if label.str = "As-Is" then do
      let fine ← verifyAsIsRow asIs header row asIs.length 1
      if !fine then pure false else verifySummary asIs header rest
    else verifySummary asIs header rest

/-- what runs once `deriveSolutionsRequestTable` has returned a table: `verifySolutionSummaryMatchesScenario` (which
starts with `m.model.DeepClone()` — `m.model` is NOT what the handler's guard `HasAttribute(scenarioTextKey)` asked
for), `updateSolutionSummary` (`Attribute(scenarioNameKey).(string)`; `if m.model != nil && m.modelSolution != nil`
re-derive), the response. -/
def solutionsAccepted (q : Quirks) (W : World) (s : State) (r : Request) (header : List String) (rows : List (List Cell)) :
    Go (Response × State) := do
  let m ← deref s.live "verifySolutionSummaryMatchesScenario: m.model.DeepClone()"
  let fine ← verifySummary m.u.asIs header rows
  if !fine then pure (err 400, s)
  else do
    let _ ← attrString s.scenName "rememberSolutionsAttributeState: m.Attribute(scenarioNameKey).(string)"
    let t : SolTable := { colSize := header.length, rows := rows.map (fun row => row.map Cell.str) }
    let s1 : State := { s with solText := some r.text, table := some t }
    match s.snap with                                     -- `m.model != nil` holds here (dereferenced above)
    | none => pure (ok .success, s1)
    | some _ =>
      if q.solLazy then pure (ok .success, s1)
      else do
        let m' ← deriveGo q W (some t) m
        pure (ok .success, { s1 with live := some m', snap := some m' })

def postSolutionsGo (q : Quirks) (W : World) (s : State) (r : Request) : Go (Response × State) :=
  if s.scenText.isNone then pure (err 405, s)             -- `!m.HasAttribute(scenarioTextKey)`
  else if r.ctype ≠ csvMime then pure (err 415, s)
  else
    match r.facts with
    | .csv (.table header rows) =>
      if header.length < 2 then pure (err 400, s)         -- guard `headerLength < 2`
      else do
        let headingsFine ← solHeadingsOk header
        -- the cell loop indexes inside its own bounds (`colIndex < colSize`, `rowIndex < rowSize`) and type-SWITCHES
        if !headingsFine || !((rows.drop 1).all (solRowOk header)) then pure (err 400, s)
        else solutionsAccepted q W s r header rows
    | _ => pure (err 400, s)                              -- the CSV reader failed / no record

/-! ## PATCH /api/v1/model (v1modelHandler.go) -/

/-- the pre-validation loop: comma-ok assertion, then `modelCompressor.Compress(m.model).Decode(encoding)`
(`m.model` dereferenced only when an `Encoding` text is met); `false` = answered 400 -/
def prevalidate (live : Option Mdl) : List PatchEntry → Go Bool
  | [] => pure true
  | e :: es =>
    match e.enc with
    | .notEncoding => prevalidate live es                 -- `continue`
    | .nonString => pure false                            -- `encoding, encodingIsText := entry.Value.(string)`: comma-ok
    | .text t => do
      let m ← deref live "v1PatchModelHandler: modelCompressor.Compress(m.model)"
      match Crem.BoolArchive.decode m.u.acts.length t.toList with
      | .error _ => pure false
      | .ok _ => prevalidate live es

/-- how the second loop ended -/
structure PatchLoop where
  fine : Bool                     -- `false`: `updateModelWithEncoding` failed → the second-loop 400
  live : Mdl                      -- `m.model`
  snap : Option Mdl               -- `m.modelSolution`
  applied : Bool                  -- `encodingApplied`
  deriving DecidableEq, Repr

/-- the second loop: `encoding := entry.Value.(string)` UNCHECKED, `updateModelWithEncoding` (clone, decode,
decompress, derive, snapshot) whose failure answers 400 with the model already changed -/
def applyEncodings (q : Quirks) (W : World) (tbl : Option SolTable) : Mdl → Option Mdl → Bool → List PatchEntry → Go PatchLoop
  | m, snap, applied, [] => pure ⟨true, m, snap, applied⟩
  | m, snap, applied, e :: es =>
    match e.enc with
    | .notEncoding => applyEncodings q W tbl m snap applied es
    | .nonString => throw (.typeAssertion "v1PatchModelHandler: entry.Value.(string)")
    | .text t =>
      match Crem.BoolArchive.decode m.u.acts.length t.toList with
      | .error _ => pure ⟨false, m, snap, applied⟩
      | .ok set => do
        let m' ← deriveGo q W tbl { m with active := set }
        applyEncodings q W tbl m' (some m') true es

/-- what runs after the pre-validation loop: `m.model.JoiningAttributes`, the second loop, the refresh -/
def patchApply (q : Quirks) (W : World) (s : State) (entries : List PatchEntry) : Go (Response × State) := do
  let m ← deref s.live "v1PatchModelHandler: m.model.JoiningAttributes"
  let incoming := entries.map (fun e => (⟨e.name, e.val⟩ : Attr))
  let joined : Mdl := { m with attrs := join q m.attrs incoming }
  let l ← applyEncodings q W s.table joined s.snap false entries
  if !l.fine then pure (err 400, { s with live := some l.live, snap := l.snap })      -- the second-loop 400
  else if l.applied then pure (ok .success, { s with live := some l.live, snap := l.snap })
  else if q.patchNoRefresh then pure (ok .success, { s with live := some l.live })
  else do
    let m' ← deriveGo q W s.table l.live
    pure (ok .success, { s with live := some m', snap := some m' })

def patchModelGo (q : Quirks) (W : World) (s : State) (r : Request) : Go (Response × State) :=
  if q.patchEager then pure (patchModel q W s r)          -- the variant without pre-validation: the spec's transcription
  else
    match s.snap with
    | none => pure (err 404, s)                           -- `m.modelSolution == nil`
    | some _ =>
      if r.ctype ≠ jsonMime then pure (err 415, s)
      else
        match r.facts with
        | .patch (some entries) => do
          let fine ← prevalidate s.live entries
          if !fine then pure (err 400, s) else patchApply q W s entries
        | _ => pure (err 400, s)                          -- `json.Unmarshal` failed

/-! ## PUT /api/v1/model/actions/active (v1activeActionslHandler.go) -/

/-- `headingsTable.Header()[0] != "SubCatchment"` -/
def headingIsSubCatchment (header : List String) : Go Bool := do
  let h0 ← index header 0 "deriveSolutionTable: Header()[0]"
  pure (h0 == "SubCatchment")

/-- `if _, isNumber := Cell(0,row).(float64); !isNumber && colSize > 1 { error }` for every row -/
def firstColumnGuard (header : List String) (rows : List (List Cell)) : Bool :=
  rows.all (fun row => firstIsNum row || !decide (header.length > 1))

/-- the type switch over columns 1.. of every row: a float64 equal to 0 or 1, anything else is an error -/
def cellGuard (rows : List (List Cell)) : Bool :=
  rows.all (fun row => (row.drop 1).all isFlagCell)

/-- `deriveSuppliedActionState`: `headingsTable.CellFloat64(colIndex, rowIndex) == 0` -/
def deriveSuppliedActionState (row : List Cell) (col : Nat) : Go Bool := do
  let c ← index row col "deriveSuppliedActionState: cells[row][col]"
  let f ← assertFloat64 c "deriveSuppliedActionState: CellFloat64(colIndex,rowIndex).(float64)"
  pure !(isZeroBits f)

/-- the action loop of `processTableCell`: `CellFloat64(0,row)` and `Header()[col]` are evaluated once PER MODEL
ACTION (not at all for a model without actions); `planningunit.Id(rawPlanningUnit)` is `floatToId` -/
def forActions (header : List String) (row : List Cell) (col : Nat) (state : Bool) :
    List (Nat × String) → ActiveSet → Go ActiveSet
  | a :: as, x :: xs => do
    let c0 ← index row 0 "processTableCell: cells[row][0]"
    let rawPlanningUnit ← assertFloat64 c0 "processTableCell: CellFloat64(0,rowIndex).(float64)"
    let rawType ← index header col "processTableCell: Header()[colIndex]"
    let x' := if floatToId rawPlanningUnit = some a.1 ∧ a.2 = rawType then state else x
    let xs' ← forActions header row col state as xs
    pure (x' :: xs')
  | _, _ => pure []

def processTableCell (u : Universe) (header : List String) (row : List Cell) (col : Nat) (set : ActiveSet) : Go ActiveSet := do
  let state ← deriveSuppliedActionState row col
  forActions header row col state u.acts set

/-- `for colIndex := uint(1); colIndex < colSize; colIndex++` -/
def forCols (u : Universe) (header : List String) (row : List Cell) : List Nat → ActiveSet → Go ActiveSet
  | [], set => pure set
  | col :: cols, set => do
    let set' ← processTableCell u header row col set
    forCols u header row cols set'

/-- `processRequestTable`'s loops: rows in order, columns 1 .. colSize-1 in order -/
def processRequestTable (u : Universe) (header : List String) : List (List Cell) → ActiveSet → Go ActiveSet
  | [], set => pure set
  | row :: rows, set => do
    let set' ← forCols u header row (List.range' 1 (header.length - 1)) set
    processRequestTable u header rows set'

/-- what runs once `deriveSolutionTable` has returned a table: `processRequestTable` (with
`deriveExtraModelAttributes`), `updateModelSolution`, the response -/
def activeAccepted (q : Quirks) (W : World) (s : State) (header : List String) (rows : List (List Cell)) :
    Go (Response × State) := do
  let m ← deref s.live "processRequestTable: m.model.ManagementActions()"
  let set ← processRequestTable m.u header rows m.active
  let m' ← deriveGo q W s.table { m with active := set }
  pure (ok .success, { s with live := some m', snap := some m' })

def putActiveGo (q : Quirks) (W : World) (s : State) (r : Request) : Go (Response × State) :=
  match s.snap with
  | none => pure (err 404, s)                             -- `m.modelSolution == nil`
  | some _ =>
    if r.ctype ≠ csvMime then pure (err 415, s)
    else
      match r.facts with
      | .csv (.table header rows) => do
        let headingFine ← headingIsSubCatchment header
        if !headingFine then pure (err 400, s)
        else if !(firstColumnGuard header rows && cellGuard rows) then pure (err 400, s)   -- `updateErrors.Size() > 0`
        else activeAccepted q W s header rows
      | _ => pure (err 400, s)                            -- the CSV reader failed / no record

/-! ## PUT /api/v1/model/subcatchment/<id> (v1subcatchmentHandler.go)

At HEAD `syntaxCheckPostedAttributes` formats the offending value with `%v` (no `.(string)` left) and compares
`entry.Value` with the string constants by interface `!=` (dynamic types differ ⇒ unequal, no panic); `toPlanningUnitId`
returns `Atoi`'s error.  The partial operations left are `m.Attribute(scenarioNameKey).(string)` in
`processSubcatchmentPost` and the dereferences of `m.model` in `updateModel` — neither is what the handler's guard
(`m.modelSolution == nil`) asked for. -/

def subAccepted (q : Quirks) (W : World) (s : State) (pu : Nat) (entries : List SubEntry) : Go (Response × State) := do
  let m ← deref s.live "updateModel: m.model.ManagementActions()"
  if !subSupported m.u pu entries then pure (err 400, s)
  else do
    let moved : Mdl := { m with active := applySub m.u pu entries m.active }
    let m' ← deriveGo q W s.table moved
    if q.subStale then pure (ok .success, { s with live := some m', snap := some moved })
    else pure (ok .success, { s with live := some m', snap := some m' })

def putSubGo (q : Quirks) (W : World) (s : State) (r : Request) (id : String) : Go (Response × State) :=
  match s.snap with
  | none => pure (err 404, s)                             -- `m.modelSolution == nil`
  | some sn =>
    match atoi? id with
    | none => pure (err 404, s)                           -- `toPlanningUnitId`: `Atoi` failed
    | some pu =>
      if !sn.u.pus.contains pu then pure (err 404, s)     -- `!m.modelContains(subCatchment)`
      else do
        let _ ← attrString s.scenName "processSubcatchmentPost: m.Attribute(scenarioNameKey).(string)"
        match r.facts with
        | .sub (some entries) =>
          if !subSyntaxOk entries then pure (err 400, s)
          else subAccepted q W s pu entries
        | _ => pure (err 400, s)                          -- `json.Unmarshal` failed

/-! ## The multiplexer -/

/-- `step`, Go-shaped: the same dispatch, every handler with its guards and partial operations -/
def stepGo (q : Quirks) (W : World) (s : State) (r : Request) : Go (Response × State) :=
  match classifyPath r.path with
  | .other => pure (err 404, s)
  | .root => if r.method = .get then pure (ok .status, s) else pure (err 405, s)
  | .scenario =>
    match r.method with
    | .post => postScenarioGo q W s r
    | .get => getScenarioGo q s
    | _ => pure (err 405, s)
  | .solutions =>
    match r.method with
    | .post => postSolutionsGo q W s r
    | .get => getSolutionsGo q s
    | _ => pure (err 405, s)
  | .solution label =>
    match r.method with
    | .get => getSolutionGo s label
    | _ => pure (err 405, s)
  | .model =>
    match r.method with
    | .get => getModelGo s
    | .patch => patchModelGo q W s r
    | _ => pure (err 405, s)
  | .active =>
    match r.method with
    | .put => putActiveGo q W s r
    | .get => getActiveGo s
    | _ => pure (err 405, s)
  | .applicable =>
    match r.method with
    | .get => getApplicableGo s
    | _ => pure (err 405, s)
  | .sub id =>
    match r.method with
    | .get => getSubGo s id
    | .put => putSubGo q W s r id
    | _ => pure (err 405, s)

/-- run a request sequence; the first panic ends it -/
def runGo (q : Quirks) (W : World) : State → List Request → Go (List Response × State)
  | s, [] => pure ([], s)
  | s, r :: rs => do
    let (resp, s') ← stepGo q W s r
    let (resps, s'') ← runGo q W s' rs
    pure (resp :: resps, s'')

/-! ## JSON documents without a raw constructor (C15: "syntactically valid JSON")

`Crem.Engine.JVal` has a constructor `raw` holding any string, so "the body is a `JVal`" says nothing about the rendered
text.  `JDoc` is a parsed-JSON value type WITHOUT such a constructor; `JDoc.render` is total; `JsonText` is the JSON
value grammar of RFC 8259 (without insignificant white space) as an inductive predicate on character lists;
`render_valid` (Proofs/EngineGo.lean) proves `JsonText d.render` for every `d`.

The two parts of a response the engine spec keeps abstract — the decision-variable block of a model (`repr(active
set)`, property C01) and the VALUES of attributes (`Tok`, whatever JSON value the client posted or the engine derived)
— enter `Body.toDoc` through two interpretation functions `dv`, `av` into `JDoc`: the theorem holds for EVERY
interpretation, i.e. what is proved is the document structure, the escaping of every string the engine writes (names,
ids, labels, planning-unit keys) and the numerals, given that those two parts are JSON values at all (in Go they are
what `json.Marshal` makes of `interface{}` values and structs).  This layer is NOT compared with the bytes the Go
engine writes (the harness checks those with `json.Valid`); it shows that the response TYPE of the spec can only be
rendered to JSON. -/

inductive JDoc
  | null
  | bool (b : Bool)
  | num (mantissa exp10 : Int)    -- mantissa × 10^exp10 (every finite float64 is such a number)
  | str (s : String)
  | arr (xs : List JDoc)
  | obj (kvs : List (String × JDoc))
  deriving Repr, Inhabited

def hexDig (n : Nat) : Char := if n < 10 then Char.ofNat (48 + n) else Char.ofNat (87 + n)

def isHex (c : Char) : Bool :=
  ('0' ≤ c && c ≤ '9') || ('a' ≤ c && c ≤ 'f') || ('A' ≤ c && c ≤ 'F')

/-- JSON string escaping of one character: `"`, `\`, and the control characters (as `\u00XX`) -/
def escChars (c : Char) : List Char :=
  if c = '"' then ['\\', '"']
  else if c = '\\' then ['\\', '\\']
  else if c.toNat < 0x20 then ['\\', 'u', '0', '0', hexDig (c.toNat / 16), hexDig (c.toNat % 16)]
  else [c]

def escAll : List Char → List Char
  | [] => []
  | c :: cs => escChars c ++ escAll cs

def quoteChars (s : String) : List Char := '"' :: (escAll s.toList ++ ['"'])

def intChars : Int → List Char
  | .ofNat n => Nat.toDigits 10 n
  | .negSucc n => '-' :: Nat.toDigits 10 (n + 1)

mutual
  def JDoc.render : JDoc → List Char
    | .null => ['n', 'u', 'l', 'l']
    | .bool true => ['t', 'r', 'u', 'e']
    | .bool false => ['f', 'a', 'l', 's', 'e']
    | .num m e => intChars m ++ 'e' :: intChars e
    | .str s => quoteChars s
    | .arr xs => '[' :: (renderElems xs ++ [']'])
    | .obj kvs => '{' :: (renderMembers kvs ++ ['}'])
  def renderElems : List JDoc → List Char
    | [] => []
    | [x] => x.render
    | x :: y :: rest => x.render ++ ',' :: renderElems (y :: rest)
  def renderMembers : List (String × JDoc) → List Char
    | [] => []
    | [(k, v)] => quoteChars k ++ ':' :: v.render
    | (k, v) :: kv :: rest => quoteChars k ++ ':' :: (v.render ++ ',' :: renderMembers (kv :: rest))
end

/-- the rendered document as a string -/
def JDoc.text (d : JDoc) : String := String.ofList d.render

/-- the inside of a JSON string (RFC 8259 §7): unescaped characters other than `"`, `\` and controls; two-character
escapes; `\uXXXX` -/
inductive JChars : List Char → Prop
  | nil : JChars []
  | plain {c : Char} {cs : List Char} : c ≠ '"' → c ≠ '\\' → 0x20 ≤ c.toNat → JChars cs → JChars (c :: cs)
  | esc {e : Char} {cs : List Char} : e ∈ ['"', '\\', '/', 'b', 'f', 'n', 'r', 't'] → JChars cs → JChars ('\\' :: e :: cs)
  | uni {a b c d : Char} {cs : List Char} : isHex a = true → isHex b = true → isHex c = true → isHex d = true →
      JChars cs → JChars ('\\' :: 'u' :: a :: b :: c :: d :: cs)

/-- `0` or a non-zero digit followed by digits (RFC 8259 §6 `int` without the sign) -/
def JNat (cs : List Char) : Prop :=
  cs ≠ [] ∧ (∀ c ∈ cs, c.isDigit = true) ∧ (cs.head? = some '0' → cs = ['0'])

/-- `-`? `int` -/
def JInt (cs : List Char) : Prop := JNat cs ∨ ∃ ds, cs = '-' :: ds ∧ JNat ds

/-- the digits of an exponent, with an optional `-` (leading zeros are allowed there) -/
def JExpDigits (cs : List Char) : Prop :=
  (cs ≠ [] ∧ ∀ c ∈ cs, c.isDigit = true) ∨ ∃ ds, cs = '-' :: ds ∧ ds ≠ [] ∧ ∀ c ∈ ds, c.isDigit = true

/-- a JSON number of the shape `int exp` -/
def JNumber (cs : List Char) : Prop := ∃ m e, cs = m ++ 'e' :: e ∧ JInt m ∧ JExpDigits e

mutual
  /-- a JSON value (RFC 8259 §3–§7), no insignificant white space -/
  inductive JsonText : List Char → Prop
    | null : JsonText ['n', 'u', 'l', 'l']
    | true : JsonText ['t', 'r', 'u', 'e']
    | false : JsonText ['f', 'a', 'l', 's', 'e']
    | num {cs : List Char} : JNumber cs → JsonText cs
    | str {cs : List Char} : JChars cs → JsonText ('"' :: (cs ++ ['"']))
    | arrEmpty : JsonText ['[', ']']
    | arr {cs : List Char} : JsonElems cs → JsonText ('[' :: (cs ++ [']']))
    | objEmpty : JsonText ['{', '}']
    | obj {cs : List Char} : JsonMembers cs → JsonText ('{' :: (cs ++ ['}']))
  /-- `value (, value)*` -/
  inductive JsonElems : List Char → Prop
    | one {cs : List Char} : JsonText cs → JsonElems cs
    | cons {a b : List Char} : JsonText a → JsonElems b → JsonElems (a ++ ',' :: b)
  /-- `string : value (, string : value)*` -/
  inductive JsonMembers : List Char → Prop
    | one {k v : List Char} : JChars k → JsonText v → JsonMembers ('"' :: (k ++ ['"']) ++ ':' :: v)
    | cons {k v b : List Char} : JChars k → JsonText v → JsonMembers b →
        JsonMembers ('"' :: (k ++ ['"']) ++ ':' :: (v ++ ',' :: b))
end

/-- `rest.MessageResponse{Type, Message, Time}`; message and time texts are not modelled (any string is escaped) -/
def messageDocOf (type : String) : JDoc :=
  .obj [("Type", .str type), ("Message", .str "…"), ("Time", .str "…")]

def attrsDocOf (av : Tok → JDoc) (as : Attrs) : JDoc :=
  .arr (as.map (fun a => .obj [("Name", .str a.name), ("Value", av a.val)]))

def activeDocOf (u : Universe) (set : ActiveSet) : JDoc :=
  .obj (u.pus.filterMap (fun pu =>
    let tys := ((u.acts.zip set).filter (fun (ab : (Nat × String) × Bool) => ab.1.1 = pu ∧ ab.2)).map (fun ab => JDoc.str ab.1.2)
    if tys.isEmpty then none else some (toString pu, JDoc.arr tys)))

def applicableDocOf (u : Universe) : JDoc :=
  .obj (u.pus.map (fun pu =>
    (toString pu, JDoc.arr ((u.acts.filter (fun a => a.1 = pu)).map (fun a => JDoc.str a.2)))))

/-- the JSON document of a body (as `Crem.Engine.Body.toJson`, without `raw`); `none` exactly for the two text
resources.  `dv`: the decision-variable block of a model; `av`: the value of an attribute token. -/
def bodyDoc (dv : Universe → ActiveSet → JDoc) (av : Tok → JDoc) : Body → Option JDoc
  | .success => some (messageDocOf "SUCCESS")
  | .error => some (messageDocOf "ERROR")
  | .text _ _ _ => none
  | .model m => some (.obj [("Id", .str m.id), ("DecisionVariables", dv m.u m.active),
      ("ActiveManagementActions", activeDocOf m.u m.active), ("Attributes", attrsDocOf av m.attrs)])
  | .active u set => some (.obj [("ActiveManagementActions", activeDocOf u set)])
  | .applicable u => some (.obj [("ApplicableActions", applicableDocOf u)])
  | .sub entries => some (.arr (entries.map (fun e =>
      .obj [("Name", .str e.1), ("Value", .str (if e.2 then "Active" else "Inactive"))])))
  | .solution label => some (.obj [("Id", .str label)])
  | .status => some (.obj [("ServiceName", .str "…"), ("Version", .str "…"), ("Status", .str "…"), ("Time", .str "…")])
  | .adminStatus d => some (.obj [("ServiceName", .str "…"), ("Version", .str "…"), ("Status", .str (statusWord d)), ("Time", .str "…")])

end Crem.EngineGo
