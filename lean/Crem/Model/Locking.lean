/-!
# One mutex around request handling (property C16)

Go code modelled (after the repair of D14; before it there is no lock at all)
  internal/pkg/server/rest/Mux.go   `MuxImpl.ServeHTTP`: `requestLock.Lock(); defer requestLock.Unlock()`
                                    around logging, dispatch and the handler, including writing the response body
  net/http                          every connection is served on its own goroutine

The model.  Client threads (one per connection goroutine) each have a program: the list of requests they send,
one after the other.  A request handler is `Handler S L R`: thread-local state `L` (the request, locals of the
handler, the response being built), a local state `pre` computed before the lock is requested (net/http reading
the request: no shared state involved), a list of micro-steps `L × S → L × S` executed inside the critical
section — each one an atomic access to the shared engine state `S` as far as the model is concerned — and the
response `resp : L → R` produced from the final local state after the lock is released (the bytes are already in
the connection's buffer; flushing them touches nothing shared).

`move c t` lets thread `t` take its next micro-step; a thread that needs the mutex while another holds it does
not move.  A schedule is any list of thread numbers: every interleaving the runtime can produce at micro-step
granularity.  Nothing in `move` checks that a thread inside its critical section holds the lock — that, and
that at most one thread is inside, is the first half of the invariant (`Proofs/Locking.lean`).

LIMITATION — mutual exclusion is built into `move`.  The shared state is touched only by a thread in phase
`running`, and `running` is entered only from `arrived` by taking the FREE lock.  An access to shared state that
is not under the lock (a handler that forgets the lock, a second lock, a write from outside `ServeHTTP`) is not
expressible in this model, so no theorem about it says that the code synchronises its accesses.  That the code
has the shape the model assumes is a structural fact extracted from the Go source on every run (`engine-facts`:
`ServeHTTP` locks first and unlocks by `defer`, no `go` statement in the handlers), and the race detector is
run over the real server (`engine-conc`); the property's clause "never read or written unsynchronised" rests
on those two, not on Lean.  What the theorems do establish: GIVEN that shape, every interleaving of the
micro-steps is equivalent to running the same micro-steps request by request in lock-acquisition order.

What else is *not* modelled: the Go memory model (that a mutex release/acquire pair makes the holder's writes
visible to the next holder is `sync.Mutex`'s documented guarantee, trusted), the scheduler's fairness
(irrelevant for safety), panics inside a handler, and adaptive clients (a client's program `prog t` is a list
fixed up front; its next request does not depend on earlier answers).

Lock placement.  In the Go code net/http has read the request line and headers before `ServeHTTP` runs, but
the handler reads the request BODY and writes the response inside the critical section; here everything read
from the request is `pre` (before the lock) and delivery (`responding → idle`) is after the release.  Neither
touches shared state.  Reading the body inside the lock only removes interleavings.  Writing the response
inside the lock means a real client may see its answer slightly BEFORE the lock is released, an order of
events the model does not have; the request was logged at acquisition, earlier still, so the real-time
argument (`real_time_order`) does not depend on it, but it is proved for the model's order of events only.

Core Lean only.
-/
namespace Crem.Locking

variable {S L R : Type}

/-- a request handler -/
structure Handler (S L R : Type) where
  pre : L
  steps : List (L × S → L × S)
  resp : L → R

def runSteps : List (L × S → L × S) → L × S → L × S
  | [], x => x
  | f :: fs, x => runSteps fs (f x)

/-- one-at-a-time semantics of a handler: response and next shared state -/
def Handler.atomic (h : Handler S L R) (s : S) : R × S :=
  ((h.resp (runSteps h.steps (h.pre, s)).1), (runSteps h.steps (h.pre, s)).2)

inductive Phase (S L R : Type)
  | idle                                                            -- between requests
  | arrived (h : Handler S L R)                                     -- request read, lock not yet held
  | running (h : Handler S L R) (l : L) (rem : List (L × S → L × S))  -- inside the critical section
  | responding (h : Handler S L R) (l : L)                          -- lock released, response not yet delivered

structure Thread (S L R : Type) where
  todo : List (Handler S L R)
  phase : Phase S L R
  out : List R

structure Config (S L R : Type) where
  shared : S
  lock : Option Nat
  threads : Nat → Thread S L R
  log : List (Nat × Handler S L R)          -- ghost: who acquired the lock for which request, in order

def upd {α : Type} (f : Nat → α) (t : Nat) (x : α) : Nat → α := fun i => if i = t then x else f i

/-- thread `t` takes its next micro-step (or does not move, if it needs the lock and the lock is taken) -/
def move (c : Config S L R) (t : Nat) : Config S L R :=
  let th := c.threads t
  match th.phase with
  | .idle =>
    match th.todo with
    | [] => c
    | h :: rest => { c with threads := upd c.threads t { th with todo := rest, phase := .arrived h } }
  | .arrived h =>
    match c.lock with
    | none => { c with lock := some t, log := c.log ++ [(t, h)],
                       threads := upd c.threads t { th with phase := .running h h.pre h.steps } }
    | some _ => c
  | .running h l (f :: fs) =>
    { c with shared := (f (l, c.shared)).2,
             threads := upd c.threads t { th with phase := .running h (f (l, c.shared)).1 fs } }
  | .running h l [] =>
    { c with lock := none, threads := upd c.threads t { th with phase := .responding h l } }
  | .responding h l =>
    { c with threads := upd c.threads t { th with phase := .idle, out := th.out ++ [h.resp l] } }

/-- run a schedule -/
def exec (c : Config S L R) (sched : List Nat) : Config S L R := sched.foldl move c

/-- the initial configuration for given client programs -/
def initial (s0 : S) (prog : Nat → List (Handler S L R)) : Config S L R :=
  { shared := s0, lock := none, log := [],
    threads := fun t => { todo := prog t, phase := .idle, out := [] } }

/-- serial execution of whole requests: final shared state -/
def serial (s0 : S) : List (Nat × Handler S L R) → S
  | [] => s0
  | (_, h) :: rest => serial (h.atomic s0).2 rest

/-- serial execution of whole requests: the responses, tagged with the thread they go to -/
def serialResps (s0 : S) : List (Nat × Handler S L R) → List (Nat × R)
  | [] => []
  | (t, h) :: rest => (t, (h.atomic s0).1) :: serialResps (h.atomic s0).2 rest

/-- what thread `t` receives in a serial execution of `log` -/
def respsOf (s0 : S) (log : List (Nat × Handler S L R)) (t : Nat) : List R :=
  ((serialResps s0 log).filter (fun x => x.1 == t)).map (·.2)

/-- the requests of thread `t` in `log`, in order -/
def requestsOf (log : List (Nat × Handler S L R)) (t : Nat) : List (Handler S L R) :=
  (log.filter (fun x => x.1 == t)).map (·.2)

/-- everything has been sent and answered -/
def Quiescent (c : Config S L R) : Prop :=
  ∀ t, (c.threads t).todo = [] ∧ (match (c.threads t).phase with | .idle => True | _ => False)

/-! ## Vocabulary for statements about thread-tagged lists (the log, an interleaving, tagged responses) -/

/-- the entries of a thread-tagged list that carry the tag `t`, in order, without the tag
(`requestsOf log t = proj log t` and `respsOf s0 log t = proj (serialResps s0 log) t`, both by `rfl`) -/
def proj {α : Type} (xs : List (Nat × α)) (t : Nat) : List α :=
  (xs.filter (fun x => x.1 == t)).map (·.2)

/-- the position in `xs` of the `k`-th entry (counting from 0) tagged `t`, if there are that many:
`posOf log t k` is the place in the serial order of the `k`-th request of client `t` -/
def posOf {α : Type} : List (Nat × α) → Nat → Nat → Option Nat
  | [], _, _ => none
  | x :: rest, t, k =>
    if x.1 = t then
      match k with
      | 0 => some 0
      | k + 1 => (posOf rest t k).map (· + 1)
    else (posOf rest t k).map (· + 1)

end Crem.Locking
