import Crem.Model.Naming
import Crem.Model.Round
/-
Model of the solution-set summary the Saver assembles and of its CSV rendering (property C12).
Core Lean only.

Transcribed from
  internal/pkg/scenario/Saver.go    encodeSolutionSet, encodeOptimisedModel, summarise (notes, sort order, map insert)
  internal/pkg/annealing/solution/set/Summary.go                   AsSortedArray
  internal/pkg/annealing/solution/set/encoding/csv/Marshaler.go    summaryToCsvString, deriveHeaders, joinAttributes
  pkg/strings/Convert.go            Converter{precision 3, PaddingZeros}.Convert(float64) = Sprintf("%.3f", RoundFloat(v, 3))

The summary is a Go map keyed by solution id.  It is modelled as an association list with
replace-on-equal-key insertion; iterating it yields the entries in an ARBITRARY order, which is an
explicit argument (`iter`) of everything that ranges over the map.
-/
namespace Crem.SummaryCsv
open Crem.Naming

/-- one value of the summary map (`solution.Summary`) together with its key -/
structure Entry where
  key : Str
  sortIndex : Nat
  label : Str                 -- `Summary.Id`
  vars : List (Str × Rat)     -- decision variable name, value
  actions : Str               -- the action encoding
  note : Str
  deriving Repr, DecidableEq

/-- `baseMap[solution.Id] = …` -/
def insertEntry : List Entry → Entry → List Entry
  | [], e => [e]
  | x :: xs, e => if x.key = e.key then e :: xs else x :: insertEntry xs e

def asIsNote : Str := "As-is state; zero active management actions".toList
def optimisedNote : Str := "Computationally optimised solution".toList
/-- `fmt.Sprintf("Pareto front member %d of %d", k, n)` -/
def memberNote (k n : Nat) : Str :=
  "Pareto front member ".toList ++ natStr k ++ " of ".toList ++ natStr n

/-- what the saver knows about one solution after decompressing and re-evaluating it -/
structure Row where
  vars : List (Str × Rat)
  actions : Str
  deriving Repr

/-- the member entries from index `i` on (`n` = the set size that goes into ids and notes) -/
def memberEntries (v : Variant) (f : Family) (rid : Str) (n : Nat) : Nat → List Row → List Entry
  | _, [] => []
  | i, m :: ms =>
    let key := memberKey rid (i + 1) (match f with | .single => 1 | .multi => n)
    { key := key, sortIndex := i + 1, label := label v key, vars := m.vars, actions := m.actions,
      note := match f with | .single => optimisedNote | .multi => memberNote (i + 1) n } ::
    memberEntries v f rid n (i + 1) ms

/-- the as-is entry: sort index 0 (`topSummaryEntry`) -/
def asIsEntry (v : Variant) (f : Family) (rid : Str) (asIs : Row) : Entry :=
  { key := asIsKey v f rid, sortIndex := 0, label := label v (asIsKey v f rid),
    vars := asIs.vars, actions := asIs.actions, note := asIsNote }

/-- the entries in the order the Saver inserts them: as-is (sort index 0), then the members 1..n -/
def entriesInOrder (v : Variant) (f : Family) (rid : Str) (asIs : Row) (members : List Row) : List Entry :=
  asIsEntry v f rid asIs :: memberEntries v f rid members.length 0 members

/-- the summary map after `encodeSolutionSet` / `encodeOptimisedModel` (for `single`, `members` has one element) -/
def buildSummary (v : Variant) (f : Family) (rid : Str) (asIs : Row) (members : List Row) : List Entry :=
  (entriesInOrder v f rid asIs members).foldl insertEntry []

/-- insertion into a list sorted by sort index -/
def insertSorted (e : Entry) : List Entry → List Entry
  | [] => [e]
  | x :: xs => if e.sortIndex ≤ x.sortIndex then e :: x :: xs else x :: insertSorted e xs

/-- `AsSortedArray` applied to the order `iter` in which the map happened to be iterated
(`sort.Sort` by `SortIndex`; with pairwise distinct sort indexes every sorting algorithm agrees) -/
def sortedRows (iter : List Entry) : List Entry := iter.foldr insertSorted []

/-! ## number and row rendering -/

def padLeft (w : Nat) (c : Char) (s : Str) : Str := List.replicate (w - s.length) c ++ s

/-- `fmt.Sprintf("%.<p>f", math.RoundFloat(x, p))` for a finite x (a negative x that rounds to zero prints `-0.000`, as Go's negative zero does) -/
def fmtFixed (p : Nat) (x : Rat) : Str :=
  let k := roundHA (x * ((10 ^ p : Nat) : Rat))
  let a := k.natAbs
  (if x < 0 then ['-'] else []) ++ natStr (a / 10 ^ p) ++
    (if p = 0 then [] else '.' :: padLeft p '0' (natStr (a % 10 ^ p)))

/-- `strings.Join(xs, ", ")` -/
def joinSep : List Str → Str
  | [] => []
  | [x] => x
  | x :: xs => x ++ ',' :: ' ' :: joinSep xs

/-- `deriveHeaders` from the variables of the entry `justSomeVariables` happened to yield -/
def headerOf (vars : List (Str × Rat)) : Str :=
  joinSep (("Solution".toList :: vars.map (·.1)) ++ ["Actions".toList, "Summary".toList])

/-- `joinAttributes` -/
def rowOf (e : Entry) : Str :=
  joinSep [e.label, joinSep (e.vars.map fun nv => fmtFixed 3 nv.2), e.actions, e.note]

/-- `summaryToCsvString`: `iter` = order of map iteration in `AsSortedArray`, `yielded` = the entry
`justSomeVariables` got (`none` for an empty map: no variable headings) -/
def renderCsv (iter : List Entry) (yielded : Option Entry) : Str :=
  headerOf (match yielded with | some e => e.vars | none => []) ++ ['\n'] ++
    ((sortedRows iter).map fun e => rowOf e ++ ['\n']).flatten

end Crem.SummaryCsv
