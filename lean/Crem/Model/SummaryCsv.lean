import Crem.Model.Naming
import Crem.Model.Round
/-
Model of the solution-set summary the Saver assembles and of its CSV rendering (property C12).
Core Lean only.

Transcribed from
  internal/pkg/scenario/Saver.go    encodeSolutionSet, encodeOptimisedModel, summarise (notes, sort order, map insert)
  internal/pkg/annealing/solution/set/Summary.go                   AsSortedArray
  internal/pkg/annealing/solution/set/encoding/csv/Marshaler.go    summaryToCsvString, deriveHeaders, joinAttributes
  pkg/strings/Convert.go            Converter{precision 3, PaddingZeros}.Convert(float64) = Sprintf("%.3f", RoundFloat(v, 3))

The summary is a Go map keyed by solution id.  It is modelled as an association list with
replace-on-equal-key insertion; iterating it yields the entries in an ARBITRARY order, which is an
explicit argument (`iter`) of everything that ranges over the map.
-/
namespace Crem.SummaryCsv
open Crem.Naming

/-- one value of the summary map (`solution.Summary`) together with its key -/
structure Entry where
  key : Str
  sortIndex : Nat
  label : Str                 -- `Summary.Id`
  vars : List (Str × Rat)     -- decision variable name, value
  actions : Str               -- the action encoding
  note : Str
  deriving Repr, DecidableEq

/-- `baseMap[solution.Id] = …` -/
def insertEntry : List Entry → Entry → List Entry
  | [], e => [e]
  | x :: xs, e => if x.key = e.key then e :: xs else x :: insertEntry xs e

def asIsNote : Str := "As-is state; zero active management actions".toList
def optimisedNote : Str := "Computationally optimised solution".toList
/-- `fmt.Sprintf("Pareto front member %d of %d", k, n)` -/
def memberNote (k n : Nat) : Str :=
  "Pareto front member ".toList ++ natStr k ++ " of ".toList ++ natStr n

/-- what the saver knows about one solution after decompressing and re-evaluating it -/
structure Row where
  vars : List (Str × Rat)
  actions : Str
  deriving Repr

/-- the member entries from index `i` on (`n` = the set size that goes into ids and notes) -/
def memberEntries (v : Variant) (f : Family) (rid : Str) (n : Nat) : Nat → List Row → List Entry
  | _, [] => []
  | i, m :: ms =>
    let key := memberKey rid (i + 1) (match f with | .single => 1 | .multi => n)
    { key := key, sortIndex := i + 1, label := label v key, vars := m.vars, actions := m.actions,
      note := match f with | .single => optimisedNote | .multi => memberNote (i + 1) n } ::
    memberEntries v f rid n (i + 1) ms

/-- the as-is entry: sort index 0 (`topSummaryEntry`) -/
def asIsEntry (v : Variant) (f : Family) (rid : Str) (asIs : Row) : Entry :=
  { key := asIsKey v f rid, sortIndex := 0, label := label v (asIsKey v f rid),
    vars := asIs.vars, actions := asIs.actions, note := asIsNote }

/-- the entries in the order the Saver inserts them: as-is (sort index 0), then the members 1..n -/
def entriesInOrder (v : Variant) (f : Family) (rid : Str) (asIs : Row) (members : List Row) : List Entry :=
  asIsEntry v f rid asIs :: memberEntries v f rid members.length 0 members

/-- the summary map after `encodeSolutionSet` / `encodeOptimisedModel` (for `single`, `members` has one element) -/
def buildSummary (v : Variant) (f : Family) (rid : Str) (asIs : Row) (members : List Row) : List Entry :=
  (entriesInOrder v f rid asIs members).foldl insertEntry []

/-- insertion into a list sorted by sort index -/
def insertSorted (e : Entry) : List Entry → List Entry
  | [] => [e]
  | x :: xs => if e.sortIndex ≤ x.sortIndex then e :: x :: xs else x :: insertSorted e xs

/-- `AsSortedArray` applied to the order `iter` in which the map happened to be iterated
(`sort.Sort` by `SortIndex`; with pairwise distinct sort indexes every sorting algorithm agrees) -/
def sortedRows (iter : List Entry) : List Entry := iter.foldr insertSorted []

/-! ## number and row rendering -/

def padLeft (w : Nat) (c : Char) (s : Str) : Str := List.replicate (w - s.length) c ++ s

/-- `fmt.Sprintf("%.<p>f", math.RoundFloat(x, p))` for a finite x (a negative x that rounds to zero prints `-0.000`, as Go's negative zero does) -/
def fmtFixed (p : Nat) (x : Rat) : Str :=
  let k := roundHA (x * ((10 ^ p : Nat) : Rat))
  let a := k.natAbs
  (if x < 0 then ['-'] else []) ++ natStr (a / 10 ^ p) ++
    (if p = 0 then [] else '.' :: padLeft p '0' (natStr (a % 10 ^ p)))

/-- `strings.Join(xs, ", ")` -/
def joinSep : List Str → Str
  | [] => []
  | [x] => x
  | x :: xs => x ++ ',' :: ' ' :: joinSep xs

/-- `deriveHeaders` from the variables of the entry `justSomeVariables` happened to yield -/
def headerOf (vars : List (Str × Rat)) : Str :=
  joinSep (("Solution".toList :: vars.map (·.1)) ++ ["Actions".toList, "Summary".toList])

/-- `joinAttributes` -/
def rowOf (e : Entry) : Str :=
  joinSep [e.label, joinSep (e.vars.map fun nv => fmtFixed 3 nv.2), e.actions, e.note]

/-- `summaryToCsvString`: `iter` = order of map iteration in `AsSortedArray`, `yielded` = the entry
`justSomeVariables` got (`none` for an empty map: no variable headings) -/
def renderCsv (iter : List Entry) (yielded : Option Entry) : Str :=
  headerOf (match yielded with | some e => e.vars | none => []) ++ ['\n'] ++
    ((sortedRows iter).map fun e => rowOf e ++ ['\n']).flatten

/-! ## additions of the audit round (rows, JSON) -/

deriving instance DecidableEq for Row

/-! ## the JSON summary

Transcribed from
  internal/pkg/annealing/solution/set/encoding/json/Marshaler.go   Marshal, deriveSolutionSummaries, SolutionSummaries
  internal/pkg/annealing/solution/Summary.go                       Summary, VariableSummary (field names, order, tags)

`Marshal` hands `SolutionSummaries{SolutionSet: deriveSetNameFor(summary), Solutions: summary.AsSortedArray()}`
to `json.MarshalIndent(·, "", "  ")` and the encoder writes the bytes unchanged.  The CONTENT of that value is
modelled exactly (`JsonSummary`, `jsonOf`, `marshalJson`): which fields exist, in which order, with which
values.  `Summary.SortIndex` carries the tag `json:"-"` and the map key is not part of the value, so neither
is in the document; no field has `omitempty`; `Summarise()` copies `variable.Value` as it is (NO rounding,
unlike the CSV marshaler's `%.3f`).

Turning the value into bytes is `encoding/json`'s business.  Its LAYOUT (member names, order, the two-blank
indentation, `[]` / `null`) and its string escaping are transcribed below (`renderJsonWith`, `jsonString`);
its float64 formatting (the shortest decimal that parses back to the same float64, `e`-notation outside
[1e-6, 1e21)) is NOT modelled - values are rationals here - and is an explicit parameter `num`.
`jsonNumGrid3` is the instance that is right for values on the 10^-3 grid of at most 15 significant digits
(what the catchment model's variables hold).  The `saved-runs` suite validates the JSON files by parsing them
back and comparing content, not bytes. -/

/-- one element of `Solutions`: the marshalled fields of `solution.Summary`, in declaration order -/
structure JsonSolution where
  id : Str                         -- `"Id"`: the label
  variables : List (Str × Rat)     -- `"Variables"`: objects `{"Name": …, "Value": …}`
  actions : Str                    -- `"Actions"`
  note : Str                       -- `"Note"`
  deriving Repr, DecidableEq

/-- `SolutionSummaries` -/
structure JsonSummary where
  solutionSet : Str                -- `"SolutionSet"`
  solutions : List JsonSolution    -- `"Solutions"`
  deriving Repr, DecidableEq

def jsonSolutionOf (e : Entry) : JsonSolution :=
  { id := e.label, variables := e.vars, actions := e.actions, note := e.note }

/-- `deriveSolutionSummaries` once the set name is known: `iter` = order of map iteration in `AsSortedArray` -/
def jsonOf (setName : Str) (iter : List Entry) : JsonSummary :=
  { solutionSet := setName, solutions := (sortedRows iter).map jsonSolutionOf }

/-- `deriveSolutionSummaries`: `firstKey` = the key `getFirstKey` got from its own iteration of the map
(`none` for an empty map: Go then uses `""`); the result `none` = the index panic of `deriveSetNameFor` -/
def marshalJson (iter : List Entry) (firstKey : Option Str) : Option JsonSummary :=
  (jsonSetNameOfKey (firstKey.getD [])).map fun n => jsonOf n iter

/-- `strings.Join(xs, sep)` -/
def joinStr (sep : Str) : List Str → Str
  | [] => []
  | [x] => x
  | x :: xs => x ++ sep ++ joinStr sep xs

def lowerHex (d : Nat) : Char := if d < 10 then Char.ofNat (48 + d) else Char.ofNat (87 + d)

/-- `\u` and four lower-case hex digits -/
def jsonU (n : Nat) : Str :=
  ['\\', 'u', lowerHex (n / 4096 % 16), lowerHex (n / 256 % 16), lowerHex (n / 16 % 16), lowerHex (n % 16)]

/-- one character of `encoding/json`'s `appendString` with HTML escaping on (the default of `MarshalIndent`;
go1.22 and later: `\b` and `\f` have short forms).  A Go string that is not valid UTF-8 has no `Str` image. -/
def jsonChar (c : Char) : Str :=
  let n := c.toNat
  if n = 34 then ['\\', '"']                 -- `"`
  else if n = 92 then ['\\', '\\']             -- `\`
  else if n = 10 then ['\\', 'n']
  else if n = 13 then ['\\', 'r']
  else if n = 9 then ['\\', 't']
  else if n = 8 then ['\\', 'b']
  else if n = 12 then ['\\', 'f']
  -- other control characters, `<`, `>`, `&`, U+2028, U+2029
  else if n < 32 ∨ n = 60 ∨ n = 62 ∨ n = 38 ∨ n = 0x2028 ∨ n = 0x2029 then jsonU n
  else [c]

/-- a JSON string literal -/
def jsonString (s : Str) : Str := '"' :: s.flatMap jsonChar ++ ['"']

/-- `depth` levels of the indent `"  "` -/
def jsonIndent (depth : Nat) : Str := List.replicate (2 * depth) ' '

/-- an array whose opening bracket stands on a line of depth `depth`; `[]` when empty -/
def jsonArray (depth : Nat) (items : List Str) : Str :=
  if items.isEmpty then ['[', ']']
  else ['[', '\n'] ++ joinStr [',', '\n'] (items.map (jsonIndent (depth + 1) ++ ·)) ++ ['\n'] ++
    jsonIndent depth ++ [']']

/-- an object (of at least one member) whose opening brace stands on a line of depth `depth` -/
def jsonObject (depth : Nat) (members : List (Str × Str)) : Str :=
  ['{', '\n'] ++
    joinStr [',', '\n'] (members.map fun m => jsonIndent (depth + 1) ++ jsonString m.1 ++ [':', ' '] ++ m.2) ++
    ['\n'] ++ jsonIndent depth ++ ['}']

/-! member names (explicit character lists: they reduce in the kernel) -/
def jSolutionSet : Str := ['S', 'o', 'l', 'u', 't', 'i', 'o', 'n', 'S', 'e', 't']
def jSolutions : Str := ['S', 'o', 'l', 'u', 't', 'i', 'o', 'n', 's']
def jId : Str := ['I', 'd']
def jVariables : Str := ['V', 'a', 'r', 'i', 'a', 'b', 'l', 'e', 's']
def jActions : Str := ['A', 'c', 't', 'i', 'o', 'n', 's']
def jNote : Str := ['N', 'o', 't', 'e']
def jName : Str := ['N', 'a', 'm', 'e']
def jValue : Str := ['V', 'a', 'l', 'u', 'e']
def jNull : Str := ['n', 'u', 'l', 'l']

/-- `json.MarshalIndent(doc, "", "  ")` given the renderings of strings and of float64 values.
`AsSortedArray` of an empty map is a nil slice (`null`); `produceVariableSummary` makes an empty, non-nil one (`[]`). -/
def renderJsonWith (str : Str → Str) (num : Rat → Str) (doc : JsonSummary) : Str :=
  jsonObject 0
    [(jSolutionSet, str doc.solutionSet),
     (jSolutions,
        if doc.solutions.isEmpty then jNull
        else jsonArray 1 (doc.solutions.map fun s =>
          jsonObject 2
            [(jId, str s.id),
             (jVariables, jsonArray 3 (s.variables.map fun nv =>
                jsonObject 4 [(jName, str nv.1), (jValue, num nv.2)])),
             (jActions, str s.actions),
             (jNote, str s.note)]))]

/-- drop trailing `0`s -/
def dropTrailingZeros (s : Str) : Str := (s.reverse.dropWhile (· = '0')).reverse

/-- `encoding/json`'s rendering of the float64 nearest to a value ON THE 10^-3 GRID with at most 15 significant
digits (then the shortest decimal that round-trips is the grid number's own decimal expansion, in plain
notation since 0.001 ≤ |x| < 1e21 or x = 0): sign, integer part, and the fraction without trailing zeros.
Off the grid this is the rendering of `RoundFloat(x, 3)`, not of `x`. -/
def jsonNumGrid3 (x : Rat) : Str :=
  let k := roundHA (x * ((1000 : Nat) : Rat))
  let a := k.natAbs
  let frac := dropTrailingZeros (padLeft 3 '0' (natStr (a % 1000)))
  (if k < 0 then ['-'] else []) ++ natStr (a / 1000) ++ (if frac.isEmpty then [] else '.' :: frac)

/-- the bytes of the JSON summary file, for grid-valued variables -/
def renderJson (setName : Str) (iter : List Entry) : Str :=
  renderJsonWith jsonString jsonNumGrid3 (jsonOf setName iter)

/-! ## `Saver.ObserveEvent`: which summaries one event makes the Saver write

Transcribed from internal/pkg/scenario/Saver.go `ObserveEvent`, `saveOptimisedModel` / `encodeOptimisedModel`,
`saveSolutionSet` / `encodeSolutionSet`, `encodeSummary`, and `Encoder.deriveOutputPath`.  An annealer attaches ONE of
the two attributes to its `FinishedAnnealing` event (Kirkpatrick family: `CompressedModel`; Suppapitnarm family:
`ModelArchive`); the Saver tests them independently, so an event carrying both is saved twice (into the same file:
the second write replaces the first).  The file name comes from `Summary.FileNameSafeId()`, i.e. from whichever key
the summary map yields: `pick` is that choice. -/

/-- what the Saver reads off one event: the rows are what decompression + re-evaluation yield (see
`written_rows_faithful` for where they come from) -/
structure SaverEvent where
  /-- `event.EventType == observer.FinishedAnnealing` -/
  finished : Bool
  /-- the `CompressedModel` attribute: (id, as-is row, the optimised solution's row) -/
  compressed : Option (Str × Row × Row)
  /-- the `ModelArchive` attribute: (id, as-is row, one row per archive member in archive order) -/
  archive : Option (Str × Row × List Row)

/-- one summary file written: its base name and the summary map it was rendered from -/
structure SummaryWrite where
  file : Str
  entries : List Entry

/-- `encodeSummary`: the map is written under the name derived from the key `pick` yields (`""` for an empty map) -/
def writeSummary (v : Variant) (ot : OutputType) (pick : List Entry → Option Entry) (m : List Entry) : SummaryWrite :=
  { file := summaryFileNameV v ot (match pick m with | some e => e.key | none => []), entries := m }

/-- `Saver.ObserveEvent` as far as summary files go, in the order of the writes -/
def observeEvent (v : Variant) (ot : OutputType) (pick : List Entry → Option Entry) (e : SaverEvent) :
    List SummaryWrite :=
  if !e.finished then []
  else
    (match e.compressed with
     | some (id, asIs, opt) => [writeSummary v ot pick (buildSummary v .single id asIs [opt])]
     | none => []) ++
    (match e.archive with
     | some (id, asIs, members) => [writeSummary v ot pick (buildSummary v .multi id asIs members)]
     | none => [])


end Crem.SummaryCsv
