/-
Model of crem's CSV loading (property C20; `render` is reused by C13).

Go code modelled
  internal/pkg/dataset/csv/CsvDataSet.go   parseCsvText, ParseCsvTextIntoTable, ParseCsvTextIntoTableWithTextColumns,
                                           deriveTableFromRecords, deriveContextFromRecords, deriveTextColumns,
                                           assignTableHeaders/Content, toBaseType, Errors
  internal/pkg/dataset/DataSet.go          AddTable, Table (a data set that is loaded into more than once: section 3b)
  internal/pkg/dataset/tables/baseTable.go SetColumnAndRowSize, ColumnAndRowSize, Cell, CellString, CellFloat64
  pkg/strings/BaseCaster.go                Cast with numbersAsFloats = true
  encoding/csv (go 1.23) Reader            as configured there: Comma ',', Comment 0, FieldsPerRecord 0,
                                           LazyQuotes false, TrimLeadingSpace true; ReadAll
  strconv.ParseFloat(s, 64), ParseBool     the accepted grammar, the range error, the correctly rounded value

Exponents saturate as in Go (`scanExp`: `e < 10000`), which changes no value: such literals are
far beyond overflow / underflow either way.

Everything is on byte lists (`List UInt8`): the property quantifies over all byte
strings and Go strings are arbitrary byte strings.  Core Lean only (the driver
links this file).  All recursion is structural, so closed instances evaluate by
`decide`.

How the record reader is transcribed.  Go's reader works line by line
(`readLine`), and a line-level pass rewrites line ends before any field logic
sees them:  a line ending in `\r\n` has the `\r` removed, and a final line
without `\n` loses one trailing `\r`.  That pass is `normalize`.  After it, the
per-record / per-field logic of `readRecord` only ever looks at the current
position of the current line, so it is a one-pass scanner over the normalised
bytes (`scan`): `\n` is the only line end left, a "line" is what lies before the
next `\n`.  The scanner modes are the places of `readRecord`'s control flow:
  `start first`  top of `parseField:` (`first` = nothing of this line consumed yet = the
                 loop that skips empty lines is still active)
  `skip n`       inside a multi-byte Unicode space being trimmed by TrimLeadingSpace
  `unquoted`     "Non-quoted string field" branch
  `quoted`       "Quoted string field" loop
  `quoteSeen`    that loop just after `bytes.IndexByte(line, '"')` hit (the `switch rn := nextRune(line)`)
-/
namespace Crem.Csv

abbrev Bytes := List UInt8

abbrev bNL : UInt8 := 0x0A
abbrev bCR : UInt8 := 0x0D
abbrev bQuote : UInt8 := 0x22
abbrev bComma : UInt8 := 0x2C
abbrev bSpace : UInt8 := 0x20

/-! ## 1. `encoding/csv` reader -/

/-- `ParseError.Err` of the reader (errors are compared by class, never by text) -/
inductive CsvErr where
  | bareQuote   -- ErrBareQuote: `"` inside a non-quoted field
  | quote       -- ErrQuote: extraneous or missing `"` in a quoted field
  | fieldCount  -- ErrFieldCount: a record's field count differs from the first record's
  | noRecords   -- crem's own error: "csv content has no header record" (the text has no record at all)
  deriving DecidableEq, Repr

/-- Line-end rewriting done by `Reader.readLine`: `\r\n` -> `\n` on every line, and a last
line without `\n` loses one trailing `\r` ("drop trailing \r before EOF"). -/
def normalize : Bytes → Bytes
  | [] => []
  | b :: rest =>
    if b == bCR then
      match rest.head? with
      | none => []                                   -- trailing `\r` before EOF
      | some c =>
        if c == bNL then normalize rest              -- `\r\n`: the `\r` goes, the `\n` is kept next
        else bCR :: normalize rest
    else b :: normalize rest

/-- one-byte runes with `unicode.IsSpace`: `\t \n \v \f \r` and space -/
def isSpace1 (b : UInt8) : Bool :=
  b == 0x09 || b == 0x0A || b == 0x0B || b == 0x0C || b == 0x0D || b == 0x20

/-- Length in bytes of a leading rune `r` with `unicode.IsSpace(r)`, 0 if the bytes do not start
with one.  Go decodes with `utf8.DecodeRune`, which rejects over-long forms, so each space rune
has exactly one byte sequence: U+0085 U+00A0 (C2 85, C2 A0), U+1680 (E1 9A 80), U+2000..U+200A
(E2 80 80..8A), U+2028 U+2029 U+202F (E2 80 A8/A9/AF), U+205F (E2 81 9F), U+3000 (E3 80 80).
Invalid UTF-8 decodes to U+FFFD (width 1), which is not a space. -/
def spaceLen : Bytes → Nat
  | [] => 0
  | b0 :: rest =>
    if isSpace1 b0 then 1
    else if b0 == 0xC2 then
      match rest with
      | b1 :: _ => if b1 == 0x85 || b1 == 0xA0 then 2 else 0
      | [] => 0
    else if b0 == 0xE1 then
      match rest with
      | b1 :: b2 :: _ => if b1 == 0x9A && b2 == 0x80 then 3 else 0
      | _ => 0
    else if b0 == 0xE2 then
      match rest with
      | b1 :: b2 :: _ =>
        if b1 == 0x80 && ((0x80 ≤ b2 && b2 ≤ 0x8A) || b2 == 0xA8 || b2 == 0xA9 || b2 == 0xAF) then 3
        else if b1 == 0x81 && b2 == 0x9F then 3
        else 0
      | _ => 0
    else if b0 == 0xE3 then
      match rest with
      | b1 :: b2 :: _ => if b1 == 0x80 && b2 == 0x80 then 3 else 0
      | _ => 0
    else 0

/-- scanner state: the field being built (`recordBuffer` since the last index), the finished
fields of the current record, the finished records (`ReadAll`'s `records`) -/
structure St where
  field : Bytes := []
  fields : List Bytes := []
  recs : List (List Bytes) := []
  deriving Repr

def St.push (st : St) (b : UInt8) : St := { st with field := st.field ++ [b] }

def St.endField (st : St) : St := { st with field := [], fields := st.fields ++ [st.field] }

/-- End of a record: the field-count rule of `FieldsPerRecord = 0` (the first record fixes the
count; a later record with another count is `ErrFieldCount`), then `ReadAll` appends. -/
def endRec (recs : List (List Bytes)) (r : List Bytes) : Except CsvErr St :=
  match recs with
  | [] => .ok { field := [], fields := [], recs := [r] }
  | first :: _ =>
    if r.length == first.length then .ok { field := [], fields := [], recs := recs ++ [r] }
    else .error .fieldCount

def St.endRecord (st : St) : Except CsvErr St := endRec st.recs (st.fields ++ [st.field])

inductive Mode where
  | start (first : Bool)
  | skip (n : Nat)
  | unquoted
  | quoted
  | quoteSeen
  deriving DecidableEq, Repr

/-- what `ReadAll` returns when the input ends while the current record is still open -/
def finish (st : St) : Except CsvErr (List (List Bytes)) :=
  match st.endRecord with
  | .error e => .error e
  | .ok st' => .ok st'.recs

/-- `readRecord` in a loop (`ReadAll`) over normalised bytes. -/
def scan : Mode → St → Bytes → Except CsvErr (List (List Bytes))
  -- top of parseField ------------------------------------------------------------------------
  | .start first, st, [] =>
    if first then .ok st.recs        -- readLine gave io.EOF at a record boundary: ReadAll is done
    else finish st                   -- `a,` at end of input: a last empty field
  | .start first, st, b :: rest =>
    if first && b == bNL then scan (.start true) st rest            -- "Skip empty lines"
    else
      let k := spaceLen (b :: rest)
      if k == 0 then
        if b == bQuote then scan .quoted st rest                    -- line[0] == '"'
        else if b == bComma then scan (.start false) st.endField rest   -- empty non-quoted field
        else scan .unquoted (st.push b) rest
      else if b == bNL then
        -- TrimLeadingSpace ate the rest of the line including its `\n`: empty last field
        match st.endRecord with
        | .error e => .error e
        | .ok st' => scan (.start true) st' rest
      else if k == 1 then scan (.start false) st rest               -- one-byte space trimmed
      else scan (.skip (k - 2)) st rest                             -- multi-byte space trimmed
  | .skip _, st, [] => finish st     -- unreachable (`spaceLen` saw the bytes being skipped)
  | .skip n, st, _ :: rest =>
    if n == 0 then scan (.start false) st rest else scan (.skip (n - 1)) st rest
  -- non-quoted field ---------------------------------------------------------------------------
  | .unquoted, st, [] => finish st
  | .unquoted, st, b :: rest =>
    if b == bComma then scan (.start false) st.endField rest
    else if b == bNL then
      match st.endRecord with
      | .error e => .error e
      | .ok st' => scan (.start true) st' rest
    else if b == bQuote then .error .bareQuote                      -- LazyQuotes is off
    else scan .unquoted (st.push b) rest
  -- quoted field ---------------------------------------------------------------------------------
  | .quoted, _, [] => .error .quote          -- "Abrupt end of file" with LazyQuotes off
  | .quoted, st, b :: rest =>
    if b == bQuote then scan .quoteSeen st rest
    else scan .quoted (st.push b) rest       -- includes `\n`: the field continues on the next line
  | .quoteSeen, st, [] => finish st          -- `lengthNL(line) == len(line)` with an empty rest of line
  | .quoteSeen, st, b :: rest =>
    if b == bQuote then scan .quoted (st.push bQuote) rest          -- `""`
    else if b == bComma then scan (.start false) st.endField rest   -- `",`
    else if b == bNL then                                           -- `"\n`
      match st.endRecord with
      | .error e => .error e
      | .ok st' => scan (.start true) st' rest
    else .error .quote                                              -- `"*`

/-- `parseCsvText`: `csv.NewReader(text)` with `TrimLeadingSpace = true`, then `ReadAll` -/
def readAll (text : Bytes) : Except CsvErr (List (List Bytes)) :=
  scan (.start true) {} (normalize text)

/-! ## 2. `BaseCaster.Cast` with numbers as floats: ParseFloat, then ParseBool, else the string -/

/-- strconv's `lower(c)` -/
def lower (c : UInt8) : UInt8 := c ||| 0x20

def isDigit (c : UInt8) : Bool := 0x30 ≤ c && c ≤ 0x39
def isHexLetter (c : UInt8) : Bool := 0x61 ≤ lower c && lower c ≤ 0x66

/-- `commonPrefixLenIgnoreCase(s, prefix)` (only `A`..`Z` of `s` are lowered; `prefix` is lower case) -/
def commonPrefixLen : Bytes → Bytes → Nat
  | c :: s, p :: ps =>
    let c' := if 0x41 ≤ c && c ≤ 0x5A then c + 0x20 else c
    if c' == p then commonPrefixLen s ps + 1 else 0
  | _, _ => 0

def strInfinity : Bytes := [0x69, 0x6E, 0x66, 0x69, 0x6E, 0x69, 0x74, 0x79]
def strNan : Bytes := [0x6E, 0x61, 0x6E]

/-- a parsed float literal, before rounding to binary64 -/
inductive Lit where
  | nan
  | inf (neg : Bool)
  /-- decimal: `± mant × 10^exp10`, `nd` = digits of `mant` counted from its first non-zero one -/
  | dec (neg : Bool) (mant nd : Nat) (exp10 : Int)
  /-- hexadecimal: `± mant × 2^exp2` -/
  | hex (neg : Bool) (mant : Nat) (exp2 : Int)
  deriving DecidableEq, Repr

/-- `special(s)` together with ParseFloat's demand that the whole string be consumed:
`some (some l)` = accepted special value, `some none` = a special prefix matched but characters
remain (syntax error), `none` = not a special, go on to `readFloat`. -/
def special (s : Bytes) : Option (Option Lit) :=
  let infOf (neg : Bool) (nsign : Nat) (t : Bytes) : Option (Option Lit) :=
    let n0 := commonPrefixLen t strInfinity
    let n := if 3 < n0 && n0 < 8 then 3 else n0
    if n == 3 || n == 8 then
      if nsign + n == s.length then some (some (.inf neg)) else some none
    else none
  match s with
  | [] => none
  | c :: t =>
    if c == 0x2B then infOf false 1 t          -- '+'
    else if c == 0x2D then infOf true 1 t      -- '-'
    else if c == 0x69 || c == 0x49 then infOf false 0 s   -- 'i' 'I'
    else if c == 0x6E || c == 0x4E then                    -- 'n' 'N'
      if commonPrefixLen s strNan == 3 then
        if s.length == 3 then some (some .nan) else some none
      else none
    else none

/-- mantissa scan state of `readFloat` -/
structure Mant where
  mant : Nat := 0
  nd : Nat := 0
  frac : Nat := 0
  sawDot : Bool := false
  sawDigits : Bool := false
  underscores : Bool := false
  deriving Repr

def Mant.add (m : Mant) (base d : Nat) : Mant :=
  { m with
    mant := m.mant * base + d
    nd := if d == 0 && m.nd == 0 then 0 else m.nd + 1   -- leading zeros are not counted
    frac := if m.sawDot then m.frac + 1 else m.frac
    sawDigits := true }

/-- the `loop:` of `readFloat`; returns the unread rest -/
def scanMant (hex : Bool) : Mant → Bytes → Mant × Bytes
  | m, [] => (m, [])
  | m, c :: rest =>
    if c == 0x5F then scanMant hex { m with underscores := true } rest            -- '_'
    else if c == 0x2E then                                                          -- '.'
      if m.sawDot then (m, c :: rest) else scanMant hex { m with sawDot := true } rest
    else if isDigit c then scanMant hex (m.add (if hex then 16 else 10) (c - 0x30).toNat) rest
    else if hex && isHexLetter c then scanMant hex (m.add 16 ((lower c - 0x61).toNat + 10)) rest
    else (m, c :: rest)

/-- exponent digits: `if e < 10000 { e = e*10 + digit }` (the value saturates, as in Go) -/
def scanExp : Nat → Bool → Bytes → Nat × Bool × Bytes
  | e, u, [] => (e, u, [])
  | e, u, c :: rest =>
    if c == 0x5F then scanExp e true rest
    else if isDigit c then scanExp (if e < 10000 then e * 10 + (c - 0x30).toNat else e) u rest
    else (e, u, c :: rest)

inductive Saw where
  | start | digit | under | other
  deriving DecidableEq

/-- the loop of strconv's `underscoreOK` -/
def underscoreLoop (hex : Bool) : Saw → Bytes → Bool
  | saw, [] => saw != .under
  | saw, c :: rest =>
    if isDigit c || (hex && isHexLetter c) then underscoreLoop hex .digit rest
    else if c == 0x5F then
      if saw != .digit then false else underscoreLoop hex .under rest
    else if saw == .under then false
    else underscoreLoop hex .other rest

/-- strconv's `underscoreOK`: underscores only between digits, or between a base prefix and a digit -/
def underscoreOK (s : Bytes) : Bool :=
  let s1 := match s with
    | c :: t => if c == 0x2D || c == 0x2B then t else s
    | [] => s
  match s1 with
  | c0 :: c1 :: t =>
    if c0 == 0x30 && (lower c1 == 0x62 || lower c1 == 0x6F || lower c1 == 0x78) then
      underscoreLoop (lower c1 == 0x78) .digit t
    else underscoreLoop false .start s1
  | _ => underscoreLoop false .start s1

/-- `readFloat` + "the whole string is consumed" (ParseFloat's `n != len(s)` is a syntax error) -/
def readFloat (s : Bytes) : Option Lit :=
  -- optional sign
  let (neg, s1) : Bool × Bytes := match s with
    | c :: t => if c == 0x2B then (false, t) else if c == 0x2D then (true, t) else (false, s)
    | [] => (false, s)
  -- base prefix: needs `0x` and at least one more character
  let (hex, s2) : Bool × Bytes := match s1 with
    | c0 :: c1 :: c2 :: t => if c0 == 0x30 && lower c1 == 0x78 then (true, c2 :: t) else (false, s1)
    | _ => (false, s1)
  let (m, s3) := scanMant hex {} s2
  if !m.sawDigits then none else
  let done (eNeg : Bool) (e : Nat) (us : Bool) : Option Lit :=
    if (m.underscores || us) && !underscoreOK s then none
    else
      let ev : Int := if eNeg then -(e : Int) else (e : Int)
      if hex then some (.hex neg m.mant (ev - 4 * (m.frac : Int)))
      else some (.dec neg m.mant m.nd (ev - (m.frac : Int)))
  match s3 with
  | [] => if hex then none else done false 0 false       -- hexadecimal mantissa "Must have exponent"
  | c :: s4 =>
    if lower c == (if hex then 0x70 else 0x65) then      -- 'p' / 'e'
      let (eNeg, s5) : Bool × Bytes := match s4 with
        | c :: t => if c == 0x2B then (false, t) else if c == 0x2D then (true, t) else (false, s4)
        | [] => (false, s4)
      match s5 with
      | [] => none
      | d :: _ =>
        if !isDigit d then none
        else
          let (e, us, s6) := scanExp 0 false s5
          if s6.isEmpty then done eNeg e us else none
    else none

/-- the literal ParseFloat accepts syntactically (`none` = ErrSyntax) -/
def parseLit (s : Bytes) : Option Lit :=
  match special s with
  | some r => r
  | none => readFloat s

/-! ### rounding to binary64 (IEEE-754 round to nearest, ties to even)

Go's three conversion paths (exact float arithmetic, Eisel-Lemire, multiprecision decimal;
`atofHex` for hexadecimal) all return the correctly rounded value; the model computes it from the
exact rational.  `none` = the value is at least half an ulp beyond the largest finite float
(ParseFloat returns ±Inf with ErrRange; `Cast` then does not treat the string as a number).

Known defect of strconv itself (go1.23 and go1.26), which bounds the model's scope: for a decimal
literal whose point comes after more than 800 mantissa digits (or is absent) the slow path
(`decimal.set`) takes the point's position from the number of *stored* digits (800 at most), so the
value comes out 10^(d−800) times too small (d = digits before the point) — whenever Eisel-Lemire
gives up, a few such inputs in a thousand.  The model follows mathematics there; it is claimed to
be `strconv.ParseFloat` only for `mantDigits ≤ 800` (section 5), the correspondence generator stops
at 780 mantissa digits, and one longer literal is kept in the corpus, judged against strconv only. -/

def bitsInf : Nat := 0x7FF0000000000000
def bitsNaN : Nat := 0x7FF8000000000001      -- what `math.NaN()` returns
def bitsSign : Nat := 0x8000000000000000

/-- ⌊log₂(num/den)⌋ for positive `num`, `den` -/
def floorLog2Ratio (num den : Nat) : Int :=
  let e : Int := (num.log2 : Int) - (den.log2 : Int)
  let ge : Bool := if e ≥ 0 then decide (num ≥ den * 2 ^ e.toNat) else decide (num * 2 ^ (-e).toNat ≥ den)
  if ge then e else e - 1

/-- a/b rounded to the nearest natural number, ties to even -/
def roundHalfEven (a b : Nat) : Nat :=
  let q := a / b
  let r := a % b
  if 2 * r > b || (2 * r == b && q % 2 == 1) then q + 1 else q

/-- Bit pattern (without sign) of the binary64 nearest to the positive rational `num/den`;
a result ≥ `bitsInf` means overflow.  Normal and subnormal numbers share one formula:
with `eb = max e (-1022)` the value is rounded to a multiple `m` of `2^(eb-52)`, and
`(eb+1022)·2^52 + m` is the encoding (a carry out of the mantissa increments the exponent). -/
def roundBits (num den : Nat) : Nat :=
  let e := floorLog2Ratio num den
  let eb : Int := if e < -1022 then -1022 else e
  let s : Int := eb - 52
  let m := if s ≥ 0 then roundHalfEven num (den * 2 ^ s.toNat) else roundHalfEven (num * 2 ^ (-s).toNat) den
  (eb + 1022).toNat * 2 ^ 52 + m

def withSign (neg : Bool) (bits : Nat) : Nat := if neg then bitsSign + bits else bits

/-- binary64 bits of a literal; `none` = ErrRange -/
def Lit.bits : Lit → Option Nat
  | .nan => some bitsNaN
  | .inf neg => some (withSign neg bitsInf)
  | .dec neg mant nd exp10 =>
    if mant == 0 then some (withSign neg 0)
    else
      let dp : Int := (nd : Int) + exp10          -- value ∈ [10^(dp-1), 10^dp): Go's `d.dp`
      if dp > 310 then none                       -- "Obvious overflow"
      else if dp < -330 then some (withSign neg 0)  -- "Obvious underflow": zero
      else
        let b := if exp10 ≥ 0 then roundBits (mant * 10 ^ exp10.toNat) 1 else roundBits mant (10 ^ (-exp10).toNat)
        if b ≥ bitsInf then none else some (withSign neg b)
  | .hex neg mant exp2 =>
    if mant == 0 then some (withSign neg 0)
    else
      let p : Int := (mant.log2 : Int) + 1 + exp2  -- value ∈ [2^(p-1), 2^p)
      if p > 1025 then none
      else if p < -1080 then some (withSign neg 0)
      else
        let b := if exp2 ≥ 0 then roundBits (mant * 2 ^ exp2.toNat) 1 else roundBits mant (2 ^ (-exp2).toNat)
        if b ≥ bitsInf then none else some (withSign neg b)

/-- `strconv.ParseFloat(s, 64)` with `err == nil`: the float's bit pattern -/
def parseFloat (s : Bytes) : Option Nat :=
  match parseLit s with
  | none => none
  | some l => l.bits

/-- `strconv.ParseBool` (the spellings `1` and `0` never get here: ParseFloat takes them first) -/
def parseBool (s : Bytes) : Option Bool :=
  if s == [0x31] || s == [0x74] || s == [0x54] || s == [0x54, 0x52, 0x55, 0x45]
      || s == [0x74, 0x72, 0x75, 0x65] || s == [0x54, 0x72, 0x75, 0x65] then some true
  else if s == [0x30] || s == [0x66] || s == [0x46] || s == [0x46, 0x41, 0x4C, 0x53, 0x45]
      || s == [0x66, 0x61, 0x6C, 0x73, 0x65] || s == [0x46, 0x61, 0x6C, 0x73, 0x65] then some false
  else none

/-- a table cell (`interface{}` holding float64, bool or string) -/
inductive Cell where
  | num (bits : Nat)     -- float64 by IEEE-754 bit pattern
  | bool (b : Bool)
  | text (s : Bytes)
  deriving DecidableEq, Repr

/-- `caster.Cast(value)` = `toBaseType` -/
def cast (s : Bytes) : Cell :=
  match parseFloat s with
  | some bits => .num bits
  | none =>
    match parseBool s with
    | some b => .bool b
    | none => .text s

/-! ## 3. table derivation and read-back -/

structure Table where
  header : List Bytes
  cells : List (List Cell)
  /-- `baseTable.colNum`: the column count remembered by `SetColumnAndRowSize`.  Go keeps it apart from
  the header (`CsvTableImpl.header`), and so does the model; that the two agree after a load is a
  theorem (`load_colNum`), not a definition.  The default only serves table literals written
  without it. -/
  colNum : Nat := header.length
  deriving DecidableEq, Repr

/-- where the Go code indexes unconditionally (the theorems show the site is never reached) -/
inductive PanicSite where
  | cellIndex   -- assignTableContent: `context.records[rowIndex][colIndex]` out of range (a record shorter than the header)
  deriving DecidableEq, Repr

inductive Load where
  | error (e : CsvErr)      -- `ds.errors` gets the wrapped parse error; no table is added
  | panic (p : PanicSite)
  | ok (t : Table)
  deriving DecidableEq, Repr

/-- inner loop of `assignTableContent`: `for col < colSize: cast(records[row][col])`.
Go indexes unconditionally; the guard (`none`) is where that would be out of range.  Fields
beyond `colSize` are ignored. -/
def deriveRow : Nat → List Bytes → Option (List Cell)
  | 0, _ => some []
  | _ + 1, [] => none
  | n + 1, f :: fs =>
    match deriveRow n fs with
    | none => none
    | some cs => some (cast f :: cs)

/-- outer loop of `assignTableContent` over records 1..rowSize -/
def deriveRows (colSize : Nat) : List (List Bytes) → Option (List (List Cell))
  | [] => some []
  | r :: rs =>
    match deriveRow colSize r with
    | none => none
    | some c =>
      match deriveRows colSize rs with
      | none => none
      | some cs => some (c :: cs)

/-- `deriveTableFromRecords`: no record -> error "csv content has no header record"; otherwise
rowSize = len(records) - 1, colSize = len(records[0]), header = records[0] verbatim, cells = cast
of the other records. -/
def deriveTable (records : List (List Bytes)) : Load :=
  match records with
  | [] => .error .noRecords
  | hdr :: rows =>
    let colSize := hdr.length          -- deriveContextFromRecords: `uint(len(inputRecords[0]))`
    match deriveRows colSize rows with
    | none => .panic .cellIndex
    | some cells => .ok { header := hdr, cells := cells, colNum := colSize }   -- SetColumnAndRowSize(colSize, rowSize); SetHeader

/-- `DataSet.ParseCsvTextIntoTable(name, text)` observed through `Errors()` and `Table(name)` -/
def load (text : Bytes) : Load :=
  match readAll text with
  | .error e => .error e
  | .ok records => deriveTable records

/-- `baseTable.ColumnAndRowSize()`: `bt.colNum` (remembered by `SetColumnAndRowSize`) and
`len(bt.cells)` -/
def columnAndRowSize (t : Table) : Nat × Nat := (t.colNum, t.cells.length)

/-! ### 3a. `ParseCsvTextIntoTableWithTextColumns`: columns whose heading is one of `textHeadings`
keep the text of their fields (`context.textColumns[colIndex]`), all others are cast -/

/-- `deriveTextColumns(header, textHeadings)[colIndex]` for the column with this heading: the heading
equals one of `textHeadings` (a Go map from column index to `true`) -/
def isTextColumn (textHeadings : List Bytes) (heading : Bytes) : Bool := textHeadings.contains heading

/-- what `assignTableContent` stores for one field of a column with heading `h` -/
def castIn (textHeadings : List Bytes) (h f : Bytes) : Cell :=
  if isTextColumn textHeadings h then .text f else cast f

/-- inner loop of `assignTableContent` with text columns; it walks the header's columns
(`colIndex < colSize = len(header)`), `none` = `records[row][col]` out of range -/
def deriveRowT (ths : List Bytes) : List Bytes → List Bytes → Option (List Cell)
  | [], _ => some []
  | _ :: _, [] => none
  | h :: hs, f :: fs =>
    match deriveRowT ths hs fs with
    | none => none
    | some cs => some (castIn ths h f :: cs)

def deriveRowsT (ths hdr : List Bytes) : List (List Bytes) → Option (List (List Cell))
  | [] => some []
  | r :: rs =>
    match deriveRowT ths hdr r with
    | none => none
    | some c =>
      match deriveRowsT ths hdr rs with
      | none => none
      | some cs => some (c :: cs)

/-- `deriveTableFromRecords(records, textHeadings...)` -/
def deriveTableT (ths : List Bytes) (records : List (List Bytes)) : Load :=
  match records with
  | [] => .error .noRecords
  | hdr :: rows =>
    match deriveRowsT ths hdr rows with
    | none => .panic .cellIndex
    | some cells => .ok { header := hdr, cells := cells, colNum := hdr.length }

/-- `DataSet.ParseCsvTextIntoTableWithTextColumns(name, text, textHeadings...)` on a fresh data set,
observed through `Errors()` and `Table(name)`; `ParseCsvTextIntoTable` is the case without
headings (`loadT_nil`) -/
def loadT (ths : List Bytes) (text : Bytes) : Load :=
  match readAll text with
  | .error e => .error e
  | .ok records => deriveTableT ths records

/-! ### 3b. a data set that is loaded into more than once

`ds.errors` only grows (`Errors()` reports every error since `NewDataSet`), and `AddTable` refuses a
name that is already there.  `reportDuplicate` distinguishes the code as found (`false`:
`ParseCsvTextIntoTableWithTextColumns` dropped `AddTable`'s error, so a second text under a used
name gave neither a table nor an error) from the repaired code (`true`: the refusal is added to
`ds.errors`). -/

/-- an entry of `ds.errors`, by class -/
inductive DsErr where
  | csv (e : CsvErr)      -- the reader's error / "no header record"
  | duplicateTable        -- `AddTable`: "table with name … already in DataSet"
  deriving DecidableEq, Repr

structure DataSet where
  errors : List DsErr := []
  tables : List (Bytes × Table) := []     -- Go: `map[string]Table`; `AddTable` keeps the names distinct
  deriving DecidableEq, Repr

/-- `DataSetImpl.Table(name)` -/
def DataSet.table? (ds : DataSet) (name : Bytes) : Option Table :=
  match ds.tables.find? (fun p => p.1 == name) with
  | some p => some p.2
  | none => none

/-- `ParseCsvTextIntoTableWithTextColumns(name, text, ths...)` on any data set (`none` = panic) -/
def DataSet.parseInto (reportDuplicate : Bool) (ds : DataSet) (name : Bytes) (ths : List Bytes) (text : Bytes) :
    Option DataSet :=
  match loadT ths text with
  | .error e => some { ds with errors := ds.errors ++ [.csv e] }
  | .panic _ => none
  | .ok t =>
    match ds.table? name with
    | some _ => some (if reportDuplicate then { ds with errors := ds.errors ++ [.duplicateTable] } else ds)
    | none => some { ds with tables := ds.tables ++ [(name, t)] }

/-- what `CellString` returns -/
inductive StrOut where
  | str (s : Bytes)
  | fmtFloat (bits : Nat)   -- `fmt.Sprintf("%v", f)`: not modelled; the harness parses it back to bits
  deriving DecidableEq, Repr

/-- `baseTable.CellString`: strings as they are, floats through `%v`, anything else (bool) `""` -/
def cellString : Cell → StrOut
  | .text s => .str s
  | .num b => .fmtFloat b
  | .bool _ => .str []

/-- `baseTable.CellFloat64`: `none` = the type assertion panics -/
def cellFloat64 : Cell → Option Nat
  | .num b => some b
  | _ => none

/-! ## 4. `render`: the CSV text crem's own marshalers write (summary and solution files)

`strings.Join(fields, ", ")` per row, each row followed by `\n`; nothing is quoted or escaped
(`solution/set/encoding/csv/Marshaler.go`, `solution/encoding/csv/Marshaler.go`). -/

def renderRow : List Bytes → Bytes
  | [] => []
  | [f] => f
  | f :: g :: fs => f ++ bComma :: bSpace :: renderRow (g :: fs)

def render : List (List Bytes) → Bytes
  | [] => []
  | r :: rs => renderRow r ++ bNL :: render rs

/-- a field the unquoted writer can carry: none of `, " \n \r`, and no leading Unicode space
(TrimLeadingSpace would eat it) -/
def plainField (f : Bytes) : Bool :=
  f.all (fun b => b != bComma && b != bQuote && b != bNL && b != bCR) && spaceLen f == 0

/-- rows `render` can carry: every row has the field count `n ≥ 1`, every field is plain, and no
row is the single empty field (it renders as an empty line, which the reader skips) -/
def wellFormedRows (n : Nat) (rows : List (List Bytes)) : Bool :=
  n ≥ 1 && rows.all (fun r => r.length == n && r.all plainField && r != [[]])

/-! ### `renderQ`: the quote-everything writer (RFC 4180 style), any field content

Not used by crem; it is the reference writer for the quoted-field path of the reader
(`renderQ_parse`: every table of `\r`-free fields survives it). -/

/-- field content with every `"` doubled -/
def escapeQ : Bytes → Bytes
  | [] => []
  | b :: f => if b == bQuote then bQuote :: bQuote :: escapeQ f else b :: escapeQ f

def quoteField (f : Bytes) : Bytes := bQuote :: (escapeQ f ++ [bQuote])

def renderRowQ : List Bytes → Bytes
  | [] => []
  | [f] => quoteField f
  | f :: g :: fs => quoteField f ++ bComma :: renderRowQ (g :: fs)

def renderQ : List (List Bytes) → Bytes
  | [] => []
  | r :: rs => renderRowQ r ++ bNL :: renderQ rs

/-- rows `renderQ` can carry: every row has the field count `n ≥ 1`, no field contains `\r`
(the reader rewrites `\r\n` to `\n` even inside quotes) -/
def wellFormedRowsQ (n : Nat) (rows : List (List Bytes)) : Bool :=
  n ≥ 1 && rows.all (fun r => r.length == n && r.all (fun f => f.all (· != bCR)))

/-! ### `renderM`: a writer that mixes both styles, field by field

Not used by crem; it is the reference writer for texts in which quoted and unquoted fields, with
and without a space before them, stand side by side (`renderM_parse`).  `q f` = the field is
written quoted, `sp f` = one space is written before it. -/

def fieldM (q sp : Bytes → Bool) (f : Bytes) : Bytes :=
  (if sp f then [bSpace] else []) ++ (if q f then quoteField f else f)

def renderRowM (q sp : Bytes → Bool) : List Bytes → Bytes
  | [] => []
  | [f] => fieldM q sp f
  | f :: g :: fs => fieldM q sp f ++ bComma :: renderRowM q sp (g :: fs)

def renderM (q sp : Bytes → Bool) : List (List Bytes) → Bytes
  | [] => []
  | r :: rs => renderRowM q sp r ++ bNL :: renderM q sp rs

/-- rows `renderM q sp` can carry: every row has the field count `n ≥ 1`, no field contains `\r`,
every field written without quotes is plain, and no row is written as an empty line (the single
empty field, unquoted and without a space) -/
def wellFormedRowsM (q sp : Bytes → Bool) (n : Nat) (rows : List (List Bytes)) : Bool :=
  n ≥ 1 && rows.all (fun r => r.length == n && r.all (fun f => f.all (· != bCR) && (q f || plainField f))
    && !(r == [[]] && !q [] && !sp []))

/-- complete fields of a row that goes on: each one written and followed by its comma -/
def fieldsM (q sp : Bytes → Bool) : List Bytes → Bytes
  | [] => []
  | f :: fs => fieldM q sp f ++ bComma :: fieldsM q sp fs

/-! ## 5. specification vocabulary of C20 (used by the theorems; decidable, so the driver can
evaluate the excluding hypotheses on a witness) -/

/-- "numeric field" of the property: a string ParseFloat accepts without error -/
def isNumeric (f : Bytes) : Bool := (parseFloat f).isSome

/-- what the property asks a cell to be: numeric fields as numbers, all others as text -/
def specCell (f : Bytes) : Cell :=
  match parseFloat f with
  | some bits => .num bits
  | none => .text f

/-- a string of decimal digits only -/
def allDigits (ds : Bytes) : Bool := ds.all isDigit

/-- the natural number a string of decimal digits denotes (independent of `scanMant`) -/
def natOf (ds : Bytes) : Nat := ds.foldl (fun acc c => acc * 10 + (c - 0x30).toNat) 0

/-- IEEE-754 binary64 pattern of a natural number below 2^53 (those are exactly representable):
biased exponent `1023 + ⌊log₂ n⌋`, fraction = `n` shifted so that its leading bit is bit 52, that
bit removed -/
def bitsOfNat (n : Nat) : Nat :=
  if n = 0 then 0 else (1023 + n.log2) * 2 ^ 52 + (n * 2 ^ (52 - n.log2) - 2 ^ 52)

/-- number of significant decimal mantissa digits of a float literal (counted from the first
non-zero digit; 0 for hexadecimal literals, `inf`/`nan` and non-literals).  Up to 800 of them
strconv's multiprecision fallback stores the mantissa completely; beyond, it is known to
mis-scale (see `Lit.bits`), and the model — which follows mathematics — is not claimed to be
`strconv.ParseFloat` there. -/
def mantDigits (f : Bytes) : Nat :=
  match parseLit f with
  | some (.dec _ _ nd _) => nd
  | _ => 0

/-- a non-numeric field `strconv.ParseBool` accepts: `t T TRUE true True f F FALSE false False` -/
def boolSpelled (f : Bytes) : Bool := !isNumeric f && (parseBool f).isSome

/-- the text has no record at all: empty, or only line ends that form empty lines -/
def noRecords (text : Bytes) : Bool := (normalize text).all (· == bNL)

/-- every row has exactly `n` cells -/
def rectangular (n : Nat) (cells : List (List Cell)) : Bool := cells.all (·.length == n)

end Crem.Csv
