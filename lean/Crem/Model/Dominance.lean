/-
Model of `pkg/dominance/Float64Vector.go`.

`Dominates` is transcribed as the two sequential passes the Go code performs
(first pass: any component greater -> false; second pass: any component smaller
-> true; else false).  Vectors are `List Int`: the harness maps every finite
float64 to an integer by a strictly monotone map that identifies +0.0 and -0.0
(as Go's comparison operators do), and checks that map against Go's own `<` on
every pair it uses.  Both passes walk the index range of the receiver; for the
equal-length vectors the property speaks about, that is a walk over the zipped
lists.  Core Lean only (the driver links this file).
-/
namespace Crem.Dominance

/-- first pass of `Dominates`: is some component of `x` greater than `y`'s? -/
def anyGreater : List Int → List Int → Bool
  | x :: xs, y :: ys => if x > y then true else anyGreater xs ys
  | _, _ => false

/-- second pass of `Dominates` (= `anyLessThanValuesIn`) -/
def anyLess : List Int → List Int → Bool
  | x :: xs, y :: ys => if x < y then true else anyLess xs ys
  | _, _ => false

/-- `(*Float64Vector).Dominates` -/
def dominates (x y : List Int) : Bool :=
  if anyGreater x y then false
  else if anyLess x y then true
  else false

/-- `IsDominatedBy`: `otherCandidate.Dominates(v)` -/
def isDominatedBy (x y : List Int) : Bool := dominates y x

/-- `DominancePresent` -/
def dominancePresent (x y : List Int) : Bool := dominates x y || dominates y x

/-- `NoDominancePresent` -/
def noDominancePresent (x y : List Int) : Bool := !(dominancePresent x y)

/-- `IsComparable` restricted to Float64Vector arguments: the lengths match -/
def isComparable (x y : List Int) : Bool := x.length == y.length

end Crem.Dominance
