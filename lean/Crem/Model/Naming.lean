/-
Model of how crem names and labels what it saves (property C12).  Core Lean only.

Transcribed from
  internal/pkg/scenario/Runner.go        generateCloneId
  internal/pkg/scenario/Saver.go         deriveAsIsSolutionId, deriveSolutionId, deriveAsIsOptimisedSolutionId,
                                         encodeAndSummariseOptimisedSolution, deriveSummaryIdFromSolution
  internal/pkg/annealing/solution/Solution.go            FileNameSafeId
  internal/pkg/annealing/solution/set/Summary.go         Id, FileNameSafeId, justSomeId
  internal/pkg/annealing/solution/set/encoding/json/Marshaler.go   deriveSetNameFor, getFirstKey
  internal/pkg/annealing/solution/set/encoding/{csv,json}/Encoder.go   deriveOutputPath

Strings are `List Char`.  The regular expressions are transcribed as small structural functions
that compute what the Go `regexp` call computes (leftmost match, greedy quantifiers, `.` does not
match a newline); they are validated against Go's `regexp` by the `naming` correspondence suite.

Where the Go code takes "just some" key of the summary map (`justSomeId`, `getFirstKey`) the
function here takes THE KEY THAT MAP ITERATION YIELDED as an explicit argument.

Three variants exist where the code was repaired (DESIGN.md section 6, D6-D8; round 3):
  * `Variant.current`  : the code as found  (`… As-Is` key for solution sets; label = FIRST `\d+/\d+` match)
  * `Variant.fixed`    : D6-D8 repaired     (`… Solution (As-Is)` key;        label = LAST  `\d+/\d+` match);
                         label, `Summary.Id` and `Summary.FileNameSafeId` still search the WHOLE id, scenario name
                         included: a name holding `As-Is`, `(1/1)` or `Solution (` breaks them
  * `Variant.anchored` : round-3 repairs    (label, `Summary.Id`, `Summary.FileNameSafeId` are computed from the id
                         cut at the LAST ` Solution (`, i.e. from the ending the Saver itself appended)
`Summary.Id` / `Summary.FileNameSafeId` are the same functions in `current` and `fixed` (`setIdOfKey`,
`fileSafeIdOfKey`); `anchored` has `setIdOfKeyA`, `fileSafeIdOfKeyA`.  `deriveSetNameFor` is the same in all three.
-/
namespace Crem.Naming

abbrev Str := List Char

/-! ## string constants (explicit character lists: they reduce in the kernel) -/

def sSolution : Str := ['S', 'o', 'l', 'u', 't', 'i', 'o', 'n']
def sAsIs : Str := ['A', 's', '-', 'I', 's']
def sOneOfOne : Str := ['(', '1', '/', '1', ')']
def sSummary : Str := ['S', 'u', 'm', 'm', 'a', 'r', 'y']
def sOptimised : Str := ['O', 'p', 't', 'i', 'm', 'i', 's', 'e', 'd']
def sOf : Str := ['-', 'o', 'f', '-']
def sUOf : Str := ['_', 'o', 'f', '_']
/-- `" Solution ("` -/
def sSolOpen : Str := [' '] ++ sSolution ++ [' ', '(']
/-- `" Solution (As-Is)"` -/
def sSolAsIs : Str := sSolOpen ++ sAsIs ++ [')']
/-- `" As-Is"` -/
def sSpAsIs : Str := ' ' :: sAsIs
/-- `"Solution ("`, the literal head of `Solution \(.+\)` -/
def patSolSpOpen : Str := sSolution ++ [' ', '(']
/-- `"Solution("`, the literal head of `Solution\(.+\)` -/
def patSolOpen : Str := sSolution ++ ['(']
/-- `" Solution"`, the literal of `(.*) Solution.*` -/
def patSpSol : Str := ' ' :: sSolution
/-- `"-Summary"` -/
def sDashSummary : Str := '-' :: sSummary

/-- `%d` of a natural number -/
def natStr (n : Nat) : Str := Nat.toDigits 10 n

/-! ## substring tests (`strings.HasPrefix`, `strings.Contains`) -/

/-- `pat` is a prefix of the second argument -/
def isPrefix : Str → Str → Bool
  | [], _ => true
  | _ :: _, [] => false
  | p :: ps, c :: cs => p == c && isPrefix ps cs

/-- `strings.Contains(s, pat)` -/
def contains (pat : Str) : Str → Bool
  | [] => isPrefix pat []
  | c :: cs => isPrefix pat (c :: cs) || contains pat cs

/-- the part of a string before the LAST occurrence of `pat`: `s[:strings.LastIndex(s, pat)]`, `none` = no occurrence -/
def beforeLast (pat : Str) : Str → Option Str
  | [] => if pat.isEmpty then some [] else none
  | c :: t =>
    match beforeLast pat t with
    | some r => some (c :: r)
    | none => if isPrefix pat (c :: t) then some [] else none

/-- `s[strings.LastIndex(s, pat):]`, the whole string when `pat` does not occur -/
def fromLast (pat s : Str) : Str :=
  match beforeLast pat s with
  | some a => s.drop a.length
  | none => s

/-! ## ids -/

/-- `Runner.generateCloneId`: the id of run `r` of `R` -/
def runId (name : Str) (r R : Nat) : Str :=
  if R > 1 then name ++ [' ', '('] ++ natStr r ++ ['/'] ++ natStr R ++ [')'] else name

inductive Variant where
  | current | fixed | anchored
  deriving DecidableEq, Repr

/-- single-objective (Kirkpatrick: one optimised solution) or multi-objective (Suppapitnarm: a solution set) -/
inductive Family where
  | single | multi
  deriving DecidableEq, Repr

/-- id of the as-is solution = its key in the summary map.
single: `deriveAsIsOptimisedSolutionId`; multi: `deriveAsIsSolutionId` -/
def asIsKey (v : Variant) (f : Family) (rid : Str) : Str :=
  match f, v with
  | .single, _ => rid ++ sSolAsIs
  | .multi, .current => rid ++ sSpAsIs
  | .multi, .fixed => rid ++ sSolAsIs
  | .multi, .anchored => rid ++ sSolAsIs

/-- `deriveSolutionId`: `"%s Solution (%d/%d)"` -/
def memberKey (rid : Str) (k n : Nat) : Str :=
  rid ++ sSolOpen ++ natStr k ++ ['/'] ++ natStr n ++ [')']

/-- ids of the non-as-is rows, in sort order; `n` = archive size (ignored for `single`) -/
def memberKeys (f : Family) (rid : Str) (n : Nat) : List Str :=
  match f with
  | .single => [memberKey rid 1 1]
  | .multi => (List.range n).map (fun i => memberKey rid (i + 1) n)

/-- every key of the summary map of one run, in sort order (as-is first) -/
def keys (v : Variant) (f : Family) (rid : Str) (n : Nat) : List Str :=
  asIsKey v f rid :: memberKeys f rid n

/-! ## `\d+/\d+` : `FindString` / `FindAllString` -/

/-- scanner state for `\d+/\d+` -/
inductive Scan where
  | idle
  | d1 (a : Str)          -- inside the first digit run
  | slash (a : Str)       -- first run and `/` read
  | d2 (a b : Str)        -- inside the second digit run
  deriving Repr

/-- one character; the second component collects the completed matches, leftmost first -/
def scanStep : Scan × List Str → Char → Scan × List Str
  | (.idle, ms), c => if c.isDigit then (.d1 [c], ms) else (.idle, ms)
  | (.d1 a, ms), c =>
    if c.isDigit then (.d1 (a ++ [c]), ms) else if c = '/' then (.slash a, ms) else (.idle, ms)
  | (.slash a, ms), c => if c.isDigit then (.d2 a [c], ms) else (.idle, ms)
  | (.d2 a b, ms), c =>
    if c.isDigit then (.d2 a (b ++ [c]), ms) else (.idle, ms ++ [a ++ '/' :: b])

def scanFinish : Scan × List Str → List Str
  | (.d2 a b, ms) => ms ++ [a ++ '/' :: b]
  | (_, ms) => ms

/-- `regexp.MustCompile("\\d+/\\d+").FindAllString(s, -1)` -/
def allMatches (s : Str) : List Str := scanFinish (s.foldl scanStep (.idle, []))

/-- `prettifiedMatcher.ReplaceAllString(m, "-of-")` -/
def slashToOf (s : Str) : Str := s.flatMap (fun c => if c = '/' then sOf else [c])

/-- `deriveSummaryIdFromSolution`, parametrised by which match is taken -/
def labelOf (pick : List Str → Str) (id : Str) : Str :=
  if contains sOneOfOne id then sOptimised
  else if contains sAsIs id then sAsIs
  else slashToOf (pick (allMatches id))

/-- the code as found: `iterationMatcher.FindString` = the FIRST match (`""` if none) -/
def labelCurrent : Str → Str := labelOf (fun ms => ms.head?.getD [])

/-- repaired: the LAST match (`""` if none) -/
def labelFixed : Str → Str := labelOf (fun ms => ms.getLast?.getD [])

/-- round-3 repair: the same derivation applied to the id's own ending only, `id[LastIndex(id, " Solution ("):]`
(the whole id when it has no such infix) -/
def labelAnchored (id : Str) : Str := labelFixed (fromLast sSolOpen id)

def label : Variant → Str → Str
  | .current => labelCurrent
  | .fixed => labelFixed
  | .anchored => labelAnchored

/-! ## `Summary.Id`, `Summary.FileNameSafeId`, JSON set name -/

/-- `strings.Split(s, "\n")` -/
def splitLines : Str → List Str
  | [] => [[]]
  | c :: cs =>
    if c = '\n' then [] :: splitLines cs
    else match splitLines cs with
      | l :: ls => (c :: l) :: ls
      | [] => [[c]]

/-- `strings.Join(ls, "\n")` -/
def joinLines : List Str → Str
  | [] => []
  | [l] => l
  | l :: ls => l ++ '\n' :: joinLines ls

/-- what follows the last `)` of the argument, if there is one -/
def afterLastClose : Str → Option Str
  | [] => none
  | c :: t =>
    match afterLastClose t with
    | some r => some r
    | none => if c = ')' then some t else none

/-- `ReplaceAllString` of the expression `<pat>.+\)` (pat a literal) by `rep` within ONE line.
The greedy `.+` runs to the last `)` of the line, so a line holds at most one match: the first
occurrence of `pat` that has a `)` at least two characters further right.  If the first occurrence
has none, no later one has. -/
def replaceLine (pat rep : Str) : Str → Str
  | [] => []
  | c :: t =>
    if isPrefix pat (c :: t) then
      match (c :: t).drop pat.length with
      | [] => c :: t
      | _ :: u =>
        match afterLastClose u with
        | some r => rep ++ r
        | none => c :: t
    else c :: replaceLine pat rep t

/-- `regexp.MustCompile(pat + ".+\\)").ReplaceAllString(s, rep)`; `.` does not match `\n` -/
def replaceAllLines (pat rep : Str) (s : Str) : Str :=
  joinLines ((splitLines s).map (replaceLine pat rep))

/-- `set.Summary.Id()` when `justSomeId` yielded `key` -/
def setIdOfKey (key : Str) : Str := replaceAllLines patSolSpOpen sSummary key

/-- `strings.Replace(s, "/", "_of_", -1)` -/
def slashToUOf (s : Str) : Str := s.flatMap (fun c => if c = '/' then sUOf else [c])

/-- `strings.Replace(s, " ", "", -1)` -/
def stripSpaces (s : Str) : Str := s.filter (fun c => c != ' ')

/-- `set.Summary.FileNameSafeId()` when `justSomeId` yielded `key` -/
def fileSafeIdOfKey (key : Str) : Str :=
  slashToUOf (replaceAllLines patSolOpen [] (stripSpaces key))

/-- round-3 repair, `runIdOf`: what precedes the LAST ` Solution (` of a solution id -/
def runPartOfKey (key : Str) : Option Str := beforeLast sSolOpen key

/-- repaired `set.Summary.Id()` when `justSomeId` yielded `key`: `<run part> Summary`, the key itself without the infix -/
def setIdOfKeyA (key : Str) : Str :=
  match runPartOfKey key with
  | some a => a ++ ' ' :: sSummary
  | none => key

/-- repaired `set.Summary.FileNameSafeId()`: the run part, blanks removed, `/` -> `_of_` -/
def fileSafeIdOfKeyA (key : Str) : Str := slashToUOf (stripSpaces ((runPartOfKey key).getD key))

def setIdV : Variant → Str → Str
  | .anchored => setIdOfKeyA
  | _ => setIdOfKey

def fileSafeIdV : Variant → Str → Str
  | .anchored => fileSafeIdOfKeyA
  | _ => fileSafeIdOfKey

/-- `solution.Solution.FileNameSafeId()` (names of the detail files) -/
def solutionFileSafeId (id : Str) : Str := slashToUOf (stripSpaces id)

/-- json `deriveSetNameFor` when `getFirstKey` yielded `key`:
`regexp.MustCompile("(.*) Solution.*").FindStringSubmatch(key)[1]`; `none` = the index panic on a
nil match.  The leftmost match starts at the beginning of the first line that holds `" Solution"`;
the greedy group runs to the last occurrence in that line. -/
def jsonSetNameOfKey (key : Str) : Option Str :=
  (splitLines key).findSome? (beforeLast patSpSol)

inductive OutputType where
  | csv | json
  deriving DecidableEq, Repr

def ext : OutputType → Str
  | .csv => ['.', 'c', 's', 'v']
  | .json => ['.', 'j', 's', 'o', 'n']

/-- base name of the summary file (`Encoder.deriveOutputPath`) when the map yielded `key` -/
def summaryFileName (ot : OutputType) (key : Str) : Str :=
  fileSafeIdOfKey key ++ sDashSummary ++ ext ot

/-- the same for a variant -/
def summaryFileNameV (v : Variant) (ot : OutputType) (key : Str) : Str :=
  fileSafeIdV v key ++ sDashSummary ++ ext ot

/-- the intended names, as a function of (scenario name, run number, number of runs, output type) -/
def runFileStem (name : Str) (r R : Nat) : Str :=
  if R > 1 then stripSpaces name ++ ['('] ++ natStr r ++ sUOf ++ natStr R ++ [')'] else stripSpaces name

def intendedFileName (ot : OutputType) (name : Str) (r R : Nat) : Str :=
  runFileStem name r R ++ sDashSummary ++ ext ot

def intendedSetId (name : Str) (r R : Nat) : Str := runId name r R ++ ' ' :: sSummary

/-- the intended file stem for ANY scenario name (a `/` of the name becomes `_of_` like the run's own);
equal to `runFileStem` when the name has no `/` -/
def runFileStemA (name : Str) (r R : Nat) : Str :=
  if R > 1 then slashToUOf (stripSpaces name) ++ ['('] ++ natStr r ++ sUOf ++ natStr R ++ [')']
  else slashToUOf (stripSpaces name)

def intendedFileNameA (ot : OutputType) (name : Str) (r R : Nat) : Str :=
  runFileStemA name r R ++ sDashSummary ++ ext ot

/-- names of the detail files of one solution (`OutputLevel = Detail`) -/
def detailFileNames (ot : OutputType) (id : Str) : List Str :=
  match ot with
  | .csv => [solutionFileSafeId id ++ "-ManagementActions.csv".toList,
             solutionFileSafeId id ++ "-NameMappedVariables.csv".toList]
  | .json => [solutionFileSafeId id ++ ext .json]

/-! ## the clean alphabet of the theorems -/

/-- a scenario name over the clean alphabet: none of `/ ( )`, no newline, and neither `As-Is`
nor `Solution` as a substring - the latter also not after its blanks are removed (the file name is
derived from the blank-free id: `Sol ution` would become `Solution` there) -/
def Clean (name : Str) : Prop :=
  '/' ∉ name ∧ '(' ∉ name ∧ ')' ∉ name ∧ '\n' ∉ name ∧
  contains sAsIs name = false ∧ contains sSolution name = false ∧
  contains sSolution (stripSpaces name) = false

instance (name : Str) : Decidable (Clean name) := by unfold Clean; infer_instance

end Crem.Naming
