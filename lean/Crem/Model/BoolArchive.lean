/-
Model of `pkg/archive/BooleanArchive.go` and of its use by
`internal/pkg/model/archive/ModelCompressor.go` / `CompresedModelState.go`.

Two layers:

* the **abstract spec**: an archive of `n` booleans is a `List Bool` of length `n`;
  `encode` renders it as upper-case hex words (64 bits per word, bit `i` of word
  `i / 64` is entry `i`, little-endian inside a word) joined by `:`; `decode n`
  is the inverse on well-formed text and classifies malformed text;
* the **concrete model**: `Archive = (size, words : List (BitVec 64), cache)`
  transcribing the Go methods, quirks included:
  - `SetValue` changes a bit by *adding* / *subtracting* the mask (after testing
    the current bit), not by `|` / `&^`;
  - `Encoding()` returns the memoised text when it is not the empty string;
  - `Decode` checks only the *number* of `:`-separated entries, parses each with
    `strconv.ParseUint(entry, 16, 64)` (lower case digits and leading zeros are
    accepted, signs / `0x` / `_` / empty are syntax errors, more than 64 bits is a
    range error, errors are found left to right), **overwrites the words as it
    goes**, and only on success clears the unused high bits of the last word and
    resets the cache.  A failing `Decode` therefore keeps the words it has already
    overwritten *and* the old cached text (stale cache) — transcribed, see
    `decodeC`; no caller in crem uses an archive after a failed decode except
    `SolutionPool.AddSolution`, which ignores the error (reported under C13/C15);
  - an index `>= size` panics explicitly; a negative Go `int` index in `-63..-1`
    does *not* panic (word 0, `uint(idx % 64) >= 64`, so the mask is 0: reads
    false, writes nothing, but still resets the cache); `<= -64` is a runtime
    index-out-of-range panic.  (`setValueInt` / `valueInt`.)

Text is `List Char` (the driver converts from/to `String`).  Go strings are byte
strings; `:` and the hex digits are ASCII, so splitting and parsing agree on
every valid UTF-8 text (a multi-byte character is a syntax error at its first
byte in Go and at the character here — the same position in the left-to-right
scan).

`size` is a `Nat`: `archive.New` with a negative size is outside the model (no
caller does it; `len(actions)` is never negative).  The slice-bounds panics of
the Go runtime are not modelled in the unchecked helpers (`getD`/`set` are
total): `words.length = nWords size` is established by `new`, preserved by every
operation (`Proofs/BoolArchive.lean`, `WF`), and under it every index the code
computes is in range.

Core Lean only (the driver links this file).
-/
namespace Crem.BoolArchive

/-! ## Hex text: Go `%X` and `strconv.ParseUint(s, 16, 64)` -/

/-- upper-case hex digit of `d < 16` -/
def hexDigit (d : Nat) : Char :=
  if d < 10 then Char.ofNat (48 + d) else Char.ofNat (55 + d)

def toHexAux : Nat → Nat → List Char → List Char
  | 0, _, acc => acc
  | fuel + 1, n, acc => if n = 0 then acc else toHexAux fuel (n / 16) (hexDigit (n % 16) :: acc)

/-- `fmt.Sprintf("%X", number)` for a `uint64` (at most 16 digits, no leading zeros, `"0"` for 0) -/
def toHex (n : Nat) : List Char :=
  if n = 0 then ['0'] else toHexAux 16 n []

/-- value of a hex digit as `ParseUint` base 16 reads it: `0-9`, `a-f`, `A-F` -/
def hexVal (c : Char) : Option Nat :=
  if '0' ≤ c ∧ c ≤ '9' then some (c.toNat - 48)
  else if 'a' ≤ c ∧ c ≤ 'f' then some (c.toNat - 87)
  else if 'A' ≤ c ∧ c ≤ 'F' then some (c.toNat - 55)
  else none

/-- result classes of `Decode` (the Go error texts are not compared) -/
inductive DecodeErr
  | count    -- "Wrong number of entries in encoding"
  | syntax   -- strconv.ErrSyntax
  | range    -- strconv.ErrRange
  deriving DecidableEq, Repr

/-- the digit loop of `ParseUint(s, 16, 64)`: `cutoff = 2^60` (`n >= cutoff` means
`n*16` overflows); below the cutoff `n*16 + d < 2^64`, so the second overflow test
of the Go code never fires for base 16 -/
def parseHexLoop : List Char → Nat → Except DecodeErr Nat
  | [], n => .ok n
  | c :: cs, n =>
    match hexVal c with
    | none => .error .syntax
    | some d => if n ≥ 2 ^ 60 then .error .range else parseHexLoop cs (n * 16 + d)

/-- `strconv.ParseUint(s, 16, 64)`: the empty string is a syntax error; with an
explicit base neither a `0x` prefix, nor `_`, nor a sign is accepted -/
def parseHex (s : List Char) : Except DecodeErr Nat :=
  if s = [] then .error .syntax else parseHexLoop s 0

/-! ## Splitting and joining on the delimiter -/

/-- `strings.Split(text, ":")` for a one-character separator: always at least one entry -/
def splitOn (d : Char) : List Char → List (List Char)
  | [] => [[]]
  | c :: cs =>
    if c = d then [] :: splitOn d cs
    else
      match splitOn d cs with
      | [] => [[c]]
      | e :: es => (c :: e) :: es

def joinWith (d : Char) : List (List Char) → List Char
  | [] => []
  | [e] => e
  | e :: e' :: es => e ++ d :: joinWith d (e' :: es)

/-! ## Abstract spec -/

/-- `archiveSize`: `int(math.Ceil(float64(n) / 64))` -/
def nWords (n : Nat) : Nat := (n + 63) / 64

/-- little-endian value of a chunk of bits: entry `j` of the chunk is worth `2^j` -/
def wordVal : List Bool → Nat
  | [] => 0
  | b :: bs => b.toNat + 2 * wordVal bs

/-- the `k`-th group of (up to) 64 entries -/
def chunk (bs : List Bool) (k : Nat) : List Bool := (bs.drop (64 * k)).take 64

def specWords (bs : List Bool) : List Nat :=
  (List.range (nWords bs.length)).map (fun k => wordVal (chunk bs k))

/-- the canonical text of a list of booleans -/
def encode (bs : List Bool) : List Char :=
  joinWith ':' ((specWords bs).map toHex)

/-- parse every entry, reporting the first error from the left -/
def parseAll : List (List Char) → Except DecodeErr (List Nat)
  | [] => .ok []
  | e :: es =>
    match parseHex e with
    | .error err => .error err
    | .ok v =>
      match parseAll es with
      | .error err => .error err
      | .ok vs => .ok (v :: vs)

/-- the booleans a text denotes for an archive of `n` entries (bits beyond `n` are dropped) -/
def decode (n : Nat) (text : List Char) : Except DecodeErr (List Bool) :=
  let entries := splitOn ':' text
  if entries.length ≠ nWords n then .error .count
  else
    match parseAll entries with
    | .error e => .error e
    | .ok ws => .ok ((List.range n).map (fun i => (ws.getD (i / 64) 0).testBit (i % 64)))

/-! ## Concrete model -/

structure Archive where
  size : Nat
  words : List (BitVec 64)   -- archiveArray
  cache : List Char          -- encoding ("" = not cached)
  deriving DecidableEq

/-- `archive.New(size)` -/
def new (size : Nat) : Archive :=
  { size := size, words := List.replicate (nWords size) 0#64, cache := [] }

/-- `entryDetail` (the fields that matter) -/
structure Detail where
  arrayIndex : Nat
  mask : BitVec 64
  value : Bool

/-- `uint64(1 << byteOffset)` (0 when the offset is 64 or more) -/
def mask (offset : Nat) : BitVec 64 := BitVec.twoPow 64 offset

/-- `deriveDetail` for a non-negative index -/
def deriveDetail (a : Archive) (idx : Nat) : Detail :=
  let arrayIndex := idx / 64
  let m := mask (idx % 64)
  { arrayIndex := arrayIndex, mask := m,
    value := decide (0#64 < (a.words.getD arrayIndex 0#64 &&& m)) }

/-- `setValueUnchecked`: test the bit, then `+ mask` / `- mask` -/
def setValueUnchecked (a : Archive) (idx : Nat) (v : Bool) : Archive :=
  let e := deriveDetail a idx
  if e.value = v then a
  else if v then
    { a with words := a.words.set e.arrayIndex (a.words.getD e.arrayIndex 0#64 + e.mask) }
  else
    { a with words := a.words.set e.arrayIndex (a.words.getD e.arrayIndex 0#64 - e.mask) }

def resetCache (a : Archive) : Archive := { a with cache := [] }

/-- `SetValue` (non-negative index); `none` = panic "index out of range" -/
def setValue (a : Archive) (idx : Nat) (v : Bool) : Option Archive :=
  if idx ≥ a.size then none else some (resetCache (setValueUnchecked a idx v))

/-- `Value` (non-negative index); `none` = panic -/
def value (a : Archive) (idx : Nat) : Option Bool :=
  if idx ≥ a.size then none else some (deriveDetail a idx).value

/-- `SetValue` for a Go `int` index (see the header for the negative range) -/
def setValueInt (a : Archive) (idx : Int) (v : Bool) : Option Archive :=
  if idx ≥ (a.size : Int) then none
  else if idx ≥ 0 then setValue a idx.toNat v
  else if idx ≤ -64 then none
  else if a.words = [] then none
  else some (resetCache a)

/-- `Value` for a Go `int` index -/
def valueInt (a : Archive) (idx : Int) : Option Bool :=
  if idx ≥ (a.size : Int) then none
  else if idx ≥ 0 then value a idx.toNat
  else if idx ≤ -64 then none
  else if a.words = [] then none
  else some false

/-- the loop of `Encoding()`: `builder.AddIf(index > 0, ":").Add(hex(entry))` -/
def encodeLoop : Nat → List (BitVec 64) → List Char
  | _, [] => []
  | idx, w :: ws => (if idx > 0 then [':'] else []) ++ toHex w.toNat ++ encodeLoop (idx + 1) ws

/-- `Encoding()`: memoised unless the memo is the empty string -/
def encoding (a : Archive) : Archive × List Char :=
  if a.cache ≠ [] then (a, a.cache)
  else
    let s := encodeLoop 0 a.words
    ({ a with cache := s }, s)

/-- `parseEntriesIntoArrayValues`: overwrite word `index` as soon as entry `index` parses;
stop at the first error, keeping what has been written -/
def parseEntries : List (List Char) → Nat → List (BitVec 64) → List (BitVec 64) × Option DecodeErr
  | [], _, ws => (ws, none)
  | e :: es, idx, ws =>
    match parseHex e with
    | .error err => (ws, some err)
    | .ok v => parseEntries es (idx + 1) (ws.set idx (BitVec.ofNat 64 v))

/-- `zeroOutUnusedArrayEntries`: `setValueUnchecked(i, false)` for `i = size .. 64*len - 1` -/
def zeroOutUnused (a : Archive) : Archive :=
  (List.range' a.size (a.words.length * 64 - a.size)).foldl
    (fun acc i => setValueUnchecked acc i false) a

/-- `Decode`: `none` = success.  On a parse error the words overwritten so far and the
cached text are both kept (quirk, see the header) -/
def decodeC (a : Archive) (text : List Char) : Archive × Option DecodeErr :=
  let entries := splitOn ':' text
  if entries.length ≠ a.words.length then (a, some .count)
  else
    match parseEntries entries 0 a.words with
    | (ws, some e) => ({ a with words := ws }, some e)
    | (ws, none) => (resetCache (zeroOutUnused { a with words := ws }), none)

/-- `IsEquivalentTo`: sizes, then word by word over the receiver's words -/
def isEquivalentTo (a b : Archive) : Bool :=
  if a.size ≠ b.size then false
  else (List.range a.words.length).all (fun i => a.words.getD i 0#64 == b.words.getD i 0#64)

/-- the booleans a concrete archive holds (abstraction function) -/
def absBits (a : Archive) : List Bool :=
  (List.range a.size).map (fun i => (a.words.getD (i / 64) 0#64).getLsbD (i % 64))

/-! ## Use by `ModelCompressor` -/

/-- `compressActions`: `New(len(actions))`, then `SetValue(index, action.IsActive())` in index order -/
def compressLoop : List Bool → Nat → Archive → Option Archive
  | [], _, a => some a
  | f :: fs, idx, a =>
    match setValue a idx f with
    | none => none
    | some a' => compressLoop fs (idx + 1) a'

def compress (flags : List Bool) : Option Archive :=
  compressLoop flags 0 (new flags.length)

/-- `Decompress`: `SetManagementAction(index, Actions.Value(index))` for `index < Actions.Len()`;
the list of values handed to the model (`none` = a panic on the way) -/
def decompressLoop (a : Archive) : List Nat → Option (List Bool)
  | [] => some []
  | i :: is =>
    match value a i with
    | none => none
    | some b =>
      match decompressLoop a is with
      | none => none
      | some bs => some (b :: bs)

def decompress (a : Archive) : Option (List Bool) := decompressLoop a (List.range a.size)

/-! ## Operation alphabet for the refinement theorem -/

inductive Op
  | setValue (idx : Nat) (v : Bool)
  | value (idx : Nat)
  | encoding
  | decode (text : List Char)
  | setValueInt (idx : Int) (v : Bool)   -- `SetValue` with a Go `int` index (negative ones included)
  | valueInt (idx : Int)                 -- `Value` with a Go `int` index

inductive Ans
  | done
  | panic
  | bool (b : Bool)
  | text (s : List Char)
  | err (e : DecodeErr)
  deriving DecidableEq

/-- one operation on the concrete archive -/
def stepC (a : Archive) : Op → Archive × Ans
  | .setValue i v =>
    match setValue a i v with
    | none => (a, .panic)
    | some a' => (a', .done)
  | .value i =>
    match value a i with
    | none => (a, .panic)
    | some b => (a, .bool b)
  | .encoding => let r := encoding a; (r.1, .text r.2)
  | .decode t =>
    match decodeC a t with
    | (a', none) => (a', .done)
    | (a', some e) => (a', .err e)
  | .setValueInt i v =>
    match setValueInt a i v with
    | none => (a, .panic)
    | some a' => (a', .done)
  | .valueInt i =>
    match valueInt a i with
    | none => (a, .panic)
    | some b => (a, .bool b)

/-- the same operation on the abstract spec (a list of booleans).  A failing `Decode` leaves the
list as it is.  A negative Go index in `-63..-1` on a non-empty archive is *not* a panic in the Go
code (word 0, mask 0): the write is a no-op, the read is `false` (transcribed quirk; no caller in
crem passes a negative index) -/
def stepA (bs : List Bool) : Op → List Bool × Ans
  | .setValue i v => if i ≥ bs.length then (bs, .panic) else (bs.set i v, .done)
  | .value i => if i ≥ bs.length then (bs, .panic) else (bs, .bool (bs.getD i false))
  | .encoding => (bs, .text (encode bs))
  | .decode t =>
    match decode bs.length t with
    | .ok bs' => (bs', .done)
    | .error e => (bs, .err e)
  | .setValueInt i v =>
    if i ≥ (bs.length : Int) then (bs, .panic)
    else if i ≥ 0 then (bs.set i.toNat v, .done)
    else if i ≤ -64 then (bs, .panic)
    else if bs.length = 0 then (bs, .panic)
    else (bs, .done)
  | .valueInt i =>
    if i ≥ (bs.length : Int) then (bs, .panic)
    else if i ≥ 0 then (bs, .bool (bs.getD i.toNat false))
    else if i ≤ -64 then (bs, .panic)
    else if bs.length = 0 then (bs, .panic)
    else (bs, .bool false)

def runC : Archive → List Op → List Ans
  | _, [] => []
  | a, op :: ops => (stepC a op).2 :: runC (stepC a op).1 ops

def runA : List Bool → List Op → List Ans
  | _, [] => []
  | bs, op :: ops => (stepA bs op).2 :: runA (stepA bs op).1 ops

/-- the state after a sequence of operations -/
def execC : Archive → List Op → Archive
  | a, [] => a
  | a, op :: ops => execC (stepC a op).1 ops

def execA : List Bool → List Op → List Bool
  | bs, [] => bs
  | bs, op :: ops => execA (stepA bs op).1 ops

def isOk {ε α : Type} : Except ε α → Bool
  | .ok _ => true
  | .error _ => false

/-- the one kind of `Decode` argument the refinement theorem does not cover, for an archive of `n`
entries: the text has the right number of entries, **at least two** of them (so `n > 64`), the first
one parses and a later one does not.  Only then does a failing `Decode` leave a trace: the words in
front of the bad entry are already overwritten and the memoised text is kept.  Every other failing
`Decode` (wrong entry count, first entry bad, any failure on an archive of at most 64 entries)
returns its error and leaves the archive exactly as it was. -/
def partialWrite (n : Nat) (text : List Char) : Bool :=
  match splitOn ':' text with
  | e :: e' :: es =>
    decide ((e :: e' :: es).length = nWords n) && isOk (parseHex e) && !isOk (parseAll (e' :: es))
  | _ => false

/-- the operations the refinement theorem covers: everything except a partially written `Decode` -/
def validOp (n : Nat) : Op → Bool
  | .decode t => !partialWrite n t
  | _ => true

end Crem.BoolArchive
