/-
Exact model of `pkg/math.RoundFloat(v, p)` = `math.Round(v * 10^p) / 10^p` on ℚ:
round half away from zero on the 10^-p grid.  `Rat` and `Rat.floor` are core Lean.
What is abstracted: IEEE-754 representation error only (DESIGN.md 3.1).
-/
namespace Crem

/-- `math.Round`: nearest integer, halves away from zero -/
def roundHA (x : Rat) : Int :=
  if 0 ≤ x then (x + 1/2).floor else -((-x + 1/2).floor)

/-- `math.RoundFloat x p` -/
def rnd (p : Nat) (x : Rat) : Rat := (roundHA (x * (10^p : Nat)) : Rat) / (10^p : Nat)

/-- distance of `x·10^p` from the nearest half-integer is below `eps`: a rounding boundary that
float arithmetic cannot decide reliably (the driver tags such cases BOUNDARY) -/
def nearHalf (p : Nat) (x : Rat) (eps : Rat) : Bool :=
  let y := x * (10^p : Nat)
  let f := y - (y.floor : Rat)        -- fractional part in [0,1)
  let d := if f ≥ 1/2 then f - 1/2 else 1/2 - f
  d < eps

end Crem
