import Crem.Model.BoolArchive
/-!
# The REST engine as a state machine (properties C14, C15, C16)

Go code modelled
  cmd/cremengine/engine/api/Mux.go, MuxSupport.go        routes, derived model attributes
  cmd/cremengine/engine/api/v1scenarioHandler.go          GET / POST  /api/v1/scenario
  cmd/cremengine/engine/api/v1solutionSetHandler.go       GET / POST  /api/v1/solutions
  cmd/cremengine/engine/api/v1solutionHandler.go          GET         /api/v1/solutions/<label>   (status only)
  cmd/cremengine/engine/api/v1modelHandler.go             GET / PATCH /api/v1/model
  cmd/cremengine/engine/api/v1activeActionslHandler.go    GET / PUT   /api/v1/model/actions/active
  cmd/cremengine/engine/api/v1applicableActionsHandler.go GET         /api/v1/model/actions/applicable
  cmd/cremengine/engine/api/v1subcatchmentHandler.go      GET / PUT   /api/v1/model/subcatchment/<id>
  internal/pkg/server/rest/{Mux,Response}.go              dispatch by anchored regex, error documents
  internal/pkg/server/admin/Mux.go                        /status, /shutdown  (`stepAdmin`)
  internal/pkg/server/RestServer.go                       `^/$` on the API multiplexer = status handler
  pkg/attributes/{Attributes,ContainedAttributes}.go      Join / Replace / Remove / Has, transcribed

## Shape

`step q W : State → Request → Response × State`, one clause per endpoint and method.
Requests are *structured*: method, URL path (classified here by `classifyPath`),
content-type header value, and body facts (what the engine's TOML / JSON / CSV decoding
makes of the body; TOML and JSON parsing themselves are not modelled).

The catchment model enters only through
  * the action set (`List Bool` over the scenario's action list `Universe.acts`); what
    `GET /model` shows of the decision variables is `repr (active set)` for an abstract
    `repr`, justified by property C01 (valuation depends only on the active set): the
    abstract response body carries the set, the harness checks the real body against a
    freshly initialised catchment model at that set;
  * `World.valid : scenario key → active set → Bool` (the scenario's limit, property C10);
  * the action-set encoding `Crem.BoolArchive.encode / decode` (property C09).

## State: live model and served snapshot

The Go engine keeps the live `*catchment.Model` (`Mux.model`) and a snapshot
`Mux.modelSolution` built from it by `updateModelSolution()`; every model read is served
from the snapshot.  The state therefore has `live` and `snap`.  In the behaviour the
property demands the two always agree (`Coherent`, proved invariant in
`Properties/C14.lean`); the code as it stands lets them drift apart on some paths.  These
paths are switched by `Quirks` so that the correspondence with the code stays exact line
by line while the defects exist; **every theorem is about `Quirks.spec` (all off)**.  For
each quirk the harness runs a fixed minimal reproduction first; its outcome selects the
variant the driver follows *and*, if the quirk is present, is reported as a direct failure
of the property (stable signature), so a quirk can never be silently accepted.

  fprintf        D11  response body used as a printf format: a text containing `%` is not returned verbatim
  patchEager     D12  PATCH /model joins the posted attributes (and applies earlier `Encoding` entries) before a
                      later entry is found invalid and the request is answered 400
  patchNoRefresh      a successful PATCH without `Encoding` does not rebuild the snapshot (read lags the write)
  subStale            PUT subcatchment builds the snapshot *before* re-deriving Encoding / validity / front
                      membership: GET /model shows the new actions with the previous derived attributes
  solLazy             POST /solutions does not re-derive `ParetoFrontMember` of the served model
  poolAlias           re-POST of a scenario while a solution table is loaded: the solution pool's as-is clone
                      shares the attribute array and overwrites the live `ParetoFrontMember` with `false`
                      (the same aliasing lets GET /solutions/<label> overwrite live attributes; not transcribed:
                      the harness forces a snapshot refresh after such a GET and cuts the sequence if it shows)
  scenarioEager       POST /scenario stores text and name before the model is known to be usable: a scenario for a
                      registered non-catchment model is answered 200 and keeps serving the previous model
                      (the other failure paths, which also make the interpreter's errors sticky, are not
                      transcribed: the harness cuts the sequence there)
  nullShadow          `Attributes.Has(name)` is `Value(name) != nil`: an entry whose value is JSON null does not count
                      as present, so `ReplaceAttribute` / `Join` APPEND a second entry of that name and
                      `RemoveAttribute` leaves it: derived attributes get listed twice (`ValidAgainstScenario`
                      `null` and `true`), `ValidationErrors` survives on a valid set, re-PUTting the identical
                      table changes GET /model, different routes to one set answer differently
  joinStale           `Attributes.Join` asks its RECEIVER (`a.Has`) — which sees neither the entries appended so far
                      nor, after a re-allocation, anything — instead of the list being built: a name posted twice
                      in one PATCH is appended twice
In the demanded behaviour a name occurs at most once in an attribute list (`present` = an entry of that name
exists; `join` = `ReplaceAttribute` entry by entry), which is what makes "identical model representations" true.

This file is the TOTAL spec: every partial Go operation (type assertion, index, nil dereference) is fused here with
the guard that protects it into a total classifier.  The Go-shaped transcription in which guards and partial
operations are separate — `stepGo : … → Except Panic (Response × State)`, which the driver executes and which is
proved equal to `step` (so: never panics) — is `Crem/Model/EngineGo.lean` / `Properties/C15.lean`.  When the REAL
handler panics the harness reports it directly, tells the driver (`obs = panic`) and starts a fresh engine.

Core Lean only (the driver links this file).
-/
namespace Crem.Engine

abbrev ActiveSet := List Bool
abbrev Bytes := List UInt8

/-! ## Variants of the code (see the header) -/

structure Quirks where
  fprintf : Bool := false
  patchEager : Bool := false
  patchNoRefresh : Bool := false
  subStale : Bool := false
  solLazy : Bool := false
  poolAlias : Bool := false
  scenarioEager : Bool := false
  nullShadow : Bool := false
  joinStale : Bool := false
  deriving DecidableEq, Repr, Inhabited

/-- the behaviour the properties demand -/
def Quirks.spec : Quirks := {}

/-! ## Attributes (`pkg/attributes`) -/

/-- canonical JSON text of a value; `"null"` is JSON null (Go `nil`) -/
abbrev Tok := String

def nullTok : Tok := "null"
def boolTok (b : Bool) : Tok := if b then "true" else "false"
/-- JSON string token of a text that needs no escaping (hex digits, `:`, identifiers) -/
def strTok (s : String) : Tok := "\"" ++ s ++ "\""
/-- the text of `ValidationErrors` is not compared (an error message): one token -/
def veTok : Tok := "VE"

structure Attr where
  name : String
  val : Tok
  deriving DecidableEq, Repr, Inhabited

abbrev Attrs := List Attr

/-- `Attributes.Value`: the value of the FIRST entry with that name -/
def valueOf : Attrs → String → Option Tok
  | [], _ => none
  | a :: rest, n => if a.name = n then some a.val else valueOf rest n

/-- `Attributes.Has` / `HasAttribute`: `Value(name) != nil` — an entry whose value is JSON null does not count -/
def has (as : Attrs) (n : String) : Bool :=
  match valueOf as n with
  | some v => v != nullTok
  | none => false

/-- `Attributes.Replace`: every entry with that name gets the value -/
def replaceAll (as : Attrs) (n : String) (v : Tok) : Attrs :=
  as.map (fun a => if a.name = n then { a with val := v } else a)

/-- an entry of that name exists (whatever its value) -/
def hasName (as : Attrs) (n : String) : Bool := as.any (fun a => a.name == n)

/-- what `ReplaceAttribute` / `RemoveAttribute` / `Join` ask before they replace, remove or append: the code as it
stands asks `Has` (quirk `nullShadow`: a null-valued entry hides the name), the demanded behaviour asks for the name -/
def present (q : Quirks) (as : Attrs) (n : String) : Bool :=
  if q.nullShadow then has as n else hasName as n

/-- `ContainedAttributes.ReplaceAttribute` -/
def replaceAttr (q : Quirks) (as : Attrs) (n : String) (v : Tok) : Attrs :=
  if present q as n then replaceAll as n v else as ++ [⟨n, v⟩]

/-- `Attributes.Join`.  As it stands (quirk `joinStale`) `Has` is asked of the receiver `a` for every incoming entry —
`a` keeps its length but shares its backing array with the list being built, so it sees the replacements made so far
and not the additions.  Demanded: every incoming entry replaces the entry of its name or is appended. -/
def join (q : Quirks) (a inc : Attrs) : Attrs :=
  if q.joinStale then
    inc.foldl (fun acc e => if present q (acc.take a.length) e.name then replaceAll acc e.name e.val else acc ++ [e]) a
  else
    inc.foldl (fun acc e => replaceAttr q acc e.name e.val) a

/-- index of the LAST entry with that name (`Attributes.Remove` keeps overwriting `removeIndex`) -/
def lastIndexOf : Attrs → String → Nat → Option Nat → Option Nat
  | [], _, _, acc => acc
  | a :: rest, n, i, acc => lastIndexOf rest n (i + 1) (if a.name = n then some i else acc)

/-- `ContainedAttributes.RemoveAttribute` -/
def removeAttr (q : Quirks) (as : Attrs) (n : String) : Attrs :=
  if present q as n then
    match lastIndexOf as n 0 none with
    | some i => as.eraseIdx i
    | none => as
  else as

/-! ## Scenario, model object, solution table -/

/-- what a loaded scenario fixes: the model's action list (in the model's own, sorted, order) and planning units -/
structure Universe where
  key : String                    -- identifies scenario data + parameters (opaque)
  acts : List (Nat × String)      -- (planning unit, action type)
  pus : List Nat                  -- `PlanningUnits()`
  asIs : List (String × Nat)      -- decision variable name, IEEE bits of its value with no action active
  deriving DecidableEq, Repr, Inhabited

/-- a catchment model object / a solution snapshot built from one -/
structure Mdl where
  u : Universe
  id : String                     -- `SetId(config.Scenario.Name)`
  active : ActiveSet
  attrs : Attrs
  deriving DecidableEq, Repr, Inhabited

/-- the solution-summary table as the handlers read it: `CellString` of every cell, header excluded -/
structure SolTable where
  colSize : Nat
  rows : List (List String)
  deriving DecidableEq, Repr, Inhabited

/-- abstract catchment facts -/
structure World where
  valid : String → ActiveSet → Bool

def encodeStr (set : ActiveSet) : String := String.ofList (Crem.BoolArchive.encode set)

/-- `encodingPresentInSolutionSummaryParetoFront`: rows 1.. , column `colSize - 2` -/
def paretoHas (t : SolTable) (enc : String) : Bool :=
  (t.rows.drop 1).any (fun row => row.getD (t.colSize - 2) "" == enc)

/-- `deriveExtraModelAttributes` -/
def derive (q : Quirks) (W : World) (tbl : Option SolTable) (m : Mdl) : Mdl :=
  let e := encodeStr m.active
  let a1 := replaceAttr q m.attrs "Encoding" (strTok e)
  let a2 := match tbl with
    | none => a1
    | some t => replaceAttr q a1 "ParetoFrontMember" (boolTok (paretoHas t e))
  let v := W.valid m.u.key m.active
  let a3 := replaceAttr q a2 "ValidAgainstScenario" (boolTok v)
  let a4 := if v then removeAttr q a3 "ValidationErrors" else replaceAttr q a3 "ValidationErrors" veTok
  { m with attrs := a4 }

/-- set every action of planning unit `pu` and type `ty` to `b` -/
def setWhere (u : Universe) (set : ActiveSet) (pu : Nat) (ty : String) (b : Bool) : ActiveSet :=
  List.zipWith (fun (a : Nat × String) x => if a.1 = pu ∧ a.2 = ty then b else x) u.acts set

def allInactive (u : Universe) : ActiveSet := u.acts.map (fun _ => false)

/-- `rememberModelState` on a freshly interpreted catchment model: `Initialise(AsIs)`, `SetId`, derive -/
def freshModel (q : Quirks) (W : World) (tbl : Option SolTable) (u : Universe) (name : String) : Mdl :=
  derive q W tbl { u := u, id := name, active := allInactive u,
                   attrs := [⟨"ModelSuppliedPlanningUnitName", strTok "SubCatchment"⟩] }

/-! ## Requests -/

inductive Method | get | post | put | patch | delete | head | options | other
  deriving DecidableEq, Repr, Inhabited

/-- which handler the anchored route regexes select for a URL path -/
inductive PathClass
  | root                          -- `^/$`  (status handler registered by RestServer.WithApiMux)
  | scenario | solutions
  | solution (label : String)     -- `[\w\-]+`
  | model | active | applicable
  | sub (id : String)             -- `\d+`, the digits as text (may exceed the integer range)
  | other
  deriving DecidableEq, Repr, Inhabited

def isDigit (c : Char) : Bool := '0' ≤ c && c ≤ '9'
def isWord (c : Char) : Bool :=
  isDigit c || ('a' ≤ c && c ≤ 'z') || ('A' ≤ c && c ≤ 'Z') || c == '_' || c == '-'

def stripPrefix? : List Char → List Char → Option (List Char)
  | [], s => some s
  | _ :: _, [] => none
  | p :: ps, c :: cs => if p = c then stripPrefix? ps cs else none

def subPrefix : List Char := "/api/v1/model/subcatchment/".toList
def solPrefix : List Char := "/api/v1/solutions/".toList

/-- the seven `^…$` patterns of `Mux.Initialise` plus `^/$`; they are pairwise disjoint -/
def classifyPath (path : String) : PathClass :=
  if path = "/" then .root
  else if path = "/api/v1/scenario" then .scenario
  else if path = "/api/v1/solutions" then .solutions
  else if path = "/api/v1/model" then .model
  else if path = "/api/v1/model/actions/active" then .active
  else if path = "/api/v1/model/actions/applicable" then .applicable
  else
    match stripPrefix? subPrefix path.toList with
    | some rest => if rest ≠ [] ∧ rest.all isDigit then .sub (String.ofList rest) else .other
    | none =>
      match stripPrefix? solPrefix path.toList with
      | some rest => if rest ≠ [] ∧ rest.all isWord then .solution (String.ofList rest) else .other
      | none => .other

/-- `strconv.Atoi` on 64-bit: digits only here, so the only failure is a value above `2^63 - 1` -/
def atoi? (digits : String) : Option Nat :=
  let n := digits.toList.foldl (fun acc c => acc * 10 + (c.toNat - 48)) 0
  if n < 2 ^ 63 then some n else none

/-- what POST /scenario makes of its body -/
inductive ScenBody
  | badToml                       -- TOML decoding fails
  | interpErr                     -- unknown model type, or the model's parameters are rejected
  | nonCatchment (name : String)  -- a registered model type other than the catchment model
  | loadFail                      -- a catchment model whose data set cannot be loaded
  | ok (name : String) (u : Universe)
  deriving DecidableEq, Repr, Inhabited

/-- the value of a posted `Encoding` attribute -/
inductive EncVal
  | notEncoding                   -- the entry's name is not "Encoding"
  | nonString                     -- "Encoding" with a JSON value that is not a string
  | text (s : String)             -- "Encoding" with this string
  deriving DecidableEq, Repr, Inhabited

structure PatchEntry where
  name : String
  val : Tok
  enc : EncVal
  deriving DecidableEq, Repr, Inhabited

inductive SubVal | active | inactive | otherString | nonString
  deriving DecidableEq, Repr, Inhabited

structure SubEntry where
  name : String
  val : SubVal
  deriving DecidableEq, Repr, Inhabited

/-- a cell as `BaseCaster.Cast` types it; a number carries its IEEE bits and its `CellString` (`%v`) text -/
inductive Cell
  | num (bits : Nat) (str : String)
  | bool                          -- `CellString` of a bool cell is ""
  | text (s : String)
  deriving DecidableEq, Repr, Inhabited

def Cell.str : Cell → String
  | .num _ s => s
  | .bool => ""
  | .text s => s

/-- what `ParseCsvTextIntoTable` makes of a CSV body -/
inductive Csv
  | error                         -- the reader fails (bare quote, ragged records, …) or there is no record at all
  | table (header : List String) (rows : List (List Cell))   -- every row has `header.length` cells
  deriving DecidableEq, Repr, Inhabited

def bitsZero : Nat := 0
def bitsNegZero : Nat := 0x8000000000000000
def bitsOne : Nat := 0x3FF0000000000000

/-- Go `uint64(f)` for a finite `0 <= f < 2^64` (truncation); `none` where Go leaves the result to the
implementation (negative, NaN, infinite, too large) — no planning unit is matched there -/
def floatToId (bits : Nat) : Option Nat :=
  let sign := bits / 2 ^ 63
  let e := (bits / 2 ^ 52) % 2048
  let frac := bits % 2 ^ 52
  if e = 0 then some 0                                   -- zero and subnormals (either sign) truncate to 0
  else if sign = 1 then (if e < 1023 then some 0 else none)
  else if e = 2047 then none
  else
    let m := 2 ^ 52 + frac
    if e < 1023 then some 0
    else if e ≥ 1023 + 64 then none
    else if e ≥ 1075 then some (m * 2 ^ (e - 1075)) else some (m / 2 ^ (1075 - e))

/-- what PUT /model/actions/active makes of its CSV body (`deriveSolutionTable`, `processRequestTable`) -/
inductive TableBody
  | csvError                      -- the CSV reader fails, or there is no record at all
  | badHeader                     -- first heading is not "SubCatchment"
  | badCell                       -- a cell outside the first column is not the number 0 or 1
  | badFirstColumn                -- >= 2 columns, >= 1 row, a first-column cell that is not a number
  | ok (types : List String) (rows : List (Option Nat × List Bool))
                                  -- headings after the first; per row: uint64(first cell), flags
  deriving DecidableEq, Repr, Inhabited

def isFlagCell : Cell → Bool
  | .num b _ => b = bitsZero || b = bitsNegZero || b = bitsOne
  | _ => false

def flagOf : Cell → Bool
  | .num b _ => b = bitsOne
  | _ => false

def firstIsNum : List Cell → Bool
  | .num _ _ :: _ => true
  | _ => false

def rowOf : List Cell → Option Nat × List Bool
  | .num b _ :: rest => (floatToId b, rest.map flagOf)
  | _ :: rest => (none, rest.map flagOf)
  | [] => (none, [])

/-- the checks of `deriveSolutionTable`, then what `processRequestTable` will trip over -/
def classifyTable : Csv → TableBody
  | .error => .csvError
  | .table header rows =>
    if header.head? ≠ some "SubCatchment" then .badHeader
    else if !(rows.all (fun row => (row.drop 1).all isFlagCell)) then .badCell
    else if header.length ≥ 2 && !(rows.all firstIsNum) then .badFirstColumn
    else .ok (header.drop 1) (rows.map rowOf)

/-- what POST /solutions makes of its CSV body (`deriveSolutionsRequestTable`, `verifySolutionSummaryMatchesScenario`) -/
inductive SolBody
  | csvError
  | oneColumn                     -- a single-column table (`Header()[headerLength-2]`)
  | structErr                     -- headings / cell types rejected
  | asIsUnreadable                -- an "As-Is" row whose first columns are not the model's decision variables as numbers
  | asIsMismatch                  -- "Solution Summary supplied wasn't produced from current scenario"
  | ok (t : SolTable)
  deriving DecidableEq, Repr, Inhabited

def isHexOrColon (c : Char) : Bool :=
  isDigit c || ('a' ≤ c && c ≤ 'f') || ('A' ≤ c && c ≤ 'F') || c == ':'

/-- the per-cell switch of `deriveSolutionsRequestTable` (columns 1.., rows 1..) -/
def solCellOk (heading : String) (c : Cell) : Bool :=
  if heading = "Solution" ∨ heading = "Summary" then
    match c with | .text _ => true | _ => false
  else if heading = "Actions" then c.str.toList.all isHexOrColon
  else match c with | .num _ _ => true | _ => false

def solRowOk (header : List String) (row : List Cell) : Bool :=
  ((header.zip row).drop 1).all (fun hc => solCellOk hc.1 hc.2)

/-- Go float equality on bit patterns of non-NaN values: equal bits, or both zero -/
def floatEq (a b : Nat) : Bool :=
  a = b || ((a = bitsZero || a = bitsNegZero) && (b = bitsZero || b = bitsNegZero))

inductive AsIs | fine | unreadable | mismatch
  deriving DecidableEq, Repr

/-- one "As-Is" row against the model's as-is values: columns 1..(number of decision variables) -/
def checkAsIsRow (asIs : List (String × Nat)) (header : List String) (row : List Cell) : Nat → Nat → AsIs
  | 0, _ => .fine
  | fuel + 1, col =>
    match header[col]?, row[col]? with
    | some h, some (.num b _) =>
      match asIs.find? (fun v => v.1 = h) with
      | none => .unreadable                       -- not a model variable (`DecisionVariable(name)` would panic: guarded)
      | some v => if floatEq b v.2 then checkAsIsRow asIs header row fuel (col + 1) else .mismatch
    | _, _ => .unreadable                         -- heading index out of range / `CellFloat64` type assertion

def checkAsIs (asIs : List (String × Nat)) (header : List String) : List (List Cell) → AsIs
  | [] => .fine
  | row :: rest =>
    if (row.head?.map Cell.str) = some "As-Is" then
      match checkAsIsRow asIs header row asIs.length 1 with
      | .fine => checkAsIs asIs header rest
      | other => other
    else checkAsIs asIs header rest

def classifySols (asIs : List (String × Nat)) : Csv → SolBody
  | .error => .csvError
  | .table header rows =>
    let L := header.length
    if L < 2 then .oneColumn
    else if header.head? ≠ some "Solution" ∨ header[L - 2]? ≠ some "Actions" ∨ header[L - 1]? ≠ some "Summary" then .structErr
    else if !((rows.drop 1).all (solRowOk header)) then .structErr
    else
      match checkAsIs asIs header rows with
      | .unreadable => .asIsUnreadable
      | .mismatch => .asIsMismatch
      | .fine => .ok { colSize := L, rows := rows.map (fun row => row.map Cell.str) }

inductive BodyFacts
  | none
  | scen (b : ScenBody)
  | patch (parsed : Option (List PatchEntry))     -- `none` = json.Unmarshal fails
  | sub (parsed : Option (List SubEntry))
  | csv (c : Csv)                                 -- a CSV body as `ParseCsvTextIntoTable` reads it
  deriving DecidableEq, Repr, Inhabited

structure Request where
  method : Method
  path : String
  ctype : String                  -- value of the Content-Type header ("" when absent)
  text : Bytes                    -- the body bytes (what the text resources store)
  facts : BodyFacts
  deriving DecidableEq, Repr, Inhabited

/-! ## Responses -/

inductive CType | json | toml | csv
  deriving DecidableEq, Repr, Inhabited

/-- the two resources that are not JSON documents -/
inductive TextType | toml | csv
  deriving DecidableEq, Repr, Inhabited

def TextType.ctype : TextType → CType
  | .toml => .toml
  | .csv => .csv

inductive Body
  | success                       -- MessageResponse{Type: "SUCCESS", …}
  | error                         -- MessageResponse{Type: "ERROR", …}
  | text (tt : TextType) (bytes : Bytes) (mangled : Bool)
  | model (m : Mdl)               -- the snapshot: Id, repr(active), ActiveManagementActions, Attributes
  | active (u : Universe) (set : ActiveSet)
  | applicable (u : Universe)
  | sub (entries : List (String × Bool))
  | solution (label : String)
  | status
  | adminStatus (shuttingDown : Bool)  -- the admin multiplexer's status document; its `Status` word is `statusWord`
  deriving DecidableEq, Repr, Inhabited

structure Response where
  status : Nat
  body : Body
  deriving DecidableEq, Repr, Inhabited

def Body.ctype : Body → CType
  | .text tt _ _ => tt.ctype
  | _ => .json

def Response.ctype (r : Response) : CType := r.body.ctype

def err (code : Nat) : Response := ⟨code, .error⟩
def ok (b : Body) : Response := ⟨200, b⟩

/-! ## State -/

structure State where
  scenText : Option Bytes := none
  scenName : Option String := none
  solText : Option Bytes := none
  table : Option SolTable := none
  live : Option Mdl := none       -- Mux.model
  snap : Option Mdl := none       -- Mux.modelSolution
  deriving DecidableEq, Repr, Inhabited

def State.init : State := {}

def tomlMime := "application/toml"
def jsonMime := "application/json"
def csvMime := "text/csv"

def hasPercent (t : Bytes) : Bool := t.any (· == 0x25)

def textBody (q : Quirks) (tt : TextType) (t : Bytes) : Body := .text tt t (q.fprintf && hasPercent t)

/-! ## Handlers -/

/-- POST /api/v1/scenario -/
def postScenario (q : Quirks) (W : World) (s : State) (r : Request) : Response × State :=
  if r.ctype ≠ tomlMime then (err 405, s)          -- sic: `MethodNotAllowedError` for a wrong content type
  else
    match r.facts with
    | .scen (.ok name u) =>
      let m := freshModel q W s.table u name
      let m := if q.poolAlias && s.table.isSome then { m with attrs := replaceAll m.attrs "ParetoFrontMember" (boolTok false) } else m
      (ok .success, { s with scenText := some r.text, scenName := some name, live := some m, snap := some m })
    | .scen (.nonCatchment name) =>
      if q.scenarioEager then
        match s.live with
        | some m =>     -- text and name are stored, the previous catchment model stays and is re-snapshotted, 200
          (ok .success, { s with scenText := some r.text, scenName := some name, snap := some m })
        | none => (err 400, s)          -- nil dereference in the code as it stands; reported by the harness
      else (err 400, s)
    | _ => (err 400, s)

/-- GET /api/v1/scenario -/
def getScenario (q : Quirks) (s : State) : Response × State :=
  match s.scenText with
  | none => (err 404, s)
  | some t => (ok (textBody q .toml t), s)

/-- POST /api/v1/solutions -/
def postSolutions (q : Quirks) (W : World) (s : State) (r : Request) : Response × State :=
  if s.scenText.isNone then (err 405, s)            -- sic: no scenario loaded
  else if r.ctype ≠ csvMime then (err 415, s)
  else
    match r.facts, s.live with
    | .csv c, some m =>
      match classifySols m.u.asIs c with
      | .ok t =>
        if q.solLazy then
          (ok .success, { s with solText := some r.text, table := some t })
        else
          let m' := derive q W (some t) m
          (ok .success, { s with solText := some r.text, table := some t, live := some m', snap := some m' })
      | _ => (err 400, s)
    | _, _ => (err 400, s)

/-- GET /api/v1/solutions -/
def getSolutions (q : Quirks) (s : State) : Response × State :=
  if s.scenText.isNone then (err 404, s)
  else
    match s.solText with
    | none => (err 404, s)
    | some t => (ok (textBody q .csv t), s)

/-- GET /api/v1/solutions/<label>: status only (the solution pool is property C13's) -/
def getSolution (s : State) (label : String) : Response × State :=
  if s.scenName.isNone then (err 404, s)
  else
    match s.table with
    | none => (err 404, s)
    | some t =>
      if t.rows.any (fun row => row.getD 0 "" == label) then (ok (.solution label), s)
      else (err 404, s)

/-- GET /api/v1/model -/
def getModel (s : State) : Response × State :=
  match s.snap with
  | none => (err 404, s)
  | some m => (ok (.model m), s)

/-- the decoded sets of the `Encoding` entries, in order; `none` as soon as one is unusable -/
def decodeEntries (n : Nat) : List PatchEntry → Option (List ActiveSet)
  | [] => some []
  | e :: es =>
    match e.enc with
    | .notEncoding => decodeEntries n es
    | .nonString => none
    | .text t =>
      match Crem.BoolArchive.decode n t.toList with
      | .error _ => none
      | .ok set =>
        match decodeEntries n es with
        | none => none
        | some sets => some (set :: sets)

/-- the loop of `v1PatchModelHandler` as it stands (quirk `patchEager`): every decodable `Encoding` entry is
applied (clone, decompress, derive, snapshot) until one fails -/
def patchLoop (q : Quirks) (W : World) (tbl : Option SolTable) : Mdl → Option Mdl → List PatchEntry → Bool × Mdl × Option Mdl
  | m, snap, [] => (true, m, snap)
  | m, snap, e :: es =>
    match e.enc with
    | .notEncoding => patchLoop q W tbl m snap es
    | .nonString => (false, m, snap)        -- an unchecked `.(string)` in the variant without pre-validation (b9abd51 repaired it)
    | .text t =>
      match Crem.BoolArchive.decode m.u.acts.length t.toList with
      | .error _ => (false, m, snap)
      | .ok set =>
        let m' := derive q W tbl { m with active := set }
        patchLoop q W tbl m' (some m') es

/-- PATCH /api/v1/model -/
def patchModel (q : Quirks) (W : World) (s : State) (r : Request) : Response × State :=
  match s.snap, s.live with
  | some _, some m =>
    if r.ctype ≠ jsonMime then (err 415, s)
    else
      match r.facts with
      | .patch (some entries) =>
        let incoming := entries.map (fun e => (⟨e.name, e.val⟩ : Attr))
        if q.patchEager then
          let joined := { m with attrs := join q m.attrs incoming }
          match patchLoop q W s.table joined s.snap entries with
          | (false, m', snap') => (err 400, { s with live := some m', snap := snap' })
          | (true, m', snap') =>
            if q.patchNoRefresh then (ok .success, { s with live := some m', snap := snap' })
            else
              let m'' := derive q W s.table m'
              (ok .success, { s with live := some m'', snap := some m'' })
        else
          match decodeEntries m.u.acts.length entries with
          | none => (err 400, s)
          | some sets =>
            let joined := { m with attrs := join q m.attrs incoming }
            if sets.isEmpty then
              if q.patchNoRefresh then (ok .success, { s with live := some joined })
              else
                let m' := derive q W s.table joined
                (ok .success, { s with live := some m', snap := some m' })
            else
              -- every `Encoding` entry is applied in order (clone, decompress, derive); the last one decides the set
              let m' := sets.foldl (fun acc set => derive q W s.table { acc with active := set }) joined
              (ok .success, { s with live := some m', snap := some m' })
      | _ => (err 400, s)
  | _, _ => (err 404, s)

/-- GET /api/v1/model/actions/active -/
def getActive (s : State) : Response × State :=
  match s.snap with
  | none => (err 404, s)
  | some m => (ok (.active m.u m.active), s)

def applyRow (u : Universe) (types : List String) (set : ActiveSet) (row : Option Nat × List Bool) : ActiveSet :=
  match row.1 with
  | none => set
  | some pu => (types.zip row.2).foldl (fun acc (tf : String × Bool) => setWhere u acc pu tf.1 tf.2) set

/-- `processRequestTable`: rows in order, columns in order -/
def applyTable (u : Universe) (types : List String) (rows : List (Option Nat × List Bool)) (set : ActiveSet) : ActiveSet :=
  rows.foldl (applyRow u types) set

/-- PUT /api/v1/model/actions/active -/
def putActive (q : Quirks) (W : World) (s : State) (r : Request) : Response × State :=
  match s.snap, s.live with
  | some _, some m =>
    if r.ctype ≠ csvMime then (err 415, s)
    else
      match r.facts with
      | .csv c =>
        match classifyTable c with
        | .ok types rows =>
          let m' := derive q W s.table { m with active := applyTable m.u types rows m.active }
          (ok .success, { s with live := some m', snap := some m' })
        | _ => (err 400, s)
      | _ => (err 400, s)
  | _, _ => (err 404, s)

/-- GET /api/v1/model/actions/applicable -/
def getApplicable (s : State) : Response × State :=
  match s.snap with
  | none => (err 404, s)
  | some m => (ok (.applicable m.u), s)

/-- the (action type, active?) pairs of one planning unit, in the model's action order -/
def subEntries (m : Mdl) (pu : Nat) : List (String × Bool) :=
  ((m.u.acts.zip m.active).filter (fun (ab : (Nat × String) × Bool) => ab.1.1 = pu)).map (fun ab => (ab.1.2, ab.2))

/-- GET /api/v1/model/subcatchment/<id> -/
def getSub (s : State) (id : String) : Response × State :=
  match s.snap with
  | none => (err 404, s)
  | some m =>
    match atoi? id with
    | none => (err 404, s)                  -- `toPlanningUnitId` returns the `Atoi` error (c0b4ba1; it panicked before)
    | some pu => if m.u.pus.contains pu then (ok (.sub (subEntries m pu)), s) else (err 404, s)

def actionTypes : List String :=
  ["RiverBankRestoration", "HillSlopeRestoration", "GullyRestoration", "WetlandsEstablishment"]

/-- `syntaxCheckPostedAttributes` -/
def subSyntaxOk (entries : List SubEntry) : Bool :=
  entries.all (fun e => actionTypes.contains e.name && (e.val == .active || e.val == .inactive))

/-- first loop of `updateModel`: every posted action must exist at that planning unit -/
def subSupported (u : Universe) (pu : Nat) (entries : List SubEntry) : Bool :=
  entries.all (fun e => u.acts.any (fun a => a.1 = pu ∧ a.2 = e.name))

def applySub (u : Universe) (pu : Nat) (entries : List SubEntry) (set : ActiveSet) : ActiveSet :=
  entries.foldl (fun acc e => setWhere u acc pu e.name (e.val == .active)) set

/-- PUT /api/v1/model/subcatchment/<id>  (no content-type check in the code) -/
def putSub (q : Quirks) (W : World) (s : State) (r : Request) (id : String) : Response × State :=
  match s.snap, s.live with
  | some sn, some m =>
    match atoi? id with
    | none => (err 404, s)
    | some pu =>
      if !sn.u.pus.contains pu then (err 404, s)
      else
        match r.facts with
        | .sub (some entries) =>
          if !subSyntaxOk entries then (err 400, s)
          else if !subSupported m.u pu entries then (err 400, s)
          else
            let moved := { m with active := applySub m.u pu entries m.active }
            let m' := derive q W s.table moved
            if q.subStale then (ok .success, { s with live := some m', snap := some moved })
            else (ok .success, { s with live := some m', snap := some m' })
        | _ => (err 400, s)
  | _, _ => (err 404, s)

/-! ## The engine's API multiplexer -/

def step (q : Quirks) (W : World) (s : State) (r : Request) : Response × State :=
  match classifyPath r.path with
  | .other => (err 404, s)
  | .root => if r.method = .get then (ok .status, s) else (err 405, s)
  | .scenario =>
    match r.method with
    | .post => postScenario q W s r
    | .get => getScenario q s
    | _ => (err 405, s)
  | .solutions =>
    match r.method with
    | .post => postSolutions q W s r
    | .get => getSolutions q s
    | _ => (err 405, s)
  | .solution label =>
    match r.method with
    | .get => getSolution s label
    | _ => (err 405, s)
  | .model =>
    match r.method with
    | .get => getModel s
    | .patch => patchModel q W s r
    | _ => (err 405, s)
  | .active =>
    match r.method with
    | .put => putActive q W s r
    | .get => getActive s
    | _ => (err 405, s)
  | .applicable =>
    match r.method with
    | .get => getApplicable s
    | _ => (err 405, s)
  | .sub id =>
    match r.method with
    | .get => getSub s id
    | .put => putSub q W s r id
    | _ => (err 405, s)

/-- run a request sequence, collecting the responses -/
def run (q : Quirks) (W : World) : State → List Request → List Response × State
  | s, [] => ([], s)
  | s, r :: rs =>
    let (resp, s') := step q W s r
    let (resps, s'') := run q W s' rs
    (resp :: resps, s'')

def exec (q : Quirks) (W : World) (s : State) (rs : List Request) : State := (run q W s rs).2

/-! ## Readable resources -/

/-- everything a client can read: the answers of the six GET resources and of every subcatchment -/
structure View where
  scenario : Response
  solutions : Response
  model : Response
  active : Response
  applicable : Response
  subs : List Response
  deriving DecidableEq, Repr

def getReq (path : String) : Request := { method := .get, path := path, ctype := "", text := [], facts := .none }

def subPath (pu : Nat) : String := "/api/v1/model/subcatchment/" ++ toString pu

def view (q : Quirks) (W : World) (s : State) : View :=
  { scenario := (step q W s (getReq "/api/v1/scenario")).1
    solutions := (step q W s (getReq "/api/v1/solutions")).1
    model := (step q W s (getReq "/api/v1/model")).1
    active := (step q W s (getReq "/api/v1/model/actions/active")).1
    applicable := (step q W s (getReq "/api/v1/model/actions/applicable")).1
    subs := match s.snap with
      | none => []
      | some m => m.u.pus.map (fun pu => (step q W s (getReq (subPath pu))).1) }

/-! ## The admin multiplexer (`admin.Mux`) -/

inductive AdminPath | status | shutdown | other
  deriving DecidableEq, Repr

def classifyAdminPath (path : String) : AdminPath :=
  if path = "/status" then .status else if path = "/shutdown" then .shutdown else .other

/-- The `Status` word of the status document.  `RestServer.Start` sets RUNNING before anything is served, an accepted
shutdown request sets SHUTTING_DOWN (DEAD is set once both servers have drained: it is never served). -/
def statusWord (shuttingDown : Bool) : String := if shuttingDown then "SHUTTING_DOWN" else "RUNNING"

/-- One admin request.  State: has a shutdown been requested (Status = "SHUTTING_DOWN").  A shutdown request is
answered with the status document it has just changed; asking again changes nothing and is answered the same way
(the handler returns whether or not anything still waits for the signal). -/
def stepAdmin (down : Bool) (method : Method) (path : String) : Response × Bool :=
  match classifyAdminPath path with
  | .status => if method = .get then (ok (.adminStatus down), down) else (err 405, down)
  | .shutdown => if method = .post then (ok (.adminStatus true), true) else (err 405, down)
  | .other => (err 404, down)

/-- a sequence of admin requests, served one at a time: the responses and the final state -/
def runAdmin (down : Bool) : List (Method × String) → List Response × Bool
  | [] => ([], down)
  | r :: rs =>
    let x := stepAdmin down r.1 r.2
    let y := runAdmin x.2 rs
    (x.1 :: y.1, y.2)

/-! ## JSON documents (C15) -/

/-- a JSON value; `render` is total, so whatever is built from this type is a JSON text -/
inductive JVal
  | null
  | bool (b : Bool)
  | raw (canonical : Tok)         -- an already canonical JSON text (attribute values, numbers)
  | str (s : String)
  | arr (xs : List JVal)
  | obj (kvs : List (String × JVal))
  deriving Repr, Inhabited

def hex4 (n : Nat) : String :=
  String.ofList ((List.range 4).map (fun i => Crem.BoolArchive.hexDigit ((n >>> (4 * (3 - i))) % 16)))

/-- JSON string escaping as `encoding/json` does it for the characters that must be escaped -/
def escapeChar (c : Char) : String :=
  if c = '"' then "\\\"" else if c = '\\' then "\\\\"
  else if c.toNat < 0x20 then "\\u" ++ hex4 c.toNat
  else c.toString

def quote (s : String) : String := "\"" ++ String.join (s.toList.map escapeChar) ++ "\""

mutual
  def JVal.render : JVal → String
    | .null => "null"
    | .bool b => if b then "true" else "false"
    | .raw t => t
    | .str s => quote s
    | .arr xs => "[" ++ renderList xs ++ "]"
    | .obj kvs => "{" ++ renderFields kvs ++ "}"
  def renderList : List JVal → String
    | [] => ""
    | [x] => x.render
    | x :: y :: rest => x.render ++ "," ++ renderList (y :: rest)
  def renderFields : List (String × JVal) → String
    | [] => ""
    | [(k, v)] => quote k ++ ":" ++ v.render
    | (k, v) :: kv :: rest => quote k ++ ":" ++ v.render ++ "," ++ renderFields (kv :: rest)
end

def messageDoc (type : String) : JVal :=
  .obj [("Type", .str type), ("Message", .str "…"), ("Time", .str "…")]

def attrsDoc (as : Attrs) : JVal :=
  .arr (as.map (fun a => .obj [("Name", .str a.name), ("Value", .raw a.val)]))

def activeDoc (u : Universe) (set : ActiveSet) : JVal :=
  .obj (u.pus.filterMap (fun pu =>
    let tys := ((u.acts.zip set).filter (fun (ab : (Nat × String) × Bool) => ab.1.1 = pu ∧ ab.2)).map (fun ab => JVal.str ab.1.2)
    if tys.isEmpty then none else some (toString pu, JVal.arr tys)))

def applicableDoc (u : Universe) : JVal :=
  .obj (u.pus.map (fun pu =>
    (toString pu, JVal.arr ((u.acts.filter (fun a => a.1 = pu)).map (fun a => JVal.str a.2)))))

/-- the JSON document of a body; `none` exactly for the two text resources -/
def Body.toJson : Body → Option JVal
  | .success => some (messageDoc "SUCCESS")
  | .error => some (messageDoc "ERROR")
  | .text _ _ _ => none
  | .model m => some (.obj [("Id", .str m.id), ("DecisionVariables", .raw ("repr:" ++ m.u.key)),
      ("ActiveManagementActions", activeDoc m.u m.active), ("Attributes", attrsDoc m.attrs)])
  | .active u set => some (.obj [("ActiveManagementActions", activeDoc u set)])
  | .applicable u => some (.obj [("ApplicableActions", applicableDoc u)])
  | .sub entries => some (.arr (entries.map (fun e =>
      .obj [("Name", .str e.1), ("Value", .str (if e.2 then "Active" else "Inactive"))])))
  | .solution label => some (.obj [("Id", .str label)])
  | .status => some (.obj [("ServiceName", .str "…"), ("Version", .str "…"), ("Status", .str "…"), ("Time", .str "…")])
  | .adminStatus d => some (.obj [("ServiceName", .str "…"), ("Version", .str "…"), ("Status", .str (statusWord d)), ("Time", .str "…")])

end Crem.Engine
