/-
Model of `scenario.Runner` (internal/pkg/scenario/Runner.go): the runs of a scenario as N workers
executing under the bounded-concurrency bookkeeping of `runScenario`.  Core Lean only.

```go
func (runner *Runner) runScenario() error {
    var runWaitGroup sync.WaitGroup
    concurrentRunGuard := make(chan struct{}, runner.maxConcurrentRuns)
    doRun := func(runNumber uint64) {
        runner.run(runNumber)          // DeepClone the configured annealer, set ids, Anneal()
        <-concurrentRunGuard
        runWaitGroup.Done()
    }
    runWaitGroup.Add(int(runner.runNumber))
    for runNumber := uint64(1); runNumber <= runner.runNumber; runNumber++ {
        concurrentRunGuard <- struct{}{}
        go doRun(runNumber)
    }
    runWaitGroup.Wait()
    return nil
}
```

State space.  `shared` (data set tables, parameter maps, observers, … : everything a run only
reads) is a constant of the configuration: no event changes it.  Worker `i` owns a private part
`priv i : P` (the struct copies DeepClone makes: iteration counter, archive, models, ids) and
uses ONE heap cell `cells (addr i) : C` for the mutable object its clone reaches through a
pointer (the multi-objective explorer's coolant).  The configured annealer (the template every
run clones) reaches the cell at address `tmpl`.  Cloning copies the template's cell into the
clone's: with `addr i = tmpl` that is the pointer copy of a shallow `DeepClone` (nothing is
written, the clone keeps using the template's cell), with a fresh `addr i` it is a deep copy.
`ClonePrivate` says that no two clones, and no clone and the template, use the same cell; under it
the state is the product `shared × (i → local i)` with `local i = (priv i, cells (addr i))`, and a
step of worker `i` reads `shared` and reads/writes `local i` only.

Scheduling.  An event is one atomic action of the main goroutine (`spawn`: channel send + `go`;
`ret`: `Wait()` returns) or of run goroutine `i` (`clone`, `step`, `release` = `<-guard`,
`wgDone`).  A schedule is any list of events each of which is enabled when its turn comes: every
interleaving the buffered channel and the WaitGroup admit.  The channel and the WaitGroup are
counters.

Faults.  `fails sh l` says that the next step of a run in local state `l` panics.
`isolate = false` is the behaviour of a bare goroutine: the panic is not recovered, the process
terminates (`crashed`), nothing is enabled any more, runs in flight never deliver a result.
`isolate = true` is the behaviour the property demands (and what a `recover` in the run
goroutine gives): the failing run is marked `err`, releases its slot and its WaitGroup count like
any other, and `Run()` returns.

The atomic-step interleaving semantics used here is sequentially consistent; it is NOT the Go
memory model.  Data-race freedom of the real code is not a theorem of this model.
-/
namespace Crem.Runs

/-- point update of a function -/
def upd {α : Type} (f : Nat → α) (i : Nat) (v : α) : Nat → α := fun j => if j = i then v else f j

/-- `n`-fold iteration -/
def iter {α : Type} (f : α → α) : Nat → α → α
  | 0, a => a
  | n + 1, a => iter f n (f a)

/-- what one run does, as a step function over its local state `P × C` reading `Sh` -/
structure Worker (Sh P C : Type) where
  step : Sh → P × C → P × C
  done : Sh → P × C → Bool
  fails : Sh → P × C → Bool

structure Config (Sh P C : Type) extends Worker Sh P C where
  /-- `runNumber` -/
  runs : Nat
  /-- `maxConcurrentRuns` = capacity of the buffered channel -/
  bound : Nat
  /-- a panic of one run is confined to that run -/
  isolate : Bool
  shared : Sh
  /-- private state of the `i`-th clone after `DeepClone`, `assignNewRunId` and `Initialise()` -/
  initP : Nat → P
  /-- address of the cell the configured annealer (the template) reaches -/
  tmpl : Nat
  /-- address of the cell the `i`-th clone reaches -/
  addr : Nat → Nat

inductive Phase
  | idle      -- `go doRun(i)` not reached yet
  | spawned   -- goroutine started, annealer not cloned yet
  | running   -- cloned and annealing (or stopped with `err`)
  | released  -- `<-concurrentRunGuard` done, `runWaitGroup.Done()` pending
  | finished
  deriving DecidableEq, Repr

structure State (P C : Type) where
  /-- runs started so far (the loop variable of `runScenario`, minus one) -/
  next : Nat
  /-- tokens in the buffered channel -/
  chan : Nat
  /-- the WaitGroup counter -/
  wg : Nat
  phase : Nat → Phase
  priv : Nat → P
  cells : Nat → C
  /-- run `i` panicked (and was recovered) -/
  err : Nat → Bool
  /-- ghost: steps run `i` has taken -/
  steps : Nat → Nat
  /-- ghost: the local state run `i` had when it started annealing (what StartedAnnealing reports) -/
  obs : Nat → Option (P × C)
  /-- `Run()` has returned -/
  returned : Bool
  /-- the process was terminated by an unrecovered panic -/
  crashed : Bool

inductive Ev
  | spawn
  | clone (i : Nat)
  | step (i : Nat)
  | release (i : Nat)
  | wgDone (i : Nat)
  | ret
  deriving DecidableEq, Repr

variable {Sh P C : Type}

/-- the local state of worker `i` -/
def loc (cfg : Config Sh P C) (s : State P C) (i : Nat) : P × C := (s.priv i, s.cells (cfg.addr i))

/-- `Run()` has just been entered: `runWaitGroup.Add(runs)` done, nothing started -/
def init (cfg : Config Sh P C) (cells₀ : Nat → C) : State P C :=
  { next := 0, chan := 0, wg := cfg.runs, phase := fun _ => .idle, priv := cfg.initP, cells := cells₀,
    err := fun _ => false, steps := fun _ => 0, obs := fun _ => none, returned := false, crashed := false }

/-- one event; `none` = not enabled in `s` -/
def exec (cfg : Config Sh P C) (s : State P C) : Ev → Option (State P C)
  | .spawn =>
    if s.crashed = false ∧ s.returned = false ∧ s.next < cfg.runs ∧ s.chan < cfg.bound then
      some { s with next := s.next + 1, chan := s.chan + 1, phase := upd s.phase s.next .spawned }
    else none
  | .clone i =>
    if s.crashed = false ∧ s.phase i = .spawned then
      some { s with phase := upd s.phase i .running,
                    priv := upd s.priv i (cfg.initP i),
                    cells := upd s.cells (cfg.addr i) (s.cells cfg.tmpl),
                    obs := upd s.obs i (some (cfg.initP i, s.cells cfg.tmpl)) }
    else none
  | .step i =>
    if s.crashed = false ∧ s.phase i = .running ∧ s.err i = false ∧ cfg.done cfg.shared (loc cfg s i) = false then
      if cfg.fails cfg.shared (loc cfg s i) then
        if cfg.isolate then some { s with err := upd s.err i true }
        else some { s with crashed := true }
      else
        let l := cfg.step cfg.shared (loc cfg s i)
        some { s with priv := upd s.priv i l.1, cells := upd s.cells (cfg.addr i) l.2,
                      steps := upd s.steps i (s.steps i + 1) }
    else none
  | .release i =>
    if s.crashed = false ∧ s.phase i = .running ∧ (s.err i = true ∨ cfg.done cfg.shared (loc cfg s i) = true) then
      some { s with phase := upd s.phase i .released, chan := s.chan - 1 }
    else none
  | .wgDone i =>
    if s.crashed = false ∧ s.phase i = .released then
      some { s with phase := upd s.phase i .finished, wg := s.wg - 1 }
    else none
  | .ret =>
    if s.crashed = false ∧ s.returned = false ∧ s.next = cfg.runs ∧ s.wg = 0 then
      some { s with returned := true }
    else none

/-- a schedule: every event must be enabled when its turn comes -/
def run (cfg : Config Sh P C) : State P C → List Ev → Option (State P C)
  | s, [] => some s
  | s, e :: es =>
    match exec cfg s e with
    | none => none
    | some s' => run cfg s' es

/-- outcome of a run executed on its own -/
inductive Outcome (L : Type)
  | finished (l : L)
  | failed (l : L)
  | outOfFuel (l : L)
  deriving Repr, DecidableEq

/-- the run alone: no scheduler, no other worker -/
def solo (w : Worker Sh P C) (sh : Sh) : Nat → P × C → Outcome (P × C)
  | 0, l => if w.done sh l then .finished l else if w.fails sh l then .failed l else .outOfFuel l
  | fuel + 1, l =>
    if w.done sh l then .finished l else if w.fails sh l then .failed l else solo w sh fuel (w.step sh l)

/-- the hypothesis established on the real objects by the clone walk: no two clones, and no clone
    and the template, reach the same mutable cell -/
def ClonePrivate (cfg : Config Sh P C) : Prop :=
  (∀ i, i < cfg.runs → cfg.addr i ≠ cfg.tmpl) ∧
  (∀ i, i < cfg.runs → ∀ j, j < cfg.runs → cfg.addr i = cfg.addr j → i = j)

instance (cfg : Config Sh P C) : Decidable (ClonePrivate cfg) := by
  unfold ClonePrivate; exact inferInstance

/-- run `i` has completed and delivered its result -/
def result (cfg : Config Sh P C) (s : State P C) (i : Nat) : Option (P × C) :=
  if (s.phase i = .released ∨ s.phase i = .finished) ∧ s.err i = false then some (loc cfg s i) else none

/-- the runs `Run()` reports as failed -/
def failedRuns (cfg : Config Sh P C) (s : State P C) : List Nat :=
  (List.range cfg.runs).filter (fun i => s.err i)

/-! ### counting workers in a phase class -/

def cnt (g : Phase → Bool) (f : Nat → Phase) : Nat → Nat
  | 0 => 0
  | n + 1 => cnt g f n + (if g (f n) then 1 else 0)

def sumN (f : Nat → Nat) : Nat → Nat
  | 0 => 0
  | n + 1 => sumN f n + f n

def inflight : Phase → Bool
  | .spawned => true
  | .running => true
  | _ => false

def isFinished : Phase → Bool
  | .finished => true
  | _ => false

/-! ### the concrete instance: an annealing run -/

/-- what the property talks about: iteration counter, solution set, data, identity -/
structure RunPriv where
  runId : Nat
  iteration : Nat
  archive : Nat
  dataLoaded : Bool
  deriving DecidableEq, Repr

/-- the coolant: temperature = T₀ · factor ^ coolings -/
structure Coolant where
  coolings : Nat
  deriving DecidableEq, Repr

/-- read-only inputs of a run -/
structure Inputs where
  /-- `MaximumIterations` -/
  budget : Nat
  /-- archive size after an iteration (a function of the data and the draws; read-only here) -/
  archiveAfter : Nat → Nat → Nat
  /-- fault injection: run `failRun` panics in `TryRandomChange` of iteration `failAt` -/
  failRun : Option Nat
  failAt : Nat

/-- `SimpleAnnealer.Anneal()` as a worker: one step = one iteration (TryRandomChange + CoolDown) -/
def annealWorker : Worker Inputs RunPriv Coolant where
  step := fun sh l =>
    ({ l.1 with iteration := l.1.iteration + 1, archive := sh.archiveAfter l.1.runId l.1.iteration },
     { coolings := l.2.coolings + 1 })
  done := fun sh l => decide (l.1.iteration > sh.budget)
  fails := fun sh l => sh.failRun == some l.1.runId && l.1.iteration == sh.failAt

/-- the state every run must start from: iteration 1, empty solution set, data loaded -/
def freshPriv (i : Nat) : RunPriv := { runId := i, iteration := 1, archive := 0, dataLoaded := true }

/-- a scenario of `runs` annealing runs; `private = true`: every clone owns its coolant (cells
    1, 2, …; the template's is cell 0); `private = false`: `DeepClone` copied the pointer (every
    clone uses cell 0) -/
def annealCfg (inp : Inputs) (runs bound : Nat) (isolate priv : Bool) : Config Inputs RunPriv Coolant :=
  { annealWorker with
    runs := runs, bound := bound, isolate := isolate, shared := inp,
    initP := freshPriv, tmpl := 0, addr := fun i => if priv then i + 1 else 0 }

/-- a deterministic scheduler used by the oracle: always the first enabled event in the order
    ret, wgDone, release, step, clone (lowest worker first), spawn -/
def firstEnabled (cfg : Config Sh P C) (s : State P C) : Option (Ev × State P C) :=
  let cands : List Ev :=
    [.ret] ++ (List.range cfg.runs).map .wgDone ++ (List.range cfg.runs).map .release ++
    (List.range cfg.runs).map .step ++ (List.range cfg.runs).map .clone ++ [.spawn]
  cands.findSome? (fun e => (exec cfg s e).map (fun s' => (e, s')))

/-- run the deterministic scheduler for at most `fuel` events -/
def drive (cfg : Config Sh P C) : Nat → State P C → List Ev → State P C × List Ev
  | 0, s, acc => (s, acc.reverse)
  | fuel + 1, s, acc =>
    match firstEnabled cfg s with
    | none => (s, acc.reverse)
    | some (e, s') => drive cfg fuel s' (e :: acc)

end Crem.Runs
