/-
Model of `scenario.Runner` (internal/pkg/scenario/Runner.go): the runs of a scenario as N workers
executing under the bounded-concurrency bookkeeping of `runScenario`, ALL ACTING ON ONE HEAP.
Core Lean only.

```go
func (runner *Runner) runScenario() error {
    var runWaitGroup sync.WaitGroup
    var runErrorsGuard sync.Mutex
    runErrors := compositeErrors.New(…)
    concurrentRunGuard := make(chan struct{}, min(runner.maxConcurrentRuns, runner.runNumber))
    doRun := func(runNumber uint64) {
        defer runWaitGroup.Done()
        defer func() { <-concurrentRunGuard }()
        defer func() {                                  // since the D26 repair
            if recovered := recover(); recovered != nil { … runErrors.Add(runError) … }
        }()
        runner.run(runNumber)          // DeepClone the configured annealer, set ids, wire, Anneal()
    }
    runWaitGroup.Add(int(runner.runNumber))
    for runNumber := uint64(1); runNumber <= runner.runNumber; runNumber++ {
        concurrentRunGuard <- struct{}{}
        go doRun(runNumber)
    }
    runWaitGroup.Wait()
    if runErrors.Size() > 0 { return runErrors }
    return nil
}
```

State space.  There is ONE heap `heap : Nat → V` of aliasable cells.  Everything a run touches
lives there: the configured annealer (the template every run clones: its coolant, iteration counter,
archive storage, model), the input data, the state of the observers on the shared notifier, the
saver's decompression model, and the cells of every clone.  What run `i` does is a `Prog`: ARBITRARY
heap transformers `clone` (DeepClone + ids + wiring + `Explorer.Initialise()` incl. loading the
data + the StartedAnnealing event), `step` (one iteration), `finish` (the FinishedAnnealing
observers: the saver) and the predicates `done`, `cloneFails`, `fails`, `finishFails` (a panic at
that site).  Nothing in the semantics stops the transformer of one run from reading or writing the
cells of another: which cells a run reaches is decided by the (aliasing) layout of the heap.

Footprints.  `Footprint` DECLARES for every run a read set `R i` and a write set `W i` (lists of
addresses) and a set `locked` of cells that are only ever accessed inside a lock-guarded section.
`Respects` is the semantic meaning of the declaration (a transformer changes only cells of `W`, and
what it writes — and what the predicates answer — depends only on the cells of `R`); `ClonePrivate`
is the hypothesis of the independence theorems: every program respects its declaration,
`W i ∩ (R j ∪ W j) ⊆ locked` for `i ≠ j`, and no run reads a locked cell.

Locks.  A section between `Lock()` and `Unlock()` of one mutex is ONE atomic event (here: the
saver's `deriveSolution…` inside `finish`).  A locked cell may be written by every run; it must not
be in any read set: the section writes it before it reads it, so that what the section computes does
not depend on the value another run left there.  The same section executed WITHOUT the lock is two
events (see `unlocked_saver_mixes_results` in Properties/C08.lean).

Scheduling.  An event is one atomic action of the main goroutine (`spawn`: channel send + `go`;
`ret`: `Wait()` returns) or of run goroutine `i` (`clone`, `step`, `finish`, `release` = `<-guard`,
`wgDone`).  A schedule is any list of events each of which is enabled when its turn comes: every
interleaving the buffered channel and the WaitGroup admit.  The channel and the WaitGroup are
counters.

Faults.  A run can panic while it is cloned / initialised (`cloneFails`: e.g. the data cannot be
loaded), in an iteration (`fails`) and in a FinishedAnnealing observer (`finishFails`: e.g. the
saver cannot create its output directory).  `isolate = true` is the behaviour of the code since
the D26 repair (`recover` in `doRun`): the failing run is marked `err`, releases its slot and its
WaitGroup count like any other, and `Run()` returns.  `isolate = false` is the bare goroutine the
code used before: the panic is not recovered, the process terminates (`crashed`), nothing is enabled
any more, runs in flight never deliver a result.

The atomic-step interleaving semantics used here is sequentially consistent; it is NOT the Go
memory model.  Data-race freedom of the real code is not a theorem of this model.
-/
namespace Crem.Runs

/-- point update of a function -/
def upd {α : Type} (f : Nat → α) (i : Nat) (v : α) : Nat → α := fun j => if j = i then v else f j

/-- `n`-fold iteration -/
def iter {α : Type} (f : α → α) : Nat → α → α
  | 0, a => a
  | n + 1, a => iter f n (f a)

/-- the heap: every aliasable cell, of every run, of the template and of the shared objects.
    (A structure with a second, contentless field around the function: a transformer
    `Heap V → Heap V` must be evaluated by the compiled oracle when it is applied to a heap, not
    again on every later read of a cell — which is what happens when a heap IS a function, or a
    one-field structure the compiler represents by its field.) -/
structure Heap (V : Type) where
  cell : Nat → V
  boxed : Unit := ()

instance {V : Type} : CoeFun (Heap V) (fun _ => Nat → V) := ⟨Heap.cell⟩

/-- write one cell -/
def Heap.set {V : Type} (h : Heap V) (i : Nat) (v : V) : Heap V := { cell := upd h.cell i v }

/-- what one run does, as transformers of THE heap -/
structure Prog (V : Type) where
  /-- `DeepClone()`, `assignNewRunId`, `wireObservers`, `Explorer.Initialise()` (loads the data),
      StartedAnnealing -/
  clone : Heap V → Heap V
  /-- a panic in that phase -/
  cloneFails : Heap V → Bool
  /-- one iteration: StartedIteration, `TryRandomChange`, `CoolDown`, FinishedIteration -/
  step : Heap V → Heap V
  done : Heap V → Bool
  /-- the next iteration panics -/
  fails : Heap V → Bool
  /-- the FinishedAnnealing observers (the saver writes the run's result) -/
  finish : Heap V → Heap V
  /-- a panic in a FinishedAnnealing observer -/
  finishFails : Heap V → Bool

structure Config (V : Type) where
  /-- `runNumber` -/
  runs : Nat
  /-- capacity of the buffered channel -/
  bound : Nat
  /-- a panic of one run is confined to that run -/
  isolate : Bool
  /-- the program of the `i`-th run -/
  prog : Nat → Prog V

inductive Phase
  | idle      -- `go doRun(i)` not reached yet
  | spawned   -- goroutine started, annealer not cloned yet
  | running   -- cloned and annealing (or stopped with `err`)
  | saved     -- FinishedAnnealing observers done
  | released  -- `<-concurrentRunGuard` done, `runWaitGroup.Done()` pending
  | finished
  deriving DecidableEq, Repr

structure State (V : Type) where
  /-- runs started so far (the loop variable of `runScenario`, minus one) -/
  next : Nat
  /-- tokens in the buffered channel -/
  chan : Nat
  /-- the WaitGroup counter -/
  wg : Nat
  phase : Nat → Phase
  heap : Heap V
  /-- run `i` panicked (and was recovered) -/
  err : Nat → Bool
  /-- ghost: iterations run `i` has completed -/
  steps : Nat → Nat
  /-- ghost: the heap as it was when run `i` reported StartedAnnealing -/
  obs : Nat → Option (Heap V)
  /-- `Run()` has returned -/
  returned : Bool
  /-- the process was terminated by an unrecovered panic -/
  crashed : Bool

inductive Ev
  | spawn
  | clone (i : Nat)
  | step (i : Nat)
  | finish (i : Nat)
  | release (i : Nat)
  | wgDone (i : Nat)
  | ret
  deriving DecidableEq, Repr

variable {V : Type}

/-- `Run()` has just been entered: `runWaitGroup.Add(runs)` done, nothing started -/
def init (cfg : Config V) (h₀ : Heap V) : State V :=
  { next := 0, chan := 0, wg := cfg.runs, phase := fun _ => .idle, heap := h₀,
    err := fun _ => false, steps := fun _ => 0, obs := fun _ => none, returned := false, crashed := false }

/-- what a panic of run `i` does to the state -/
def panicked (cfg : Config V) (s : State V) (i : Nat) : State V :=
  if cfg.isolate then { s with err := upd s.err i true } else { s with crashed := true }

/-- one event; `none` = not enabled in `s` -/
def exec (cfg : Config V) (s : State V) : Ev → Option (State V)
  | .spawn =>
    if s.crashed = false ∧ s.returned = false ∧ s.next < cfg.runs ∧ s.chan < cfg.bound then
      some { s with next := s.next + 1, chan := s.chan + 1, phase := upd s.phase s.next .spawned }
    else none
  | .clone i =>
    if s.crashed = false ∧ s.phase i = .spawned then
      if (cfg.prog i).cloneFails s.heap then
        -- recovered: the run has stopped with `err` before it ever started annealing
        if cfg.isolate then some { s with phase := upd s.phase i .running, err := upd s.err i true }
        else some { s with crashed := true }
      else
        let h := (cfg.prog i).clone s.heap
        some { s with phase := upd s.phase i .running, heap := h, obs := upd s.obs i (some h) }
    else none
  | .step i =>
    if s.crashed = false ∧ s.phase i = .running ∧ s.err i = false ∧ (cfg.prog i).done s.heap = false then
      if (cfg.prog i).fails s.heap then some (panicked cfg s i)
      else some { s with heap := (cfg.prog i).step s.heap, steps := upd s.steps i (s.steps i + 1) }
    else none
  | .finish i =>
    if s.crashed = false ∧ s.phase i = .running ∧ s.err i = false ∧ (cfg.prog i).done s.heap = true then
      if (cfg.prog i).finishFails s.heap then some (panicked cfg s i)
      else some { s with heap := (cfg.prog i).finish s.heap, phase := upd s.phase i .saved }
    else none
  | .release i =>
    if s.crashed = false ∧ ((s.phase i = .running ∧ s.err i = true) ∨ s.phase i = .saved) then
      some { s with phase := upd s.phase i .released, chan := s.chan - 1 }
    else none
  | .wgDone i =>
    if s.crashed = false ∧ s.phase i = .released then
      some { s with phase := upd s.phase i .finished, wg := s.wg - 1 }
    else none
  | .ret =>
    if s.crashed = false ∧ s.returned = false ∧ s.next = cfg.runs ∧ s.wg = 0 then
      some { s with returned := true }
    else none

/-- a schedule: every event must be enabled when its turn comes -/
def run (cfg : Config V) : State V → List Ev → Option (State V)
  | s, [] => some s
  | s, e :: es =>
    match exec cfg s e with
    | none => none
    | some s' => run cfg s' es

/-- outcome of a run executed on its own -/
inductive Outcome (L : Type)
  | finished (l : L)
  | failed (l : L)
  | outOfFuel (l : L)
  deriving Repr, DecidableEq

/-- the iterations and the finish of a run alone -/
def soloFrom (p : Prog V) : Nat → Heap V → Outcome (Heap V)
  | 0, h =>
    if p.done h then (if p.finishFails h then .failed h else .finished (p.finish h))
    else if p.fails h then .failed h else .outOfFuel h
  | fuel + 1, h =>
    if p.done h then (if p.finishFails h then .failed h else .finished (p.finish h))
    else if p.fails h then .failed h else soloFrom p fuel (p.step h)

/-- the run alone on the heap `h`: no scheduler, no other worker -/
def solo (p : Prog V) (fuel : Nat) (h : Heap V) : Outcome (Heap V) :=
  if p.cloneFails h then .failed h else soloFrom p fuel (p.clone h)

/-! ### footprints -/

/-- declared read and write sets of every run, and the lock-guarded cells -/
structure Footprint where
  R : Nat → List Nat
  W : Nat → List Nat
  locked : List Nat

/-- two heaps agree on the cells of `A` -/
def AgreeOn (A : Nat → Prop) (h h' : Heap V) : Prop := ∀ a, A a → h a = h' a

/-- a transformer changes only cells of `W`; whether it writes a cell, and what it writes there,
    depends only on the cells of `R` (on two heaps that agree on `R`, a cell of `W` either receives
    the same value or is left alone in both) -/
structure TRespects (f : Heap V → Heap V) (R W : List Nat) : Prop where
  frame : ∀ h a, a ∉ W → f h a = h a
  loc : ∀ h h', AgreeOn (· ∈ R) h h' → ∀ a, a ∈ W → f h a = f h' a ∨ (f h a = h a ∧ f h' a = h' a)

/-- a predicate depends only on the cells of `R` -/
def PRespects (p : Heap V → Bool) (R : List Nat) : Prop :=
  ∀ h h', AgreeOn (· ∈ R) h h' → p h = p h'

/-- the program reads only `R` and writes only `W` -/
structure Respects (p : Prog V) (R W : List Nat) : Prop where
  clone : TRespects p.clone R W
  step : TRespects p.step R W
  finish : TRespects p.finish R W
  cloneFails : PRespects p.cloneFails R
  done : PRespects p.done R
  fails : PRespects p.fails R
  finishFails : PRespects p.finishFails R

/-- no cell run `i` writes is read or written by run `j`, lock-guarded cells excepted -/
def PairOK (ft : Footprint) (i j : Nat) : Prop :=
  ∀ a, a ∈ ft.W i → (a ∈ ft.R j ∨ a ∈ ft.W j) → a ∈ ft.locked

instance (ft : Footprint) (i j : Nat) : Decidable (PairOK ft i j) := by
  unfold PairOK; exact inferInstance

/-- no run reads a lock-guarded cell (outside the section that wrote it) -/
def LockedUnread (ft : Footprint) (i : Nat) : Prop := ∀ a, a ∈ ft.locked → a ∉ ft.R i

instance (ft : Footprint) (i : Nat) : Decidable (LockedUnread ft i) := by
  unfold LockedUnread; exact inferInstance

/-- the part of the declaration that is a finite check on addresses:
    `W i ∩ (R j ∪ W j) ⊆ locked` for `i ≠ j`, and `locked ∩ R i = ∅` -/
def Disjoint (runs : Nat) (ft : Footprint) : Prop :=
  (∀ i, i < runs → ∀ j, j < runs → i ≠ j → PairOK ft i j) ∧ (∀ i, i < runs → LockedUnread ft i)

instance (runs : Nat) (ft : Footprint) : Decidable (Disjoint runs ft) := by
  unfold Disjoint; exact inferInstance

/-- THE hypothesis of the independence theorems, established on the real objects by the clone walk
    and the before/after hash of everything the runs share: every run reads and writes what its
    footprint declares, no run writes a cell another run reads or writes (lock-guarded cells
    excepted), no run reads a lock-guarded cell outside the section that wrote it -/
structure ClonePrivate (cfg : Config V) (ft : Footprint) : Prop where
  respects : ∀ i, i < cfg.runs → Respects (cfg.prog i) (ft.R i) (ft.W i)
  disjoint : Disjoint cfg.runs ft

/-- the cells that are run `i`'s own business: what it reads or writes, minus the lock-guarded ones -/
def Own (ft : Footprint) (i : Nat) (a : Nat) : Prop := (a ∈ ft.R i ∨ a ∈ ft.W i) ∧ a ∉ ft.locked

/-- two outcomes are of the same kind and their heaps agree on `A` -/
def Outcome.SameOn (A : Nat → Prop) : Outcome (Heap V) → Outcome (Heap V) → Prop
  | .finished h, .finished h' => AgreeOn A h h'
  | .failed h, .failed h' => AgreeOn A h h'
  | .outOfFuel h, .outOfFuel h' => AgreeOn A h h'
  | _, _ => False

/-- run `i` has completed and delivered its result -/
def result (s : State V) (i : Nat) : Option (Heap V) :=
  if (s.phase i = .released ∨ s.phase i = .finished) ∧ s.err i = false then some s.heap else none

/-- the runs `Run()` reports as failed -/
def failedRuns (cfg : Config V) (s : State V) : List Nat :=
  (List.range cfg.runs).filter (fun i => s.err i)

/-! ### counting workers in a phase class -/

def cnt (g : Phase → Bool) (f : Nat → Phase) : Nat → Nat
  | 0 => 0
  | n + 1 => cnt g f n + (if g (f n) then 1 else 0)

def sumN (f : Nat → Nat) : Nat → Nat
  | 0 => 0
  | n + 1 => sumN f n + f n

def inflight : Phase → Bool
  | .spawned => true
  | .running => true
  | .saved => true
  | _ => false

def isFinished : Phase → Bool
  | .finished => true
  | _ => false

/-! ### the concrete instance: an annealing run on a heap of numbers

The addresses of the template's cells and of the shared cells are numerals (written as notations so
that `omega` and `simp` see them). -/

/-- the template's coolant: number of coolings applied (temperature = T₀ · factor ^ coolings) -/
notation "tmplCool" => (0 : Nat)
/-- the template annealer's `currentIteration` -/
notation "tmplIter" => (1 : Nat)
/-- the storage of the template explorer's archive -/
notation "tmplArch" => (2 : Nat)
/-- the template's model -/
notation "tmplModel" => (3 : Nat)
/-- the input data every run loads (the file named by DataSourcePath); 0 = cannot be loaded -/
notation "sharedData" => (4 : Nat)
/-- `Saver.decompressionModel`: written by every run, inside `decompressionMutex` only -/
notation "saverScratch" => (5 : Nat)
/-- state of an observer on the shared notifier (`AnnealingInvariantObserver.previousObjectiveValue`) -/
notation "obsState" => (6 : Nat)

/-- where the cells of the clones are: the aliasing structure `DeepClone` + `Initialise` produce -/
structure Layout where
  cool : Nat → Nat
  iter : Nat → Nat
  arch : Nat → Nat
  model : Nat → Nat
  data : Nat → Nat
  out : Nat → Nat

/-- every clone owns six cells of its own -/
def privLayout : Layout :=
  { cool := fun i => 8 + 6 * i, iter := fun i => 9 + 6 * i, arch := fun i => 10 + 6 * i,
    model := fun i => 11 + 6 * i, data := fun i => 12 + 6 * i, out := fun i => 13 + 6 * i }

inductive Site
  | clone | step | finish
  deriving DecidableEq, Repr

/-- by-value inputs of a run (copied, not aliasable) -/
structure Inputs where
  /-- `MaximumIterations` -/
  budget : Nat
  /-- archive after an iteration: run, iteration number, archive before, model state -/
  archiveAfter : Nat → Nat → Nat → Nat → Nat
  /-- `Initialise(Random)` + `Randomize()` with the run's own generator: run, cloned state, data -/
  modelInit : Nat → Nat → Nat → Nat
  /-- model state after an iteration: run, iteration number, state before, data -/
  modelAfter : Nat → Nat → Nat → Nat → Nat
  /-- what the saver writes: run, decompressed model, archive, data -/
  encode : Nat → Nat → Nat → Nat → Nat
  /-- fault injection: run `failRun` panics at `failSite` (for `step`: in iteration `failAt`) -/
  failRun : Option Nat
  failSite : Site
  failAt : Nat
  /-- `CheckingLoopInvariant`: an `AnnealingInvariantObserver` sits on the shared notifier -/
  invObserver : Bool

/-- `Runner.run` + `SimpleAnnealer.Anneal()` of run `i` over the layout `lay` -/
def annealProg (lay : Layout) (inp : Inputs) (i : Nat) : Prog Nat where
  -- DeepClone: the clone's cells receive the template's values (a pointer copy where the layout
  -- gives the clone the template's cell: then nothing changes); Initialise: the archive the clone
  -- reaches is emptied, the data is loaded, the model is randomised with the run's own generator;
  -- StartedAnnealing: the invariant observer (if configured) notes the objective value
  clone := fun h =>
    let h := h.set (lay.cool i) (h tmplCool)
    let h := h.set (lay.iter i) (h tmplIter)
    let h := h.set (lay.model i) (h tmplModel)
    let h := h.set (lay.arch i) 0
    let h := h.set (lay.data i) (h sharedData)
    let h := h.set (lay.model i) (inp.modelInit i (h (lay.model i)) (h (lay.data i)))
    if inp.invObserver then h.set obsState (h (lay.model i)) else h
  cloneFails := fun h => h sharedData == 0 || (inp.failRun == some i && inp.failSite == .clone)
  -- iterationStarted: currentIteration++ ; TryRandomChange (model, then archive) ; CoolDown
  step := fun h =>
    let h := h.set (lay.iter i) (h (lay.iter i) + 1)
    let h := h.set (lay.model i) (inp.modelAfter i (h (lay.iter i)) (h (lay.model i)) (h (lay.data i)))
    let h := h.set (lay.arch i) (inp.archiveAfter i (h (lay.iter i)) (h (lay.arch i)) (h (lay.model i)))
    h.set (lay.cool i) (h (lay.cool i) + 1)
  -- initialDoneValue / checkIfDone: currentIteration >= MaximumIterations
  done := fun h => decide (inp.budget ≤ h (lay.iter i))
  fails := fun h => inp.failRun == some i && inp.failSite == .step && h (lay.iter i) + 1 == inp.failAt
  -- the saver, inside decompressionMutex: decompress the run's result into the shared model, build
  -- the solution from it, encode
  finish := fun h =>
    let h := h.set saverScratch (h (lay.model i))
    h.set (lay.out i) (inp.encode i (h saverScratch) (h (lay.arch i)) (h (lay.data i)))
  finishFails := fun _ => inp.failRun == some i && inp.failSite == .finish

/-- what `annealProg` reads and writes -/
def annealFoot (lay : Layout) (inp : Inputs) : Footprint where
  R := fun i => [tmplCool, tmplIter, tmplModel, sharedData, lay.cool i, lay.iter i, lay.arch i, lay.model i, lay.data i]
  W := fun i => [lay.cool i, lay.iter i, lay.arch i, lay.model i, lay.data i, lay.out i, saverScratch] ++
    (if inp.invObserver then [obsState] else [])
  locked := [saverScratch]

/-- a scenario of `runs` annealing runs over the layout `lay` -/
def annealCfg (inp : Inputs) (runs bound : Nat) (isolate : Bool) (lay : Layout) : Config Nat :=
  { runs := runs, bound := bound, isolate := isolate, prog := annealProg lay inp }

/-- a deterministic scheduler used by the oracle: always the first enabled event in the order
    ret, wgDone, release, finish, step, clone (lowest worker first), spawn -/
def firstEnabled (cfg : Config V) (s : State V) : Option (Ev × State V) :=
  let cands : List Ev :=
    [.ret] ++ (List.range cfg.runs).map .wgDone ++ (List.range cfg.runs).map .release ++
    (List.range cfg.runs).map .finish ++ (List.range cfg.runs).map .step ++
    (List.range cfg.runs).map .clone ++ [.spawn]
  cands.findSome? (fun e => (exec cfg s e).map (fun s' => (e, s')))

/-- run the deterministic scheduler for at most `fuel` events -/
def drive (cfg : Config V) : Nat → State V → List Ev → State V × List Ev
  | 0, s, acc => (s, acc.reverse)
  | fuel + 1, s, acc =>
    match firstEnabled cfg s with
    | none => (s, acc.reverse)
    | some (e, s') => drive cfg fuel s' (e :: acc)

end Crem.Runs
