import Crem.Model.Dominance
/-
Model of `internal/pkg/model/archive/NonDominanceModelArchive.go`.

An archive is the list of stored entries in storage order.  An entry carries its
objective vector and its action set (the bit list its `BooleanArchive` denotes,
see C09).  `attempt` / `force` transcribe `AttemptToArchiveState` /
`ForceModelStateIntoArchive`; `cannot` transcribes
`newModelStateCannotBeArchived` (the *first* member that dominates *or*
duplicates decides the refusal).  The dominance test is a parameter so the
generic theorems hold for any strict partial order; `Real.*` instantiates it
with the model of `Float64Vector.Dominates` (C17).  Core Lean only.
-/
namespace Crem.Archive

structure Entry where
  vec : List Int
  act : List Bool
deriving DecidableEq, Repr

/-- `StorageResult` (the internal `canBeStored` never escapes) -/
inductive Res
  | storedReplacing   -- StoredReplacingDominatedEntries
  | storedNoDom       -- StoredWithNoDominanceDetected
  | rejDominated      -- RejectedWithStoredEntryDominanceDetected
  | rejDuplicate      -- RejectedWithDuplicateEntryDetected
  | forced            -- StoredForcingDominatingStateRemoval
deriving DecidableEq, Repr

section
variable (dom : List Int → List Int → Bool)

/-- `newModelStateCannotBeArchived`; `none` = `canBeStored` -/
def cannot (a : List Entry) (c : Entry) : Option Res :=
  match a with
  | [] => none
  | m :: ms => if dom m.vec c.vec then some .rejDominated
               else if m.act = c.act then some .rejDuplicate
               else cannot ms c

/-- `AttemptToArchiveState` -/
def attempt (a : List Entry) (c : Entry) : Res × List Entry :=
  match cannot dom a c with
  | some r => (r, a)
  | none =>
    let kept := a.filter (fun m => !dom c.vec m.vec)
    (if kept.length = a.length then .storedNoDom else .storedReplacing, kept ++ [c])

/-- `ForceModelStateIntoArchive` -/
def force (a : List Entry) (c : Entry) : Res × List Entry :=
  (.forced, a.filter (fun m => !dom m.vec c.vec) ++ [c])

/-- the explorer's protocol step: offer; when `forceIfDominated` and the offer was refused as
dominated, force it (`suppapitnarm.Explorer.AcceptUndesirableChange`) -/
def offer (forceIfDominated : Bool) (a : List Entry) (c : Entry) : List Entry :=
  match attempt dom a c with
  | (.rejDominated, a') => if forceIfDominated then (force dom a' c).2 else a'
  | (_, a') => a'

/-- offers only -/
def offers (cs : List Entry) : List Entry := cs.foldl (fun a c => (attempt dom a c).2) []

/-- `IsNonDominant` exactly as written: the inner loop stops at `len-1` (it never looks at the
last entry) -/
def isNonDominantAsWritten (a : List Entry) : Bool :=
  let n := a.length
  (List.range n).all fun i =>
    (List.range (n - 1)).all fun j =>
      if i + 1 ≤ j then
        match a[i]?, a[j]? with
        | some x, some y => !(dom x.vec y.vec || dom y.vec x.vec)
        | _, _ => true
      else true
end

namespace Real
open Crem.Dominance
abbrev attempt := Archive.attempt dominates
abbrev force := Archive.force dominates
abbrev offer := Archive.offer dominates
abbrev offers := Archive.offers dominates
end Real

end Crem.Archive
