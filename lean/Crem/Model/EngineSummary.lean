import Crem.Model.Csv
import Crem.Model.BoolArchive
/-
Model of how crem's engine takes a solution-set summary written by the explorer and serves its
rows (property C13).  Core Lean only (the driver links this file).  Built on the byte-level CSV
model of C20 (`Crem.Csv`: `load`, `cast`, `render`) and on the BooleanArchive model of C09
(`Crem.BoolArchive`: `decode`, `encode`, `decodeC`, `compress`, `decompress`).

Go code modelled
  cmd/cremengine/engine/api/v1solutionSetHandler.go  processRequestContentForSolutions, deriveSolutionsRequestTable,
                                                     verifySolutionSummaryMatchesScenario, updateSolutionSummary
  cmd/cremengine/engine/api/v1solutionHandler.go     v1GetSolutionHandler, solutionSetTableContainsEntry, getSolutionDetail
  cmd/cremengine/engine/api/SolutionPool.go          HasSolution, AddSolution (Compress / Decode / Decompress, error ignored)
  cmd/cremengine/engine/api/MuxSupport.go            checkEncodingInSolutionSummary, encodingPresentInSolutionSummaryParetoFront
  cmd/cremengine/engine/api/v1modelHandler.go        reInitialiseModelWithEncoding (PATCH /model with an `Encoding` attribute)
  internal/pkg/dataset/tables/baseTable.go           CellString incl. `fmt.Sprintf("%v", float64)` (`fmtV`)
  internal/pkg/annealing/solution/set/encoding/csv/Marshaler.go   the summary layout (`header`, `Row.fields`, `renderSummary`)

`Variant` says which of the three repairs proposed for C13 are applied; `Variant.current` is the
code as it stood when the property was written, `Variant.fixed` has all three.
-/
namespace Crem.EngineSummary
open Crem.Csv

/-- ASCII text as bytes (literals only) -/
def ascii (s : String) : Bytes := s.toList.map (fun c => c.toNat.toUInt8)

def sSolution : Bytes := ascii "Solution"
def sActions : Bytes := ascii "Actions"
def sSummary : Bytes := ascii "Summary"
def sAsIs : Bytes := ascii "As-Is"

/-! ## 1. `fmt.Sprintf("%v", f)` for a float64: what `CellString` returns for a number cell

`%v` is `%g` with the shortest digit string that parses back to the same float
(`strconv.FormatFloat(f, 'g', -1, 64)`); for the shortest format strconv takes `eprec = 6`, so the
exponent form is used when the decimal exponent is below -4 or at least 6: `100000` prints as
such, `1000000` as `1e+06`, `123456789` as `1.23456789e+08`. -/

def digitByte (d : Nat) : UInt8 := (0x30 + d).toUInt8

def decDigitsAux : Nat → Nat → Bytes → Bytes
  | 0, _, acc => acc
  | fuel + 1, n, acc =>
    if n < 10 then digitByte n :: acc else decDigitsAux fuel (n / 10) (digitByte (n % 10) :: acc)

/-- decimal digits of `n`, most significant first (`"0"` for 0); the fuel covers every number below 10^400 -/
def decDigits (n : Nat) : Bytes := decDigitsAux 400 n []

/-- smallest `j ≥ j0` with `num * 10^j ≥ den` (bounded search; the smallest subnormal needs 324) -/
def upScale : Nat → Nat → Nat → Nat → Nat
  | 0, _, _, j => j
  | fuel + 1, num, den, j => if num * 10 ^ j ≥ den then j else upScale fuel num den (j + 1)

/-- ⌊log₁₀ (num/den)⌋ for positive `num`, `den` -/
def floorLog10Ratio (num den : Nat) : Int :=
  if num ≥ den then (((decDigits (num / den)).length - 1 : Nat) : Int)
  else -((upScale 400 num den 1 : Nat) : Int)

/-- The shortest decimal `D × 10^(-s)` that `ParseFloat` maps back to the float with (unsigned)
bit pattern `b` and exact value `num/den`, the closest to `num/den` among the shortest (what Go's
`ryuFtoaShortest` / `roundShortest` compute).  With `n` digits the only candidates are the two
`n`-digit neighbours of the value; `n` grows until one of them round-trips (17 always suffices). -/
def shortestAux (b num den : Nat) (k : Int) : Nat → Nat → Nat × Int
  | 0, n => (0, (n : Int) - 1 - k)   -- unreachable: 17 digits always round-trip
  | fuel + 1, n =>
    let s : Int := (n : Int) - 1 - k
    let sn := if s ≥ 0 then num * 10 ^ s.toNat else num
    let sd := if s ≥ 0 then den else den * 10 ^ (-s).toNat
    let fl := sn / sd
    let r := sn % sd
    let ok (d : Nat) : Bool :=
      if s ≥ 0 then roundBits d (10 ^ s.toNat) == b else roundBits (d * 10 ^ (-s).toNat) 1 == b
    let okLo := fl != 0 && ok fl
    let okHi := ok (fl + 1)
    if okLo && okHi then
      (if 2 * r < sd || (2 * r == sd && fl % 2 == 0) then (fl, s) else (fl + 1, s))
    else if okLo then (fl, s)
    else if okHi then (fl + 1, s)
    else shortestAux b num den k fuel (n + 1)

def stripZeros (ds : Bytes) : Bytes := (ds.reverse.dropWhile (· == 0x30)).reverse

/-- `%e` layout of the digits `ds` with decimal exponent `x`: `d[.ddd]e±XX` -/
def fmtE (ds : Bytes) (x : Int) : Bytes :=
  let mant := match ds with
    | [] => [0x30]
    | [d] => [d]
    | d :: rest => d :: 0x2E :: rest
  let ex := decDigits x.natAbs
  mant ++ [0x65, if x < 0 then 0x2D else 0x2B] ++ (if ex.length < 2 then 0x30 :: ex else ex)

/-- `%f` layout of the value `0.ds × 10^dp` with as many decimals as the digits need -/
def fmtF (ds : Bytes) (dp : Int) : Bytes :=
  if dp ≤ 0 then [0x30, 0x2E] ++ List.replicate (-dp).toNat 0x30 ++ ds
  else if ds.length ≤ dp.toNat then ds ++ List.replicate (dp.toNat - ds.length) 0x30
  else ds.take dp.toNat ++ 0x2E :: ds.drop dp.toNat

/-- `fmt.Sprintf("%v", math.Float64frombits(bits))` -/
def fmtV (bits : Nat) : Bytes :=
  let neg := decide (bits ≥ bitsSign)
  let b : Nat := bits % bitsSign
  let e : Nat := b / 2 ^ 52
  let m : Nat := b % 2 ^ 52
  let sign : Bytes := if neg then [0x2D] else []
  if e == 2047 then
    if m != 0 then ascii "NaN" else if neg then ascii "-Inf" else ascii "+Inf"
  else if b == 0 then sign ++ [0x30]
  else
    let mant := if e == 0 then m else m + 2 ^ 52
    let ex : Int := if e == 0 then -1074 else (e : Int) - 1075
    let num := if ex ≥ 0 then mant * 2 ^ ex.toNat else mant
    let den := if ex ≥ 0 then 1 else 2 ^ (-ex).toNat
    let k := floorLog10Ratio num den
    let (d, s) := shortestAux b num den k 17 1
    let all := decDigits d
    let ds := stripZeros all
    let dp : Int := (all.length : Int) - s
    let x := dp - 1
    sign ++ (if x < -4 || x ≥ 6 then fmtE ds x else fmtF ds dp)

/-- `baseTable.CellString` as text: a string cell as it is, a number cell through `%v`, anything
else (a bool cell) as the empty string -/
def cellText : Cell → Bytes
  | .text s => s
  | .num b => fmtV b
  | .bool _ => []

/-- the field comes back from the loader's type cast unchanged (`CellString(Cast(f)) == f`) -/
def readsBack (f : Bytes) : Bool := cellText (cast f) == f

/-- the field is kept as a string cell: neither `ParseFloat` nor `ParseBool` accepts it -/
def noCastCollision (f : Bytes) : Bool := !isNumeric f && !boolSpelled f

/-! ## 2. the scenario the engine is configured with, and the repairs -/

structure Scenario where
  /-- number of management actions of the scenario's model (the size of its BooleanArchive) -/
  nActions : Nat
  /-- decision-variable name ↦ value of the as-is model (float64 bits); a Go map: order irrelevant -/
  vars : List (Bytes × Nat)
  deriving Repr

def Scenario.asIs (sc : Scenario) (name : Bytes) : Option Nat :=
  (sc.vars.find? (fun p => p.1 == name)).map (·.2)

structure Variant where
  /-- D9 repaired: `getSolutionDetail` reads the encoding / the note from the columns
  `colSize-2` / `colSize-1` (as the header check and the Pareto-front search already do) instead of
  the fixed columns 6 / 7 -/
  colsFromEnd : Bool
  /-- D10 repaired: the loader keeps the cells of the `Actions` column as the text of their field -/
  rawActions : Bool
  /-- the solution pool forgets the solutions of the previous summary when a new one is accepted -/
  poolReset : Bool
  /-- D13 repaired (747c98d, 090fd75): malformed summaries are client errors (a one-column header is
  rejected; an As-Is row whose cells are not the model's variables as numbers is "not produced from the
  current scenario"), and `getSolutionDetail`'s search covers row 0 (a label in the first row of a summary
  without an As-Is row is served instead of a nil dereference) -/
  guards : Bool
  deriving DecidableEq, Repr

def Variant.current : Variant := ⟨false, false, false, false⟩
def Variant.fixed : Variant := ⟨true, true, true, true⟩

/-! ## 3. POST /api/v1/solutions: `loadSummary` -/

/-- Go's `==` on float64 given as bit patterns: NaN equals nothing, the two zeros are equal -/
def floatEq (a b : Nat) : Bool :=
  let isNaN (x : Nat) : Bool := x % bitsSign > bitsInf
  let isZero (x : Nat) : Bool := x % bitsSign == 0
  !isNaN a && !isNaN b && (a == b || (isZero a && isZero b))

/-- the engine's `actionsEncodingPattern` `^[0-9A-Fa-f:]*$` -/
def isHexPatByte (b : UInt8) : Bool :=
  isDigit b || (0x41 ≤ b && b ≤ 0x46) || (0x61 ≤ b && b ≤ 0x66) || b == 0x3A

def hexPattern (s : Bytes) : Bool := s.all isHexPatByte

/-- the loader's cast of one record under a header: with the D10 repair the fields under an
`Actions` heading stay text.  (`zipWith`: every record has the header's length, `readAll_uniform`.) -/
def castRecord (v : Variant) (hdr : List Bytes) (r : List Bytes) : List Cell :=
  if v.rawActions then List.zipWith (fun h f => if h == sActions then Cell.text f else cast f) hdr r
  else r.map cast

/-- `ParseCsvTextIntoTable` as the engine calls it -/
def loadTable (v : Variant) (text : Bytes) : Load :=
  match readAll text with
  | .error e => .error e
  | .ok [] => .error .noRecords
  | .ok (hdr :: rows) => .ok { header := hdr, cells := rows.map (castRecord v hdr) }

inductive Reject where
  | csv          -- the CSV reader's error (or no record at all)
  | invalid      -- header / cell-type / encoding-pattern messages of `deriveSolutionsRequestTable`
  | notScenario  -- "Solution Summary supplied wasn't produced from current scenario"
  deriving DecidableEq, Repr

inductive PanicAt where
  | headerIndex      -- `Header()[headerLength-2]` with a one-column header
  | asIsColumn       -- `Header()[colIndex]` / `cells[row][colIndex]` beyond the table, As-Is check
  | asIsNotFloat     -- `CellFloat64` type assertion in the As-Is check
  | unknownVariable  -- `asIsModel.DecisionVariable(name).Value()` on a name the model does not have
  | labelInRowZero   -- `getSolutionDetail` returns nil (its search starts at row 1) and is dereferenced
  | detailColumn     -- `CellString(6|7, row)` beyond the table
  deriving DecidableEq, Repr

inductive Post where
  | rejected (r : Reject)   -- HTTP 400
  | panic (p : PanicAt)
  | ok (t : Table)          -- HTTP 200; the table becomes `solutionSetTable`
  deriving DecidableEq, Repr

/-- the three header messages: `[0] != "Solution"`, `[len-2] != "Actions"`, `[len-1] != "Summary"`;
`none` = the index `len-2` is negative (panic) -/
def headerOk (hdr : List Bytes) : Option Bool :=
  match hdr.reverse with
  | last :: prev :: _ => some (hdr.head? == some sSolution && prev == sActions && last == sSummary)
  | _ => none

/-- the type test of one cell by its column heading -/
def cellOk (heading : Bytes) (c : Cell) : Bool :=
  if heading == sSolution || heading == sSummary then
    (match c with | .text _ => true | _ => false)
  else if heading == sActions then hexPattern (cellText c)
  else (match c with | .num _ => true | _ => false)

/-- columns 1.. of one row (`colIndex := 1`) -/
def rowOk (hdr : List Bytes) (row : List Cell) : Bool :=
  (List.zipWith cellOk hdr.tail row.tail).all id

/-- `for colIndex := 1; colIndex <= numberOfDecisionVariables` on a row labelled `As-Is`:
`k` columns still to check, `hs` / `cs` the header / the row from the current column on -/
def verifyCols (sc : Scenario) : Nat → List Bytes → List Cell → Option Post
  | 0, _, _ => none
  | _ + 1, [], _ => some (.panic .asIsColumn)
  | _ + 1, _, [] => some (.panic .asIsColumn)
  | k + 1, h :: hs, c :: cs =>
    match c with
    | .num b =>
      match sc.asIs h with
      | none => some (.panic .unknownVariable)
      | some m => if floatEq b m then verifyCols sc k hs cs else some (.rejected .notScenario)
    | _ => some (.panic .asIsNotFloat)

/-- `verifySolutionSummaryMatchesScenario`: every row whose label reads `As-Is`, in order -/
def verifyRows (sc : Scenario) (hdr : List Bytes) : List (List Cell) → Option Post
  | [] => none
  | row :: rows =>
    if (row.head?.map cellText) == some sAsIs then
      match verifyCols sc sc.vars.length hdr.tail row.tail with
      | some p => some p
      | none => verifyRows sc hdr rows
    else verifyRows sc hdr rows

/-- `processRequestContentForSolutions` (content type aside) -/
def loadSummary (v : Variant) (sc : Scenario) (text : Bytes) : Post :=
  match loadTable v text with
  | .error _ => .rejected .csv
  | .panic _ => .rejected .csv          -- unreachable (`load_no_panic`)
  | .ok t =>
    match headerOk t.header with
    | none => if v.guards then .rejected .invalid else .panic .headerIndex
    | some hok =>
      -- rows 1.. only: `if rowIndex > 0`
      if !(hok && t.cells.tail.all (rowOk t.header)) then .rejected .invalid
      else
        match verifyRows sc t.header t.cells with
        | some (.panic p) => if v.guards then .rejected .notScenario else .panic p
        | some p => p
        | none => .ok t

/-! ## 4. GET /api/v1/solutions/<label>: `lookup` -/

def labelOf (row : List Cell) : Option Bytes := row.head?.map cellText

/-- `solutionSetTableContainsEntry`: every row, row 0 included -/
def containsLabel (label : Bytes) (t : Table) : Bool := t.cells.any (fun r => labelOf r == some label)

/-- the column `getSolutionDetail` reads the encoding from -/
def encodingIndex (v : Variant) (t : Table) : Nat := if v.colsFromEnd then t.header.length - 2 else 6
/-- … and the note -/
def noteIndex (v : Variant) (t : Table) : Nat := if v.colsFromEnd then t.header.length - 1 else 7

inductive Lookup where
  | notFound                          -- 404
  | asIs                              -- the pool's own As-Is solution (the table row is not read)
  | found (encoding note : Bytes)     -- what `AddSolution` is handed
  | panic (p : PanicAt)
  deriving DecidableEq, Repr

/-- `getSolutionDetail`'s loop, which starts at row **1** -/
def findDetail (v : Variant) (t : Table) (label : Bytes) : List (List Cell) → Lookup
  | [] => .panic .labelInRowZero
  | row :: rows =>
    if labelOf row == some label then
      match row[encodingIndex v t]?, row[noteIndex v t]? with
      | some e, some n => .found (cellText e) (cellText n)
      | _, _ => .panic .detailColumn
    else findDetail v t label rows

/-- the route of the resource, `solutionLabelPath = "[\\w\\-]+"` (`Mux.Initialise`): a request whose last
path element is empty or has any other byte reaches no handler (404) -/
def routableLabel (label : Bytes) : Bool :=
  !label.isEmpty && label.all (fun b => isDigit b || (0x41 ≤ b && b ≤ 0x5A) || (0x61 ≤ b && b ≤ 0x7A) ||
    b == 0x5F || b == 0x2D)

/-- `v1GetSolutionHandler` on an engine whose pool does not yet hold `label` -/
def lookup (v : Variant) (label : Bytes) (t : Table) : Lookup :=
  if !routableLabel label then .notFound
  else if !containsLabel label t then .notFound
  else if label == sAsIs then .asIs
  else findDetail v t label (if v.guards then t.cells else t.cells.tail)

/-! ## 5. the solution pool: which action set a served solution has -/

def toChars (s : Bytes) : List Char := s.map (fun b => Char.ofNat b.toNat)
def ofChars (s : List Char) : Bytes := s.map (fun c => c.toNat.toUInt8)

/-- `SolutionPool.AddSolution`: clone of the as-is model, `Compress`, `Decode(encoding)` **with the
error ignored**, `Decompress`: the flags handed to the clone (`none` = a panic on the way) -/
def poolActive (n : Nat) (encoding : Bytes) : Option (List Bool) :=
  match BoolArchive.compress (List.replicate n false) with
  | none => none
  | some a => BoolArchive.decompress (BoolArchive.decodeC a (toChars encoding)).1

/-- active flags of the solution served for `label` -/
def served (v : Variant) (sc : Scenario) (label : Bytes) (t : Table) : Option (List Bool) :=
  match lookup v label t with
  | .asIs => some (List.replicate sc.nActions false)
  | .found e _ => poolActive sc.nActions e
  | _ => none

/-! ## 6. PATCH /api/v1/model with an encoding: `paretoMember` -/

/-- `encodingPresentInSolutionSummaryParetoFront`: rows 1.., column `colSize - 2` -/
def encodingPresent (t : Table) (encoding : Bytes) : Bool :=
  t.cells.tail.any (fun row => (row[t.header.length - 2]?.map cellText) == some encoding)

/-- `reInitialiseModelWithEncoding` + `deriveExtraModelAttributes`: `none` = the text does not
decode (HTTP 400, model unchanged); otherwise the `ParetoFrontMember` attribute, computed from the
**re-derived canonical** encoding of the model the text was decoded into -/
def paretoMember (sc : Scenario) (t : Table) (encoding : Bytes) : Option Bool :=
  match BoolArchive.decode sc.nActions (toChars encoding) with
  | .error _ => none
  | .ok flags => some (encodingPresent t (ofChars (BoolArchive.encode flags)))

/-! ## 7. the summaries the explorer writes -/

structure Row where
  label : Bytes
  values : List Bytes      -- the decision-variable cells (`%.3f` renderings)
  encoding : Bytes
  note : Bytes
  deriving DecidableEq, Repr

/-- the fields of one row as the reader sees them.  `joinAttributes` joins the value cells FIRST and then joins
`[label, <joined values>, encoding, note]`: with at least one value that is `label, v₁, …, v_k, encoding, note`;
with NO value the joined list is the empty string, which still takes a place: `label, , encoding, note` — four
fields under the three headings of `deriveHeaders` (the engine's reader rejects that text: ErrFieldCount). -/
def Row.fields (r : Row) : List Bytes :=
  r.label :: ((if r.values.isEmpty then [[]] else r.values) ++ [r.encoding, r.note])

/-- `deriveHeaders` -/
def header (names : List Bytes) : List Bytes := sSolution :: (names ++ [sActions, sSummary])

/-- `SummaryMarshaler.summaryToCsvString` on rows already in sort order -/
def renderSummary (names : List Bytes) (rows : List Row) : Bytes :=
  render (header names :: rows.map Row.fields)

/-- the encoding is the canonical text of a set of `n` actions -/
def canonicalEncoding (n : Nat) (e : Bytes) : Bool :=
  match BoolArchive.decode n (toChars e) with
  | .ok flags => ofChars (BoolArchive.encode flags) == e
  | .error _ => false

def allDistinct : List Bytes → Bool
  | [] => true
  | x :: xs => !xs.contains x && allDistinct xs

/-- value cells of the As-Is row against the scenario: cell by cell the float the field parses to
equals (Go `==`) the as-is value of the variable the column is named after -/
def asIsValuesOk (sc : Scenario) : List Bytes → List Bytes → Bool
  | [], [] => true
  | n :: ns, f :: fs =>
    (match parseFloat f, sc.asIs n with
     | some b, some m => floatEq b m
     | _, _ => false) && asIsValuesOk sc ns fs
  | _, _ => false

def rowShapeOk (sc : Scenario) (names : List Bytes) (r : Row) : Bool :=
  r.values.length == names.length && r.fields.all plainField && r.values.all isNumeric &&
  noCastCollision r.label && routableLabel r.label && noCastCollision r.note && hexPattern r.encoding &&
  canonicalEncoding sc.nActions r.encoding

/-- **wellFormed**: a summary as the explorer writes it for the scenario `sc`:
at least one decision variable (with none the writer's rows have one field more than its header, see `Row.fields`),
one column per decision variable of the scenario (none of them called like the three fixed
headings), first row `As-Is` carrying the scenario's as-is values and the empty action set, every
other row another label, all labels distinct, every row with plain fields, numeric value cells, a
label and a note that stay text, a label made of letters, digits, `_`, `-` (the engine's route), and
the canonical encoding of some set of the scenario's actions. -/
def wellFormed (sc : Scenario) (names : List Bytes) (rows : List Row) : Bool :=
  !names.isEmpty && names.length == sc.vars.length &&
  names.all (fun n => plainField n && n != sSolution && n != sActions && n != sSummary) &&
  (match rows with
   | [] => false
   | r0 :: rest =>
     r0.label == sAsIs && asIsValuesOk sc names r0.values &&
     (match BoolArchive.decode sc.nActions (toChars r0.encoding) with
      | .ok flags => flags == List.replicate sc.nActions false
      | .error _ => false) &&
     rest.all (fun r => r.label != sAsIs)) &&
  rows.all (rowShapeOk sc names) &&
  allDistinct (rows.map (·.label))

/-- the hypothesis under which the fixed columns 6 / 7 are the right ones: five variable columns -/
def layoutOk (v : Variant) (names : List Bytes) : Bool := v.colsFromEnd || names.length == 5

/-- the hypothesis under which the loader's cast keeps every encoding of a solution row -/
def encodingsReadBack (v : Variant) (rows : List Row) : Bool :=
  v.rawActions || rows.all (fun r => readsBack r.encoding)

/-! ## 8. the engine across requests: table, solution pool, the served model's membership flag

`Mux` keeps `solutionSetTable` (replaced by every accepted `POST /api/v1/solutions`), `solutionPool`
(label ↦ solution; filled lazily by `GET /api/v1/solutions/<label>`; its own `As-Is` entry is built when the
scenario is posted and never replaced) and the model served under `/api/v1/model` with its
`ParetoFrontMember` attribute.  A `POST /api/v1/scenario` builds a new model and a NEW pool but leaves the table
where it is (`rememberModelState`).  `Variant.poolReset` says whether an accepted summary empties the pool
(`SolutionPool.RemoveSummarySolutions`, repair 8450521). -/

/-- a pooled solution as `GET /api/v1/solutions/<label>` shows it -/
structure Cached where
  /-- the `Encoding` attribute -/
  enc : Bytes
  /-- the `Summary` attribute; the pool's own As-Is entry has none -/
  note : Option Bytes
  /-- the `ParetoFrontMember` attribute: `AddSolution` sets it, the As-Is entry has it false -/
  member : Bool
  /-- active flags of the solution's model (`none` = a panic on the way) -/
  flags : Option (List Bool)
  deriving DecidableEq, Repr

structure Engine where
  sc : Scenario
  table : Option Table := none
  pool : List (Bytes × Cached) := []
  /-- `ParetoFrontMember` of the served model (absent until a table is loaded) -/
  pfm : Option Bool := none
  deriving Repr

inductive Req where
  | scenario (sc : Scenario)   -- an accepted `POST /api/v1/scenario`
  | post (text : Bytes)        -- `POST /api/v1/solutions`
  | get (label : Bytes)        -- `GET /api/v1/solutions/<label>`
  | patch (encoding : Bytes)   -- `PATCH /api/v1/model` with an `Encoding` attribute, then the model's `ParetoFrontMember`
  deriving Repr

inductive Resp where
  | ok                          -- 200 of a POST
  | rejected (r : Reject)       -- 400 of `POST /api/v1/solutions`
  | panic
  | notFound                    -- 404
  | found (c : Cached)          -- 200 of a GET
  | patchRejected               -- 400 of the PATCH
  | member (b : Option Bool)    -- the `ParetoFrontMember` attribute after an accepted PATCH (`none` = absent)
  deriving DecidableEq, Repr

/-- the pool's own As-Is entry (`assignAsIsSolutionFrom`) -/
def asIsCached (sc : Scenario) : Cached :=
  { enc := ofChars (BoolArchive.encode (List.replicate sc.nActions false)), note := none, member := false,
    flags := some (List.replicate sc.nActions false) }

/-- what `AddSolution` pools for a row's encoding and note -/
def cachedOf (sc : Scenario) (encoding note : Bytes) : Cached :=
  { enc := encoding, note := some note, member := true, flags := poolActive sc.nActions encoding }

/-- `rememberModelState`: new model (as-is), new pool; the table stays; with a table present the new model's
membership flag is derived against it -/
def doScenario (e : Engine) (sc : Scenario) : Engine :=
  { sc := sc, table := e.table, pool := [],
    pfm := e.table.map (fun t => encodingPresent t (ofChars (BoolArchive.encode (List.replicate sc.nActions false)))) }

def postResp : Post → Resp
  | .ok _ => .ok
  | .panic _ => .panic
  | .rejected r => .rejected r

/-- `v1PostSolutionsHandler` -/
def doPost (v : Variant) (e : Engine) (text : Bytes) : Engine × Resp :=
  match loadSummary v e.sc text with
  | .ok t => ({ e with table := some t, pool := if v.poolReset then [] else e.pool }, .ok)
  | r => (e, postResp r)

/-- `HasSolution(label)`: a pooled label is answered from the pool, whatever the table says now -/
def pooledOr (e : Engine) (label : Bytes) (miss : Engine × Resp) : Engine × Resp :=
  match e.pool.find? (fun p => p.1 == label) with
  | some (_, c) => (e, .found c)
  | none => miss

/-- `v1GetSolutionHandler`: no table → 404; label not routed / not in the table → 404; `As-Is` → the pool's own
entry; a pooled label → the pooled solution; otherwise `getSolutionDetail` + `AddSolution` -/
def doGet (v : Variant) (e : Engine) (label : Bytes) : Engine × Resp :=
  match e.table with
  | none => (e, .notFound)
  | some t =>
    match lookup v label t with
    | .notFound => (e, .notFound)
    | .asIs => (e, .found (asIsCached e.sc))
    | .panic _ => pooledOr e label (e, .panic)
    | .found enc n =>
      pooledOr e label
        (match poolActive e.sc.nActions enc with
         | none => (e, .panic)
         | some _ => ({ e with pool := (label, cachedOf e.sc enc n) :: e.pool }, .found (cachedOf e.sc enc n)))

/-- `v1PatchModelHandler` with an `Encoding` attribute, followed by reading `ParetoFrontMember` off `GET /model` -/
def doPatch (e : Engine) (enc : Bytes) : Engine × Resp :=
  match e.table with
  | none =>
    match BoolArchive.decode e.sc.nActions (toChars enc) with
    | .error _ => (e, .patchRejected)
    | .ok _ => (e, .member e.pfm)
  | some t =>
    match paretoMember e.sc t enc with
    | none => (e, .patchRejected)
    | some b => ({ e with pfm := some b }, .member (some b))

def step (v : Variant) (e : Engine) : Req → Engine × Resp
  | .scenario sc => (doScenario e sc, .ok)
  | .post text => doPost v e text
  | .get label => doGet v e label
  | .patch enc => doPatch e enc

/-- the engine after a request sequence -/
def exec (v : Variant) (e : Engine) (reqs : List Req) : Engine := reqs.foldl (fun e r => (step v e r).1) e

/-- the request neither replaces the loaded summary nor the scenario when it meets the engine in state `e`:
it is a GET, a PATCH, or a `POST /api/v1/solutions` the engine rejects -/
def keeps (v : Variant) (e : Engine) : Req → Bool
  | .scenario _ => false
  | .post text => (match loadSummary v e.sc text with | .ok _ => false | _ => true)
  | _ => true

/-- every request of the sequence keeps the summary and the scenario -/
def Quiet (v : Variant) : Engine → List Req → Prop
  | _, [] => True
  | e, r :: rs => keeps v e r = true ∧ Quiet v (step v e r).1 rs

end Crem.EngineSummary
