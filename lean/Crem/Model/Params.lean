/-
Model of crem's parameter machinery:

* `internal/pkg/parameters/Parameters.go`            (`Parameters`: `CreatingDefaults`,
  `AssignAllUserValues`, `AssignOnlyEnforcedUserValues`, `validateParam`, `HasEntry`,
  the typed getters `GetInt64/GetFloat64/GetString/GetBoolean`)
* `internal/pkg/parameters/specification/Specifications.go` (`Specification`, `Specifications.Validate`)
* `internal/pkg/parameters/specification/Validators.go`     (the validators, transcribed with the
  dynamic types they accept and their bounds)
* the component-level `SetParameters` of the annealer, both explorers, the three coolants and the
  three models (which assign mode they use, which extra checks they append).

Conventions
* A Go `interface{}` value is a `Value`.  `int64` is an `Int` (the harness only ever sends values
  in the int64 range; the model is total on all of `Int`), `float64` is its IEEE-754 **bit pattern**
  (`UInt64`), compared exactly as Go's `<`/`>` compare floats (`F64.lt`: NaN is unordered,
  `-0.0 = +0.0`, infinities are ordered) — so range checks are exact, nothing is rounded or printed.
  `null` is Go's nil interface (the `DefaultValue` of a specification that does not set one).
* A Go `map[string]…` is an association list read with first-match `getKey`; storing a key
  prepends, so the list denotes exactly the function the Go map denotes.  Go's arbitrary map
  iteration order is the order of the list the caller passes; `Crem.Properties.C18` proves the
  result does not depend on it.
* The typed getters return `Option`: `none` is the Go run-time panic of a failed type assertion
  (`p.paramMap[key].(int64)` on a missing key or a value of another dynamic type).
* `IsReadableFile` asks the file system; the model takes the answer as an oracle `Env.readable`.
  `Env.offers` is the model's `OffersDecisionVariable` (used by the Kirkpatrick explorer's extra check).

Core Lean only (the driver links this file).
-/
namespace Crem.Params

/-! ## float64 as a bit pattern, compared like Go compares -/
namespace F64

def expMask : UInt64 := 0x7ff
def mantMask : UInt64 := 0xfffffffffffff
def absMask : UInt64 := 0x7fffffffffffffff

/-- NaN: exponent all ones, mantissa non-zero -/
def isNaN (b : UInt64) : Bool := ((b >>> 52) &&& expMask) == expMask && (b &&& mantMask) != 0

/-- strictly monotone integer key of a non-NaN float; `+0.0` and `-0.0` both map to 0 -/
def key (b : UInt64) : Int :=
  if b >>> 63 == 0 then (b.toNat : Int) else -((b &&& absMask).toNat : Int)

/-- Go's `a < b` on float64 (false whenever a NaN is involved) -/
def lt (a b : UInt64) : Bool := !isNaN a && !isNaN b && decide (key a < key b)

def zero : UInt64 := 0x0000000000000000
def one : UInt64 := 0x3ff0000000000000
/-- `math.MaxFloat64` -/
def maxFloat : UInt64 := 0x7fefffffffffffff

end F64

/-! ## values, validators, specifications -/

/-- a Go `interface{}` as it can arrive from a TOML document (plus nil) -/
inductive Value where
  | int (i : Int)
  | float (bits : UInt64)
  | str (s : String)
  | bool (b : Bool)
  | array (xs : List Value)
  | table (kvs : List (String × Value))
  | datetime (s : String)
  | null

/-- the four dynamic types a typed getter can assert -/
inductive Ty where
  | int | float | str | bool
  deriving DecidableEq, Repr

def Value.hasTy : Value → Ty → Bool
  | .int _, .int => true
  | .float _, .float => true
  | .str _, .str => true
  | .bool _, .bool => true
  | _, _ => false

def maxInt64 : Int := 9223372036854775807

/-- validator kinds of `Validators.go` (+ the two component-private validators) -/
inductive Validator where
  /-- `IsDecimal`: dynamic type float64, any value (NaN and infinities included) -/
  | decimal
  /-- `IsDecimalWithInclusiveBounds(min,max)`: float64 and not (`v < min || v > max`) -/
  | decimalBounds (lo hi : UInt64)
  /-- `IsInteger`: dynamic type int64 (a float64 with an integral value is rejected) -/
  | integer
  /-- `IsIntegerWithInclusiveBounds(min,max)` -/
  | integerBounds (lo hi : Int)
  /-- `IsString` -/
  | string
  /-- `IsBoolean` -/
  | boolean
  /-- `IsReadableFile`: a string naming something `os.OpenFile(…, O_RDONLY)` opens -/
  | readableFile
  /-- `isOptimisationDirection` (Kirkpatrick explorer): a string equal to one of the listed names -/
  | oneOf (opts : List String)

/-- `IsDecimalBetweenZeroAndOne` -/
def Validator.decimalBetweenZeroAndOne : Validator := .decimalBounds F64.zero F64.one
/-- `IsNonNegativeDecimal` -/
def Validator.nonNegativeDecimal : Validator := .decimalBounds F64.zero F64.maxFloat
/-- `IsNonNegativeInteger` -/
def Validator.nonNegativeInteger : Validator := .integerBounds 0 maxInt64
/-- `isOptimisationDirection` -/
def Validator.optimisationDirection : Validator := .oneOf ["Minimising", "Maximising"]

/-- the dynamic type a validator demands -/
def Validator.ty : Validator → Ty
  | .decimal | .decimalBounds _ _ => .float
  | .integer | .integerBounds _ _ => .int
  | .string | .readableFile | .oneOf _ => .str
  | .boolean => .bool

/-- what the model cannot compute: the file system, and the model a Kirkpatrick explorer is wired to -/
structure Env where
  readable : String → Bool
  offers : String → Bool

/-- does the validator accept the value?  (`validator(key, value).IsValid()`) -/
def validates (env : Env) : Validator → Value → Bool
  | .decimal, .float _ => true
  | .decimalBounds lo hi, .float f => !(F64.lt f lo || F64.lt hi f)
  | .integer, .int _ => true
  | .integerBounds lo hi, .int i => !(decide (i < lo) || decide (i > hi))
  | .string, .str _ => true
  | .boolean, .bool _ => true
  | .readableFile, .str s => env.readable s
  | .oneOf opts, .str s => opts.contains s
  | _, _ => false

/-- `specification.Specification` -/
structure Spec where
  key : String
  validator : Validator
  default : Value
  optional : Bool

/-- `specification.Specifications` (a Go map keyed by `Key`; first match wins) -/
abbrev Specs := List Spec

def Specs.find (specs : Specs) (k : String) : Option Spec :=
  match specs with
  | [] => none
  | s :: rest => if s.key = k then some s else Specs.find rest k

def Specs.keys (specs : Specs) : List String := specs.map (·.key)

/-- association list read as a Go map -/
def getKey : List (String × Value) → String → Option Value
  | [], _ => none
  | (k', v) :: rest, k => if k' = k then some v else getKey rest k

/-- one entry of `validationErrors` (a small enum; message texts are not modelled) -/
inductive Err where
  /-- the key is specified, its validator rejected the value -/
  | invalid (k : String)
  /-- `MissingSpecificationError`: the key is not specified -/
  | unsupported (k : String)
  /-- `AddValidationErrorMessage` by a component's own extra check -/
  | message (tag : String)
  deriving DecidableEq, Repr

/-- `parameters.Parameters` -/
structure Params where
  specs : Specs
  map : List (String × Value)
  errors : List Err

def Params.get (p : Params) (k : String) : Option Value := getKey p.map k

/-- `HasEntry` -/
def Params.hasEntry (p : Params) (k : String) : Bool := (p.get k).isSome

/-- `Initialise(..).Enforcing(specs)` = `WithSpecifications(specs).CreatingDefaults()`:
every non-optional specification's default is stored -/
def defaultsOf : Specs → List (String × Value)
  | [] => []
  | s :: rest => if s.optional then defaultsOf rest else (s.key, s.default) :: defaultsOf rest

def createDefaults (specs : Specs) : Params :=
  { specs := specs, map := defaultsOf specs, errors := [] }

inductive Verdict where
  | valid | invalid | unsupported
  deriving DecidableEq, Repr

/-- `specifications.Validate(key, value)` classified -/
def verdict (env : Env) (specs : Specs) (k : String) (v : Value) : Verdict :=
  match specs.find k with
  | none => .unsupported
  | some s => if validates env s.validator v then .valid else .invalid

def errOf : Verdict → String → Option Err
  | .valid, _ => none
  | .invalid, k => some (.invalid k)
  | .unsupported, k => some (.unsupported k)

/-- `validateParam`: the verdict, and the error list with the failure appended -/
def validateParam (env : Env) (p : Params) (k : String) (v : Value) : Bool × Params :=
  match errOf (verdict env p.specs k v) k with
  | none => (true, p)
  | some e => (false, { p with errors := p.errors ++ [e] })

/-- body of both assignment loops: `if p.validateParam(k, v) { p.paramMap[k] = v }` -/
def assignOne (env : Env) (p : Params) (kv : String × Value) : Params :=
  let r := validateParam env p kv.1 kv.2
  if r.1 then { r.2 with map := (kv.1, kv.2) :: r.2.map } else r.2

/-- `AssignAllUserValues`: every user entry is validated (the list is Go's iteration order) -/
def assignAll (env : Env) (p : Params) (user : List (String × Value)) : Params :=
  user.foldl (assignOne env) p

/-- one step of `AssignOnlyEnforcedUserValues`: a specified key, looked up in the user map -/
def enforceOne (env : Env) (user : List (String × Value)) (p : Params) (k : String) : Params :=
  match getKey user k with
  | some v => assignOne env p (k, v)
  | none => p

/-- `AssignOnlyEnforcedUserValues`: only specified keys are looked at (in `Keys()` order);
anything else in the user map is ignored without an error -/
def assignEnforced (env : Env) (p : Params) (user : List (String × Value)) : Params :=
  p.specs.keys.foldl (enforceOne env user) p

/-! ## typed getters (`none` = the Go type assertion panics) -/

def Params.getInt64 (p : Params) (k : String) : Option Int :=
  match p.get k with | some (.int i) => some i | _ => none
def Params.getFloat64 (p : Params) (k : String) : Option UInt64 :=
  match p.get k with | some (.float f) => some f | _ => none
def Params.getString (p : Params) (k : String) : Option String :=
  match p.get k with | some (.str s) => some s | _ => none
def Params.getBoolean (p : Params) (k : String) : Option Bool :=
  match p.get k with | some (.bool b) => some b | _ => none

/-- the getter for a dynamic type succeeds -/
def Params.getterOk (p : Params) (k : String) (τ : Ty) : Bool :=
  match p.get k with
  | some v => v.hasTy τ
  | none => false

/-! ## components -/

inductive Mode where
  /-- `AssignAllUserValues` (the three models) -/
  | all
  /-- `AssignOnlyEnforcedUserValues` (annealer, explorers, coolants) -/
  | enforced
  deriving DecidableEq, Repr

/-- the extra check a component's `SetParameters` appends after assigning -/
inductive Post where
  | none
  /-- catchment `validateModelParameters`: more than one of these keys present -> one message -/
  | atMostOneOf (keys : List String)
  /-- Kirkpatrick explorer `checkDecisionVariableFromParams`: the named variable is not offered -> one message -/
  | offered (key : String)

structure Component where
  specs : Specs
  mode : Mode
  post : Post

def Params.addMessage (p : Params) (tag : String) : Params :=
  { p with errors := p.errors ++ [.message tag] }

def applyPost (env : Env) (post : Post) (p : Params) : Params :=
  match post with
  | .none => p
  | .atMostOneOf keys =>
    if (keys.filter p.hasEntry).length > 1 then p.addMessage "only-one-limit" else p
  | .offered key =>
    match p.getString key with
    | some name => if env.offers name then p else p.addMessage "variable-not-offered"
    | none => p

def assign (env : Env) (mode : Mode) (p : Params) (user : List (String × Value)) : Params :=
  match mode with
  | .all => assignAll env p user
  | .enforced => assignEnforced env p user

/-- a component's `SetParameters(user)` as far as its own `Parameters` is concerned -/
def setParameters (env : Env) (c : Component) (p : Params) (user : List (String × Value)) : Params :=
  applyPost env c.post (assign env c.mode p user)

/-- a freshly constructed component followed by any number of `SetParameters` calls
(errors accumulate: nothing ever clears `validationErrors`) -/
def afterSequence (env : Env) (c : Component) (users : List (List (String × Value))) : Params :=
  users.foldl (setParameters env c) (createDefaults c.specs)

/-- The catchment model's `Initialise` appends a message to the parameter errors when its data set does
not load (`Model.Initialise`: `m.parameters.AddValidationErrorMessage(loadError.Error())`) — the only
place outside `SetParameters` that touches a `Parameters`.  Whether and how often that happens is an
oracle (the file system and the data set), supplied by the harness as a count; the map is untouched. -/
def lateMessages (p : Params) (n : Nat) : Params :=
  (List.range n).foldl (fun q _ => q.addMessage "reported-at-initialise") p

/-! ## fan-out: one user map handed down a chain of components

`SimpleAnnealer.SetParameters(m)` assigns its own table and calls `explorer.SetParameters(m)`, which
assigns its own table and calls `coolant.SetParameters(m)` / `WithParameters(m)`: every component of
the chain is handed the SAME user map and keeps its own `Parameters` (own table, own map, own error
list).  `ParameterErrors()` of a component merges its own errors with those of the components below
it.  The `SetParameters()` result must say the same (property C18 names it as an observation point);
that it did not on the code as found (it returned the component's own errors only, two coolants always
`nil`) is finding "SetParameters omits nested errors". -/

/-- one component of a chain, with the oracles it sees -/
structure Part where
  env : Env
  comp : Component
  p : Params

def Part.set (pt : Part) (user : List (String × Value)) : Part :=
  { pt with p := setParameters pt.env pt.comp pt.p user }

/-- `SetParameters(user)` on the head of a chain: every part gets the same user map -/
def fanOut (parts : List Part) (user : List (String × Value)) : List Part :=
  parts.map (·.set user)

/-- the error lists `ParameterErrors()` merges -/
def mergedErrors (parts : List Part) : List Err := parts.flatMap (·.p.errors)

/-- `ParameterErrors() != nil` — and what the `SetParameters()` result has to agree with -/
def reportsErrors (parts : List Part) : Bool := !(mergedErrors parts).isEmpty

/-! ## decidable hypotheses evaluated by the driver on the tables extracted from Go -/

def nodupKeys : List String → Bool
  | [] => true
  | k :: rest => !rest.contains k && nodupKeys rest

/-- one specification is well formed: optional, or its default satisfies its own validator -/
def specWellFormed (env : Env) (s : Spec) : Bool := s.optional || validates env s.validator s.default

/-- weaker: optional, or its default has the dynamic type its validator demands -/
def specTypeWellFormed (s : Spec) : Bool := s.optional || s.default.hasTy s.validator.ty

/-- `SpecsWellFormed`: keys are distinct and every non-optional default satisfies its own validator -/
def specsWellFormed (env : Env) (specs : Specs) : Bool :=
  nodupKeys specs.keys && specs.all (specWellFormed env)

/-- `SpecsTypeWellFormed`: keys are distinct and every non-optional default has the demanded dynamic type -/
def specsTypeWellFormed (specs : Specs) : Bool :=
  nodupKeys specs.keys && specs.all specTypeWellFormed

end Crem.Params
