import Crem.Proofs.CatchmentOps
import Crem.Proofs.CatchmentSums
/-!
The RAW-operation invariant `SumInv` of the catchment model (properties C11 and C02).

`Canon` (C01) is preserved by whole transactions only: it needs conformant histories and distinct action keys.
The aggregate clauses of C11 need neither.  `SumInv D s` says, per variable: the cells are those of the dataset's
planning units, every cell value lies on the reporting grid, the total is the sum of the cells, the pending
command's done / undone values lie on the grid and its unit exists; and across the three nitrogen variables:
per unit TN = PN + DN, and the three pending commands are *coherent* (same unit, same status, the TN command's
done / undone values are the sums of the PN and DN commands').  Commands of all variables are always built
together (`observeAll`) and applied / withdrawn together (`AcceptAll` / `RejectAll`), which is why coherence is
inductive whatever the ORDER of proposals, accepts and reverts — `revert;revert`, `propose;propose;accept`,
stale commands across units included.

Hypothesis on the data: `UnitsOK D` (decidable, implied by `InitConsistent D`): planning-unit ids distinct, the
three pollutant variables carry the same ids, every action's unit is a planning unit.  No `KeysDistinct`, no
consistency of the attribute records with the action constants.
-/
namespace Crem.Catchment

/-! ### stores -/

theorem mem_putC {α : Type} {s : List (PU × α)} {p : PU} {c : α} {e : PU × α} (h : e ∈ putC s p c) :
    e ∈ s ∨ e.2 = c := by
  induction s with
  | nil => simp at h
  | cons hd t ih =>
    obtain ⟨r, d⟩ := hd
    rw [putC_cons] at h
    by_cases hr : r = p
    · simp only [hr, if_true, List.mem_cons] at h
      rcases h with h | h
      · right; rw [h]
      · left; exact List.mem_cons_of_mem _ h
    · simp only [hr, if_false, List.mem_cons] at h
      rcases h with h | h
      · left; rw [h]; exact List.mem_cons_self
      · rcases ih h with h' | h'
        · left; exact List.mem_cons_of_mem _ h'
        · right; exact h'

theorem pusDistinct_of_keys_eq {α β : Type} :
    ∀ {s : List (PU × α)} {t : List (PU × β)}, s.map (·.1) = t.map (·.1) → pusDistinct s = pusDistinct t
  | [], [], _ => rfl
  | [], _ :: _, h => by simp at h
  | _ :: _, [], h => by simp at h
  | (p, x) :: s, (q, y) :: t, h => by
    simp only [List.map_cons, List.cons.injEq] at h
    obtain ⟨hpq, hst⟩ := h
    rw [pusDistinct_cons, pusDistinct_cons, pusDistinct_of_keys_eq hst]
    congr 1
    have e1 : s.all (fun r => decide (r.1 ≠ p)) = (s.map (·.1)).all (fun r => decide (r ≠ p)) := by
      rw [List.all_map]; rfl
    have e2 : t.all (fun r => decide (r.1 ≠ q)) = (t.map (·.1)).all (fun r => decide (r ≠ q)) := by
      rw [List.all_map]; rfl
    rw [e1, e2, hst, hpq]

theorem getC_some_of_mem_keys {α : Type} {s : List (PU × α)} {p : PU} (h : p ∈ s.map (·.1)) :
    ∃ c, getC s p = some c :=
  Option.isSome_iff_exists.mp ((getC_isSome_iff s p).mpr h)

/-! ### per-variable invariants -/

structure PInv (keys : List PU) (s : PVar) : Prop where
  keysEq : s.cells.map (·.1) = keys
  grid : ∀ c ∈ s.cells, OnGrid 3 c.2.val
  total : s.total = sumVals s.cells
  cmd : ∀ c, s.cmd = some c → OnGrid 3 c.doneVal ∧ OnGrid 3 c.undoneVal ∧ c.pu ∈ keys

structure SInv (prec : Nat) (keys : List PU) (s : SVar) : Prop where
  keysEq : s.cells.map (·.1) = keys
  grid : ∀ c ∈ s.cells, OnGrid prec c.2
  total : s.total = sumS s.cells
  cmd : ∀ c, s.cmd = some c → OnGrid prec c.doneVal ∧ OnGrid prec c.undoneVal ∧ c.pu ∈ keys

theorem PInv.total_onGrid {keys : List PU} {s : PVar} (h : PInv keys s) : OnGrid 3 s.total := by
  rw [h.total]; exact sumVals_onGrid _ h.grid

theorem SInv.total_onGrid {prec : Nat} {keys : List PU} {s : SVar} (h : SInv prec keys s) :
    OnGrid prec s.total := by
  rw [h.total]; exact sumS_onGrid _ h.grid

theorem PInv.get {keys : List PU} {s : PVar} (h : PInv keys s) {p : PU} (hp : p ∈ keys) :
    ∃ cell, getC s.cells p = some cell ∧ OnGrid 3 cell.val := by
  obtain ⟨cell, hc⟩ := getC_some_of_mem_keys (s := s.cells) (by rw [h.keysEq]; exact hp)
  exact ⟨cell, hc, h.grid _ (getC_mem hc)⟩

theorem SInv.get {prec : Nat} {keys : List PU} {s : SVar} (h : SInv prec keys s) {p : PU} (hp : p ∈ keys) :
    ∃ cur, getC s.cells p = some cur ∧ OnGrid prec cur := by
  obtain ⟨cur, hc⟩ := getC_some_of_mem_keys (s := s.cells) (by rw [h.keysEq]; exact hp)
  exact ⟨cur, hc, h.grid _ (getC_mem hc)⟩

/-- writing an on-grid value into an existing cell and moving the total by the difference -/
theorem PInv.put {keys : List PU} {s : PVar} (h : PInv keys s) {pu : PU} {cell : Cell}
    (hg : getC s.cells pu = some cell) {tv : Rat} (htv : OnGrid 3 tv) (x : Ctx) (c' : PCmd)
    (hc' : OnGrid 3 c'.doneVal ∧ OnGrid 3 c'.undoneVal ∧ c'.pu ∈ keys) :
    PInv keys { cells := putC s.cells pu { ctx := x, val := rnd 3 tv },
                total := rnd 3 (s.total + (tv - cell.val)), cmd := some c' } := by
  have hcg : OnGrid 3 cell.val := h.grid _ (getC_mem hg)
  refine ⟨?_, ?_, ?_, ?_⟩
  · show (putC s.cells pu _).map (·.1) = keys
    rw [keys_putC]; exact h.keysEq
  · intro e he
    rcases mem_putC he with h1 | h1
    · exact h.grid e h1
    · rw [h1]; exact rnd_onGrid _ _
  · show rnd 3 (s.total + (tv - cell.val)) = sumVals (putC s.cells pu _)
    rw [sumVals_putC _ hg, rnd_of_onGrid (h.total_onGrid.add (htv.sub hcg)), rnd_of_onGrid htv, h.total]
    ring
  · intro c hc
    have : c' = c := Option.some.inj hc
    rw [← this]; exact hc'

theorem SInv.put {prec : Nat} {keys : List PU} {s : SVar} (h : SInv prec keys s) {pu : PU} {cur : Rat}
    (hg : getC s.cells pu = some cur) {tv : Rat} (htv : OnGrid prec tv) (c' : SCmd)
    (hc' : OnGrid prec c'.doneVal ∧ OnGrid prec c'.undoneVal ∧ c'.pu ∈ keys) :
    SInv prec keys { cells := putC s.cells pu (rnd prec tv),
                     total := rnd prec (s.total + (tv - cur)), cmd := some c' } := by
  have hcg : OnGrid prec cur := h.grid _ (getC_mem hg)
  refine ⟨?_, ?_, ?_, ?_⟩
  · show (putC s.cells pu _).map (·.1) = keys
    rw [keys_putC]; exact h.keysEq
  · intro e he
    rcases mem_putC he with h1 | h1
    · exact h.grid e h1
    · rw [h1]; exact rnd_onGrid _ _
  · show rnd prec (s.total + (tv - cur)) = sumS (putC s.cells pu _)
    rw [sumS_putC _ hg, rnd_of_onGrid (h.total_onGrid.add (htv.sub hcg)), rnd_of_onGrid htv, h.total]
    ring
  · intro c hc
    have : c' = c := Option.some.inj hc
    rw [← this]; exact hc'

/-! ### what the raw operations are, case by case -/

/-- `Do`: nothing (no command / already done), or the done value written into the command's unit -/
theorem doP_cases {keys : List PU} (v : VarKind) {s : PVar} (h : PInv keys s) :
    (doP v s = s ∧ (s.cmd = none ∨ ∃ c, s.cmd = some c ∧ c.done = true)) ∨
    ∃ c cell, s.cmd = some c ∧ c.done = false ∧ getC s.cells c.pu = some cell ∧
      doP v s = { cells := putC s.cells c.pu { ctx := setP v c.typ c.b c.k cell.ctx, val := rnd 3 c.doneVal },
                  total := rnd 3 (s.total + (c.doneVal - cell.val)), cmd := some { c with done := true } } := by
  cases hc : s.cmd with
  | none => left; exact ⟨by simp [doP, hc], Or.inl rfl⟩
  | some c =>
    cases hd : c.done with
    | true => left; exact ⟨by simp [doP, hc, hd], Or.inr ⟨c, rfl, hd⟩⟩
    | false =>
      right
      obtain ⟨cell, hg, _⟩ := h.get (h.cmd c hc).2.2
      exact ⟨c, cell, rfl, hd, hg, by simp [doP, hc, hd, hg, setPUValue]⟩

theorem undoP_cases {keys : List PU} {s : PVar} (h : PInv keys s) :
    (undoP s = s ∧ (s.cmd = none ∨ ∃ c, s.cmd = some c ∧ c.done = false)) ∨
    ∃ c cell, s.cmd = some c ∧ c.done = true ∧ getC s.cells c.pu = some cell ∧
      undoP s = { cells := putC s.cells c.pu { ctx := copyFields c.typ c.undoneCtx cell.ctx, val := rnd 3 c.undoneVal },
                  total := rnd 3 (s.total + (c.undoneVal - cell.val)), cmd := some { c with done := false } } := by
  cases hc : s.cmd with
  | none => left; exact ⟨by simp [undoP, hc], Or.inl rfl⟩
  | some c =>
    cases hd : c.done with
    | false => left; exact ⟨by simp [undoP, hc, hd], Or.inr ⟨c, rfl, hd⟩⟩
    | true =>
      right
      obtain ⟨cell, hg, _⟩ := h.get (h.cmd c hc).2.2
      exact ⟨c, cell, rfl, hd, hg, by simp [undoP, hc, hd, hg, setPUValue]⟩

theorem doS_cases {prec : Nat} {keys : List PU} {s : SVar} (h : SInv prec keys s) :
    (doS prec s = s ∧ (s.cmd = none ∨ ∃ c, s.cmd = some c ∧ c.done = true)) ∨
    ∃ c cur, s.cmd = some c ∧ c.done = false ∧ getC s.cells c.pu = some cur ∧
      doS prec s = { cells := putC s.cells c.pu (rnd prec c.doneVal),
                     total := rnd prec (s.total + (c.doneVal - cur)), cmd := some { c with done := true } } := by
  cases hc : s.cmd with
  | none => left; exact ⟨by simp [doS, hc], Or.inl rfl⟩
  | some c =>
    cases hd : c.done with
    | true => left; exact ⟨by simp [doS, hc, hd], Or.inr ⟨c, rfl, hd⟩⟩
    | false =>
      right
      obtain ⟨cur, hg, _⟩ := h.get (h.cmd c hc).2.2
      exact ⟨c, cur, rfl, hd, hg, by simp [doS, hc, hd, hg, setPUValue]⟩

theorem undoS_cases {prec : Nat} {keys : List PU} {s : SVar} (h : SInv prec keys s) :
    (undoS prec s = s ∧ (s.cmd = none ∨ ∃ c, s.cmd = some c ∧ c.done = false)) ∨
    ∃ c cur, s.cmd = some c ∧ c.done = true ∧ getC s.cells c.pu = some cur ∧
      undoS prec s = { cells := putC s.cells c.pu (rnd prec c.undoneVal),
                       total := rnd prec (s.total + (c.undoneVal - cur)), cmd := some { c with done := false } } := by
  cases hc : s.cmd with
  | none => left; exact ⟨by simp [undoS, hc], Or.inl rfl⟩
  | some c =>
    cases hd : c.done with
    | false => left; exact ⟨by simp [undoS, hc, hd], Or.inr ⟨c, rfl, hd⟩⟩
    | true =>
      right
      obtain ⟨cur, hg, _⟩ := h.get (h.cmd c hc).2.2
      exact ⟨c, cur, rfl, hd, hg, by simp [undoS, hc, hd, hg, setPUValue]⟩

/-! ### every raw per-variable operation preserves the per-variable invariant -/

theorem doP_inv {keys : List PU} (v : VarKind) {s : PVar} (h : PInv keys s) : PInv keys (doP v s) := by
  rcases doP_cases v h with ⟨e, _⟩ | ⟨c, cell, hc, _, hg, e⟩
  · rw [e]; exact h
  · rw [e]; exact h.put hg (h.cmd c hc).1 _ _ (h.cmd c hc)

theorem undoP_inv {keys : List PU} {s : PVar} (h : PInv keys s) : PInv keys (undoP s) := by
  rcases undoP_cases h with ⟨e, _⟩ | ⟨c, cell, hc, _, hg, e⟩
  · rw [e]; exact h
  · rw [e]; exact h.put hg (h.cmd c hc).2.1 _ _ (h.cmd c hc)

theorem doS_inv {prec : Nat} {keys : List PU} {s : SVar} (h : SInv prec keys s) : SInv prec keys (doS prec s) := by
  rcases doS_cases h with ⟨e, _⟩ | ⟨c, cur, hc, _, hg, e⟩
  · rw [e]; exact h
  · rw [e]; exact h.put hg (h.cmd c hc).1 _ (h.cmd c hc)

theorem undoS_inv {prec : Nat} {keys : List PU} {s : SVar} (h : SInv prec keys s) :
    SInv prec keys (undoS prec s) := by
  rcases undoS_cases h with ⟨e, _⟩ | ⟨c, cur, hc, _, hg, e⟩
  · rw [e]; exact h
  · rw [e]; exact h.put hg (h.cmd c hc).2.1 _ (h.cmd c hc)

/-- the command an observation builds (the action's unit exists) -/
theorem observeP_eq (v : VarKind) (a : Action) (b : Bool) {s : PVar} {cell : Cell}
    (hg : getC s.cells a.pu = some cell) :
    observeP v a b s =
      { s with
        cmd := some { pu := a.pu, typ := a.typ, b := b, k := a.k, undoneVal := cell.val,
                      doneVal := cell.val + rnd 3 (evalP v (setP v a.typ b a.k cell.ctx)
                                                    - evalP v (setP v a.typ (!b) a.k cell.ctx)),
                      undoneCtx := cell.ctx, done := false } } := by
  simp [observeP, hg]

theorem observeP_inv {keys : List PU} (v : VarKind) (a : Action) (b : Bool) {s : PVar} (h : PInv keys s)
    (hp : a.pu ∈ keys) : PInv keys (observeP v a b s) := by
  obtain ⟨cell, hg, hcg⟩ := h.get hp
  rw [observeP_eq v a b hg]
  refine ⟨h.keysEq, h.grid, h.total, ?_⟩
  intro c hc
  have := Option.some.inj hc
  rw [← this]
  exact ⟨hcg.add (rnd_onGrid _ _), hcg, hp⟩

theorem observeS_inv {prec : Nat} {keys : List PU} (pu : PU) (ch : Rat) {s : SVar} (h : SInv prec keys s)
    (hp : pu ∈ keys) : SInv prec keys (observeS prec pu ch s) := by
  obtain ⟨cur, hg, hcg⟩ := h.get hp
  refine ⟨h.keysEq, h.grid, h.total, ?_⟩
  intro c hc
  have := Option.some.inj hc
  rw [← this]
  simp only [hg, Option.getD_some]
  exact ⟨hcg.add (rnd_onGrid _ _), hcg, hp⟩

/-! ### unit values after a write -/

theorem unitValP_put (s : PVar) {pu : PU} {cell : Cell} (hg : getC s.cells pu = some cell) (nc : Cell)
    (t : Rat) (c : Option PCmd) (p : PU) :
    unitValP { cells := putC s.cells pu nc, total := t, cmd := c } p = if p = pu then nc.val else unitValP s p := by
  unfold unitValP
  by_cases hp : p = pu
  · subst hp
    simp only [if_true]
    rw [getC_putC_same_of_some nc hg]; rfl
  · simp only [hp, if_false]
    rw [getC_putC_other _ _ hp]

theorem unitValS_put (s : SVar) {pu : PU} {cur : Rat} (hg : getC s.cells pu = some cur) (nv : Rat)
    (t : Rat) (c : Option SCmd) (p : PU) :
    unitValS { cells := putC s.cells pu nv, total := t, cmd := c } p = if p = pu then nv else unitValS s p := by
  unfold unitValS
  by_cases hp : p = pu
  · subst hp
    simp only [if_true]
    rw [getC_putC_same_of_some nv hg]; rfl
  · simp only [hp, if_false]
    rw [getC_putC_other _ _ hp]

/-! ### the state-level invariant -/

/-- the planning units of the dataset -/
def unitsOf (D : Data) : List PU := D.sed0.map (·.1)

/-- the pending commands of particulate, dissolved and total nitrogen belong together -/
def Coherent (pn dn : PVar) (tn : SVar) : Prop :=
  match pn.cmd, dn.cmd, tn.cmd with
  | none, none, none => True
  | some cp, some cd, some ct =>
    cd.pu = cp.pu ∧ ct.pu = cp.pu ∧ cd.done = cp.done ∧ ct.done = cp.done ∧
    ct.doneVal = cp.doneVal + cd.doneVal ∧ ct.undoneVal = cp.undoneVal + cd.undoneVal
  | _, _, _ => False

structure SumInv (D : Data) (s : State) : Prop where
  sed : PInv (unitsOf D) s.sed
  pn : PInv (unitsOf D) s.pn
  dn : PInv (unitsOf D) s.dn
  tn : SInv 3 (unitsOf D) s.tn
  ic : SInv 2 (unitsOf D) s.ic
  oc : SInv 2 (unitsOf D) s.oc
  unitTN : ∀ p, unitValS s.tn p = unitValP s.pn p + unitValP s.dn p
  coh : Coherent s.pn s.dn s.tn

/-- the invariant does not mention the action flags or `lastApplied` -/
theorem SumInv.of_vars {D : Data} {s s' : State} (h : SumInv D s)
    (e1 : s'.sed = s.sed) (e2 : s'.pn = s.pn) (e3 : s'.dn = s.dn) (e4 : s'.tn = s.tn)
    (e5 : s'.ic = s.ic) (e6 : s'.oc = s.oc) : SumInv D s' := by
  obtain ⟨a, b, c, d, e, f, g, k⟩ := h
  exact ⟨e1 ▸ a, e2 ▸ b, e3 ▸ c, e4 ▸ d, e5 ▸ e, e6 ▸ f, by rw [e2, e3, e4]; exact g, by rw [e2, e3, e4]; exact k⟩

theorem coherent_cases {pn dn : PVar} {tn : SVar} (h : Coherent pn dn tn) :
    (pn.cmd = none ∧ dn.cmd = none ∧ tn.cmd = none) ∨
    ∃ cp cd ct, pn.cmd = some cp ∧ dn.cmd = some cd ∧ tn.cmd = some ct ∧
      cd.pu = cp.pu ∧ ct.pu = cp.pu ∧ cd.done = cp.done ∧ ct.done = cp.done ∧
      ct.doneVal = cp.doneVal + cd.doneVal ∧ ct.undoneVal = cp.undoneVal + cd.undoneVal := by
  unfold Coherent at h
  cases h1 : pn.cmd <;> cases h2 : dn.cmd <;> cases h3 : tn.cmd <;> rw [h1, h2, h3] at h <;>
    first | exact h.elim | exact Or.inl ⟨rfl, rfl, rfl⟩ | exact Or.inr ⟨_, _, _, rfl, rfl, rfl, h⟩

theorem coherent_some {pn dn : PVar} {tn : SVar} {cp cd : PCmd} {ct : SCmd}
    (h1 : pn.cmd = some cp) (h2 : dn.cmd = some cd) (h3 : tn.cmd = some ct)
    (h : cd.pu = cp.pu ∧ ct.pu = cp.pu ∧ cd.done = cp.done ∧ ct.done = cp.done ∧
      ct.doneVal = cp.doneVal + cd.doneVal ∧ ct.undoneVal = cp.undoneVal + cd.undoneVal) :
    Coherent pn dn tn := by
  unfold Coherent; rw [h1, h2, h3]; exact h

/-! ### the raw operations preserve the invariant -/

/-- all six variables observe a toggle of an action whose unit is a planning unit -/
theorem observeAll_sumInv {D : Data} {s : State} (h : SumInv D s) (a : Action) (b : Bool)
    (hp : a.pu ∈ unitsOf D) : SumInv D (observeAll a b s) := by
  obtain ⟨cp, hgp, hcp⟩ := h.pn.get hp
  obtain ⟨cd, hgd, hcd⟩ := h.dn.get hp
  obtain ⟨ct, hgt, _⟩ := h.tn.get hp
  have hcur : ct = cp.val + cd.val := by
    have := h.unitTN a.pu
    simp only [unitValS, unitValP, hgp, hgd, hgt, Option.map_some, Option.getD_some] at this
    exact this
  refine ⟨observeP_inv _ a b h.sed hp, observeP_inv _ a b h.pn hp, observeP_inv _ a b h.dn hp,
    observeS_inv a.pu _ h.tn hp, observeS_inv a.pu _ h.ic hp, observeS_inv a.pu _ h.oc hp, ?_, ?_⟩
  · intro p
    show unitValS s.tn p = unitValP (observeP .pn a b s.pn) p + unitValP (observeP .dn a b s.dn) p
    unfold unitValP
    rw [observeP_cells, observeP_cells]
    exact h.unitTN p
  · show Coherent (observeP .pn a b s.pn) (observeP .dn a b s.dn)
      (observeS 3 a.pu (rnd 3 (rnd 3 (changeP (observeP .pn a b s.pn)) + rnd 3 (changeP (observeP .dn a b s.dn)))) s.tn)
    have e1 : changeP (observeP .pn a b s.pn)
        = rnd 3 (evalP .pn (setP .pn a.typ b a.k cp.ctx) - evalP .pn (setP .pn a.typ (!b) a.k cp.ctx)) := by
      rw [observeP_eq _ a b hgp]; simp [changeP]
    have e2 : changeP (observeP .dn a b s.dn)
        = rnd 3 (evalP .dn (setP .dn a.typ b a.k cd.ctx) - evalP .dn (setP .dn a.typ (!b) a.k cd.ctx)) := by
      rw [observeP_eq _ a b hgd]; simp [changeP]
    rw [e1, e2, rnd_rnd, rnd_rnd, rnd_add_rnd]
    refine coherent_some (by rw [observeP_eq _ a b hgp]) (by rw [observeP_eq _ a b hgd]) rfl ?_
    refine ⟨rfl, rfl, rfl, rfl, ?_, ?_⟩
    · show (getC s.tn.cells a.pu).getD 0 + _ = _
      rw [hgt, Option.getD_some, hcur, rnd_add_rnd]; ring
    · show (getC s.tn.cells a.pu).getD 0 = _
      rw [hgt, Option.getD_some, hcur]

/-- writing `vp`, `vd` and `vp + vd` into one unit of PN, DN and TN keeps TN = PN + DN in every unit -/
theorem unitTN_write {pn dn : PVar} {tn : SVar} (hu : ∀ p, unitValS tn p = unitValP pn p + unitValP dn p)
    {pu : PU} {cellp celld : Cell} {cur : Rat}
    (hgp : getC pn.cells pu = some cellp) (hgd : getC dn.cells pu = some celld) (hgt : getC tn.cells pu = some cur)
    {vp vd : Rat} (hvp : OnGrid 3 vp) (hvd : OnGrid 3 vd) (xp xd : Ctx) (tp td tt : Rat)
    (c1 c2 : Option PCmd) (c3 : Option SCmd) (p : PU) :
    unitValS { cells := putC tn.cells pu (rnd 3 (vp + vd)), total := tt, cmd := c3 } p =
      unitValP { cells := putC pn.cells pu { ctx := xp, val := rnd 3 vp }, total := tp, cmd := c1 } p +
      unitValP { cells := putC dn.cells pu { ctx := xd, val := rnd 3 vd }, total := td, cmd := c2 } p := by
  rw [unitValS_put tn hgt, unitValP_put pn hgp, unitValP_put dn hgd]
  by_cases hp : p = pu
  · simp only [hp, if_true]
    rw [rnd_of_onGrid hvp, rnd_of_onGrid hvd, rnd_of_onGrid (hvp.add hvd)]
  · simp only [hp, if_false]
    exact hu p

/-- `AcceptAll` -/
theorem acceptAll_sumInv {D : Data} {s : State} (h : SumInv D s) : SumInv D (acceptAll s) := by
  refine ⟨doP_inv _ h.sed, doP_inv _ h.pn, doP_inv _ h.dn, doS_inv h.tn, doS_inv h.ic, doS_inv h.oc, ?_, ?_⟩
  all_goals
    show _
    rcases coherent_cases h.coh with ⟨h1, h2, h3⟩ | ⟨cp, cd, ct, h1, h2, h3, e1, e2, e3, e4, e5, e6⟩
  · intro p
    show unitValS (doS 3 s.tn) p = unitValP (doP .pn s.pn) p + unitValP (doP .dn s.dn) p
    rw [show doP .pn s.pn = s.pn by simp [doP, h1], show doP .dn s.dn = s.dn by simp [doP, h2],
      show doS 3 s.tn = s.tn by simp [doS, h3]]
    exact h.unitTN p
  · intro p
    show unitValS (doS 3 s.tn) p = unitValP (doP .pn s.pn) p + unitValP (doP .dn s.dn) p
    cases hd : cp.done with
    | true =>
      rw [show doP .pn s.pn = s.pn by simp [doP, h1, hd], show doP .dn s.dn = s.dn by simp [doP, h2, e3, hd],
        show doS 3 s.tn = s.tn by simp [doS, h3, e4, hd]]
      exact h.unitTN p
    | false =>
      obtain ⟨cellp, hgp, _⟩ := h.pn.get (h.pn.cmd cp h1).2.2
      obtain ⟨celld, hgd, _⟩ := h.dn.get (h.pn.cmd cp h1).2.2
      obtain ⟨cur, hgt, _⟩ := h.tn.get (h.pn.cmd cp h1).2.2
      rw [show doP .pn s.pn = _ by simp only [doP, h1, hd, hgp, setPUValue]; rfl,
        show doP .dn s.dn = _ by simp only [doP, h2, e3, hd, e1, hgd, setPUValue]; rfl,
        show doS 3 s.tn = _ by simp only [doS, h3, e4, hd, e2, hgt, setPUValue, Option.getD_some]; rfl, e5]
      exact unitTN_write h.unitTN hgp hgd hgt (h.pn.cmd cp h1).1 (h.dn.cmd cd h2).1 _ _ _ _ _ _ _ _ p
  · show Coherent (doP .pn s.pn) (doP .dn s.dn) (doS 3 s.tn)
    rw [show doP .pn s.pn = s.pn by simp [doP, h1], show doP .dn s.dn = s.dn by simp [doP, h2],
      show doS 3 s.tn = s.tn by simp [doS, h3]]
    exact h.coh
  · show Coherent (doP .pn s.pn) (doP .dn s.dn) (doS 3 s.tn)
    cases hd : cp.done with
    | true =>
      rw [show doP .pn s.pn = s.pn by simp [doP, h1, hd], show doP .dn s.dn = s.dn by simp [doP, h2, e3, hd],
        show doS 3 s.tn = s.tn by simp [doS, h3, e4, hd]]
      exact h.coh
    | false =>
      obtain ⟨cellp, hgp, _⟩ := h.pn.get (h.pn.cmd cp h1).2.2
      obtain ⟨celld, hgd, _⟩ := h.dn.get (h.pn.cmd cp h1).2.2
      obtain ⟨cur, hgt, _⟩ := h.tn.get (h.pn.cmd cp h1).2.2
      refine coherent_some (cp := { cp with done := true }) (cd := { cd with done := true })
        (ct := { ct with done := true }) ?_ ?_ ?_ ⟨e1, e2, rfl, rfl, e5, e6⟩
      · simp only [doP, h1, hd, hgp, setPUValue]; rfl
      · simp only [doP, h2, e3, hd, e1, hgd, setPUValue]; rfl
      · simp only [doS, h3, e4, hd, e2, hgt, setPUValue, Option.getD_some]; rfl

/-- `RejectAll` -/
theorem rejectAll_sumInv {D : Data} {s : State} (h : SumInv D s) : SumInv D (rejectAll s) := by
  refine ⟨undoP_inv h.sed, undoP_inv h.pn, undoP_inv h.dn, undoS_inv h.tn, undoS_inv h.ic, undoS_inv h.oc, ?_, ?_⟩
  all_goals
    show _
    rcases coherent_cases h.coh with ⟨h1, h2, h3⟩ | ⟨cp, cd, ct, h1, h2, h3, e1, e2, e3, e4, e5, e6⟩
  · intro p
    show unitValS (undoS 3 s.tn) p = unitValP (undoP s.pn) p + unitValP (undoP s.dn) p
    rw [show undoP s.pn = s.pn by simp [undoP, h1], show undoP s.dn = s.dn by simp [undoP, h2],
      show undoS 3 s.tn = s.tn by simp [undoS, h3]]
    exact h.unitTN p
  · intro p
    show unitValS (undoS 3 s.tn) p = unitValP (undoP s.pn) p + unitValP (undoP s.dn) p
    cases hd : cp.done with
    | false =>
      rw [show undoP s.pn = s.pn by simp [undoP, h1, hd], show undoP s.dn = s.dn by simp [undoP, h2, e3, hd],
        show undoS 3 s.tn = s.tn by simp [undoS, h3, e4, hd]]
      exact h.unitTN p
    | true =>
      obtain ⟨cellp, hgp, _⟩ := h.pn.get (h.pn.cmd cp h1).2.2
      obtain ⟨celld, hgd, _⟩ := h.dn.get (h.pn.cmd cp h1).2.2
      obtain ⟨cur, hgt, _⟩ := h.tn.get (h.pn.cmd cp h1).2.2
      rw [show undoP s.pn = _ by simp only [undoP, h1, hd, hgp, setPUValue]; rfl,
        show undoP s.dn = _ by simp only [undoP, h2, e3, hd, e1, hgd, setPUValue]; rfl,
        show undoS 3 s.tn = _ by simp only [undoS, h3, e4, hd, e2, hgt, setPUValue, Option.getD_some]; rfl, e6]
      exact unitTN_write h.unitTN hgp hgd hgt (h.pn.cmd cp h1).2.1 (h.dn.cmd cd h2).2.1 _ _ _ _ _ _ _ _ p
  · show Coherent (undoP s.pn) (undoP s.dn) (undoS 3 s.tn)
    rw [show undoP s.pn = s.pn by simp [undoP, h1], show undoP s.dn = s.dn by simp [undoP, h2],
      show undoS 3 s.tn = s.tn by simp [undoS, h3]]
    exact h.coh
  · show Coherent (undoP s.pn) (undoP s.dn) (undoS 3 s.tn)
    cases hd : cp.done with
    | false =>
      rw [show undoP s.pn = s.pn by simp [undoP, h1, hd], show undoP s.dn = s.dn by simp [undoP, h2, e3, hd],
        show undoS 3 s.tn = s.tn by simp [undoS, h3, e4, hd]]
      exact h.coh
    | true =>
      obtain ⟨cellp, hgp, _⟩ := h.pn.get (h.pn.cmd cp h1).2.2
      obtain ⟨celld, hgd, _⟩ := h.dn.get (h.pn.cmd cp h1).2.2
      obtain ⟨cur, hgt, _⟩ := h.tn.get (h.pn.cmd cp h1).2.2
      refine coherent_some (cp := { cp with done := false }) (cd := { cd with done := false })
        (ct := { ct with done := false }) ?_ ?_ ?_ ⟨e1, e2, rfl, rfl, e5, e6⟩
      · simp only [undoP, h1, hd, hgp, setPUValue]; rfl
      · simp only [undoP, h2, e3, hd, e1, hgd, setPUValue]; rfl
      · simp only [undoS, h3, e4, hd, e2, hgt, setPUValue, Option.getD_some]; rfl

/-! ### the operations of the `model.Model` interface, one by one -/

/-- the data hypothesis: unit ids distinct, the three pollutant variables carry the same ids, every action's unit
is a planning unit -/
structure UnitsOK (D : Data) : Prop where
  distinct : pusDistinct D.sed0 = true
  kpn : D.pn0.map (·.1) = unitsOf D
  kdn : D.dn0.map (·.1) = unitsOf D
  acts : ∀ a ∈ D.acts, a.pu ∈ unitsOf D

/-- the decidable form (`unitsOK`, evaluated by the driver / by `decide` in examples) is sound -/
theorem unitsOK_sound {D : Data} (h : unitsOK D = true) : UnitsOK D := by
  unfold unitsOK at h
  simp only [Bool.and_eq_true, decide_eq_true_eq, List.all_eq_true, List.contains_iff_mem] at h
  obtain ⟨⟨⟨h1, h2⟩, h3⟩, h4⟩ := h
  exact ⟨h1, h2, h3, h4⟩

theorem InitFacts.unitsOK {D : Data} (f : InitFacts D) : UnitsOK D where
  distinct := f.dsed
  kpn := f.kpn.symm
  kdn := f.kdn.symm
  acts := by
    intro a ha
    obtain ⟨x, hx, _⟩ := f.sed a ha
    exact (getC_isSome_iff D.sed0 a.pu).mp (by rw [hx]; rfl)

theorem SumInv.with_flags {D : Data} {s : State} (h : SumInv D s) (f : List Bool) (l : Option Nat) :
    SumInv D { s with flags := f, last := l } := h.of_vars rfl rfl rfl rfl rfl rfl

theorem SumInv.with_last {D : Data} {s : State} (h : SumInv D s) (l : Option Nat) :
    SumInv D { s with last := l } := h.of_vars rfl rfl rfl rfl rfl rfl

section rawops
variable {D : Data} (hU : UnitsOK D)
include hU

theorem toggleObserved_sumInv {s : State} (h : SumInv D s) (i : Nat) (b : Bool) :
    SumInv D (toggleObserved D s i b) := by
  unfold toggleObserved
  split
  · exact h
  · rename_i a ha
    exact observeAll_sumInv (h.with_flags _ _) a b (hU.acts a (List.mem_of_getElem? ha))

/-- `TryRandomChange` / `ToggleAction` -/
theorem propose_sumInv {s : State} (h : SumInv D s) (i : Nat) : SumInv D (propose D s i) := by
  unfold propose
  split
  · exact h
  · exact toggleObserved_sumInv hU h i _

omit hU in
/-- `AcceptChange` -/
theorem accept_sumInv {s : State} (h : SumInv D s) : SumInv D (accept s) := acceptAll_sumInv h

omit hU in
/-- `RevertChange` — also when nothing is pending, or twice in a row -/
theorem revert_sumInv {s : State} (h : SumInv D s) : SumInv D (revert s) := by
  unfold revert
  split
  · exact rejectAll_sumInv h
  · exact (rejectAll_sumInv h).of_vars rfl rfl rfl rfl rfl rfl

/-- `SetManagementAction` -/
theorem setAction_sumInv {s : State} (h : SumInv D s) (i : Nat) (b : Bool) : SumInv D (setAction D s i b) := by
  unfold setAction
  split
  · exact h
  · split
    · exact h
    · exact accept_sumInv (toggleObserved_sumInv hU h i b)

/-- `SynchroniseTo` / `Decompress` -/
theorem setAll_sumInv {s : State} (h : SumInv D s) (bits : List Bool) : SumInv D (setAll D s bits) := by
  unfold setAll
  exact foldl_inv (SumInv D) _ (fun s x h => setAction_sumInv hU h x.2 x.1) _ _ h

/-- `InitialisingActivation` / `InitialisingDeactivation` -/
theorem initialising_sumInv {s : State} (h : SumInv D s) (i : Nat) (b : Bool) :
    SumInv D (initialising D s i b) := by
  cases hf : s.flags[i]? with
  | none => unfold initialising; rw [hf]; exact h
  | some cur =>
    cases ha : D.acts[i]? with
    | none => unfold initialising; rw [hf, ha]; exact h
    | some a =>
      by_cases hne : cur = b
      · unfold initialising; rw [hf, ha]; simp only [hne, if_true]; exact h
      · rw [initialising_eq hf ha hne]
        have h1 : SumInv D (toggled a b i s) := by
          rw [← accept_observed]
          exact accept_sumInv (s := observed a b i s) (observeAll_sumInv (h.with_flags _ _) a b
            (hU.acts a (List.mem_of_getElem? ha)))
        exact h1.of_vars rfl rfl rfl rfl rfl rfl

theorem allActive_sumInv {s : State} (h : SumInv D s) : SumInv D (allActive D s) := by
  unfold allActive
  exact foldl_inv (SumInv D) _ (fun s i h => initialising_sumInv hU h i true) _ _ h

theorem randomizeUnbounded_sumInv {s : State} (h : SumInv D s) (draws : List Nat) :
    SumInv D (randomizeUnbounded D s draws) := by
  unfold randomizeUnbounded
  refine foldl_inv (SumInv D) _ (fun s x h => ?_) _ _ h
  simp only
  split
  · exact initialising_sumInv hU (h.with_last _) _ _
  · exact h

theorem seekLimit_sumInv (b : Bool) :
    ∀ (draws : List Nat) (n : Nat) (s : State), SumInv D s → SumInv D (seekLimit D b draws n s).state := by
  intro draws
  induction draws with
  | nil =>
    intro n s hc
    cases n <;> simpa [seekLimit, LoopOutcome.state] using hc
  | cons d ds ih =>
    intro n s hc
    cases n with
    | zero => simpa [seekLimit, LoopOutcome.state] using hc
    | succ n =>
      simp only [seekLimit]
      split
      · exact hc
      · split
        · exact ih _ _ hc
        · have h1 := initialising_sumInv hU (hc.with_last (some d)) d b
          split
          · exact ih _ _ h1
          · have h2 := initialising_sumInv hU h1 d (!b)
            split <;> exact h2

/-- `Randomize()` -/
theorem randomize_sumInv {s : State} (h : SumInv D s) (draws : List Nat) :
    SumInv D (randomize D s draws).state := by
  unfold randomize
  split
  · exact seekLimit_sumInv hU _ _ _ _ h
  · split
    · exact seekLimit_sumInv hU _ _ _ _ h
    · exact randomizeUnbounded_sumInv hU h draws

end rawops

/-! ### the initial state -/

theorem initP_inv (v : VarKind) (c0 : List (PU × Ctx)) : PInv (c0.map (·.1)) (initP v c0) := by
  have hcells : (initP v c0).cells = mapC (fun _ x => ({ ctx := x, val := evalP v x } : Cell)) c0 := rfl
  refine ⟨?_, ?_, rfl, ?_⟩
  · rw [hcells, keys_mapC]
  · intro c hc
    rw [hcells] at hc
    obtain ⟨x, _, h⟩ := mem_mapC hc
    rw [h]; exact evalP_onGrid _ _
  · intro c hc; cases hc

theorem initCost_inv (D : Data) : SInv 2 (unitsOf D) (initCost (D.sed0.map (·.1))) := by
  have hcells : (initCost (D.sed0.map (·.1))).cells = mapC (fun _ _ => (0 : Rat)) D.sed0 := by
    simp [initCost, mapC, List.map_map, Function.comp_def]
  refine ⟨?_, ?_, ?_, ?_⟩
  · rw [hcells, keys_mapC]; rfl
  · intro c hc
    rw [hcells] at hc
    obtain ⟨x, _, h⟩ := mem_mapC hc
    rw [h]; exact OnGrid.zero 2
  · rw [hcells, sumS_mapC_zero]; rfl
  · intro c hc; cases hc

theorem PInv.unitVal_onGrid {keys : List PU} {s : PVar} (h : PInv keys s) (p : PU) : OnGrid 3 (unitValP s p) := by
  unfold unitValP
  cases hg : getC s.cells p with
  | none => exact OnGrid.zero 3
  | some c => exact h.grid _ (getC_mem hg)

/-- `calculateTotalNitrogenForPlanningUnit` over variables that satisfy the invariant -/
theorem initTN_inv {keys : List PU} {pn dn : PVar} (hpn : PInv keys pn) (hdn : PInv keys dn) :
    SInv 3 keys (initTN pn dn) ∧ ∀ p, unitValS (initTN pn dn) p = unitValP pn p + unitValP dn p := by
  have hcells : (initTN pn dn).cells =
      mapC (fun p (c : Cell) => rnd 3 (rnd 3 c.val + rnd 3 (unitValP dn p))) pn.cells := rfl
  refine ⟨⟨?_, ?_, rfl, ?_⟩, ?_⟩
  · rw [hcells, keys_mapC]; exact hpn.keysEq
  · intro c hc
    rw [hcells] at hc
    obtain ⟨x, _, h⟩ := mem_mapC hc
    rw [h]; exact rnd_onGrid _ _
  · intro c hc; cases hc
  · intro p
    have hdg := hdn.unitVal_onGrid p
    unfold unitValS
    rw [hcells, getC_mapC]
    cases hg : getC pn.cells p with
    | some c =>
      have hcg : OnGrid 3 c.val := hpn.grid _ (getC_mem hg)
      have e : unitValP pn p = c.val := by unfold unitValP; rw [hg]; rfl
      rw [e]
      show rnd 3 (rnd 3 c.val + rnd 3 (unitValP dn p)) = _
      rw [rnd_of_onGrid hcg, rnd_of_onGrid hdg, rnd_of_onGrid (hcg.add hdg)]
    | none =>
      have hn : getC dn.cells p = none := by
        have := getC_isSome_of_keys_eq (hpn.keysEq.trans hdn.keysEq.symm) p
        rw [hg] at this
        cases h : getC dn.cells p with
        | none => rfl
        | some y => rw [h] at this; simp at this
      simp [unitValP, hg, hn]

theorem sumInv_init {D : Data} (hU : UnitsOK D) : SumInv D (init D) := by
  have hpn : PInv (unitsOf D) (initP .pn D.pn0) := hU.kpn ▸ initP_inv .pn D.pn0
  have hdn : PInv (unitsOf D) (initP .dn D.dn0) := hU.kdn ▸ initP_inv .dn D.dn0
  exact ⟨initP_inv .sed D.sed0, hpn, hdn, (initTN_inv hpn hdn).1, initCost_inv D, initCost_inv D,
    (initTN_inv hpn hdn).2, trivial⟩

/-- `Initialise(kind)` -/
theorem initialise_sumInv {D : Data} (hU : UnitsOK D) (k : InitKind) : SumInv D (initialise D k) := by
  unfold initialise
  cases k with
  | asIs => exact sumInv_init hU
  | unchanged => exact sumInv_init hU
  | random =>
    simp only
    split
    · exact sumInv_init hU
    · split
      · exact allActive_sumInv hU (sumInv_init hU)
      · exact sumInv_init hU

/-! ### consequences: the aggregate clauses -/

theorem PInv.total_eq_sum {D : Data} (hU : UnitsOK D) {s : PVar} (h : PInv (unitsOf D) s) :
    s.total = ((unitsOf D).map (unitValP s)).sum := by
  have hk : (mapC (fun _ (c : Cell) => c.val) s.cells).map (·.1) = unitsOf D := by
    rw [keys_mapC]; exact h.keysEq
  have hd : pusDistinct (mapC (fun _ (c : Cell) => c.val) s.cells) = true := by
    rw [pusDistinct_of_keys_eq (t := D.sed0) hk]; exact hU.distinct
  rw [h.total, sumVals_eq_sumS, sumS_eq_sum_units hd, hk]
  congr 1
  apply List.map_congr_left
  intro p _
  rw [getC_mapC]; rfl

theorem SInv.total_eq_sum {D : Data} (hU : UnitsOK D) {prec : Nat} {s : SVar} (h : SInv prec (unitsOf D) s) :
    s.total = ((unitsOf D).map (unitValS s)).sum := by
  have hd : pusDistinct s.cells = true := by
    rw [pusDistinct_of_keys_eq (t := D.sed0) h.keysEq]; exact hU.distinct
  rw [h.total, sumS_eq_sum_units hd, h.keysEq]
  rfl

theorem SumInv.total_eq_unitSum {D : Data} (hU : UnitsOK D) {s : State} (h : SumInv D s) (v : VarId) :
    total s v = ((unitsOf D).map (fun p => unitVal s v p)).sum := by
  cases v
  · exact h.sed.total_eq_sum hU
  · exact h.pn.total_eq_sum hU
  · exact h.dn.total_eq_sum hU
  · exact h.tn.total_eq_sum hU
  · exact h.ic.total_eq_sum hU
  · exact h.oc.total_eq_sum hU

theorem SumInv.total_onGrid {D : Data} {s : State} (h : SumInv D s) (v : VarId) :
    OnGrid (reportingPrecision v) (total s v) := by
  cases v
  · exact h.sed.total_onGrid
  · exact h.pn.total_onGrid
  · exact h.dn.total_onGrid
  · exact h.tn.total_onGrid
  · exact h.ic.total_onGrid
  · exact h.oc.total_onGrid

/-! ### one observed-and-applied toggle on values that lie on the grid (C02: the action's own unit) -/

theorem ownP (v : VarKind) (a : Action) (b : Bool) {s : PVar} {cell : Cell}
    (hg : getC s.cells a.pu = some cell) (hcg : OnGrid 3 cell.val) (ht : OnGrid 3 s.total) :
    unitValP (doP v (observeP v a b s)) a.pu = unitValP s a.pu + changeP (observeP v a b s) ∧
    (doP v (observeP v a b s)).total = s.total + changeP (observeP v a b s) ∧
    ∀ p, p ≠ a.pu → unitValP (doP v (observeP v a b s)) p = unitValP s p := by
  have hδ : OnGrid 3 (rnd 3 (evalP v (setP v a.typ b a.k cell.ctx) - evalP v (setP v a.typ (!b) a.k cell.ctx))) :=
    rnd_onGrid _ _
  have hch : changeP (observeP v a b s)
      = rnd 3 (evalP v (setP v a.typ b a.k cell.ctx) - evalP v (setP v a.typ (!b) a.k cell.ctx)) := by
    rw [observeP_eq v a b hg]; simp [changeP]
  have hdo : doP v (observeP v a b s) =
      { cells := putC s.cells a.pu
          { ctx := setP v a.typ b a.k cell.ctx,
            val := rnd 3 (cell.val + rnd 3 (evalP v (setP v a.typ b a.k cell.ctx)
                                            - evalP v (setP v a.typ (!b) a.k cell.ctx))) },
        total := rnd 3 (s.total + (cell.val + rnd 3 (evalP v (setP v a.typ b a.k cell.ctx)
                                            - evalP v (setP v a.typ (!b) a.k cell.ctx)) - cell.val)),
        cmd := (doP v (observeP v a b s)).cmd } := by
    rw [observeP_eq v a b hg]
    simp only [doP, hg, setPUValue, Bool.false_eq_true, if_false]
  have hu : unitValP s a.pu = cell.val := by unfold unitValP; rw [hg]; rfl
  rw [hch]
  refine ⟨?_, ?_, ?_⟩
  · rw [hdo, unitValP_put s hg, hu]
    simp only [if_true]
    exact rnd_of_onGrid (hcg.add hδ)
  · rw [hdo]
    show rnd 3 _ = _
    rw [show ∀ x : Rat, cell.val + x - cell.val = x by intro x; ring]
    exact rnd_of_onGrid (ht.add hδ)
  · intro p hp
    rw [hdo, unitValP_put s hg]
    simp only [hp, if_false]

theorem ownS (prec : Nat) (pu : PU) (ch : Rat) {s : SVar} {cur : Rat}
    (hg : getC s.cells pu = some cur) (hcg : OnGrid prec cur) (ht : OnGrid prec s.total) :
    unitValS (doS prec (observeS prec pu ch s)) pu = unitValS s pu + changeS (observeS prec pu ch s) ∧
    (doS prec (observeS prec pu ch s)).total = s.total + changeS (observeS prec pu ch s) ∧
    ∀ p, p ≠ pu → unitValS (doS prec (observeS prec pu ch s)) p = unitValS s p := by
  have hδ : OnGrid prec (rnd prec ch) := rnd_onGrid _ _
  have hch : changeS (observeS prec pu ch s) = rnd prec ch := by
    simp [changeS, observeS, hg]
  have hdo : doS prec (observeS prec pu ch s) =
      { cells := putC s.cells pu (rnd prec (cur + rnd prec ch)),
        total := rnd prec (s.total + (cur + rnd prec ch - cur)),
        cmd := (doS prec (observeS prec pu ch s)).cmd } := by
    simp only [doS, observeS, hg, Option.getD_some, setPUValue, Bool.false_eq_true, if_false]
  have hu : unitValS s pu = cur := by unfold unitValS; rw [hg]; rfl
  rw [hch]
  refine ⟨?_, ?_, ?_⟩
  · rw [hdo, unitValS_put s hg, hu]
    simp only [if_true]
    exact rnd_of_onGrid (hcg.add hδ)
  · rw [hdo]
    show rnd prec _ = _
    rw [show ∀ x : Rat, cur + x - cur = x by intro x; ring]
    exact rnd_of_onGrid (ht.add hδ)
  · intro p hp
    rw [hdo, unitValS_put s hg]
    simp only [hp, if_false]

/-- all the values of a state lie on their grids and every planning unit has a cell in every variable: what the
own-unit statement needs.  Holds in canonical states (C01) and in every state satisfying `SumInv`. -/
structure GridVals (D : Data) (s : State) : Prop where
  sed : ∀ p ∈ unitsOf D, ∃ c, getC s.sed.cells p = some c ∧ OnGrid 3 c.val
  pn : ∀ p ∈ unitsOf D, ∃ c, getC s.pn.cells p = some c ∧ OnGrid 3 c.val
  dn : ∀ p ∈ unitsOf D, ∃ c, getC s.dn.cells p = some c ∧ OnGrid 3 c.val
  tn : ∀ p ∈ unitsOf D, ∃ c, getC s.tn.cells p = some c ∧ OnGrid 3 c
  ic : ∀ p ∈ unitsOf D, ∃ c, getC s.ic.cells p = some c ∧ OnGrid 2 c
  oc : ∀ p ∈ unitsOf D, ∃ c, getC s.oc.cells p = some c ∧ OnGrid 2 c
  totals : ∀ v, OnGrid (reportingPrecision v) (total s v)

theorem SumInv.gridVals {D : Data} {s : State} (h : SumInv D s) : GridVals D s :=
  ⟨fun _ hp => h.sed.get hp, fun _ hp => h.pn.get hp, fun _ hp => h.dn.get hp,
   fun _ hp => h.tn.get hp, fun _ hp => h.ic.get hp, fun _ hp => h.oc.get hp, h.total_onGrid⟩

theorem Canon.gridVals {D : Data} {s : State} (f : InitFacts D) (hc : Canon D s) : GridVals D s := by
  have hP : ∀ (v : VarKind) (c0 : List (PU × Ctx)) (pv : PVar), CanonP v D.acts c0 s.flags pv →
      c0.map (·.1) = unitsOf D → ∀ p ∈ unitsOf D, ∃ c, getC pv.cells p = some c ∧ OnGrid 3 c.val := by
    intro v c0 pv hcp hk p hp
    obtain ⟨c, hg⟩ := getC_some_of_mem_keys (s := pv.cells) (by
      rw [hcp.cells, canonCells, keys_mapC, hk]; exact hp)
    refine ⟨c, hg, ?_⟩
    have := getC_mem hg
    rw [hcp.cells] at this
    exact canonCells_onGrid _ _ _ _ _ this
  have hS : ∀ {α : Type} (prec : Nat) (c0 : List (PU × α)) (g : PU → α → Rat) (sv : SVar),
      CanonS (mapC g c0) sv → (∀ p x, OnGrid prec (g p x)) →
      c0.map (·.1) = unitsOf D → ∀ p ∈ unitsOf D, ∃ c, getC sv.cells p = some c ∧ OnGrid prec c := by
    intro α prec c0 g sv hcs hgrid hk p hp
    obtain ⟨c, hg⟩ := getC_some_of_mem_keys (s := sv.cells) (by
      rw [hcs.cells, keys_mapC, hk]; exact hp)
    refine ⟨c, hg, ?_⟩
    have := getC_mem hg
    rw [hcs.cells] at this
    obtain ⟨x, _, h⟩ := mem_mapC this
    have h' : c = g p x := h
    rw [h']; exact hgrid _ _
  exact ⟨hP .sed D.sed0 s.sed hc.sed rfl, hP .pn D.pn0 s.pn hc.pn f.kpn.symm, hP .dn D.dn0 s.dn hc.dn f.kdn.symm,
    hS 3 D.pn0 _ s.tn hc.tn (fun _ _ => (canonVal_onGrid _ _ _ _ _).add (canonVal_onGrid _ _ _ _ _)) f.kpn.symm,
    hS 2 D.sed0 _ s.ic hc.ic (fun _ _ => costSum_onGrid _ _ _ _) rfl,
    hS 2 D.sed0 _ s.oc hc.oc (fun _ _ => costSum_onGrid _ _ _ _) rfl,
    hc.total_onGrid⟩

/-- accepting the observed toggle of an action whose unit is a planning unit: in the action's own unit every
variable moves by exactly the reported change, so does every total, and no other unit moves -/
theorem toggled_own {D : Data} {s : State} (h : GridVals D s) (a : Action) (b : Bool) (i : Nat)
    (hp : a.pu ∈ unitsOf D) (v : VarId) :
    unitVal (toggled a b i s) v a.pu = unitVal s v a.pu + change (observed a b i s) v ∧
    total (toggled a b i s) v = total s v + change (observed a b i s) v ∧
    ∀ p, p ≠ a.pu → unitVal (toggled a b i s) v p = unitVal s v p := by
  cases v
  · obtain ⟨c, hg, hcg⟩ := h.sed a.pu hp
    exact ownP .sed a b hg hcg (h.totals .sed)
  · obtain ⟨c, hg, hcg⟩ := h.pn a.pu hp
    exact ownP .pn a b hg hcg (h.totals .pn)
  · obtain ⟨c, hg, hcg⟩ := h.dn a.pu hp
    exact ownP .dn a b hg hcg (h.totals .dn)
  · obtain ⟨c, hg, hcg⟩ := h.tn a.pu hp
    exact ownS 3 a.pu _ hg hcg (h.totals .tn)
  · obtain ⟨c, hg, hcg⟩ := h.ic a.pu hp
    exact ownS 2 a.pu _ hg hcg (h.totals .ic)
  · obtain ⟨c, hg, hcg⟩ := h.oc a.pu hp
    exact ownS 2 a.pu _ hg hcg (h.totals .oc)

end Crem.Catchment