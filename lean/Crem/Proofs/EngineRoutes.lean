import Crem.Proofs.Engine
/-!
Helper lemmas for `Properties/C14Routes.lean`: the URL path of the subcatchment resource, "any action set is reached" by
the whole-table PUT and by the per-subcatchment PUT sequence, and what the three write routes leave of a state.
-/
namespace Crem.Engine

/-! ## the URL path `/api/v1/model/subcatchment/<pu>` -/

theorem stripPrefix?_append (p s : List Char) : stripPrefix? p (p ++ s) = some s := by
  induction p with
  | nil => cases s <;> rfl
  | cons c cs ih => simp [stripPrefix?, ih]

theorem toString_toList (n : Nat) : (toString n).toList = Nat.toDigits 10 n := by
  rw [Nat.toString_eq_repr, Nat.toList_repr]

/-- core's `Char.isDigit` and the model's `isDigit` are the same test -/
theorem isDigit_of_charIsDigit {c : Char} (h : c.isDigit = true) : isDigit c = true := by
  simp only [Char.isDigit, Bool.and_eq_true, decide_eq_true_eq] at h
  simp only [isDigit, Bool.and_eq_true, decide_eq_true_eq]
  exact ⟨h.1, h.2⟩

theorem subPath_toList (pu : Nat) : (subPath pu).toList = subPrefix ++ Nat.toDigits 10 pu := by
  unfold subPath subPrefix
  rw [String.toList_append, toString_toList]

/-- a literal that differs from the subcatchment prefix within the first 15 characters is not a subcatchment path -/
theorem subPath_ne (pu : Nat) (lit : String) (h : List.take 15 lit.toList ≠ List.take 15 subPrefix) :
    subPath pu ≠ lit := by
  intro e
  apply h
  have := congrArg (fun s => List.take 15 s.toList) e
  simp only [subPath_toList] at this
  rw [List.take_append_of_le_length (by decide)] at this
  exact this.symm

/-- the decimal digits of a natural number are a non-empty list of the model's digits -/
theorem toString_digits (pu : Nat) : (toString pu).toList ≠ [] ∧ (toString pu).toList.all isDigit = true := by
  rw [toString_toList]
  refine ⟨Nat.toDigits_ne_nil, ?_⟩
  rw [List.all_eq_true]
  intro c hc
  exact isDigit_of_charIsDigit (Nat.isDigit_of_mem_toDigits (by decide) (by decide) hc)

/-- `/api/v1/model/subcatchment/<pu>` selects the subcatchment handler with the decimal text of `pu`, for EVERY `pu` -/
theorem classifyPath_subPath (pu : Nat) : classifyPath (subPath pu) = .sub (toString pu) := by
  unfold classifyPath
  rw [if_neg (subPath_ne pu _ (by decide)), if_neg (subPath_ne pu _ (by decide)), if_neg (subPath_ne pu _ (by decide)),
    if_neg (subPath_ne pu _ (by decide)), if_neg (subPath_ne pu _ (by decide)), if_neg (subPath_ne pu _ (by decide))]
  rw [subPath_toList, stripPrefix?_append]
  simp only
  rw [← toString_toList, if_pos (toString_digits pu), String.ofList_toList]

/-- `strconv.Atoi` reads the decimal text of a planning unit below `2^63` back as that planning unit -/
theorem atoi?_toString (pu : Nat) (h : pu < 2 ^ 63) : atoi? (toString pu) = some pu := by
  unfold atoi?
  have hf : (fun (acc : Nat) (c : Char) => acc * 10 + (c.toNat - 48)) =
      (fun sofar c => 10 * sofar + (c.toNat - '0'.toNat)) := by
    funext acc c
    rw [Nat.mul_comm]; rfl
  have : (toString pu).toList.foldl (fun acc c => acc * 10 + (c.toNat - 48)) 0 = pu := by
    rw [toString_toList, hf]
    exact Nat.ofDigitChars_ten_toDigits
  simp only [this, h, ↓reduceIte]

/-- … and refuses it from `2^63` on -/
theorem atoi?_toString_big (pu : Nat) (h : 2 ^ 63 ≤ pu) : atoi? (toString pu) = none := by
  unfold atoi?
  have hf : (fun (acc : Nat) (c : Char) => acc * 10 + (c.toNat - 48)) =
      (fun sofar c => 10 * sofar + (c.toNat - '0'.toNat)) := by
    funext acc c
    rw [Nat.mul_comm]; rfl
  have : (toString pu).toList.foldl (fun acc c => acc * 10 + (c.toNat - 48)) 0 = pu := by
    rw [toString_toList, hf]
    exact Nat.ofDigitChars_ten_toDigits
  have hlt : ¬ pu < 2 ^ 63 := by omega
  simp only [this, hlt, ↓reduceIte]

/-! ## cells: a list of `((planning unit, action type), flag)` applied with `setWhere` -/

theorem setWhere_getElem (u : Universe) (set : ActiveSet) (pu : Nat) (ty : String) (b : Bool) (i : Nat)
    (hi : i < u.acts.length) (hs : set.length = u.acts.length) :
    (setWhere u set pu ty b)[i]'(by rw [setWhere_length u set pu ty b hs]; exact hi) =
      if u.acts[i].1 = pu ∧ u.acts[i].2 = ty then b else set[i]'(by omega) := by
  simp [setWhere]

/-- what both PUT routes do to the action set: cell after cell, `setWhere` -/
def applyCells (u : Universe) (cells : List ((Nat × String) × Bool)) (set : ActiveSet) : ActiveSet :=
  cells.foldl (fun acc c => setWhere u acc c.1.1 c.1.2 c.2) set

theorem applyCells_append (u : Universe) (c₁ c₂ : List ((Nat × String) × Bool)) (set : ActiveSet) :
    applyCells u (c₁ ++ c₂) set = applyCells u c₂ (applyCells u c₁ set) := by
  simp [applyCells, List.foldl_append]

theorem applyCells_length (u : Universe) (cells : List ((Nat × String) × Bool)) (set : ActiveSet)
    (h : set.length = u.acts.length) : (applyCells u cells set).length = u.acts.length := by
  unfold applyCells
  induction cells generalizing set with
  | nil => simpa using h
  | cons c cs ih => simp only [List.foldl_cons]; exact ih _ (setWhere_length u set _ _ _ h)

/-- position by position: an action named by some cell ends with the flag the cells carry for it, any other action
keeps its flag -/
theorem applyCells_getElem (u : Universe) (S : ActiveSet) (hS : S.length = u.acts.length)
    (cells : List ((Nat × String) × Bool))
    (h1 : ∀ c ∈ cells, ∀ (i : Nat) (hi : i < u.acts.length), u.acts[i] = c.1 → c.2 = S[i])
    (set : ActiveSet) (hset : set.length = u.acts.length) (i : Nat) (hi : i < u.acts.length) :
    ((∃ c ∈ cells, c.1 = u.acts[i]) →
      (applyCells u cells set)[i]'(by rw [applyCells_length u cells set hset]; exact hi) = S[i]) ∧
    ((∀ c ∈ cells, c.1 ≠ u.acts[i]) →
      (applyCells u cells set)[i]'(by rw [applyCells_length u cells set hset]; exact hi) = set[i]) := by
  induction cells generalizing set with
  | nil =>
    constructor
    · rintro ⟨c, hc, _⟩; simp at hc
    · intro _; rfl
  | cons c cs ih =>
    have hlen' := setWhere_length u set c.1.1 c.1.2 c.2 hset
    have ih' := ih (fun c' hc' => h1 c' (List.mem_cons_of_mem _ hc')) (setWhere u set c.1.1 c.1.2 c.2) hlen'
    have hsw := setWhere_getElem u set c.1.1 c.1.2 c.2 i hi hset
    constructor
    · intro hex
      by_cases hcs : ∃ c' ∈ cs, c'.1 = u.acts[i]
      · exact ih'.1 hcs
      · have hall : ∀ c' ∈ cs, c'.1 ≠ u.acts[i] := fun c' hc' e => hcs ⟨c', hc', e⟩
        have hc : c.1 = u.acts[i] := by
          obtain ⟨c', hc', e⟩ := hex
          rcases List.mem_cons.mp hc' with rfl | hc'
          · exact e
          · exact absurd e (hall c' hc')
        refine (ih'.2 hall).trans ?_
        rw [hsw]
        have : u.acts[i].1 = c.1.1 ∧ u.acts[i].2 = c.1.2 := by rw [← hc]; exact ⟨rfl, rfl⟩
        rw [if_pos this]
        exact h1 c List.mem_cons_self i hi hc.symm
    · intro hall
      refine (ih'.2 (fun c' hc' => hall c' (List.mem_cons_of_mem _ hc'))).trans ?_
      rw [hsw]
      have : ¬ (u.acts[i].1 = c.1.1 ∧ u.acts[i].2 = c.1.2) := by
        intro ⟨e1, e2⟩
        exact hall c List.mem_cons_self (Prod.ext e1.symm e2.symm)
      rw [if_neg this]

/-- **the core lemma**: cells that carry, for every action of the scenario they name, that action's flag in `S`, and
that name every action at least once, turn ANY set (of the right length) into `S` — in whatever order, with whatever
repetitions, with whatever cells for unknown planning units or action types in between -/
theorem applyCells_reaches (u : Universe) (S : ActiveSet) (hS : S.length = u.acts.length)
    (cells : List ((Nat × String) × Bool))
    (h1 : ∀ c ∈ cells, ∀ (i : Nat) (hi : i < u.acts.length), u.acts[i] = c.1 → c.2 = S[i])
    (h2 : ∀ (i : Nat) (hi : i < u.acts.length), ∃ c ∈ cells, c.1 = u.acts[i])
    (set : ActiveSet) (hset : set.length = u.acts.length) :
    applyCells u cells set = S := by
  apply List.ext_getElem
  · rw [applyCells_length u cells set hset, hS]
  · intro i hi₁ hi₂
    have hi : i < u.acts.length := by rw [← hS]; exact hi₂
    exact (applyCells_getElem u S hS cells h1 set hset i hi).1 (h2 i hi)

/-! ## the whole table that says `S` (mirrors the harness's `fullTableCsv`) -/

def flagAtAux : List (Nat × String) → ActiveSet → Nat → String → Bool
  | a :: as, b :: bs, pu, ty => if a.1 = pu ∧ a.2 = ty then b else flagAtAux as bs pu ty
  | _, _, _, _ => false

/-- the flag in `S` of the (first) action of planning unit `pu` and type `ty`; `false` if the scenario has no such
action -/
def flagAt (u : Universe) (S : ActiveSet) (pu : Nat) (ty : String) : Bool := flagAtAux u.acts S pu ty

/-- one row per planning unit of `pus`, one flag per action type of `tys`: the table rows that say `S` -/
def fullRows (u : Universe) (tys : List String) (pus : List Nat) (S : ActiveSet) : List (Option Nat × List Bool) :=
  pus.map (fun pu => (some pu, tys.map (flagAt u S pu)))

theorem flagAtAux_getElem (acts : List (Nat × String)) (S : ActiveSet) (hnd : acts.Nodup)
    (hS : S.length = acts.length) (i : Nat) (hi : i < acts.length) :
    flagAtAux acts S acts[i].1 acts[i].2 = S[i] := by
  induction acts generalizing S i with
  | nil => simp at hi
  | cons a as ih =>
    cases S with
    | nil => simp at hS
    | cons b bs =>
      cases i with
      | zero => simp [flagAtAux]
      | succ j =>
        simp only [List.getElem_cons_succ]
        have hj : j < as.length := by simpa using hi
        have hne : ¬ (a.1 = as[j].1 ∧ a.2 = as[j].2) := by
          intro ⟨e1, e2⟩
          have : a = as[j] := Prod.ext e1 e2
          exact (List.nodup_cons.mp hnd).1 (this ▸ List.getElem_mem hj)
        simp only [flagAtAux, hne, ↓reduceIte]
        exact ih bs (List.nodup_cons.mp hnd).2 (by simpa using hS) j hj

theorem flagAt_getElem (u : Universe) (S : ActiveSet) (hnd : u.acts.Nodup) (hS : S.length = u.acts.length)
    (i : Nat) (hi : i < u.acts.length) : flagAt u S u.acts[i].1 u.acts[i].2 = S[i] :=
  flagAtAux_getElem u.acts S hnd hS i hi

/-- the cells of `fullRows`, in the order `processRequestTable` visits them -/
def tableCells (u : Universe) (tys : List String) (pus : List Nat) (S : ActiveSet) : List ((Nat × String) × Bool) :=
  pus.flatMap (fun pu => tys.map (fun ty => ((pu, ty), flagAt u S pu ty)))

theorem applyRow_full (u : Universe) (tys : List String) (f : String → Bool) (pu : Nat) (set : ActiveSet) :
    applyRow u tys set (some pu, tys.map f) = applyCells u (tys.map (fun ty => ((pu, ty), f ty))) set := by
  unfold applyRow applyCells
  simp only
  rw [List.foldl_map]
  induction tys generalizing set with
  | nil => rfl
  | cons t ts ih => simp only [List.map_cons, List.zip_cons_cons, List.foldl_cons]; exact ih _

theorem applyTable_fullRows_cells (u : Universe) (tys : List String) (pus : List Nat) (S set : ActiveSet) :
    applyTable u tys (fullRows u tys pus S) set = applyCells u (tableCells u tys pus S) set := by
  unfold applyTable fullRows tableCells
  induction pus generalizing set with
  | nil => rfl
  | cons p ps ih =>
    simp only [List.map_cons, List.foldl_cons, List.flatMap_cons]
    rw [applyRow_full, ih, applyCells_append]

/-- **the full table reaches `S`**: when no two actions share planning unit and type, and the table has a row for
every action's planning unit and a column for every action's type, applying it to ANY set gives `S` -/
theorem applyTable_fullRows (u : Universe) (tys : List String) (pus : List Nat) (S set : ActiveSet)
    (hnd : u.acts.Nodup) (hS : S.length = u.acts.length) (hset : set.length = u.acts.length)
    (hcover : ∀ a ∈ u.acts, a.1 ∈ pus ∧ a.2 ∈ tys) :
    applyTable u tys (fullRows u tys pus S) set = S := by
  rw [applyTable_fullRows_cells]
  apply applyCells_reaches u S hS _ _ _ set hset
  · intro c hc i hi hci
    simp only [tableCells, List.mem_flatMap, List.mem_map] at hc
    obtain ⟨pu, _, ty, _, rfl⟩ := hc
    simp only at hci ⊢
    have := flagAt_getElem u S hnd hS i hi
    rw [hci] at this
    exact this
  · intro i hi
    obtain ⟨h1, h2⟩ := hcover u.acts[i] (List.getElem_mem hi)
    refine ⟨((u.acts[i].1, u.acts[i].2), flagAt u S u.acts[i].1 u.acts[i].2), ?_, rfl⟩
    simp only [tableCells, List.mem_flatMap, List.mem_map]
    exact ⟨_, h1, _, h2, rfl⟩

/-! ## the subcatchment PUT sequence that says `S` -/

/-- for each action of the scenario at planning unit `pu`, in the model's order, its type and `Active` / `Inactive`
as `S` says -/
def subEntriesFor (u : Universe) (S : ActiveSet) (pu : Nat) : List SubEntry :=
  ((u.acts.zip S).filter (fun (ab : (Nat × String) × Bool) => ab.1.1 = pu)).map
    (fun ab => ⟨ab.1.2, if ab.2 then .active else .inactive⟩)

/-- one `applySub` per planning unit of `pus`, in order -/
def applySubs (u : Universe) (S : ActiveSet) (pus : List Nat) (set : ActiveSet) : ActiveSet :=
  pus.foldl (fun acc pu => applySub u pu (subEntriesFor u S pu) acc) set

def subCells (u : Universe) (S : ActiveSet) (pus : List Nat) : List ((Nat × String) × Bool) :=
  pus.flatMap (fun pu => (subEntriesFor u S pu).map (fun e => ((pu, e.name), e.val == .active)))

theorem applySub_cells (u : Universe) (pu : Nat) (entries : List SubEntry) (set : ActiveSet) :
    applySub u pu entries set = applyCells u (entries.map (fun e => ((pu, e.name), e.val == .active))) set := by
  unfold applySub applyCells
  rw [List.foldl_map]

theorem applySubs_cells (u : Universe) (S : ActiveSet) (pus : List Nat) (set : ActiveSet) :
    applySubs u S pus set = applyCells u (subCells u S pus) set := by
  unfold applySubs subCells
  induction pus generalizing set with
  | nil => rfl
  | cons p ps ih =>
    simp only [List.foldl_cons, List.flatMap_cons]
    rw [applySub_cells, ih, applyCells_append]

theorem subVal_flag (b : Bool) : ((if b then SubVal.active else SubVal.inactive) == SubVal.active) = b := by
  cases b <;> rfl

theorem mem_subEntriesFor {u : Universe} {S : ActiveSet} {pu : Nat} {e : SubEntry} (h : e ∈ subEntriesFor u S pu) :
    ∃ (j : Nat) (h₁ : j < u.acts.length) (h₂ : j < S.length), u.acts[j].1 = pu ∧ e.name = u.acts[j].2 ∧
      e.val = (if S[j] then .active else .inactive) := by
  simp only [subEntriesFor, List.mem_map, List.mem_filter, decide_eq_true_eq] at h
  obtain ⟨ab, ⟨hab, hpu⟩, rfl⟩ := h
  obtain ⟨j, hj, rfl⟩ := List.mem_iff_getElem.mp hab
  have hj' : j < u.acts.length ∧ j < S.length := by
    have := hj
    rw [List.length_zip] at this
    omega
  refine ⟨j, hj'.1, hj'.2, ?_, ?_, ?_⟩
  · simpa using hpu
  · simp
  · simp

theorem getElem_mem_subEntriesFor (u : Universe) (S : ActiveSet) (i : Nat) (h₁ : i < u.acts.length) (h₂ : i < S.length) :
    (⟨u.acts[i].2, if S[i] then .active else .inactive⟩ : SubEntry) ∈ subEntriesFor u S u.acts[i].1 := by
  simp only [subEntriesFor, List.mem_map, List.mem_filter, decide_eq_true_eq]
  refine ⟨(u.acts[i], S[i]), ⟨?_, rfl⟩, rfl⟩
  rw [List.mem_iff_getElem]
  exact ⟨i, by simp [List.length_zip]; omega, by simp⟩

/-- **the subcatchment sequence reaches `S`**: when no two actions share planning unit and type and `pus` (in any
order, repetitions allowed) contains every action's planning unit, the per-subcatchment updates turn ANY set into `S` -/
theorem applySubs_reaches (u : Universe) (S : ActiveSet) (pus : List Nat) (set : ActiveSet)
    (hnd : u.acts.Nodup) (hS : S.length = u.acts.length) (hset : set.length = u.acts.length)
    (hcover : ∀ a ∈ u.acts, a.1 ∈ pus) :
    applySubs u S pus set = S := by
  rw [applySubs_cells]
  apply applyCells_reaches u S hS _ _ _ set hset
  · intro c hc i hi hci
    simp only [subCells, List.mem_flatMap, List.mem_map] at hc
    obtain ⟨pu, _, e, he, rfl⟩ := hc
    obtain ⟨j, hj₁, hj₂, hpu, hname, hval⟩ := mem_subEntriesFor he
    simp only at hci ⊢
    have hij : u.acts[i] = u.acts[j] := by
      rw [hci, ← hpu, hname]
    have : i = j := (List.getElem_inj hnd).mp hij
    subst this
    rw [hval, subVal_flag]
  · intro i hi
    have hi' : i < S.length := by omega
    refine ⟨((u.acts[i].1, u.acts[i].2), S[i]), ?_, rfl⟩
    simp only [subCells, List.mem_flatMap, List.mem_map]
    refine ⟨_, hcover _ (List.getElem_mem hi), _, getElem_mem_subEntriesFor u S i hi hi', ?_⟩
    simp [subVal_flag]

/-- every entry of `subEntriesFor` names an action that exists at that planning unit … -/
theorem subSupported_subEntriesFor (u : Universe) (S : ActiveSet) (pu : Nat) :
    subSupported u pu (subEntriesFor u S pu) = true := by
  unfold subSupported
  rw [List.all_eq_true]
  intro e he
  obtain ⟨j, hj₁, _, hpu, hname, _⟩ := mem_subEntriesFor he
  rw [List.any_eq_true]
  exact ⟨u.acts[j], List.getElem_mem hj₁, by simp [hpu, hname]⟩

/-- … and passes the syntax check when the scenario's action types are among the four the engine knows -/
theorem subSyntaxOk_subEntriesFor (u : Universe) (S : ActiveSet) (pu : Nat)
    (hty : ∀ a ∈ u.acts, a.2 ∈ actionTypes) : subSyntaxOk (subEntriesFor u S pu) = true := by
  unfold subSyntaxOk
  rw [List.all_eq_true]
  intro e he
  obtain ⟨j, hj₁, hj₂, _, hname, hval⟩ := mem_subEntriesFor he
  have hmem : e.name ∈ actionTypes := hname ▸ hty _ (List.getElem_mem hj₁)
  have h1 : actionTypes.contains e.name = true := by simpa using hmem
  rw [h1, hval]
  cases S[j] <;> rfl

/-! ## `deriveExtraModelAttributes` leaves the posted (unmanaged) attributes exactly as they were -/

theorem filter_replaceAll (tbl : Option SolTable) (as : Attrs) (n : String) (v : Tok) (hm : managed tbl n = true) :
    (replaceAll as n v).filter (fun a => !managed tbl a.name) = as.filter (fun a => !managed tbl a.name) := by
  induction as with
  | nil => rfl
  | cons a rest ih =>
    simp only [replaceAll, List.map_cons] at ih ⊢
    by_cases hn : a.name = n
    · simp only [hn, ↓reduceIte, List.filter_cons, hm, Bool.not_true, Bool.false_eq_true]
      exact ih
    · simp only [hn, ↓reduceIte, List.filter_cons]
      rw [ih]

theorem filter_replaceAttr (tbl : Option SolTable) (as : Attrs) (n : String) (v : Tok) (hm : managed tbl n = true) :
    (replaceAttr Quirks.spec as n v).filter (fun a => !managed tbl a.name) = as.filter (fun a => !managed tbl a.name) := by
  unfold replaceAttr
  split
  · exact filter_replaceAll tbl as n v hm
  · simp [List.filter_append, hm]

theorem filter_eraseIdx (p : Attr → Bool) (as : Attrs) (j : Nat) (hj : j < as.length) (hp : p as[j] = false) :
    (as.eraseIdx j).filter p = as.filter p := by
  induction as generalizing j with
  | nil => simp at hj
  | cons a rest ih =>
    cases j with
    | zero =>
      simp only [List.getElem_cons_zero] at hp
      simp [List.eraseIdx, hp]
    | succ j =>
      simp only [List.eraseIdx, List.filter_cons]
      rw [ih j (by simpa using hj) (by simpa using hp)]

theorem filter_removeAttr (tbl : Option SolTable) (as : Attrs) (n : String) (hm : managed tbl n = true) :
    (removeAttr Quirks.spec as n).filter (fun a => !managed tbl a.name) = as.filter (fun a => !managed tbl a.name) := by
  unfold removeAttr
  split
  · split
    · rename_i i hi
      rcases lastIndexOf_spec as n 0 none i hi with h | ⟨j, hj, hk, hname⟩
      · simp at h
      · have hij : i = j := by omega
        subst hij
        exact filter_eraseIdx _ as i hj (by simp [hname, hm])
    · rfl
  · rfl

/-- `derive` touches only the names it manages: the other entries stay, in their order -/
theorem derive_unmanaged (W : World) (tbl : Option SolTable) (m : Mdl) :
    (derive Quirks.spec W tbl m).attrs.filter (fun a => !managed tbl a.name) =
      m.attrs.filter (fun a => !managed tbl a.name) := by
  cases tbl with
  | none =>
    have m1 : managed none "Encoding" = true := by simp [managed]
    have m3 : managed none "ValidAgainstScenario" = true := by simp [managed]
    have m4 : managed none "ValidationErrors" = true := by simp [managed]
    unfold derive
    simp only
    split
    · rw [filter_removeAttr _ _ _ m4, filter_replaceAttr _ _ _ _ m3, filter_replaceAttr _ _ _ _ m1]
    · rw [filter_replaceAttr _ _ _ _ m4, filter_replaceAttr _ _ _ _ m3, filter_replaceAttr _ _ _ _ m1]
  | some t =>
    have m1 : managed (some t) "Encoding" = true := by simp [managed]
    have m2 : managed (some t) "ParetoFrontMember" = true := by simp [managed]
    have m3 : managed (some t) "ValidAgainstScenario" = true := by simp [managed]
    have m4 : managed (some t) "ValidationErrors" = true := by simp [managed]
    unfold derive
    simp only
    split
    · rw [filter_removeAttr _ _ _ m4, filter_replaceAttr _ _ _ _ m3, filter_replaceAttr _ _ _ _ m2,
        filter_replaceAttr _ _ _ _ m1]
    · rw [filter_replaceAttr _ _ _ _ m4, filter_replaceAttr _ _ _ _ m3, filter_replaceAttr _ _ _ _ m2,
        filter_replaceAttr _ _ _ _ m1]

/-! ## the three write routes, as state transformers -/

/-- PUT /api/v1/model/subcatchment/<pu> with any content type and any body text (the handler checks neither) -/
def subPutReq (pu : Nat) (ct : String) (text : Bytes) (entries : List SubEntry) : Request :=
  { method := .put, path := subPath pu, ctype := ct, text := text, facts := .sub (some entries) }

def putActiveReq' (c : Csv) : Request :=
  { method := .put, path := "/api/v1/model/actions/active", ctype := csvMime, text := [], facts := .csv c }

def encPatchReq (S : ActiveSet) : Request :=
  { method := .patch, path := "/api/v1/model", ctype := jsonMime, text := [],
    facts := .patch (some [{ name := "Encoding", val := strTok (encodeStr S), enc := .text (encodeStr S) }]) }

/-- `s'` is `s` with the action set moved to `S` and nothing else: same texts, scenario name and solution table; the
live model — which is also the snapshot — has `m`'s scenario, id and posted (unmanaged) attributes, the action set `S`,
and managed attributes that describe `S` -/
def Reached (W : World) (s : State) (m : Mdl) (S : ActiveSet) (s' : State) : Prop :=
  ∃ m', s' = { s with live := some m', snap := some m' } ∧ m'.active = S ∧ m'.u = m.u ∧ m'.id = m.id ∧
    m'.attrs.filter (fun a => !managed s.table a.name) = m.attrs.filter (fun a => !managed s.table a.name) ∧
    Shows W s.table m' ∧ m'.active.length = m'.u.acts.length

theorem step_subPut (W : World) (s : State) (m : Mdl) (pu : Nat) (ct : String) (text : Bytes) (entries : List SubEntry)
    (hinv : Inv W s) (hlive : s.live = some m) (hlt : pu < 2 ^ 63) (hpu : m.u.pus.contains pu = true)
    (hsyn : subSyntaxOk entries = true) (hsup : subSupported m.u pu entries = true) :
    step Quirks.spec W s (subPutReq pu ct text entries) =
      (ok .success,
        { s with live := some (derive Quirks.spec W s.table { m with active := applySub m.u pu entries m.active }),
                 snap := some (derive Quirks.spec W s.table { m with active := applySub m.u pu entries m.active }) }) := by
  have hsnap := hinv.snap_eq
  rw [hlive] at hsnap
  simp only [step, subPutReq, classifyPath_subPath, putSub, hsnap, hlive, atoi?_toString pu hlt, hpu, hsyn, hsup, Quirks.spec]
  simp

theorem step_putActive (W : World) (s : State) (m : Mdl) (c : Csv) (types : List String)
    (rows : List (Option Nat × List Bool))
    (hinv : Inv W s) (hlive : s.live = some m) (hc : classifyTable c = .ok types rows) :
    step Quirks.spec W s (putActiveReq' c) =
      (ok .success,
        { s with live := some (derive Quirks.spec W s.table { m with active := applyTable m.u types rows m.active }),
                 snap := some (derive Quirks.spec W s.table { m with active := applyTable m.u types rows m.active }) }) := by
  have hsnap := hinv.snap_eq
  rw [hlive] at hsnap
  simp only [step, classifyPath, putActiveReq', putActive, hsnap, hlive, csvMime, hc]
  simp

theorem step_encPatch (W : World) (s : State) (m : Mdl) (S : ActiveSet)
    (hinv : Inv W s) (hlive : s.live = some m) (hn : 1 ≤ m.u.acts.length) (hS : S.length = m.u.acts.length) :
    step Quirks.spec W s (encPatchReq S) =
      (ok .success,
        { s with live := some (derive Quirks.spec W s.table
                   { m with attrs := replaceAttr Quirks.spec m.attrs "Encoding" (strTok (encodeStr S)), active := S }),
                 snap := some (derive Quirks.spec W s.table
                   { m with attrs := replaceAttr Quirks.spec m.attrs "Encoding" (strTok (encodeStr S)), active := S }) }) := by
  have hsnap := hinv.snap_eq
  rw [hlive] at hsnap
  have hdec := Crem.BoolArchive.decode_encode' m.u.acts.length S hn hS
  simp [step, classifyPath, encPatchReq, patchModel, hsnap, hlive, Quirks.spec, jsonMime, decodeEntries, encodeStr, hdec, join]

theorem reached_refl {W : World} {s : State} {m : Mdl} (hinv : Inv W s) (hlive : s.live = some m) :
    Reached W s m m.active s := by
  have hsnap := hinv.snap_eq
  rw [hlive] at hsnap
  refine ⟨m, ?_, rfl, rfl, rfl, rfl, (hinv.shows m hlive).1, (hinv.shows m hlive).2⟩
  cases s
  simp only at hlive hsnap
  subst hlive hsnap
  rfl

/-- a route continued: what is reached from a reached state is reached from the first one -/
theorem reached_trans {W : World} {s s₁ s₂ : State} {m m₁ : Mdl} {S₁ S₂ : ActiveSet}
    (h₁ : Reached W s m S₁ s₁) (hl : s₁.live = some m₁) (h₂ : Reached W s₁ m₁ S₂ s₂) : Reached W s m S₂ s₂ := by
  obtain ⟨m₁', rfl, _, hu₁, hid₁, hf₁, _, _⟩ := h₁
  simp only [Option.some.injEq] at hl
  subst hl
  obtain ⟨m₂, rfl, hact, hu₂, hid₂, hf₂, hsh, hlen⟩ := h₂
  exact ⟨m₂, rfl, hact, hu₂.trans hu₁, hid₂.trans hid₁, hf₂.trans hf₁, hsh, hlen⟩

theorem reached_table (W : World) (s : State) (m : Mdl) (S : ActiveSet) (c : Csv) (tys : List String) (pus : List Nat)
    (hinv : Inv W s) (hlive : s.live = some m) (hnd : m.u.acts.Nodup) (hS : S.length = m.u.acts.length)
    (hcover : ∀ a ∈ m.u.acts, a.1 ∈ pus ∧ a.2 ∈ tys)
    (hc : classifyTable c = .ok tys (fullRows m.u tys pus S)) :
    (step Quirks.spec W s (putActiveReq' c)).1 = ok .success ∧
    Reached W s m S (step Quirks.spec W s (putActiveReq' c)).2 := by
  rw [step_putActive W s m c _ _ hinv hlive hc]
  have hact : (derive Quirks.spec W s.table { m with active := applyTable m.u tys (fullRows m.u tys pus S) m.active }).active = S := by
    rw [derive_active]
    exact applyTable_fullRows m.u tys pus S m.active hnd hS (hinv.shows m hlive).2 hcover
  refine ⟨rfl, _, rfl, hact, derive_u _ _ _ _, derive_id _ _ _ _, derive_unmanaged _ _ _,
    derive_shows _ _ _ (hinv.shows m hlive).1.1, ?_⟩
  rw [hact, derive_u]
  exact hS

theorem reached_encPatch (W : World) (s : State) (m : Mdl) (S : ActiveSet)
    (hinv : Inv W s) (hlive : s.live = some m) (hn : 1 ≤ m.u.acts.length) (hS : S.length = m.u.acts.length) :
    (step Quirks.spec W s (encPatchReq S)).1 = ok .success ∧
    Reached W s m S (step Quirks.spec W s (encPatchReq S)).2 := by
  rw [step_encPatch W s m S hinv hlive hn hS]
  refine ⟨rfl, _, rfl, derive_active _ _ _ _, derive_u _ _ _ _, derive_id _ _ _ _, ?_,
    derive_shows _ _ _ (nodup_replaceAttr _ _ (hinv.shows m hlive).1.1), ?_⟩
  · rw [derive_unmanaged]
    exact filter_replaceAttr _ _ _ _ (by simp [managed])
  · rw [derive_active, derive_u]
    exact hS

/-- the per-subcatchment PUT sequence for `S` over the planning units `pus` -/
def subPutSeq (u : Universe) (S : ActiveSet) (ct : String) (text : Bytes) (pus : List Nat) : List Request :=
  pus.map (fun pu => subPutReq pu ct text (subEntriesFor u S pu))

theorem reached_subPutSeq (W : World) (u : Universe) (S : ActiveSet) (ct : String) (text : Bytes)
    (hty : ∀ a ∈ u.acts, a.2 ∈ actionTypes) (pus : List Nat)
    (hpus : ∀ pu ∈ pus, pu < 2 ^ 63 ∧ u.pus.contains pu = true)
    (s : State) (m : Mdl) (hinv : Inv W s) (hlive : s.live = some m) (hu : m.u = u) :
    (∀ resp ∈ (run Quirks.spec W s (subPutSeq u S ct text pus)).1, resp = ok .success) ∧
    Reached W s m (applySubs u S pus m.active) (exec Quirks.spec W s (subPutSeq u S ct text pus)) := by
  induction pus generalizing s m with
  | nil =>
    refine ⟨by simp [subPutSeq, run], ?_⟩
    simp only [subPutSeq, List.map_nil, exec, run, applySubs, List.foldl_nil]
    exact reached_refl hinv hlive
  | cons p ps ih =>
    subst hu
    obtain ⟨hlt, hpu⟩ := hpus p List.mem_cons_self
    have hstep := step_subPut W s m p ct text (subEntriesFor m.u S p) hinv hlive hlt hpu
      (subSyntaxOk_subEntriesFor m.u S p hty) (subSupported_subEntriesFor m.u S p)
    have hinv₁ := inv_step W s (subPutReq p ct text (subEntriesFor m.u S p)) hinv
    rw [hstep] at hinv₁
    simp only at hinv₁
    have ih' := ih (fun pu h => hpus pu (List.mem_cons_of_mem _ h)) _ _ hinv₁ rfl (derive_u _ _ _ _)
    have hr₁ : Reached W s m (applySub m.u p (subEntriesFor m.u S p) m.active)
        { s with live := some (derive Quirks.spec W s.table { m with active := applySub m.u p (subEntriesFor m.u S p) m.active }),
                 snap := some (derive Quirks.spec W s.table { m with active := applySub m.u p (subEntriesFor m.u S p) m.active }) } := by
      refine ⟨_, rfl, derive_active _ _ _ _, derive_u _ _ _ _, derive_id _ _ _ _, derive_unmanaged _ _ _,
        derive_shows _ _ _ (hinv.shows m hlive).1.1, ?_⟩
      rw [derive_active, derive_u]
      exact applySub_length _ _ _ _ (hinv.shows m hlive).2
    simp only [subPutSeq, List.map_cons, exec, run, hstep, List.mem_cons, forall_eq_or_imp, true_and]
    refine ⟨ih'.1, ?_⟩
    have h₂ := ih'.2
    rw [derive_active] at h₂
    exact reached_trans hr₁ rfl h₂

/-- two states reached from one state by moving the action set to the same `S` serve the same model representation -/
theorem reached_sameRepr {W : World} {s s₁ s₂ : State} {m : Mdl} {S : ActiveSet}
    (h₁ : Reached W s m S s₁) (h₂ : Reached W s m S s₂) :
    ∃ m₁ m₂, s₁.live = some m₁ ∧ s₂.live = some m₂ ∧ SameRepr m₁ m₂ := by
  obtain ⟨m₁, rfl, ha₁, hu₁, hid₁, hf₁, hs₁, _⟩ := h₁
  obtain ⟨m₂, rfl, ha₂, hu₂, hid₂, hf₂, hs₂, _⟩ := h₂
  refine ⟨m₁, m₂, rfl, rfl, sameRepr_of_shows hs₁ hs₂ (hu₁.trans hu₂.symm) (hid₁.trans hid₂.symm) (ha₁.trans ha₂.symm) ?_⟩
  rw [hf₁, hf₂]

/-- what three states reached from one state by moving the action set to the same `S` have in common -/
theorem reached_three {W : World} {s s₁ s₂ s₃ : State} {m : Mdl} {S : ActiveSet}
    (h₁ : Reached W s m S s₁) (h₂ : Reached W s m S s₂) (h₃ : Reached W s m S s₃) :
    ∃ m₁ m₂ m₃,
      (s₁.live = some m₁ ∧ s₁.snap = some m₁) ∧ (s₂.live = some m₂ ∧ s₂.snap = some m₂) ∧
      (s₃.live = some m₃ ∧ s₃.snap = some m₃) ∧
      (m₁.active = S ∧ m₂.active = S ∧ m₃.active = S) ∧
      (m₁.u = m.u ∧ m₂.u = m.u ∧ m₃.u = m.u) ∧ (m₁.id = m.id ∧ m₂.id = m.id ∧ m₃.id = m.id) ∧
      (SameRepr m₁ m₂ ∧ SameRepr m₂ m₃ ∧ SameRepr m₁ m₃) ∧
      (∀ s' ∈ [s₁, s₂, s₃], s'.scenText = s.scenText ∧ s'.scenName = s.scenName ∧ s'.solText = s.solText ∧
        s'.table = s.table) := by
  obtain ⟨m₁, m₂, hl₁, hl₂, r₁₂⟩ := reached_sameRepr h₁ h₂
  obtain ⟨m₂', m₃, hl₂', hl₃, r₂₃⟩ := reached_sameRepr h₂ h₃
  have : m₂' = m₂ := by rw [hl₂] at hl₂'; exact (Option.some.inj hl₂').symm
  subst this
  obtain ⟨m₁', rfl, ha₁, hu₁, hid₁, _, _, _⟩ := h₁
  obtain ⟨m₂'', rfl, ha₂, hu₂, hid₂, _, _, _⟩ := h₂
  obtain ⟨m₃', rfl, ha₃, hu₃, hid₃, _, _, _⟩ := h₃
  simp only [Option.some.injEq] at hl₁ hl₂ hl₃
  subst hl₁ hl₂ hl₃
  have r₁₃ : SameRepr m₁' m₃' :=
    ⟨r₁₂.1.trans r₂₃.1, r₁₂.2.1.trans r₂₃.2.1, r₁₂.2.2.1.trans r₂₃.2.2.1, r₁₂.2.2.2.trans r₂₃.2.2.2⟩
  refine ⟨m₁', m₂'', m₃', ⟨rfl, rfl⟩, ⟨rfl, rfl⟩, ⟨rfl, rfl⟩, ⟨ha₁, ha₂, ha₃⟩, ⟨hu₁, hu₂, hu₃⟩, ⟨hid₁, hid₂, hid₃⟩,
    ⟨r₁₂, r₂₃, r₁₃⟩, ?_⟩
  intro s' hs'
  simp only [List.mem_cons, List.not_mem_nil, or_false] at hs'
  rcases hs' with rfl | rfl | rfl <;> exact ⟨rfl, rfl, rfl, rfl⟩

/-! ## what a client reads -/

/-- every GET other than GET /model is answered from: the two texts, the scenario name, the solution table, and the
snapshot's scenario and action set -/
theorem get_same (W : World) (s₁ s₂ : State) (m₁ m₂ : Mdl) (h₁ : s₁.snap = some m₁) (h₂ : s₂.snap = some m₂)
    (hu : m₁.u = m₂.u) (hact : m₁.active = m₂.active)
    (ht : s₁.scenText = s₂.scenText) (hn : s₁.scenName = s₂.scenName) (hs : s₁.solText = s₂.solText)
    (htb : s₁.table = s₂.table) (r : Request) (hg : r.method = .get) (hp : classifyPath r.path ≠ .model) :
    (step Quirks.spec W s₁ r).1 = (step Quirks.spec W s₂ r).1 := by
  have hsub : ∀ p, subEntries m₁ p = subEntries m₂ p := by intro p; simp [subEntries, hu, hact]
  unfold step
  rw [hg]
  cases hc : classifyPath r.path with
  | model => exact absurd hc hp
  | root => rfl
  | other => rfl
  | scenario => simp only [getScenario, ht]; split <;> rfl
  | solutions =>
    simp only [getSolutions, ht, hs]
    split
    · rfl
    · split <;> rfl
  | solution label =>
    simp only [getSolution, hn, htb]
    split
    · rfl
    · split
      · rfl
      · split <;> rfl
  | active => simp only [getActive, h₁, h₂, hu, hact]
  | applicable => simp only [getApplicable, h₁, h₂, hu]
  | sub id =>
    simp only [getSub, h₁, h₂, hu, hsub]
    split
    · rfl
    · split <;> rfl

/-- the two `view`s agree, the /model documents up to the order of their attribute entries -/
def ViewSame (v₁ v₂ : View) : Prop :=
  v₁.scenario = v₂.scenario ∧ v₁.solutions = v₂.solutions ∧ v₁.active = v₂.active ∧ v₁.applicable = v₂.applicable ∧
  v₁.subs = v₂.subs ∧ ∃ m₁ m₂, v₁.model = ok (.model m₁) ∧ v₂.model = ok (.model m₂) ∧ SameRepr m₁ m₂

theorem viewSame_of (W : World) (s₁ s₂ : State) (m₁ m₂ : Mdl) (h₁ : s₁.snap = some m₁) (h₂ : s₂.snap = some m₂)
    (hr : SameRepr m₁ m₂)
    (ht : s₁.scenText = s₂.scenText) (hn : s₁.scenName = s₂.scenName) (hs : s₁.solText = s₂.solText)
    (htb : s₁.table = s₂.table) : ViewSame (view Quirks.spec W s₁) (view Quirks.spec W s₂) := by
  have hget := get_same W s₁ s₂ m₁ m₂ h₁ h₂ hr.1 hr.2.2.1 ht hn hs htb
  refine ⟨hget _ rfl (by simp [getReq, classifyPath]), hget _ rfl (by simp [getReq, classifyPath]),
    hget _ rfl (by simp [getReq, classifyPath]), hget _ rfl (by simp [getReq, classifyPath]), ?_,
    m₁, m₂, ?_, ?_, hr⟩
  · simp only [view, h₁, h₂, hr.1]
    apply List.map_congr_left
    intro pu _
    exact hget _ rfl (by simp [getReq, classifyPath_subPath])
  · simp [view, step, classifyPath, getReq, getModel, h₁]
  · simp [view, step, classifyPath, getReq, getModel, h₂]

end Crem.Engine
