import Crem.Model.Locking
/-!
The invariant behind `mutex_serialises` (property C16) and its preservation by every micro-step; then the frame
lemmas (a micro-step of thread `t` changes only thread `t`; a client with an empty program never moves), the
projection-by-thread lemmas (`proj`, `serialResps` keeps the tags of the log) and the lemmas about `posOf`
(position of a client's `k`-th request in the log) used by `real_time`, `real_time_order`,
`concurrent_is_spec_run` in `Properties/C16.lean`; last, a schedule reaching quiescence exists for every finite
set of clients (serve them one after the other).
-/
namespace Crem.Locking

variable {S L R : Type}

@[simp] theorem upd_same {α : Type} (f : Nat → α) (t : Nat) (x : α) : upd f t x t = x := by simp [upd]

theorem upd_other {α : Type} (f : Nat → α) (t t' : Nat) (x : α) (h : t' ≠ t) : upd f t x t' = f t' := by
  simp [upd, h]

theorem serial_append (s0 : S) (xs ys : List (Nat × Handler S L R)) :
    serial s0 (xs ++ ys) = serial (serial s0 xs) ys := by
  induction xs generalizing s0 with
  | nil => rfl
  | cons x xs ih => cases x; simp only [List.cons_append, serial]; exact ih _

theorem serialResps_append (s0 : S) (xs ys : List (Nat × Handler S L R)) :
    serialResps s0 (xs ++ ys) = serialResps s0 xs ++ serialResps (serial s0 xs) ys := by
  induction xs generalizing s0 with
  | nil => rfl
  | cons x xs ih => cases x; simp only [List.cons_append, serialResps, serial]; rw [ih]

theorem respsOf_snoc_same (s0 : S) (pre : List (Nat × Handler S L R)) (t : Nat) (h : Handler S L R) :
    respsOf s0 (pre ++ [(t, h)]) t = respsOf s0 pre t ++ [(h.atomic (serial s0 pre)).1] := by
  simp [respsOf, serialResps_append, serialResps]

theorem respsOf_snoc_other (s0 : S) (pre : List (Nat × Handler S L R)) (t t' : Nat) (h : Handler S L R)
    (hne : t' ≠ t) : respsOf s0 (pre ++ [(t, h)]) t' = respsOf s0 pre t' := by
  have : (t == t') = false := by simp; exact fun e => hne e.symm
  simp [respsOf, serialResps_append, serialResps, this]

theorem requestsOf_snoc_same (log : List (Nat × Handler S L R)) (t : Nat) (h : Handler S L R) :
    requestsOf (log ++ [(t, h)]) t = requestsOf log t ++ [h] := by
  simp [requestsOf]

theorem requestsOf_snoc_other (log : List (Nat × Handler S L R)) (t t' : Nat) (h : Handler S L R)
    (hne : t' ≠ t) : requestsOf (log ++ [(t, h)]) t' = requestsOf log t' := by
  have : (t == t') = false := by simp; exact fun e => hne e.symm
  simp [requestsOf, this]

/-- response delivered next by a thread that has left the critical section -/
def inflight : Phase S L R → List R
  | .responding h l => [h.resp l]
  | _ => []

/-- request a thread has picked up but not yet acquired the lock for -/
def pending : Phase S L R → List (Handler S L R)
  | .arrived h => [h]
  | _ => []

/-- the requests whose critical section is over -/
def completed (c : Config S L R) : List (Nat × Handler S L R) :=
  match c.lock with
  | none => c.log
  | some _ => c.log.dropLast

structure Inv (s0 : S) (prog : Nat → List (Handler S L R)) (c : Config S L R) : Prop where
  /-- mutual exclusion: whoever is inside the critical section holds the lock (so at most one thread is inside) -/
  excl : ∀ t h l rem, (c.threads t).phase = .running h l rem → c.lock = some t
  /-- the holder is inside, its request is the last one logged, and finishing its remaining micro-steps from
  here gives what the whole handler gives from the serial state of everything logged before -/
  held : ∀ t, c.lock = some t → ∃ h l rem pre, (c.threads t).phase = .running h l rem ∧ c.log = pre ++ [(t, h)] ∧
    runSteps rem (l, c.shared) = runSteps h.steps (h.pre, serial s0 pre)
  /-- while the lock is free the shared state is the serial result of everything logged -/
  free : c.lock = none → c.shared = serial s0 c.log
  /-- every thread has received (or is about to deliver) exactly the serial responses of its completed requests -/
  outs : ∀ t, (c.threads t).out ++ inflight (c.threads t).phase = respsOf s0 (completed c) t
  /-- program order: logged requests of a thread, then the one it is waiting with, then what it has not sent yet -/
  order : ∀ t, requestsOf c.log t ++ pending (c.threads t).phase ++ (c.threads t).todo = prog t

theorem inv_initial (s0 : S) (prog : Nat → List (Handler S L R)) : Inv s0 prog (initial s0 prog) := by
  constructor
  · intro t h l rem hp; simp [initial] at hp
  · intro t hl; simp [initial] at hl
  · intro _; rfl
  · intro t; simp [initial, inflight, completed, respsOf, serialResps]
  · intro t; simp [initial, pending, requestsOf]

theorem inv_move (s0 : S) (prog : Nat → List (Handler S L R)) (c : Config S L R) (t : Nat)
    (hinv : Inv s0 prog c) : Inv s0 prog (move c t) := by
  unfold move
  simp only
  split
  · -- idle
    rename_i hph
    split
    · exact hinv
    · rename_i h rest htodo
      constructor
      · intro t' h' l rem hp
        by_cases e : t' = t
        · subst e; simp at hp
        · simp only [upd_other _ _ _ _ e] at hp; exact hinv.excl t' h' l rem hp
      · intro t' hl
        by_cases e : t' = t
        · subst e
          obtain ⟨h', l, rem, pre, hp, _⟩ := hinv.held t' hl
          rw [hph] at hp; cases hp
        · simp only [upd_other _ _ _ _ e]; exact hinv.held t' hl
      · exact hinv.free
      · intro t'
        have hold := hinv.outs t'
        simp only [completed] at hold ⊢
        by_cases e : t' = t
        · subst e
          simp only [hph, inflight] at hold
          simpa [inflight] using hold
        · simp only [upd_other _ _ _ _ e]; exact hold
      · intro t'
        by_cases e : t' = t
        · subst e
          have := hinv.order t'
          simp only [hph, pending, htodo] at this
          simpa [pending] using this
        · simp only [upd_other _ _ _ _ e]; exact hinv.order t'
  · -- arrived
    rename_i h hph
    split
    · rename_i hlock
      constructor
      · intro t' h' l rem hp
        by_cases e : t' = t
        · subst e; rfl
        · simp only [upd_other _ _ _ _ e] at hp
          have := hinv.excl t' h' l rem hp
          rw [hlock] at this; cases this
      · intro t' hl
        simp only [Option.some.injEq] at hl
        subst hl
        refine ⟨h, h.pre, h.steps, c.log, by simp, rfl, ?_⟩
        rw [hinv.free hlock]
      · intro hl; simp at hl
      · intro t'
        have hold := hinv.outs t'
        simp only [completed, hlock] at hold
        simp only [completed, List.dropLast_concat]
        by_cases e : t' = t
        · subst e
          simp only [hph, inflight] at hold
          simpa [inflight] using hold
        · simp only [upd_other _ _ _ _ e]; exact hold
      · intro t'
        by_cases e : t' = t
        · subst e
          have := hinv.order t'
          simp only [hph, pending] at this
          simp only [upd_same, pending, requestsOf_snoc_same]
          simpa using this
        · simp only [upd_other _ _ _ _ e, requestsOf_snoc_other _ _ _ _ e]; exact hinv.order t'
    · exact hinv
  · -- running, a micro-step left
    rename_i h l f fs hph
    have hlock := hinv.excl t h l (f :: fs) hph
    obtain ⟨h', l', rem', pre, hp', hlog, hrun⟩ := hinv.held t hlock
    rw [hph] at hp'
    cases hp'
    constructor
    · intro t' h'' l'' rem'' hp
      by_cases e : t' = t
      · subst e; exact hlock
      · simp only [upd_other _ _ _ _ e] at hp; exact hinv.excl t' h'' l'' rem'' hp
    · intro t' hl
      have e : t' = t := by rw [hlock] at hl; cases hl; rfl
      subst e
      exact ⟨h, (f (l, c.shared)).1, fs, pre, by simp, hlog, by simpa [runSteps] using hrun⟩
    · intro hl; rw [hlock] at hl; cases hl
    · intro t'
      have hold := hinv.outs t'
      simp only [completed] at hold ⊢
      by_cases e : t' = t
      · subst e
        simp only [hph, inflight] at hold
        simpa [inflight] using hold
      · simp only [upd_other _ _ _ _ e]; exact hold
    · intro t'
      by_cases e : t' = t
      · subst e
        have := hinv.order t'
        simp only [hph, pending] at this
        simpa [pending] using this
      · simp only [upd_other _ _ _ _ e]; exact hinv.order t'
  · -- running, critical section over: release
    rename_i h l hph
    have hlock := hinv.excl t h l [] hph
    obtain ⟨h', l', rem', pre, hp', hlog, hrun⟩ := hinv.held t hlock
    rw [hph] at hp'
    cases hp'
    simp only [runSteps] at hrun
    constructor
    · intro t' h'' l'' rem'' hp
      by_cases e : t' = t
      · subst e; simp at hp
      · simp only [upd_other _ _ _ _ e] at hp
        have := hinv.excl t' h'' l'' rem'' hp
        rw [hlock] at this; cases this; exact absurd rfl e
    · intro t' hl; simp at hl
    · intro _
      show c.shared = serial s0 c.log
      rw [hlog, serial_append]
      simp only [serial, Handler.atomic]
      rw [← hrun]
    · intro t'
      have hold := hinv.outs t'
      simp only [completed, hlock, hlog, List.dropLast_concat] at hold
      simp only [completed, hlog]
      by_cases e : t' = t
      · subst e
        simp only [hph, inflight, List.append_nil] at hold
        simp only [upd_same, inflight, respsOf_snoc_same, hold, Handler.atomic]
        rw [← hrun]
      · simp only [upd_other _ _ _ _ e, respsOf_snoc_other _ _ _ _ _ e]
        exact hold
    · intro t'
      by_cases e : t' = t
      · subst e
        have := hinv.order t'
        simp only [hph, pending] at this
        simpa [pending] using this
      · simp only [upd_other _ _ _ _ e]; exact hinv.order t'
  · -- responding: deliver
    rename_i h l hph
    constructor
    · intro t' h'' l'' rem'' hp
      by_cases e : t' = t
      · subst e; simp at hp
      · simp only [upd_other _ _ _ _ e] at hp; exact hinv.excl t' h'' l'' rem'' hp
    · intro t' hl
      by_cases e : t' = t
      · subst e
        obtain ⟨h', l', rem, pre, hp, _⟩ := hinv.held t' hl
        rw [hph] at hp; cases hp
      · simp only [upd_other _ _ _ _ e]; exact hinv.held t' hl
    · exact hinv.free
    · intro t'
      have hold := hinv.outs t'
      simp only [completed] at hold ⊢
      by_cases e : t' = t
      · subst e
        simp only [hph, inflight] at hold
        simpa [inflight] using hold
      · simp only [upd_other _ _ _ _ e]; exact hold
    · intro t'
      by_cases e : t' = t
      · subst e
        have := hinv.order t'
        simp only [hph, pending] at this
        simpa [pending] using this
      · simp only [upd_other _ _ _ _ e]; exact hinv.order t'

theorem inv_exec (s0 : S) (prog : Nat → List (Handler S L R)) (c : Config S L R) (sched : List Nat)
    (hinv : Inv s0 prog c) : Inv s0 prog (exec c sched) := by
  induction sched generalizing c with
  | nil => exact hinv
  | cons t ts ih => exact ih (move c t) (inv_move s0 prog c t hinv)

/-! ## frame: a micro-step of thread `t` changes only thread `t` -/

theorem move_threads_other (c : Config S L R) (t t' : Nat) (h : t' ≠ t) :
    (move c t).threads t' = c.threads t' := by
  unfold move
  simp only
  split
  · split
    · rfl
    · exact upd_other _ _ _ _ h
  · split
    · exact upd_other _ _ _ _ h
    · rfl
  · exact upd_other _ _ _ _ h
  · exact upd_other _ _ _ _ h
  · exact upd_other _ _ _ _ h

/-- a thread that is idle with nothing left to send does not move -/
theorem move_done (c : Config S L R) (t : Nat) (htodo : (c.threads t).todo = [])
    (hph : (c.threads t).phase = .idle) : move c t = c := by
  unfold move
  simp only [hph, htodo]

theorem exec_cons (c : Config S L R) (t : Nat) (ts : List Nat) : exec c (t :: ts) = exec (move c t) ts := rfl

theorem exec_append (c : Config S L R) (s₁ s₂ : List Nat) : exec c (s₁ ++ s₂) = exec (exec c s₁) s₂ := by
  simp [exec, List.foldl_append]

/-- a thread that is not scheduled is not touched -/
theorem exec_threads_not_scheduled (c : Config S L R) (sched : List Nat) (t : Nat) (h : t ∉ sched) :
    (exec c sched).threads t = c.threads t := by
  induction sched generalizing c with
  | nil => rfl
  | cons t' ts ih =>
    rw [exec_cons, ih _ (fun hm => h (by simp [hm]))]
    exact move_threads_other c t' t (fun e => h (by simp [e]))

/-- a thread that is idle with nothing left to send stays exactly as it is under every schedule -/
theorem exec_threads_done (c : Config S L R) (sched : List Nat) (t : Nat) (htodo : (c.threads t).todo = [])
    (hph : (c.threads t).phase = .idle) : (exec c sched).threads t = c.threads t := by
  induction sched generalizing c with
  | nil => rfl
  | cons t' ts ih =>
    rw [exec_cons]
    by_cases e : t = t'
    · subst e; rw [move_done c t htodo hph]; exact ih c htodo hph
    · have hm := move_threads_other c t' t e
      rw [ih (move c t') (by rw [hm]; exact htodo) (by rw [hm]; exact hph), hm]

/-- a client with an empty program stays idle, with nothing to send and nothing received, under every schedule -/
theorem exec_initial_empty (s0 : S) (prog : Nat → List (Handler S L R)) (sched : List Nat) (t : Nat)
    (h : prog t = []) :
    (exec (initial s0 prog) sched).threads t = { todo := [], phase := .idle, out := [] } := by
  rw [exec_threads_done _ _ _ (by simp [initial, h]) (by simp [initial])]
  simp [initial, h]

/-- quiescence needs checking only for the clients that have a program -/
theorem quiescent_of_bounded (s0 : S) (prog : Nat → List (Handler S L R)) (sched : List Nat) (n : Nat)
    (hempty : ∀ t, n ≤ t → prog t = [])
    (hfin : ∀ t, t < n → ((exec (initial s0 prog) sched).threads t).todo = [] ∧
      (match ((exec (initial s0 prog) sched).threads t).phase with | .idle => True | _ => False)) :
    Quiescent (exec (initial s0 prog) sched) := by
  intro t
  by_cases h : t < n
  · exact hfin t h
  · rw [exec_initial_empty s0 prog sched t (hempty t (by omega))]
    exact ⟨rfl, True.intro⟩

/-! ## projections of thread-tagged lists -/

theorem requestsOf_eq_proj (log : List (Nat × Handler S L R)) (t : Nat) : requestsOf log t = proj log t := rfl

theorem respsOf_eq_proj (s0 : S) (log : List (Nat × Handler S L R)) (t : Nat) :
    respsOf s0 log t = proj (serialResps s0 log) t := rfl

@[simp] theorem proj_nil {α : Type} (t : Nat) : proj ([] : List (Nat × α)) t = [] := rfl

theorem proj_cons {α : Type} (x : Nat × α) (xs : List (Nat × α)) (t : Nat) :
    proj (x :: xs) t = if x.1 = t then x.2 :: proj xs t else proj xs t := by
  by_cases h : x.1 = t <;> simp [proj, h]

theorem proj_append {α : Type} (xs ys : List (Nat × α)) (t : Nat) : proj (xs ++ ys) t = proj xs t ++ proj ys t := by
  simp [proj]

theorem proj_map_snd {α β : Type} (f : α → β) (xs : List (Nat × α)) (t : Nat) :
    proj (xs.map (fun x => (x.1, f x.2))) t = (proj xs t).map f := by
  induction xs with
  | nil => rfl
  | cons x xs ih => simp only [List.map_cons, proj_cons, ih]; split <;> simp

theorem mem_proj_of_mem {α : Type} (xs : List (Nat × α)) (x : Nat × α) (h : x ∈ xs) : x.2 ∈ proj xs x.1 := by
  simp only [proj, List.mem_map, List.mem_filter]
  exact ⟨x, ⟨h, by simp⟩, rfl⟩

theorem serialResps_tags (s0 : S) (log : List (Nat × Handler S L R)) :
    (serialResps s0 log).map (·.1) = log.map (·.1) := by
  induction log generalizing s0 with
  | nil => rfl
  | cons x xs ih => cases x; simp only [serialResps, List.map_cons, ih]

theorem zip_tags_serialResps (s0 : S) (log : List (Nat × Handler S L R)) :
    (log.map (·.1)).zip ((serialResps s0 log).map (·.2)) = serialResps s0 log := by
  induction log generalizing s0 with
  | nil => rfl
  | cons x xs ih => cases x; simp only [serialResps, List.map_cons, List.zip_cons_cons, ih]

theorem respsOf_length (s0 : S) (log : List (Nat × Handler S L R)) (t : Nat) :
    (respsOf s0 log t).length = (requestsOf log t).length := by
  induction log generalizing s0 with
  | nil => rfl
  | cons x xs ih =>
    cases x
    simp only [respsOf_eq_proj, requestsOf_eq_proj, serialResps, proj_cons] at ih ⊢
    split <;> simp [ih]

theorem respsOf_append (s0 : S) (xs ys : List (Nat × Handler S L R)) (t : Nat) :
    respsOf s0 (xs ++ ys) t = respsOf s0 xs t ++ respsOf (serial s0 xs) ys t := by
  simp only [respsOf_eq_proj, serialResps_append, proj_append]

theorem requestsOf_append (xs ys : List (Nat × Handler S L R)) (t : Nat) :
    requestsOf (xs ++ ys) t = requestsOf xs t ++ requestsOf ys t := proj_append xs ys t

/-- the responses of the completed requests are a prefix of those of the logged requests -/
theorem respsOf_completed_prefix (s0 : S) (c : Config S L R) (t : Nat) :
    respsOf s0 (completed c) t <+: respsOf s0 c.log t := by
  unfold completed
  split
  · exact List.prefix_refl _
  · rcases List.eq_nil_or_concat c.log with h | ⟨pre, x, h⟩
    · rw [h]; exact List.prefix_refl _
    · rw [h, List.concat_eq_append, List.dropLast_concat, respsOf_append]; exact List.prefix_append _ _

/-! ## positions in a thread-tagged list -/

theorem posOf_cons {α : Type} (x : Nat × α) (xs : List (Nat × α)) (t k : Nat) :
    posOf (x :: xs) t k =
      if x.1 = t then (match k with | 0 => some 0 | k + 1 => (posOf xs t k).map (· + 1))
      else (posOf xs t k).map (· + 1) := rfl

/-- `posOf xs t k = some p` says exactly: position `p` of `xs` carries tag `t` and exactly `k` entries before it do -/
theorem posOf_eq_some_iff {α : Type} (xs : List (Nat × α)) (t k p : Nat) :
    posOf xs t k = some p ↔ (∃ a, xs[p]? = some (t, a)) ∧ (proj (xs.take p) t).length = k := by
  induction xs generalizing k p with
  | nil => simp [posOf]
  | cons x xs ih =>
    obtain ⟨tx, a⟩ := x
    rw [posOf_cons]
    by_cases hx : tx = t
    · subst hx
      simp only [if_true]
      cases k with
      | zero =>
        cases p with
        | zero => simp
        | succ p => simp [proj_cons]
      | succ k =>
        cases p with
        | zero => simp
        | succ p => simp [proj_cons, ih]
    · simp only [hx, if_false]
      cases p with
      | zero => simp [hx]
      | succ p => simp [proj_cons, hx, ih]

theorem posOf_lt_length {α : Type} (xs : List (Nat × α)) (t k p : Nat) (h : posOf xs t k = some p) :
    p < xs.length := by
  obtain ⟨⟨a, ha⟩, _⟩ := (posOf_eq_some_iff xs t k p).1 h
  exact (List.getElem?_eq_some_iff.1 ha).1

/-- the entry at `posOf xs t k` is the `k`-th entry of thread `t` -/
theorem posOf_entry {α : Type} (xs : List (Nat × α)) (t k p : Nat) (h : posOf xs t k = some p) :
    ∃ a, xs[p]? = some (t, a) ∧ (proj xs t)[k]? = some a := by
  obtain ⟨⟨a, ha⟩, hk⟩ := (posOf_eq_some_iff xs t k p).1 h
  refine ⟨a, ha, ?_⟩
  have hp := (List.getElem?_eq_some_iff.1 ha)
  obtain ⟨hlt, hget⟩ := hp
  have hsplit : xs = xs.take p ++ (t, a) :: xs.drop (p + 1) := by
    rw [← hget, List.getElem_cons_drop, List.take_append_drop]
  rw [hsplit, proj_append, proj_cons]
  simp only [if_true]
  rw [List.getElem?_append_right (by omega), hk]
  simp

theorem posOf_isSome {α : Type} (xs : List (Nat × α)) (t k : Nat) (h : k < (proj xs t).length) :
    ∃ p, posOf xs t k = some p := by
  induction xs generalizing k with
  | nil => simp at h
  | cons x xs ih =>
    rw [posOf_cons]
    rw [proj_cons] at h
    by_cases hx : x.1 = t
    · simp only [hx, if_true] at h ⊢
      cases k with
      | zero => exact ⟨0, rfl⟩
      | succ k =>
        obtain ⟨p, hp⟩ := ih k (by simpa using h)
        exact ⟨p + 1, by simp [hp]⟩
    · simp only [hx, if_false] at h ⊢
      obtain ⟨p, hp⟩ := ih k h
      exact ⟨p + 1, by simp [hp]⟩

theorem posOf_append_left {α : Type} (xs ys : List (Nat × α)) (t k p : Nat) (h : posOf xs t k = some p) :
    posOf (xs ++ ys) t k = some p := by
  have hlt := posOf_lt_length xs t k p h
  rw [posOf_eq_some_iff] at h ⊢
  rw [List.getElem?_append_left hlt, List.take_append_of_le_length (by omega)]
  exact h

/-- an entry of thread `t` beyond those in `xs` sits beyond `xs` -/
theorem posOf_append_ge {α : Type} (xs ys : List (Nat × α)) (t k p : Nat) (hk : (proj xs t).length ≤ k)
    (h : posOf (xs ++ ys) t k = some p) : xs.length ≤ p := by
  apply Nat.le_of_not_lt
  intro hlt
  obtain ⟨a, ha, hka⟩ := posOf_entry _ _ _ _ h
  obtain ⟨_, hcount⟩ := (posOf_eq_some_iff _ _ _ _).1 h
  rw [List.getElem?_append_left hlt] at ha
  rw [List.take_append_of_le_length (by omega)] at hcount
  obtain ⟨_, hget⟩ := List.getElem?_eq_some_iff.1 ha
  have hsplit : xs = xs.take p ++ (t, a) :: xs.drop (p + 1) := by
    rw [← hget, List.getElem_cons_drop, List.take_append_drop]
  rw [hsplit, proj_append, proj_cons] at hk
  simp at hk
  omega

/-- `posOf` looks at the tags only -/
theorem posOf_congr_tags {α β : Type} (xs : List (Nat × α)) (ys : List (Nat × β))
    (h : xs.map (·.1) = ys.map (·.1)) (t k : Nat) : posOf xs t k = posOf ys t k := by
  induction xs generalizing ys k with
  | nil =>
    cases ys with
    | nil => rfl
    | cons y ys => simp at h
  | cons x xs ih =>
    cases ys with
    | nil => simp at h
    | cons y ys =>
      simp only [List.map_cons, List.cons.injEq] at h
      rw [posOf_cons, posOf_cons, h.1]
      split
      · cases k with
        | zero => rfl
        | succ k => simp only [ih ys h.2]
      · rw [ih ys h.2]

/-! ## a schedule that reaches quiescence exists (serve the clients one after the other) -/

theorem move_idle_cons (c : Config S L R) (t : Nat) (h : Handler S L R) (rest : List (Handler S L R))
    (hp : (c.threads t).phase = .idle) (htodo : (c.threads t).todo = h :: rest) :
    (move c t).lock = c.lock ∧ ((move c t).threads t).phase = .arrived h ∧ ((move c t).threads t).todo = rest := by
  unfold move; simp [hp, htodo]

theorem move_arrived_free (c : Config S L R) (t : Nat) (h : Handler S L R)
    (hp : (c.threads t).phase = .arrived h) (hlock : c.lock = none) :
    (move c t).lock = some t ∧ ((move c t).threads t).phase = .running h h.pre h.steps ∧
      ((move c t).threads t).todo = (c.threads t).todo := by
  unfold move; simp [hp, hlock]

theorem move_running_cons (c : Config S L R) (t : Nat) (h : Handler S L R) (l : L) (f : L × S → L × S)
    (fs : List (L × S → L × S)) (hp : (c.threads t).phase = .running h l (f :: fs)) :
    (move c t).lock = c.lock ∧ ((move c t).threads t).phase = .running h (f (l, c.shared)).1 fs ∧
      ((move c t).threads t).todo = (c.threads t).todo := by
  unfold move; simp [hp]

theorem move_running_nil (c : Config S L R) (t : Nat) (h : Handler S L R) (l : L)
    (hp : (c.threads t).phase = .running h l []) :
    (move c t).lock = none ∧ ((move c t).threads t).phase = .responding h l ∧
      ((move c t).threads t).todo = (c.threads t).todo := by
  unfold move; simp [hp]

theorem move_responding (c : Config S L R) (t : Nat) (h : Handler S L R) (l : L)
    (hp : (c.threads t).phase = .responding h l) :
    (move c t).lock = c.lock ∧ ((move c t).threads t).phase = .idle ∧
      ((move c t).threads t).todo = (c.threads t).todo := by
  unfold move; simp [hp]

theorem exec_replicate_succ (c : Config S L R) (t n : Nat) :
    exec c (List.replicate (n + 1) t) = exec (move c t) (List.replicate n t) := rfl

/-- inside the critical section, as many moves as there are micro-steps left bring the thread to the release point -/
theorem exec_running (c : Config S L R) (t : Nat) (h : Handler S L R) (l : L) (rem : List (L × S → L × S))
    (hp : (c.threads t).phase = .running h l rem) :
    ∃ l', ((exec c (List.replicate rem.length t)).threads t).phase = .running h l' [] ∧
      ((exec c (List.replicate rem.length t)).threads t).todo = (c.threads t).todo ∧
      (exec c (List.replicate rem.length t)).lock = c.lock := by
  induction rem generalizing c l with
  | nil => exact ⟨l, hp, rfl, rfl⟩
  | cons f fs ih =>
    rw [List.length_cons, exec_replicate_succ]
    obtain ⟨m1, m2, m3⟩ := move_running_cons c t h l f fs hp
    obtain ⟨l', h1, h2, h3⟩ := ih (move c t) _ m2
    exact ⟨l', h1, by rw [h2, m3], by rw [h3, m1]⟩

/-- with the lock free, an idle thread serves its next request completely in `steps.length + 4` moves of its own -/
theorem exec_serve_one (c : Config S L R) (t : Nat) (h : Handler S L R) (rest : List (Handler S L R))
    (hlock : c.lock = none) (hp : (c.threads t).phase = .idle) (htodo : (c.threads t).todo = h :: rest) :
    (exec c ([t, t] ++ (List.replicate h.steps.length t ++ [t, t]))).lock = none ∧
    ((exec c ([t, t] ++ (List.replicate h.steps.length t ++ [t, t]))).threads t).phase = .idle ∧
    ((exec c ([t, t] ++ (List.replicate h.steps.length t ++ [t, t]))).threads t).todo = rest := by
  obtain ⟨a1, a2, a3⟩ := move_idle_cons c t h rest hp htodo
  obtain ⟨b1, b2, b3⟩ := move_arrived_free (move c t) t h a2 (by rw [a1, hlock])
  obtain ⟨l', c1, c2, c3⟩ := exec_running (move (move c t) t) t h h.pre h.steps b2
  obtain ⟨d1, d2, d3⟩ := move_running_nil _ t h l' c1
  obtain ⟨e1, e2, e3⟩ := move_responding _ t h l' d2
  rw [exec_append, exec_append]
  exact ⟨e1.trans d1, e2, e3.trans (d3.trans (c2.trans (b3.trans a3)))⟩

/-- … and all its requests in some number of moves of its own -/
theorem exec_serve_all (c : Config S L R) (t : Nat) (hlock : c.lock = none) (hp : (c.threads t).phase = .idle) :
    ∃ n, (exec c (List.replicate n t)).lock = none ∧ ((exec c (List.replicate n t)).threads t).phase = .idle ∧
      ((exec c (List.replicate n t)).threads t).todo = [] := by
  generalize htodo : (c.threads t).todo = todo
  induction todo generalizing c with
  | nil => exact ⟨0, hlock, hp, htodo⟩
  | cons h rest ih =>
    obtain ⟨s1, s2, s3⟩ := exec_serve_one c t h rest hlock hp htodo
    obtain ⟨n, r1, r2, r3⟩ := ih _ s1 s2 s3
    refine ⟨(h.steps.length + 4) + n, ?_⟩
    have hs : List.replicate ((h.steps.length + 4) + n) t =
        ([t, t] ++ (List.replicate h.steps.length t ++ [t, t])) ++ List.replicate n t := by
      rw [show [t, t] = List.replicate 2 t from rfl, List.replicate_append_replicate,
        List.replicate_append_replicate, List.replicate_append_replicate]
      congr 1
      omega
    rw [hs, exec_append]
    exact ⟨r1, r2, r3⟩

/-- serving the clients `0, …, n-1` one after the other -/
theorem exists_serial_schedule (s0 : S) (prog : Nat → List (Handler S L R)) (n : Nat) :
    ∃ sched, (∀ t ∈ sched, t < n) ∧ (exec (initial s0 prog) sched).lock = none ∧
      ∀ t, t < n → ((exec (initial s0 prog) sched).threads t).todo = [] ∧
        ((exec (initial s0 prog) sched).threads t).phase = .idle := by
  induction n with
  | zero => exact ⟨[], by simp, rfl, by omega⟩
  | succ n ih =>
    obtain ⟨sched, hlt, hlock, hdone⟩ := ih
    have hn : (exec (initial s0 prog) sched).threads n = (initial s0 prog).threads n :=
      exec_threads_not_scheduled _ _ _ (fun hm => Nat.lt_irrefl _ (hlt n hm))
    obtain ⟨k, r1, r2, r3⟩ := exec_serve_all (exec (initial s0 prog) sched) n hlock (by rw [hn]; rfl)
    refine ⟨sched ++ List.replicate k n, ?_, ?_, ?_⟩
    · intro t ht
      rcases List.mem_append.1 ht with h | h
      · exact Nat.lt_succ_of_lt (hlt t h)
      · rw [(List.mem_replicate.1 h).2]; exact Nat.lt_succ_self n
    · rw [exec_append]; exact r1
    · intro t ht
      rw [exec_append]
      by_cases e : t = n
      · subst e; exact ⟨r3, r2⟩
      · rw [exec_threads_not_scheduled _ _ _ (fun hm => e (List.mem_replicate.1 hm).2)]
        exact hdone t (by omega)

/-- **`Quiescent` is satisfiable for every finite set of clients**: there is a schedule that lets everybody finish -/
theorem exists_quiescent_schedule (s0 : S) (prog : Nat → List (Handler S L R)) (n : Nat)
    (hempty : ∀ t, n ≤ t → prog t = []) : ∃ sched, Quiescent (exec (initial s0 prog) sched) := by
  obtain ⟨sched, _, _, hdone⟩ := exists_serial_schedule s0 prog n
  refine ⟨sched, quiescent_of_bounded s0 prog sched n hempty ?_⟩
  intro t ht
  obtain ⟨h1, h2⟩ := hdone t ht
  exact ⟨h1, by rw [h2]; exact True.intro⟩

end Crem.Locking
