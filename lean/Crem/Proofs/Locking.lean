import Crem.Model.Locking
/-!
The invariant behind `mutex_serialises` (property C16) and its preservation by every micro-step.
-/
namespace Crem.Locking

variable {S L R : Type}

@[simp] theorem upd_same {α : Type} (f : Nat → α) (t : Nat) (x : α) : upd f t x t = x := by simp [upd]

theorem upd_other {α : Type} (f : Nat → α) (t t' : Nat) (x : α) (h : t' ≠ t) : upd f t x t' = f t' := by
  simp [upd, h]

theorem serial_append (s0 : S) (xs ys : List (Nat × Handler S L R)) :
    serial s0 (xs ++ ys) = serial (serial s0 xs) ys := by
  induction xs generalizing s0 with
  | nil => rfl
  | cons x xs ih => cases x; simp only [List.cons_append, serial]; exact ih _

theorem serialResps_append (s0 : S) (xs ys : List (Nat × Handler S L R)) :
    serialResps s0 (xs ++ ys) = serialResps s0 xs ++ serialResps (serial s0 xs) ys := by
  induction xs generalizing s0 with
  | nil => rfl
  | cons x xs ih => cases x; simp only [List.cons_append, serialResps, serial]; rw [ih]

theorem respsOf_snoc_same (s0 : S) (pre : List (Nat × Handler S L R)) (t : Nat) (h : Handler S L R) :
    respsOf s0 (pre ++ [(t, h)]) t = respsOf s0 pre t ++ [(h.atomic (serial s0 pre)).1] := by
  simp [respsOf, serialResps_append, serialResps]

theorem respsOf_snoc_other (s0 : S) (pre : List (Nat × Handler S L R)) (t t' : Nat) (h : Handler S L R)
    (hne : t' ≠ t) : respsOf s0 (pre ++ [(t, h)]) t' = respsOf s0 pre t' := by
  have : (t == t') = false := by simp; exact fun e => hne e.symm
  simp [respsOf, serialResps_append, serialResps, this]

theorem requestsOf_snoc_same (log : List (Nat × Handler S L R)) (t : Nat) (h : Handler S L R) :
    requestsOf (log ++ [(t, h)]) t = requestsOf log t ++ [h] := by
  simp [requestsOf]

theorem requestsOf_snoc_other (log : List (Nat × Handler S L R)) (t t' : Nat) (h : Handler S L R)
    (hne : t' ≠ t) : requestsOf (log ++ [(t, h)]) t' = requestsOf log t' := by
  have : (t == t') = false := by simp; exact fun e => hne e.symm
  simp [requestsOf, this]

/-- response delivered next by a thread that has left the critical section -/
def inflight : Phase S L R → List R
  | .responding h l => [h.resp l]
  | _ => []

/-- request a thread has picked up but not yet acquired the lock for -/
def pending : Phase S L R → List (Handler S L R)
  | .arrived h => [h]
  | _ => []

/-- the requests whose critical section is over -/
def completed (c : Config S L R) : List (Nat × Handler S L R) :=
  match c.lock with
  | none => c.log
  | some _ => c.log.dropLast

structure Inv (s0 : S) (prog : Nat → List (Handler S L R)) (c : Config S L R) : Prop where
  /-- mutual exclusion: whoever is inside the critical section holds the lock (so at most one thread is inside) -/
  excl : ∀ t h l rem, (c.threads t).phase = .running h l rem → c.lock = some t
  /-- the holder is inside, its request is the last one logged, and finishing its remaining micro-steps from
  here gives what the whole handler gives from the serial state of everything logged before -/
  held : ∀ t, c.lock = some t → ∃ h l rem pre, (c.threads t).phase = .running h l rem ∧ c.log = pre ++ [(t, h)] ∧
    runSteps rem (l, c.shared) = runSteps h.steps (h.pre, serial s0 pre)
  /-- while the lock is free the shared state is the serial result of everything logged -/
  free : c.lock = none → c.shared = serial s0 c.log
  /-- every thread has received (or is about to deliver) exactly the serial responses of its completed requests -/
  outs : ∀ t, (c.threads t).out ++ inflight (c.threads t).phase = respsOf s0 (completed c) t
  /-- program order: logged requests of a thread, then the one it is waiting with, then what it has not sent yet -/
  order : ∀ t, requestsOf c.log t ++ pending (c.threads t).phase ++ (c.threads t).todo = prog t

theorem inv_initial (s0 : S) (prog : Nat → List (Handler S L R)) : Inv s0 prog (initial s0 prog) := by
  constructor
  · intro t h l rem hp; simp [initial] at hp
  · intro t hl; simp [initial] at hl
  · intro _; rfl
  · intro t; simp [initial, inflight, completed, respsOf, serialResps]
  · intro t; simp [initial, pending, requestsOf]

theorem inv_move (s0 : S) (prog : Nat → List (Handler S L R)) (c : Config S L R) (t : Nat)
    (hinv : Inv s0 prog c) : Inv s0 prog (move c t) := by
  unfold move
  simp only
  split
  · -- idle
    rename_i hph
    split
    · exact hinv
    · rename_i h rest htodo
      constructor
      · intro t' h' l rem hp
        by_cases e : t' = t
        · subst e; simp at hp
        · simp only [upd_other _ _ _ _ e] at hp; exact hinv.excl t' h' l rem hp
      · intro t' hl
        by_cases e : t' = t
        · subst e
          obtain ⟨h', l, rem, pre, hp, _⟩ := hinv.held t' hl
          rw [hph] at hp; cases hp
        · simp only [upd_other _ _ _ _ e]; exact hinv.held t' hl
      · exact hinv.free
      · intro t'
        have hold := hinv.outs t'
        simp only [completed] at hold ⊢
        by_cases e : t' = t
        · subst e
          simp only [hph, inflight] at hold
          simpa [inflight] using hold
        · simp only [upd_other _ _ _ _ e]; exact hold
      · intro t'
        by_cases e : t' = t
        · subst e
          have := hinv.order t'
          simp only [hph, pending, htodo] at this
          simpa [pending] using this
        · simp only [upd_other _ _ _ _ e]; exact hinv.order t'
  · -- arrived
    rename_i h hph
    split
    · rename_i hlock
      constructor
      · intro t' h' l rem hp
        by_cases e : t' = t
        · subst e; rfl
        · simp only [upd_other _ _ _ _ e] at hp
          have := hinv.excl t' h' l rem hp
          rw [hlock] at this; cases this
      · intro t' hl
        simp only [Option.some.injEq] at hl
        subst hl
        refine ⟨h, h.pre, h.steps, c.log, by simp, rfl, ?_⟩
        rw [hinv.free hlock]
      · intro hl; simp at hl
      · intro t'
        have hold := hinv.outs t'
        simp only [completed, hlock] at hold
        simp only [completed, List.dropLast_concat]
        by_cases e : t' = t
        · subst e
          simp only [hph, inflight] at hold
          simpa [inflight] using hold
        · simp only [upd_other _ _ _ _ e]; exact hold
      · intro t'
        by_cases e : t' = t
        · subst e
          have := hinv.order t'
          simp only [hph, pending] at this
          simp only [upd_same, pending, requestsOf_snoc_same]
          simpa using this
        · simp only [upd_other _ _ _ _ e, requestsOf_snoc_other _ _ _ _ e]; exact hinv.order t'
    · exact hinv
  · -- running, a micro-step left
    rename_i h l f fs hph
    have hlock := hinv.excl t h l (f :: fs) hph
    obtain ⟨h', l', rem', pre, hp', hlog, hrun⟩ := hinv.held t hlock
    rw [hph] at hp'
    cases hp'
    constructor
    · intro t' h'' l'' rem'' hp
      by_cases e : t' = t
      · subst e; exact hlock
      · simp only [upd_other _ _ _ _ e] at hp; exact hinv.excl t' h'' l'' rem'' hp
    · intro t' hl
      have e : t' = t := by rw [hlock] at hl; cases hl; rfl
      subst e
      exact ⟨h, (f (l, c.shared)).1, fs, pre, by simp, hlog, by simpa [runSteps] using hrun⟩
    · intro hl; rw [hlock] at hl; cases hl
    · intro t'
      have hold := hinv.outs t'
      simp only [completed] at hold ⊢
      by_cases e : t' = t
      · subst e
        simp only [hph, inflight] at hold
        simpa [inflight] using hold
      · simp only [upd_other _ _ _ _ e]; exact hold
    · intro t'
      by_cases e : t' = t
      · subst e
        have := hinv.order t'
        simp only [hph, pending] at this
        simpa [pending] using this
      · simp only [upd_other _ _ _ _ e]; exact hinv.order t'
  · -- running, critical section over: release
    rename_i h l hph
    have hlock := hinv.excl t h l [] hph
    obtain ⟨h', l', rem', pre, hp', hlog, hrun⟩ := hinv.held t hlock
    rw [hph] at hp'
    cases hp'
    simp only [runSteps] at hrun
    constructor
    · intro t' h'' l'' rem'' hp
      by_cases e : t' = t
      · subst e; simp at hp
      · simp only [upd_other _ _ _ _ e] at hp
        have := hinv.excl t' h'' l'' rem'' hp
        rw [hlock] at this; cases this; exact absurd rfl e
    · intro t' hl; simp at hl
    · intro _
      show c.shared = serial s0 c.log
      rw [hlog, serial_append]
      simp only [serial, Handler.atomic]
      rw [← hrun]
    · intro t'
      have hold := hinv.outs t'
      simp only [completed, hlock, hlog, List.dropLast_concat] at hold
      simp only [completed, hlog]
      by_cases e : t' = t
      · subst e
        simp only [hph, inflight, List.append_nil] at hold
        simp only [upd_same, inflight, respsOf_snoc_same, hold, Handler.atomic]
        rw [← hrun]
      · simp only [upd_other _ _ _ _ e, respsOf_snoc_other _ _ _ _ _ e]
        exact hold
    · intro t'
      by_cases e : t' = t
      · subst e
        have := hinv.order t'
        simp only [hph, pending] at this
        simpa [pending] using this
      · simp only [upd_other _ _ _ _ e]; exact hinv.order t'
  · -- responding: deliver
    rename_i h l hph
    constructor
    · intro t' h'' l'' rem'' hp
      by_cases e : t' = t
      · subst e; simp at hp
      · simp only [upd_other _ _ _ _ e] at hp; exact hinv.excl t' h'' l'' rem'' hp
    · intro t' hl
      by_cases e : t' = t
      · subst e
        obtain ⟨h', l', rem, pre, hp, _⟩ := hinv.held t' hl
        rw [hph] at hp; cases hp
      · simp only [upd_other _ _ _ _ e]; exact hinv.held t' hl
    · exact hinv.free
    · intro t'
      have hold := hinv.outs t'
      simp only [completed] at hold ⊢
      by_cases e : t' = t
      · subst e
        simp only [hph, inflight] at hold
        simpa [inflight] using hold
      · simp only [upd_other _ _ _ _ e]; exact hold
    · intro t'
      by_cases e : t' = t
      · subst e
        have := hinv.order t'
        simp only [hph, pending] at this
        simpa [pending] using this
      · simp only [upd_other _ _ _ _ e]; exact hinv.order t'

theorem inv_exec (s0 : S) (prog : Nat → List (Handler S L R)) (c : Config S L R) (sched : List Nat)
    (hinv : Inv s0 prog c) : Inv s0 prog (exec c sched) := by
  induction sched generalizing c with
  | nil => exact hinv
  | cons t ts ih => exact ih (move c t) (inv_move s0 prog c t hinv)

end Crem.Locking
