import Crem.Model.Engine
import Crem.Proofs.BoolArchive
/-!
Helper lemmas about the engine spec (`Crem/Model/Engine.lean`), used by `Properties/C14.lean`
and `Properties/C15.lean`.
-/
namespace Crem.Engine

/-! ## every handler either answers 200 or leaves the state alone; every answer is documented -/

/-- what every handler guarantees about its result, whatever the variant -/
def Good (s : State) (x : Response × State) : Prop :=
  (x.1.status = 200 ∨ (x.1 = err 400 ∨ x.1 = err 404 ∨ x.1 = err 405 ∨ x.1 = err 415) ∧ x.2 = s)

theorem good_err400 (s : State) : Good s (err 400, s) := by simp [Good]
theorem good_err404 (s : State) : Good s (err 404, s) := by simp [Good]
theorem good_err405 (s : State) : Good s (err 405, s) := by simp [Good]
theorem good_err415 (s : State) : Good s (err 415, s) := by simp [Good]
theorem good_ok (s s' : State) (b : Body) : Good s (ok b, s') := by simp [Good, ok]

theorem postScenario_good (W : World) (s : State) (r : Request) : Good s (postScenario Quirks.spec W s r) := by
  unfold postScenario
  split
  · exact good_err405 s
  · split
    · exact good_ok _ _ _
    · simp [Quirks.spec]; exact good_err400 s
    · exact good_err400 s

theorem getScenario_good (q : Quirks) (s : State) : Good s (getScenario q s) := by
  unfold getScenario
  split
  · exact good_err404 s
  · exact good_ok _ _ _

theorem postSolutions_good (q : Quirks) (W : World) (s : State) (r : Request) : Good s (postSolutions q W s r) := by
  unfold postSolutions
  split
  · exact good_err405 s
  · split
    · exact good_err415 s
    · split
      · split
        · split <;> exact good_ok _ _ _
        · exact good_err400 s
      · exact good_err400 s

theorem getSolutions_good (q : Quirks) (s : State) : Good s (getSolutions q s) := by
  unfold getSolutions
  split
  · exact good_err404 s
  · split
    · exact good_err404 s
    · exact good_ok _ _ _

theorem getSolution_good (s : State) (l : String) : Good s (getSolution s l) := by
  unfold getSolution
  split
  · exact good_err404 s
  · split
    · exact good_err404 s
    · split
      · exact good_ok _ _ _
      · exact good_err404 s

theorem getModel_good (s : State) : Good s (getModel s) := by
  unfold getModel
  split
  · exact good_err404 s
  · exact good_ok _ _ _

theorem patchModel_good (W : World) (s : State) (r : Request) : Good s (patchModel Quirks.spec W s r) := by
  unfold patchModel
  split
  · split
    · exact good_err415 s
    · split
      · simp only [Quirks.spec, Bool.false_eq_true, ↓reduceIte]
        split
        · exact good_err400 s
        · split <;> exact good_ok _ _ _
      · exact good_err400 s
  · exact good_err404 s

theorem getActive_good (s : State) : Good s (getActive s) := by
  unfold getActive
  split
  · exact good_err404 s
  · exact good_ok _ _ _

theorem putActive_good (q : Quirks) (W : World) (s : State) (r : Request) : Good s (putActive q W s r) := by
  unfold putActive
  split
  · split
    · exact good_err415 s
    · split
      · split
        · exact good_ok _ _ _
        · exact good_err400 s
      · exact good_err400 s
  · exact good_err404 s

theorem getApplicable_good (s : State) : Good s (getApplicable s) := by
  unfold getApplicable
  split
  · exact good_err404 s
  · exact good_ok _ _ _

theorem getSub_good (s : State) (id : String) : Good s (getSub s id) := by
  unfold getSub
  split
  · exact good_err404 s
  · split
    · exact good_err404 s
    · split
      · exact good_ok _ _ _
      · exact good_err404 s

theorem putSub_good (W : World) (s : State) (r : Request) (id : String) : Good s (putSub Quirks.spec W s r id) := by
  unfold putSub
  split
  · split
    · exact good_err404 s
    · split
      · exact good_err404 s
      · split
        · split
          · exact good_err400 s
          · split
            · exact good_err400 s
            · simp [Quirks.spec]; exact good_ok _ _ _
        · exact good_err400 s
  · exact good_err404 s

theorem step_good (W : World) (s : State) (r : Request) : Good s (step Quirks.spec W s r) := by
  unfold step
  split
  · exact good_err404 s
  · split
    · exact good_ok _ _ _
    · exact good_err405 s
  · split
    · exact postScenario_good W s r
    · exact getScenario_good _ s
    · exact good_err405 s
  · split
    · exact postSolutions_good _ W s r
    · exact getSolutions_good _ s
    · exact good_err405 s
  · split
    · exact getSolution_good s _
    · exact good_err405 s
  · split
    · exact getModel_good s
    · exact patchModel_good W s r
    · exact good_err405 s
  · split
    · exact putActive_good _ W s r
    · exact getActive_good s
    · exact good_err405 s
  · split
    · exact getApplicable_good s
    · exact good_err405 s
  · split
    · exact getSub_good s _
    · exact putSub_good W s r _
    · exact good_err405 s


/-! ## reads change nothing (every variant) -/

theorem step_get (q : Quirks) (W : World) (s : State) (r : Request) (h : r.method = .get) :
    (step q W s r).2 = s := by
  unfold step
  rw [h]
  split
  · rfl
  · split <;> rfl
  · simp only [getScenario]; split <;> rfl
  · simp only [getSolutions]; split
    · rfl
    · split <;> rfl
  · simp only [getSolution]; split
    · rfl
    · split
      · rfl
      · split <;> rfl
  · simp only [getModel]; split <;> rfl
  · simp only [getActive]; split <;> rfl
  · simp only [getApplicable]; split <;> rfl
  · simp only [getSub]; split
    · rfl
    · split
      · rfl
      · split <;> rfl

/-! ## attribute lists -/

/-- the names of an attribute list, in order -/
def names (as : Attrs) : List String := as.map (·.name)

@[simp] theorem present_spec (as : Attrs) (n : String) : present Quirks.spec as n = hasName as n := by
  simp [present, Quirks.spec]

theorem hasName_iff {as : Attrs} {n : String} : hasName as n = true ↔ n ∈ names as := by
  simp [hasName, names]

theorem hasName_false_iff {as : Attrs} {n : String} : hasName as n = false ↔ n ∉ names as := by
  rw [← hasName_iff]; simp

theorem valueOf_some_mem {as : Attrs} {n : String} {v : Tok} (h : valueOf as n = some v) :
    (⟨n, v⟩ : Attr) ∈ as := by
  induction as with
  | nil => simp [valueOf] at h
  | cons a rest ih =>
    simp only [valueOf] at h
    split at h
    · rename_i hn
      cases h
      cases a
      simp only at hn
      subst hn
      simp
    · exact List.mem_cons_of_mem _ (ih h)

theorem valueOf_none_iff {as : Attrs} {n : String} : valueOf as n = none ↔ n ∉ names as := by
  induction as with
  | nil => simp [valueOf, names]
  | cons a rest ih =>
    simp only [valueOf, names, List.map_cons, List.mem_cons, not_or]
    split
    · rename_i hn; simp [hn]
    · rename_i hn
      rw [ih]
      simp only [names]
      constructor
      · intro h; exact ⟨fun e => hn e.symm, h⟩
      · intro h; exact h.2

/-- in a list without repeated names `Value(name)` is THE entry of that name -/
theorem valueOf_eq_some_iff {as : Attrs} {n : String} {v : Tok} (hnd : (names as).Nodup) :
    valueOf as n = some v ↔ (⟨n, v⟩ : Attr) ∈ as := by
  constructor
  · exact valueOf_some_mem
  · intro hm
    induction as with
    | nil => simp at hm
    | cons a rest ih =>
      simp only [names, List.map_cons, List.nodup_cons] at hnd
      simp only [valueOf]
      rcases List.mem_cons.mp hm with e | hm'
      · subst e; simp
      · have hne : a.name ≠ n := by
          intro e
          apply hnd.1
          rw [e]
          exact List.mem_map.mpr ⟨_, hm', rfl⟩
        simp only [hne, ↓reduceIte]
        exact ih hnd.2 hm'

theorem has_mem {as : Attrs} {n : String} (h : has as n = true) : ∃ a ∈ as, a.name = n := by
  unfold has at h
  split at h
  · exact ⟨_, valueOf_some_mem (by assumption), rfl⟩
  · simp at h

@[simp] theorem names_replaceAll (as : Attrs) (n : String) (v : Tok) : names (replaceAll as n v) = names as := by
  simp only [names, replaceAll, List.map_map]
  apply List.map_congr_left
  intro a _
  simp only [Function.comp]
  split <;> rfl

theorem valueOf_replaceAll_same {as : Attrs} {n : String} (v : Tok) (h : n ∈ names as) :
    valueOf (replaceAll as n v) n = some v := by
  induction as with
  | nil => simp [names] at h
  | cons a rest ih =>
    simp only [replaceAll, List.map_cons, valueOf]
    by_cases hn : a.name = n
    · simp [hn]
    · simp only [hn, ↓reduceIte]
      simp only [names, List.map_cons, List.mem_cons] at h
      rcases h with e | h
      · exact absurd e.symm hn
      · exact ih h

theorem valueOf_replaceAll_other (as : Attrs) {n n' : String} (v : Tok) (hne : n' ≠ n) :
    valueOf (replaceAll as n v) n' = valueOf as n' := by
  induction as with
  | nil => rfl
  | cons a rest ih =>
    simp only [replaceAll, List.map_cons, valueOf] at ih ⊢
    by_cases hn : a.name = n
    · have : a.name ≠ n' := by rw [hn]; exact fun e => hne e.symm
      simp [hn, hne.symm, ih]
    · simp only [hn, ↓reduceIte]
      split
      · rfl
      · exact ih

theorem valueOf_append_single_same {as : Attrs} {n : String} (v : Tok) (h : n ∉ names as) :
    valueOf (as ++ [⟨n, v⟩]) n = some v := by
  induction as with
  | nil => simp [valueOf]
  | cons a rest ih =>
    simp only [names, List.map_cons, List.mem_cons, not_or] at h
    simp only [List.cons_append, valueOf]
    have : a.name ≠ n := fun e => h.1 e.symm
    simp only [this, ↓reduceIte]
    exact ih h.2

theorem valueOf_append_single_other (as : Attrs) {n n' : String} (v : Tok) (hne : n' ≠ n) :
    valueOf (as ++ [⟨n, v⟩]) n' = valueOf as n' := by
  induction as with
  | nil => simp [valueOf, hne.symm]
  | cons a rest ih =>
    simp only [List.cons_append, valueOf]
    split
    · rfl
    · exact ih

/-- `ReplaceAttribute(n, v)` in the demanded behaviour: afterwards `Value(n) = v` … -/
theorem valueOf_replaceAttr_same (as : Attrs) (n : String) (v : Tok) :
    valueOf (replaceAttr Quirks.spec as n v) n = some v := by
  unfold replaceAttr
  rw [present_spec]
  split
  · rename_i h; exact valueOf_replaceAll_same v (hasName_iff.mp h)
  · rename_i h
    exact valueOf_append_single_same v (hasName_false_iff.mp (by simpa using h))

/-- … the values of all other names are untouched … -/
theorem valueOf_replaceAttr_other (as : Attrs) {n n' : String} (v : Tok) (hne : n' ≠ n) :
    valueOf (replaceAttr Quirks.spec as n v) n' = valueOf as n' := by
  unfold replaceAttr
  split
  · exact valueOf_replaceAll_other as v hne
  · exact valueOf_append_single_other as v hne

/-- … and no name is listed twice if none was. -/
theorem nodup_replaceAttr {as : Attrs} (n : String) (v : Tok) (h : (names as).Nodup) :
    (names (replaceAttr Quirks.spec as n v)).Nodup := by
  unfold replaceAttr
  rw [present_spec]
  split
  · rw [names_replaceAll]; exact h
  · rename_i hn
    have hn' : n ∉ names as := hasName_false_iff.mp (by simpa using hn)
    simp only [names, List.map_append, List.map_cons, List.map_nil]
    rw [List.nodup_append]
    refine ⟨h, by simp, ?_⟩
    intro a ha b hb
    simp only [List.mem_singleton] at hb
    subst hb
    exact fun e => hn' (e ▸ ha)

theorem names_replaceAttr_mem {as : Attrs} {n n' : String} (v : Tok) (h : n' ∈ names as) :
    n' ∈ names (replaceAttr Quirks.spec as n v) := by
  unfold replaceAttr
  split
  · rw [names_replaceAll]; exact h
  · simp only [names, List.map_append, List.mem_append]; exact Or.inl h

theorem lastIndexOf_spec (as : Attrs) (n : String) (i : Nat) (acc : Option Nat) (k : Nat)
    (h : lastIndexOf as n i acc = some k) :
    acc = some k ∨ ∃ j, ∃ hj : j < as.length, k = i + j ∧ as[j].name = n := by
  induction as generalizing i acc with
  | nil => simp [lastIndexOf] at h; exact Or.inl h
  | cons a rest ih =>
    simp only [lastIndexOf] at h
    rcases ih (i + 1) _ h with h' | ⟨j, hj, hk, hn⟩
    · split at h'
      · rename_i hname
        right
        refine ⟨0, by simp, ?_, by simpa using hname⟩
        simp at h'; omega
      · exact Or.inl h'
    · right
      exact ⟨j + 1, by simp; omega, by omega, by simpa using hn⟩

theorem lastIndexOf_isSome (as : Attrs) (n : String) (i : Nat) (acc : Option Nat)
    (h : acc.isSome = true ∨ n ∈ names as) : (lastIndexOf as n i acc).isSome = true := by
  induction as generalizing i acc with
  | nil =>
    simp only [lastIndexOf]
    rcases h with h | h
    · exact h
    · simp [names] at h
  | cons a rest ih =>
    simp only [lastIndexOf]
    apply ih
    by_cases hn : a.name = n
    · left; simp [hn]
    · simp only [hn, ↓reduceIte]
      rcases h with h | h
      · exact Or.inl h
      · right
        simp only [names, List.map_cons, List.mem_cons] at h
        rcases h with e | h
        · exact absurd e.symm hn
        · exact h

theorem valueOf_eraseIdx_other (as : Attrs) (j : Nat) (hj : j < as.length) {n' : String}
    (hne : as[j].name ≠ n') : valueOf (as.eraseIdx j) n' = valueOf as n' := by
  induction as generalizing j with
  | nil => simp at hj
  | cons a rest ih =>
    cases j with
    | zero =>
      simp only [List.getElem_cons_zero] at hne
      simp [List.eraseIdx, valueOf, hne]
    | succ j =>
      simp only [List.eraseIdx, valueOf]
      split
      · rfl
      · exact ih j (by simpa using hj) (by simpa using hne)

/-- `RemoveAttribute(n)` in the demanded behaviour, on a list without repeated names: the name is gone, the values of
all other names are untouched, no name is listed twice -/
theorem removeAttr_spec {as : Attrs} (n : String) (hnd : (names as).Nodup) :
    valueOf (removeAttr Quirks.spec as n) n = none ∧
    (∀ n', n' ≠ n → valueOf (removeAttr Quirks.spec as n) n' = valueOf as n') ∧
    (names (removeAttr Quirks.spec as n)).Nodup := by
  unfold removeAttr
  rw [present_spec]
  split
  · rename_i hp
    have hsome := lastIndexOf_isSome as n 0 none (Or.inr (hasName_iff.mp hp))
    split
    · rename_i i hi
      rcases lastIndexOf_spec as n 0 none i hi with h | ⟨j, hj, hk, hname⟩
      · simp at h
      · have hij : i = j := by omega
        subst hij
        refine ⟨?_, ?_, ?_⟩
        · rw [valueOf_none_iff]
          intro hmem
          obtain ⟨a, ha, han⟩ := List.mem_map.mp hmem
          rw [List.mem_eraseIdx_iff_getElem] at ha
          obtain ⟨p, hp', hpi, hpa⟩ := ha
          apply hpi
          have h1 : (names as)[p]'(by simpa [names] using hp') = (names as)[i]'(by simpa [names] using hj) := by
            simp only [names, List.getElem_map]
            rw [hpa, han, hname]
          exact (List.getElem_inj hnd).mp h1
        · intro n' hne
          exact valueOf_eraseIdx_other as i hj (by rw [hname]; exact fun e => hne e.symm)
        · exact List.Nodup.sublist (List.Sublist.map _ (List.eraseIdx_sublist as i)) hnd
    · rename_i hnone
      rw [hnone] at hsome
      simp at hsome
  · rename_i hp
    refine ⟨?_, fun _ _ => rfl, hnd⟩
    rw [valueOf_none_iff]
    exact hasName_false_iff.mp (by simpa using hp)

/-- `Join` in the demanded behaviour keeps names unrepeated and keeps every name that was there -/
theorem join_spec {as : Attrs} (inc : Attrs) (hnd : (names as).Nodup) :
    (names (join Quirks.spec as inc)).Nodup ∧ ∀ n, n ∈ names as → n ∈ names (join Quirks.spec as inc) := by
  have hj : join Quirks.spec as inc = inc.foldl (fun acc e => replaceAttr Quirks.spec acc e.name e.val) as := by
    simp [join, Quirks.spec]
  rw [hj]
  clear hj
  induction inc generalizing as with
  | nil => exact ⟨hnd, fun _ h => h⟩
  | cons e es ih =>
    simp only [List.foldl_cons]
    obtain ⟨h1, h2⟩ := ih (nodup_replaceAttr e.name e.val hnd)
    exact ⟨h1, fun n hn => h2 n (names_replaceAttr_mem e.val hn)⟩

/-- the attribute names `deriveExtraModelAttributes` manages, given whether a solution table is loaded: `Encoding`,
`ValidAgainstScenario`, `ValidationErrors` always, `ParetoFrontMember` while a table is loaded (before that an entry of
that name is an ordinary posted attribute) -/
def managed (tbl : Option SolTable) (n : String) : Bool :=
  n == "Encoding" || n == "ValidAgainstScenario" || n == "ValidationErrors" || (tbl.isSome && n == "ParetoFrontMember")

/-- what `deriveExtraModelAttributes` guarantees about the model's attributes in the demanded behaviour: no name is
listed twice, and the managed names carry exactly what the model's own action set (and the loaded table) says:
ONE `Encoding` entry, ONE `ValidAgainstScenario` entry, ONE `ParetoFrontMember` entry when a table is loaded, and a
`ValidationErrors` entry exactly when the set is invalid -/
def Shows (W : World) (tbl : Option SolTable) (m : Mdl) : Prop :=
  (names m.attrs).Nodup ∧
  valueOf m.attrs "Encoding" = some (strTok (encodeStr m.active)) ∧
  valueOf m.attrs "ValidAgainstScenario" = some (boolTok (W.valid m.u.key m.active)) ∧
  (∀ t, tbl = some t → valueOf m.attrs "ParetoFrontMember" = some (boolTok (paretoHas t (encodeStr m.active)))) ∧
  valueOf m.attrs "ValidationErrors" = (if W.valid m.u.key m.active then none else some veTok)

/-- the managed part of the attribute list is a function of the action set, the scenario and the table -/
def managedValue (W : World) (tbl : Option SolTable) (m : Mdl) (n : String) : Option Tok :=
  if n = "Encoding" then some (strTok (encodeStr m.active))
  else if n = "ValidAgainstScenario" then some (boolTok (W.valid m.u.key m.active))
  else if n = "ValidationErrors" then (if W.valid m.u.key m.active then none else some veTok)
  else match tbl with
    | some t => some (boolTok (paretoHas t (encodeStr m.active)))
    | none => none

theorem shows_managed {W : World} {tbl : Option SolTable} {m : Mdl} (h : Shows W tbl m) {n : String}
    (hm : managed tbl n = true) : valueOf m.attrs n = managedValue W tbl m n := by
  obtain ⟨_, he, hv, hp, hve⟩ := h
  unfold managedValue
  by_cases h1 : n = "Encoding"
  · subst h1; simpa using he
  by_cases h2 : n = "ValidAgainstScenario"
  · subst h2; simpa using hv
  by_cases h3 : n = "ValidationErrors"
  · subst h3; simpa using hve
  simp only [h1, h2, h3, ↓reduceIte]
  have hm' : tbl.isSome = true ∧ n = "ParetoFrontMember" := by
    simpa [managed, h1, h2, h3] using hm
  obtain ⟨ht, hn⟩ := hm'
  subst hn
  cases tbl with
  | none => simp at ht
  | some t => exact hp t rfl

theorem derive_active (q : Quirks) (W : World) (tbl : Option SolTable) (m : Mdl) : (derive q W tbl m).active = m.active := by
  unfold derive; rfl

theorem derive_u (q : Quirks) (W : World) (tbl : Option SolTable) (m : Mdl) : (derive q W tbl m).u = m.u := by
  unfold derive; rfl

theorem derive_id (q : Quirks) (W : World) (tbl : Option SolTable) (m : Mdl) : (derive q W tbl m).id = m.id := by
  unfold derive; rfl

theorem derive_shows (W : World) (tbl : Option SolTable) (m : Mdl) (hnd : (names m.attrs).Nodup) :
    Shows W tbl (derive Quirks.spec W tbl m) := by
  have hne1 : "Encoding" ≠ "ParetoFrontMember" := by decide
  have hne2 : "Encoding" ≠ "ValidAgainstScenario" := by decide
  have hne3 : "Encoding" ≠ "ValidationErrors" := by decide
  have hne4 : "ParetoFrontMember" ≠ "ValidAgainstScenario" := by decide
  have hne5 : "ParetoFrontMember" ≠ "ValidationErrors" := by decide
  have hne6 : "ValidAgainstScenario" ≠ "ValidationErrors" := by decide
  -- the four stages
  let e := encodeStr m.active
  let a1 := replaceAttr Quirks.spec m.attrs "Encoding" (strTok e)
  let a2 := match tbl with
    | none => a1
    | some t => replaceAttr Quirks.spec a1 "ParetoFrontMember" (boolTok (paretoHas t e))
  let v := W.valid m.u.key m.active
  let a3 := replaceAttr Quirks.spec a2 "ValidAgainstScenario" (boolTok v)
  let a4 := if v then removeAttr Quirks.spec a3 "ValidationErrors" else replaceAttr Quirks.spec a3 "ValidationErrors" veTok
  have hd : derive Quirks.spec W tbl m = { m with attrs := a4 } := rfl
  have n1 : (names a1).Nodup := nodup_replaceAttr _ _ hnd
  have e1 : valueOf a1 "Encoding" = some (strTok e) := valueOf_replaceAttr_same _ _ _
  have n2 : (names a2).Nodup := by
    cases tbl with
    | none => exact n1
    | some t => exact nodup_replaceAttr _ _ n1
  have e2 : valueOf a2 "Encoding" = some (strTok e) := by
    cases tbl with
    | none => exact e1
    | some t => exact (valueOf_replaceAttr_other a1 _ hne1).trans e1
  have p2 : ∀ t, tbl = some t → valueOf a2 "ParetoFrontMember" = some (boolTok (paretoHas t e)) := by
    intro t ht
    subst ht
    exact valueOf_replaceAttr_same _ _ _
  have n3 : (names a3).Nodup := nodup_replaceAttr _ _ n2
  have e3 : valueOf a3 "Encoding" = some (strTok e) := (valueOf_replaceAttr_other a2 _ hne2).trans e2
  have p3 : ∀ t, tbl = some t → valueOf a3 "ParetoFrontMember" = some (boolTok (paretoHas t e)) :=
    fun t ht => (valueOf_replaceAttr_other a2 _ hne4).trans (p2 t ht)
  have v3 : valueOf a3 "ValidAgainstScenario" = some (boolTok v) := valueOf_replaceAttr_same _ _ _
  rw [hd]
  show (names a4).Nodup ∧ valueOf a4 "Encoding" = some (strTok e) ∧ valueOf a4 "ValidAgainstScenario" = some (boolTok v) ∧
    (∀ t, tbl = some t → valueOf a4 "ParetoFrontMember" = some (boolTok (paretoHas t e))) ∧
    valueOf a4 "ValidationErrors" = (if v then none else some veTok)
  rcases Bool.eq_false_or_eq_true v with hv | hv
  · obtain ⟨r1, r2, r3⟩ := removeAttr_spec "ValidationErrors" n3
    have ha4 : a4 = removeAttr Quirks.spec a3 "ValidationErrors" := by simp only [a4, hv, ↓reduceIte]
    rw [ha4]
    refine ⟨r3, (r2 _ hne3).trans e3, (r2 _ hne6).trans v3, fun t ht => (r2 _ hne5).trans (p3 t ht), ?_⟩
    simp only [hv, ↓reduceIte]; exact r1
  · have ha4 : a4 = replaceAttr Quirks.spec a3 "ValidationErrors" veTok := by simp [a4, hv]
    rw [ha4]
    refine ⟨nodup_replaceAttr _ _ n3, (valueOf_replaceAttr_other a3 _ hne3).trans e3,
      (valueOf_replaceAttr_other a3 _ hne6).trans v3, fun t ht => (valueOf_replaceAttr_other a3 _ hne5).trans (p3 t ht), ?_⟩
    simp only [hv, Bool.false_eq_true, ↓reduceIte]
    exact valueOf_replaceAttr_same _ _ _

/-- the membership form of `Shows` (what the earlier, weaker statement said) -/
theorem shows_mem {W : World} {tbl : Option SolTable} {m : Mdl} (h : Shows W tbl m) :
    (⟨"Encoding", strTok (encodeStr m.active)⟩ : Attr) ∈ m.attrs ∧
    (⟨"ValidAgainstScenario", boolTok (W.valid m.u.key m.active)⟩ : Attr) ∈ m.attrs ∧
    (∀ t, tbl = some t → (⟨"ParetoFrontMember", boolTok (paretoHas t (encodeStr m.active))⟩ : Attr) ∈ m.attrs) ∧
    (W.valid m.u.key m.active = false → (⟨"ValidationErrors", veTok⟩ : Attr) ∈ m.attrs) := by
  obtain ⟨_, he, hv, hp, hve⟩ := h
  refine ⟨valueOf_some_mem he, valueOf_some_mem hv, fun t ht => valueOf_some_mem (hp t ht), ?_⟩
  intro hf
  rw [hf] at hve
  exact valueOf_some_mem (by simpa using hve)


/-! ## lengths of action sets -/

theorem setWhere_length (u : Universe) (set : ActiveSet) (pu : Nat) (ty : String) (b : Bool)
    (h : set.length = u.acts.length) : (setWhere u set pu ty b).length = u.acts.length := by
  unfold setWhere
  simp [List.length_zipWith, h]

theorem applyRow_length (u : Universe) (types : List String) (set : ActiveSet) (row : Option Nat × List Bool)
    (h : set.length = u.acts.length) : (applyRow u types set row).length = u.acts.length := by
  unfold applyRow
  split
  · exact h
  · rename_i pu _
    generalize types.zip row.2 = cells
    induction cells generalizing set with
    | nil => simpa using h
    | cons c cs ih => simp only [List.foldl_cons]; exact ih _ (setWhere_length u set pu c.1 c.2 h)

theorem applyTable_length (u : Universe) (types : List String) (rows : List (Option Nat × List Bool)) (set : ActiveSet)
    (h : set.length = u.acts.length) : (applyTable u types rows set).length = u.acts.length := by
  unfold applyTable
  induction rows generalizing set with
  | nil => simpa using h
  | cons r rs ih => simp only [List.foldl_cons]; exact ih _ (applyRow_length u types set r h)

theorem applySub_length (u : Universe) (pu : Nat) (entries : List SubEntry) (set : ActiveSet)
    (h : set.length = u.acts.length) : (applySub u pu entries set).length = u.acts.length := by
  unfold applySub
  induction entries generalizing set with
  | nil => simpa using h
  | cons e es ih => simp only [List.foldl_cons]; exact ih _ (setWhere_length u set pu e.name _ h)

theorem decode_length {n : Nat} {t : List Char} {set : List Bool}
    (h : Crem.BoolArchive.decode n t = .ok set) : set.length = n := by
  unfold Crem.BoolArchive.decode at h
  simp only at h
  split at h
  · cases h
  · split at h
    · cases h
    · cases h; simp

theorem decodeEntries_lengths {n : Nat} {es : List PatchEntry} {sets : List ActiveSet}
    (h : decodeEntries n es = some sets) : ∀ set ∈ sets, set.length = n := by
  induction es generalizing sets with
  | nil => simp [decodeEntries] at h; subst h; simp
  | cons e es ih =>
    simp only [decodeEntries] at h
    split at h
    · exact ih h
    · cases h
    · split at h
      · cases h
      · rename_i set hd
        split at h
        · cases h
        · rename_i rest hrest
          cases h
          intro x hx
          rcases List.mem_cons.mp hx with rfl | hx
          · exact decode_length hd
          · exact ih hrest x hx

/-! ## the invariant of the demanded behaviour -/

/-- what holds in every state the engine can reach when it behaves as the property demands: every model read is
served from a snapshot equal to the live model, the text resources exist exactly when their parsed forms do, and the
served model's derived attributes describe its own action set (and the loaded solution table) -/
structure Inv (W : World) (s : State) : Prop where
  snap_eq : s.snap = s.live
  text_iff : s.scenText.isSome = s.live.isSome
  name_iff : s.scenName.isSome = s.live.isSome
  sol_iff : s.solText.isSome = s.table.isSome
  tbl_live : s.table.isSome = true → s.live.isSome = true
  shows : ∀ m, s.live = some m → Shows W s.table m ∧ m.active.length = m.u.acts.length

theorem inv_init (W : World) : Inv W State.init := by
  constructor <;> simp [State.init]

/-- `derive` keeps names unrepeated (whatever the action set) -/
theorem derive_nodup (W : World) (tbl : Option SolTable) (m : Mdl) (hnd : (names m.attrs).Nodup) :
    (names (derive Quirks.spec W tbl m).attrs).Nodup := (derive_shows W tbl m hnd).1

/-- folding `derive` over a non-empty list of sets ends in a derived model whose set is the last one -/
theorem foldl_derive (W : World) (tbl : Option SolTable) (sets : List ActiveSet) (m : Mdl) (last : ActiveSet)
    (hnd : (names m.attrs).Nodup) (h : sets.getLast? = some last) :
    let m' := sets.foldl (fun acc set => derive Quirks.spec W tbl { acc with active := set }) m
    Shows W tbl m' ∧ m'.active = last ∧ m'.u = m.u ∧ m'.id = m.id := by
  obtain ⟨ys, rfl⟩ := List.getLast?_eq_some_iff.mp h
  clear h
  simp only [List.foldl_append, List.foldl_cons, List.foldl_nil]
  have hfold : ∀ (ys : List ActiveSet) (m : Mdl), (names m.attrs).Nodup →
      (names (ys.foldl (fun acc set => derive Quirks.spec W tbl { acc with active := set }) m).attrs).Nodup ∧
      (ys.foldl (fun acc set => derive Quirks.spec W tbl { acc with active := set }) m).u = m.u ∧
      (ys.foldl (fun acc set => derive Quirks.spec W tbl { acc with active := set }) m).id = m.id := by
    intro ys
    induction ys with
    | nil => intro m h; exact ⟨h, rfl, rfl⟩
    | cons y ys ih =>
      intro m h
      simp only [List.foldl_cons]
      obtain ⟨h1, h2, h3⟩ := ih (derive Quirks.spec W tbl { m with active := y }) (derive_nodup W tbl _ h)
      exact ⟨h1, by rw [h2, derive_u], by rw [h3, derive_id]⟩
  obtain ⟨h1, h2, h3⟩ := hfold ys m hnd
  refine ⟨derive_shows _ _ _ h1, by simp [derive_active], ?_, ?_⟩
  · rw [derive_u]; exact h2
  · rw [derive_id]; exact h3


/-- installing a derived model as both live model and snapshot keeps the invariant (table unchanged) -/
theorem inv_install {W : World} {s : State} (h : Inv W s) (hl : s.live.isSome = true) (m' : Mdl)
    (hs : Shows W s.table m') (hlen : m'.active.length = m'.u.acts.length) :
    Inv W { s with live := some m', snap := some m' } := by
  constructor
  · rfl
  · simpa [hl] using h.text_iff
  · simpa [hl] using h.name_iff
  · exact h.sol_iff
  · intro _; rfl
  · intro m hm
    simp only [Option.some.injEq] at hm
    subst hm
    exact ⟨hs, hlen⟩

theorem inv_postScenario (W : World) (s : State) (r : Request) (h : Inv W s) :
    Inv W (postScenario Quirks.spec W s r).2 := by
  unfold postScenario
  split
  · exact h
  · split
    · rename_i name u _
      simp only [Quirks.spec, Bool.false_and, Bool.false_eq_true, ↓reduceIte]
      constructor
      · rfl
      · rfl
      · rfl
      · exact h.sol_iff
      · intro _; rfl
      · intro m hm
        simp only [Option.some.injEq] at hm
        subst hm
        refine ⟨derive_shows _ _ _ (by simp [names]), ?_⟩
        simp [freshModel, derive_active, derive_u, allInactive]
    · simp only [Quirks.spec, Bool.false_eq_true, ↓reduceIte]; exact h
    · exact h

theorem inv_postSolutions (W : World) (s : State) (r : Request) (h : Inv W s) :
    Inv W (postSolutions Quirks.spec W s r).2 := by
  unfold postSolutions
  split
  · exact h
  · split
    · exact h
    · split
      · rename_i c m hfacts hlive
        split
        · rename_i t _
          simp only [Quirks.spec, Bool.false_eq_true, ↓reduceIte]
          have hm := (h.shows m hlive).2
          have hnd := (h.shows m hlive).1.1
          constructor
          · rfl
          · simpa [hlive] using h.text_iff
          · simpa [hlive] using h.name_iff
          · rfl
          · intro _; rfl
          · intro m' hm'
            simp only [Option.some.injEq] at hm'
            subst hm'
            exact ⟨derive_shows _ _ _ hnd, by simp [derive_active, derive_u, hm]⟩
        · exact h
      · exact h

theorem inv_patchModel (W : World) (s : State) (r : Request) (h : Inv W s) :
    Inv W (patchModel Quirks.spec W s r).2 := by
  unfold patchModel
  split
  · rename_i sn m hsnap hlive
    have hm := (h.shows m hlive).2
    have hnd := (h.shows m hlive).1.1
    have hl : s.live.isSome = true := by simp [hlive]
    split
    · exact h
    · split
      · rename_i entries _
        simp only [Quirks.spec, Bool.false_eq_true, ↓reduceIte]
        have hjn := (join_spec (List.map (fun (e : PatchEntry) => ({ name := e.name, val := e.val } : Attr)) entries) hnd).1
        split
        · exact h
        · rename_i sets hsets
          split
          · exact inv_install h hl _ (derive_shows _ _ _ hjn) (by simp [derive_active, derive_u, hm])
          · rename_i hne
            cases hlast : sets.getLast? with
            | none => simp [List.getLast?_eq_none_iff] at hlast; simp [hlast] at hne
            | some last =>
              have hf := foldl_derive W s.table sets
                { m with attrs := join Quirks.spec m.attrs (List.map (fun (e : PatchEntry) => ({ name := e.name, val := e.val } : Attr)) entries) } last hjn hlast
              obtain ⟨hshow, hact, hu, _⟩ := hf
              refine inv_install h hl _ hshow ?_
              simp only [Quirks.spec] at hact hu
              rw [hact, hu]
              have := decodeEntries_lengths hsets last (List.mem_of_getLast? hlast)
              simpa using this
      · exact h
  · exact h

theorem inv_putActive (W : World) (s : State) (r : Request) (h : Inv W s) :
    Inv W (putActive Quirks.spec W s r).2 := by
  unfold putActive
  split
  · rename_i sn m hsnap hlive
    have hm := (h.shows m hlive).2
    have hnd := (h.shows m hlive).1.1
    have hl : s.live.isSome = true := by simp [hlive]
    split
    · exact h
    · split
      · split
        · exact inv_install h hl _ (derive_shows _ _ _ hnd)
            (by simp [derive_active, derive_u, applyTable_length _ _ _ _ hm])
        · exact h
      · exact h
  · exact h

theorem inv_putSub (W : World) (s : State) (r : Request) (id : String) (h : Inv W s) :
    Inv W (putSub Quirks.spec W s r id).2 := by
  unfold putSub
  split
  · rename_i sn m hsnap hlive
    have hm := (h.shows m hlive).2
    have hnd := (h.shows m hlive).1.1
    have hl : s.live.isSome = true := by simp [hlive]
    split
    · exact h
    · split
      · exact h
      · split
        · split
          · exact h
          · split
            · exact h
            · simp only [Quirks.spec, Bool.false_eq_true, ↓reduceIte]
              exact inv_install h hl _ (derive_shows _ _ _ hnd)
                (by simp [derive_active, derive_u, applySub_length _ _ _ _ hm])
        · exact h
  · exact h

/-- the invariant is preserved by every request -/
theorem inv_step (W : World) (s : State) (r : Request) (h : Inv W s) : Inv W (step Quirks.spec W s r).2 := by
  by_cases hg : r.method = .get
  · rw [step_get _ _ _ _ hg]; exact h
  · unfold step
    split
    · exact h
    · split <;> exact h
    · split
      · exact inv_postScenario W s r h
      · simp only [getScenario]; split <;> exact h
      · exact h
    · split
      · exact inv_postSolutions W s r h
      · rename_i hm; exact absurd hm hg
      · exact h
    · split
      · rename_i hm; exact absurd hm hg
      · exact h
    · split
      · rename_i hm; exact absurd hm hg
      · exact inv_patchModel W s r h
      · exact h
    · split
      · exact inv_putActive W s r h
      · rename_i hm; exact absurd hm hg
      · exact h
    · split
      · rename_i hm; exact absurd hm hg
      · exact h
    · split
      · rename_i hm; exact absurd hm hg
      · exact inv_putSub W s r _ h
      · exact h

theorem inv_exec (W : World) (s : State) (rs : List Request) (h : Inv W s) : Inv W (exec Quirks.spec W s rs) := by
  induction rs generalizing s with
  | nil => simpa [exec, run] using h
  | cons r rs ih =>
    have := ih (step Quirks.spec W s r).2 (inv_step W s r h)
    simpa [exec, run] using this


/-! ## the model representation is a function of scenario, id, action set, table and the posted attributes -/

theorem nodup_of_names_nodup {as : Attrs} (h : (names as).Nodup) : as.Nodup := by
  induction as with
  | nil => exact List.nodup_nil
  | cons a rest ih =>
    simp only [names, List.map_cons, List.nodup_cons] at h
    rw [List.nodup_cons]
    exact ⟨fun hm => h.1 (List.mem_map.mpr ⟨a, hm, rfl⟩), ih h.2⟩

/-- two models "are the same representation": same scenario, id and action set, and the same attribute entries (the
JSON document lists them in some order; the order is the order of arrival and carries no information) -/
def SameRepr (m₁ m₂ : Mdl) : Prop :=
  m₁.u = m₂.u ∧ m₁.id = m₂.id ∧ m₁.active = m₂.active ∧ m₁.attrs.Perm m₂.attrs

theorem sameRepr_of_shows {W : World} {tbl : Option SolTable} {m₁ m₂ : Mdl}
    (s₁ : Shows W tbl m₁) (s₂ : Shows W tbl m₂)
    (hu : m₁.u = m₂.u) (hid : m₁.id = m₂.id) (hact : m₁.active = m₂.active)
    (huser : (m₁.attrs.filter (fun a => !managed tbl a.name)).Perm (m₂.attrs.filter (fun a => !managed tbl a.name))) :
    SameRepr m₁ m₂ := by
  refine ⟨hu, hid, hact, ?_⟩
  rw [List.perm_ext_iff_of_nodup (nodup_of_names_nodup s₁.1) (nodup_of_names_nodup s₂.1)]
  intro a
  rcases Bool.eq_false_or_eq_true (managed tbl a.name) with hm | hm
  · have e₁ := shows_managed s₁ hm
    have e₂ := shows_managed s₂ hm
    have hmv : managedValue W tbl m₁ a.name = managedValue W tbl m₂ a.name := by
      simp only [managedValue, hu, hact]
    have ha : a = ⟨a.name, a.val⟩ := rfl
    rw [ha, ← valueOf_eq_some_iff s₁.1, ← valueOf_eq_some_iff s₂.1, e₁, e₂, hmv]
  · have h₁ : a ∈ m₁.attrs ↔ a ∈ m₁.attrs.filter (fun a => !managed tbl a.name) := by
      simp [List.mem_filter, hm]
    have h₂ : a ∈ m₂.attrs ↔ a ∈ m₂.attrs.filter (fun a => !managed tbl a.name) := by
      simp [List.mem_filter, hm]
    rw [h₁, h₂]
    exact huser.mem_iff

/-! ## what each handler does to the live model's action set -/


theorem postSolutions_active (W : World) (s : State) (r : Request) :
    (postSolutions Quirks.spec W s r).2.live.map (·.active) = s.live.map (·.active) := by
  unfold postSolutions
  simp only [Quirks.spec, Bool.false_eq_true, ↓reduceIte]
  split
  · rfl
  · split
    · rfl
    · split
      · rename_i c m hf hl
        split
        · simp [hl, derive_active]
        · rfl
      · rfl

theorem postScenario_active_ok (W : World) (s : State) (r : Request)
    (h : (postScenario Quirks.spec W s r).1.status = 200) :
    ∃ name u, r.facts = .scen (.ok name u) ∧
      (postScenario Quirks.spec W s r).2.live.map (·.active) = some (allInactive u) := by
  unfold postScenario at h ⊢
  split at h
  · simp [err] at h
  · rename_i hc
    simp only [hc, ↓reduceIte]
    split at h
    · rename_i name u hf
      refine ⟨name, u, hf, ?_⟩
      simp [Quirks.spec, freshModel, derive_active]
    · simp [Quirks.spec, err] at h
    · simp [err] at h



theorem foldl_derive_active (W : World) (tbl : Option SolTable) (sets : List ActiveSet) (m : Mdl) :
    (sets.foldl (fun acc set => derive Quirks.spec W tbl { acc with active := set }) m).active =
      sets.getLast?.getD m.active := by
  induction sets generalizing m with
  | nil => rfl
  | cons x xs ih =>
    simp only [List.foldl_cons]
    rw [ih]
    cases xs with
    | nil => simp [derive_active]
    | cons y ys => simp [List.getLast?_eq_some_getLast]

def patchActive (m : Mdl) (entries : List PatchEntry) : ActiveSet :=
  match decodeEntries m.u.acts.length entries with
  | some sets => sets.getLast?.getD m.active
  | none => m.active

theorem patchModel_active_ok (W : World) (s : State) (r : Request)
    (h : (patchModel Quirks.spec W s r).1.status = 200) :
    ∃ m entries, s.live = some m ∧ r.facts = .patch (some entries) ∧
      (patchModel Quirks.spec W s r).2.live.map (·.active) = some (patchActive m entries) := by
  unfold patchModel at h ⊢
  split at h
  · rename_i sn m hsn hl
    split at h
    · simp [err] at h
    · rename_i hc
      split at h
      · rename_i entries hf
        refine ⟨m, entries, hl, hf, ?_⟩
        simp only [Quirks.spec, Bool.false_eq_true, ↓reduceIte] at h
        simp only [hc, Quirks.spec, Bool.false_eq_true, ↓reduceIte]
        unfold patchActive
        split at h
        · simp [err] at h
        · rename_i sets hd
          simp only [hd]
          split
          · rename_i he
            have : sets = [] := by simpa using he
            subst this
            simp [derive_active]
          · simp only [Option.map_some]
            have := foldl_derive_active W s.table sets
              { m with attrs := join Quirks.spec m.attrs (List.map (fun (e : PatchEntry) => ({ name := e.name, val := e.val } : Attr)) entries) }
            simp only [Quirks.spec] at this
            rw [this]
      · simp [err] at h
  · simp [err] at h

theorem putActive_active_ok (W : World) (s : State) (r : Request)
    (h : (putActive Quirks.spec W s r).1.status = 200) :
    ∃ m c types rows, s.live = some m ∧ r.facts = .csv c ∧ classifyTable c = .ok types rows ∧
      (putActive Quirks.spec W s r).2.live.map (·.active) = some (applyTable m.u types rows m.active) := by
  unfold putActive at h ⊢
  split at h
  · rename_i sn m hsn hl
    split at h
    · simp [err] at h
    · rename_i hc
      split at h
      · rename_i c hf
        split at h
        · rename_i types rows hcl
          exact ⟨m, c, types, rows, hl, hf, hcl, by simp [hc, derive_active]⟩
        · simp [err] at h
      · simp [err] at h
  · simp [err] at h

theorem putSub_active_ok (W : World) (s : State) (r : Request) (id : String)
    (h : (putSub Quirks.spec W s r id).1.status = 200) :
    ∃ m pu entries, s.live = some m ∧ atoi? id = some pu ∧ r.facts = .sub (some entries) ∧
      subSyntaxOk entries = true ∧ subSupported m.u pu entries = true ∧
      (putSub Quirks.spec W s r id).2.live.map (·.active) = some (applySub m.u pu entries m.active) := by
  unfold putSub at h ⊢
  split at h
  · rename_i sn m hsn hl
    split at h
    · simp [err] at h
    · rename_i pu ha
      split at h
      · simp [err] at h
      · rename_i hpu
        split at h
        · rename_i entries hf
          split at h
          · simp [err] at h
          · rename_i hsy
            split at h
            · simp [err] at h
            · rename_i hsu
              refine ⟨m, pu, entries, hl, ha, hf, by simpa using hsy, by simpa using hsu, ?_⟩
              have hpu' : sn.u.pus.contains pu = true := by simpa using hpu
              have hpu'' : pu ∈ sn.u.pus := by simpa using hpu'
              simp [hpu'', hsy, hsu, Quirks.spec, derive_active]
        · simp [err] at h
  · simp [err] at h


/-! ## which handlers touch the text resources -/

theorem postSolutions_scenText (W : World) (s : State) (r : Request) :
    (postSolutions Quirks.spec W s r).2.scenText = s.scenText := by
  unfold postSolutions
  simp only [Quirks.spec, Bool.false_eq_true, ↓reduceIte]
  repeat' split
  all_goals rfl

theorem patchModel_texts (W : World) (s : State) (r : Request) :
    (patchModel Quirks.spec W s r).2.scenText = s.scenText ∧ (patchModel Quirks.spec W s r).2.solText = s.solText := by
  unfold patchModel
  simp only [Quirks.spec, Bool.false_eq_true, ↓reduceIte]
  repeat' split
  all_goals (first | exact ⟨rfl, rfl⟩ | (simp only []; exact ⟨rfl, rfl⟩))

theorem putActive_texts (q : Quirks) (W : World) (s : State) (r : Request) :
    (putActive q W s r).2.scenText = s.scenText ∧ (putActive q W s r).2.solText = s.solText := by
  unfold putActive
  repeat' split
  all_goals (first | exact ⟨rfl, rfl⟩ | (simp only []; exact ⟨rfl, rfl⟩))

theorem putSub_texts (W : World) (s : State) (r : Request) (id : String) :
    (putSub Quirks.spec W s r id).2.scenText = s.scenText ∧ (putSub Quirks.spec W s r id).2.solText = s.solText := by
  unfold putSub
  simp only [Quirks.spec, Bool.false_eq_true, ↓reduceIte]
  repeat' split
  all_goals (first | exact ⟨rfl, rfl⟩ | (simp only []; exact ⟨rfl, rfl⟩))

theorem postScenario_solText (W : World) (s : State) (r : Request) :
    (postScenario Quirks.spec W s r).2.solText = s.solText := by
  unfold postScenario
  simp only [Quirks.spec, Bool.false_eq_true, ↓reduceIte, Bool.false_and]
  repeat' split
  all_goals (first | rfl | (simp only []; rfl))

/-- POST /scenario in the demanded behaviour: 200 exactly when the text is stored -/
theorem postScenario_scenText (W : World) (s : State) (r : Request) :
    (postScenario Quirks.spec W s r).2.scenText =
      if (postScenario Quirks.spec W s r).1.status = 200 then some r.text else s.scenText := by
  unfold postScenario
  split
  · simp [err]
  · split
    · simp [ok]
    · simp [Quirks.spec, err]
    · simp [err]

/-- POST /solutions in the demanded behaviour: answered 200, the text is stored -/
theorem postSolutions_solText_ok (W : World) (s : State) (r : Request)
    (h : (postSolutions Quirks.spec W s r).1.status = 200) :
    (postSolutions Quirks.spec W s r).2.solText = some r.text := by
  unfold postSolutions at h ⊢
  simp only [Quirks.spec, Bool.false_eq_true, ↓reduceIte] at h ⊢
  split
  · rename_i hc; simp [hc, err] at h
  · rename_i hc
    split
    · rename_i hct; simp [hc, hct, err] at h
    · rename_i hct
      split
      · rename_i c m hf hl
        split
        · rfl
        · rename_i hcl
          cases hcs : classifySols m.u.asIs c with
          | ok t => exact absurd hcs (hcl t)
          | _ => simp [hc, hct, hf, hl, hcs, err] at h
      · rename_i hno
        exfalso
        revert h
        simp only [hc, hct]
        simp [err]

end Crem.Engine
