import Crem.Model.Engine
import Crem.Proofs.BoolArchive
/-!
Helper lemmas about the engine spec (`Crem/Model/Engine.lean`), used by `Properties/C14.lean`
and `Properties/C15.lean`.
-/
namespace Crem.Engine

/-! ## every handler either answers 200 or leaves the state alone; every answer is documented -/

/-- what every handler guarantees about its result, whatever the variant -/
def Good (s : State) (x : Response × State) : Prop :=
  (x.1.status = 200 ∨ (x.1 = err 400 ∨ x.1 = err 404 ∨ x.1 = err 405 ∨ x.1 = err 415) ∧ x.2 = s)

theorem good_err400 (s : State) : Good s (err 400, s) := by simp [Good]
theorem good_err404 (s : State) : Good s (err 404, s) := by simp [Good]
theorem good_err405 (s : State) : Good s (err 405, s) := by simp [Good]
theorem good_err415 (s : State) : Good s (err 415, s) := by simp [Good]
theorem good_ok (s s' : State) (b : Body) : Good s (ok b, s') := by simp [Good, ok]

theorem postScenario_good (W : World) (s : State) (r : Request) : Good s (postScenario Quirks.spec W s r) := by
  unfold postScenario
  split
  · exact good_err405 s
  · split
    · exact good_ok _ _ _
    · simp [Quirks.spec]; exact good_err400 s
    · exact good_err400 s

theorem getScenario_good (q : Quirks) (s : State) : Good s (getScenario q s) := by
  unfold getScenario
  split
  · exact good_err404 s
  · exact good_ok _ _ _

theorem postSolutions_good (q : Quirks) (W : World) (s : State) (r : Request) : Good s (postSolutions q W s r) := by
  unfold postSolutions
  split
  · exact good_err405 s
  · split
    · exact good_err415 s
    · split
      · split
        · split <;> exact good_ok _ _ _
        · exact good_err400 s
      · exact good_err400 s

theorem getSolutions_good (q : Quirks) (s : State) : Good s (getSolutions q s) := by
  unfold getSolutions
  split
  · exact good_err404 s
  · split
    · exact good_err404 s
    · exact good_ok _ _ _

theorem getSolution_good (s : State) (l : String) : Good s (getSolution s l) := by
  unfold getSolution
  split
  · exact good_err404 s
  · split
    · exact good_err404 s
    · split
      · exact good_ok _ _ _
      · exact good_err404 s

theorem getModel_good (s : State) : Good s (getModel s) := by
  unfold getModel
  split
  · exact good_err404 s
  · exact good_ok _ _ _

theorem patchModel_good (W : World) (s : State) (r : Request) : Good s (patchModel Quirks.spec W s r) := by
  unfold patchModel
  split
  · split
    · exact good_err415 s
    · split
      · simp only [Quirks.spec, Bool.false_eq_true, ↓reduceIte]
        split
        · exact good_err400 s
        · split <;> exact good_ok _ _ _
      · exact good_err400 s
  · exact good_err404 s

theorem getActive_good (s : State) : Good s (getActive s) := by
  unfold getActive
  split
  · exact good_err404 s
  · exact good_ok _ _ _

theorem putActive_good (W : World) (s : State) (r : Request) : Good s (putActive W s r) := by
  unfold putActive
  split
  · split
    · exact good_err415 s
    · split
      · split
        · exact good_ok _ _ _
        · exact good_err400 s
      · exact good_err400 s
  · exact good_err404 s

theorem getApplicable_good (s : State) : Good s (getApplicable s) := by
  unfold getApplicable
  split
  · exact good_err404 s
  · exact good_ok _ _ _

theorem getSub_good (s : State) (id : String) : Good s (getSub s id) := by
  unfold getSub
  split
  · exact good_err404 s
  · split
    · exact good_err404 s
    · split
      · exact good_ok _ _ _
      · exact good_err404 s

theorem putSub_good (W : World) (s : State) (r : Request) (id : String) : Good s (putSub Quirks.spec W s r id) := by
  unfold putSub
  split
  · split
    · exact good_err404 s
    · split
      · exact good_err404 s
      · split
        · split
          · exact good_err400 s
          · split
            · exact good_err400 s
            · simp [Quirks.spec]; exact good_ok _ _ _
        · exact good_err400 s
  · exact good_err404 s

theorem step_good (W : World) (s : State) (r : Request) : Good s (step Quirks.spec W s r) := by
  unfold step
  split
  · exact good_err404 s
  · split
    · exact good_ok _ _ _
    · exact good_err405 s
  · split
    · exact postScenario_good W s r
    · exact getScenario_good _ s
    · exact good_err405 s
  · split
    · exact postSolutions_good _ W s r
    · exact getSolutions_good _ s
    · exact good_err405 s
  · split
    · exact getSolution_good s _
    · exact good_err405 s
  · split
    · exact getModel_good s
    · exact patchModel_good W s r
    · exact good_err405 s
  · split
    · exact putActive_good W s r
    · exact getActive_good s
    · exact good_err405 s
  · split
    · exact getApplicable_good s
    · exact good_err405 s
  · split
    · exact getSub_good s _
    · exact putSub_good W s r _
    · exact good_err405 s


/-! ## reads change nothing (every variant) -/

theorem step_get (q : Quirks) (W : World) (s : State) (r : Request) (h : r.method = .get) :
    (step q W s r).2 = s := by
  unfold step
  rw [h]
  split
  · rfl
  · split <;> rfl
  · simp only [getScenario]; split <;> rfl
  · simp only [getSolutions]; split
    · rfl
    · split <;> rfl
  · simp only [getSolution]; split
    · rfl
    · split
      · rfl
      · split <;> rfl
  · simp only [getModel]; split <;> rfl
  · simp only [getActive]; split <;> rfl
  · simp only [getApplicable]; split <;> rfl
  · simp only [getSub]; split
    · rfl
    · split
      · rfl
      · split <;> rfl

/-! ## attribute lists -/

theorem valueOf_some_mem {as : Attrs} {n : String} {v : Tok} (h : valueOf as n = some v) :
    ∃ a ∈ as, a.name = n := by
  induction as with
  | nil => simp [valueOf] at h
  | cons a rest ih =>
    simp only [valueOf] at h
    split at h
    · exact ⟨a, by simp, by assumption⟩
    · obtain ⟨b, hb, hn⟩ := ih h
      exact ⟨b, by simp [hb], hn⟩

theorem has_mem {as : Attrs} {n : String} (h : has as n = true) : ∃ a ∈ as, a.name = n := by
  unfold has at h
  split at h
  · exact valueOf_some_mem (by assumption)
  · simp at h

/-- after `ReplaceAttribute(n, v)` some entry is exactly `(n, v)` -/
theorem mem_replaceAttr (as : Attrs) (n : String) (v : Tok) : (⟨n, v⟩ : Attr) ∈ replaceAttr as n v := by
  unfold replaceAttr
  split
  · rename_i h
    obtain ⟨a, ha, hn⟩ := has_mem h
    unfold replaceAll
    rw [List.mem_map]
    exact ⟨a, ha, by simp [hn]⟩
  · simp

/-- `ReplaceAttribute` leaves entries of other names alone -/
theorem mem_replaceAttr_of_ne {as : Attrs} {a : Attr} (n : String) (v : Tok) (ha : a ∈ as) (hn : a.name ≠ n) :
    a ∈ replaceAttr as n v := by
  unfold replaceAttr
  split
  · unfold replaceAll
    rw [List.mem_map]
    exact ⟨a, ha, by simp [hn]⟩
  · simp [ha]

theorem lastIndexOf_spec (as : Attrs) (n : String) (i : Nat) (acc : Option Nat) (k : Nat)
    (h : lastIndexOf as n i acc = some k) :
    acc = some k ∨ ∃ j, ∃ hj : j < as.length, k = i + j ∧ as[j].name = n := by
  induction as generalizing i acc with
  | nil => simp [lastIndexOf] at h; exact Or.inl h
  | cons a rest ih =>
    simp only [lastIndexOf] at h
    rcases ih (i + 1) _ h with h' | ⟨j, hj, hk, hn⟩
    · split at h'
      · rename_i hname
        right
        refine ⟨0, by simp, ?_, by simpa using hname⟩
        simp at h'; omega
      · exact Or.inl h'
    · right
      exact ⟨j + 1, by simp; omega, by omega, by simpa using hn⟩

/-- `RemoveAttribute` leaves entries of other names alone -/
theorem mem_removeAttr_of_ne {as : Attrs} {a : Attr} (n : String) (ha : a ∈ as) (hn : a.name ≠ n) :
    a ∈ removeAttr as n := by
  unfold removeAttr
  split
  · split
    · rename_i i hi
      rcases lastIndexOf_spec as n 0 none i hi with h | ⟨j, hj, hk, hname⟩
      · simp at h
      · rw [List.mem_eraseIdx_iff_getElem]
        obtain ⟨p, hp, hpa⟩ := List.getElem_of_mem ha
        refine ⟨p, hp, ?_, hpa⟩
        intro hpi
        have : i = j := by omega
        subst this
        subst hpi
        rw [hpa] at hname
        exact hn hname
    · exact ha
  · exact ha

/-- what `deriveExtraModelAttributes` guarantees about the model's attributes -/
def Shows (W : World) (tbl : Option SolTable) (m : Mdl) : Prop :=
  (⟨"Encoding", strTok (encodeStr m.active)⟩ : Attr) ∈ m.attrs ∧
  (⟨"ValidAgainstScenario", boolTok (W.valid m.u.key m.active)⟩ : Attr) ∈ m.attrs ∧
  (∀ t, tbl = some t → (⟨"ParetoFrontMember", boolTok (paretoHas t (encodeStr m.active))⟩ : Attr) ∈ m.attrs) ∧
  (W.valid m.u.key m.active = false → (⟨"ValidationErrors", veTok⟩ : Attr) ∈ m.attrs)

theorem derive_active (W : World) (tbl : Option SolTable) (m : Mdl) : (derive W tbl m).active = m.active := by
  unfold derive; rfl

theorem derive_u (W : World) (tbl : Option SolTable) (m : Mdl) : (derive W tbl m).u = m.u := by
  unfold derive; rfl

theorem derive_id (W : World) (tbl : Option SolTable) (m : Mdl) : (derive W tbl m).id = m.id := by
  unfold derive; rfl

theorem derive_shows (W : World) (tbl : Option SolTable) (m : Mdl) : Shows W tbl (derive W tbl m) := by
  have hne1 : "Encoding" ≠ "ParetoFrontMember" := by decide
  have hne2 : "Encoding" ≠ "ValidAgainstScenario" := by decide
  have hne3 : "Encoding" ≠ "ValidationErrors" := by decide
  have hne4 : "ParetoFrontMember" ≠ "ValidAgainstScenario" := by decide
  have hne5 : "ParetoFrontMember" ≠ "ValidationErrors" := by decide
  have hne6 : "ValidAgainstScenario" ≠ "ValidationErrors" := by decide
  -- stage 1
  have h1 := mem_replaceAttr m.attrs "Encoding" (strTok (encodeStr m.active))
  cases tbl with
  | none =>
    refine ⟨?_, ?_, ?_, ?_⟩
    · simp only [derive]
      split
      · exact mem_removeAttr_of_ne _ (mem_replaceAttr_of_ne _ _ h1 hne2) hne3
      · exact mem_replaceAttr_of_ne _ _ (mem_replaceAttr_of_ne _ _ h1 hne2) hne3
    · simp only [derive]
      split
      · exact mem_removeAttr_of_ne _ (mem_replaceAttr _ _ _) hne6
      · exact mem_replaceAttr_of_ne _ _ (mem_replaceAttr _ _ _) hne6
    · intro t ht; cases ht
    · intro hv
      simp only [derive] at hv ⊢
      simp only [hv]
      exact mem_replaceAttr _ _ _
  | some t =>
    have h2 := mem_replaceAttr (replaceAttr m.attrs "Encoding" (strTok (encodeStr m.active))) "ParetoFrontMember"
      (boolTok (paretoHas t (encodeStr m.active)))
    have h1' := mem_replaceAttr_of_ne "ParetoFrontMember" (boolTok (paretoHas t (encodeStr m.active))) h1 hne1
    refine ⟨?_, ?_, ?_, ?_⟩
    · simp only [derive]
      split
      · exact mem_removeAttr_of_ne _ (mem_replaceAttr_of_ne _ _ h1' hne2) hne3
      · exact mem_replaceAttr_of_ne _ _ (mem_replaceAttr_of_ne _ _ h1' hne2) hne3
    · simp only [derive]
      split
      · exact mem_removeAttr_of_ne _ (mem_replaceAttr _ _ _) hne6
      · exact mem_replaceAttr_of_ne _ _ (mem_replaceAttr _ _ _) hne6
    · intro t' ht'
      cases ht'
      simp only [derive]
      split
      · exact mem_removeAttr_of_ne _ (mem_replaceAttr_of_ne _ _ h2 hne4) hne5
      · exact mem_replaceAttr_of_ne _ _ (mem_replaceAttr_of_ne _ _ h2 hne4) hne5
    · intro hv
      simp only [derive] at hv ⊢
      simp only [hv]
      exact mem_replaceAttr _ _ _


/-! ## lengths of action sets -/

theorem setWhere_length (u : Universe) (set : ActiveSet) (pu : Nat) (ty : String) (b : Bool)
    (h : set.length = u.acts.length) : (setWhere u set pu ty b).length = u.acts.length := by
  unfold setWhere
  simp [List.length_zipWith, h]

theorem applyRow_length (u : Universe) (types : List String) (set : ActiveSet) (row : Option Nat × List Bool)
    (h : set.length = u.acts.length) : (applyRow u types set row).length = u.acts.length := by
  unfold applyRow
  split
  · exact h
  · rename_i pu _
    generalize types.zip row.2 = cells
    induction cells generalizing set with
    | nil => simpa using h
    | cons c cs ih => simp only [List.foldl_cons]; exact ih _ (setWhere_length u set pu c.1 c.2 h)

theorem applyTable_length (u : Universe) (types : List String) (rows : List (Option Nat × List Bool)) (set : ActiveSet)
    (h : set.length = u.acts.length) : (applyTable u types rows set).length = u.acts.length := by
  unfold applyTable
  induction rows generalizing set with
  | nil => simpa using h
  | cons r rs ih => simp only [List.foldl_cons]; exact ih _ (applyRow_length u types set r h)

theorem applySub_length (u : Universe) (pu : Nat) (entries : List SubEntry) (set : ActiveSet)
    (h : set.length = u.acts.length) : (applySub u pu entries set).length = u.acts.length := by
  unfold applySub
  induction entries generalizing set with
  | nil => simpa using h
  | cons e es ih => simp only [List.foldl_cons]; exact ih _ (setWhere_length u set pu e.name _ h)

theorem decode_length {n : Nat} {t : List Char} {set : List Bool}
    (h : Crem.BoolArchive.decode n t = .ok set) : set.length = n := by
  unfold Crem.BoolArchive.decode at h
  simp only at h
  split at h
  · cases h
  · split at h
    · cases h
    · cases h; simp

theorem decodeEntries_lengths {n : Nat} {es : List PatchEntry} {sets : List ActiveSet}
    (h : decodeEntries n es = some sets) : ∀ set ∈ sets, set.length = n := by
  induction es generalizing sets with
  | nil => simp [decodeEntries] at h; subst h; simp
  | cons e es ih =>
    simp only [decodeEntries] at h
    split at h
    · exact ih h
    · cases h
    · split at h
      · cases h
      · rename_i set hd
        split at h
        · cases h
        · rename_i rest hrest
          cases h
          intro x hx
          rcases List.mem_cons.mp hx with rfl | hx
          · exact decode_length hd
          · exact ih hrest x hx

/-! ## the invariant of the demanded behaviour -/

/-- what holds in every state the engine can reach when it behaves as the property demands: every model read is
served from a snapshot equal to the live model, the text resources exist exactly when their parsed forms do, and the
served model's derived attributes describe its own action set (and the loaded solution table) -/
structure Inv (W : World) (s : State) : Prop where
  snap_eq : s.snap = s.live
  text_iff : s.scenText.isSome = s.live.isSome
  name_iff : s.scenName.isSome = s.live.isSome
  sol_iff : s.solText.isSome = s.table.isSome
  tbl_live : s.table.isSome = true → s.live.isSome = true
  shows : ∀ m, s.live = some m → Shows W s.table m ∧ m.active.length = m.u.acts.length

theorem inv_init (W : World) : Inv W State.init := by
  constructor <;> simp [State.init]

/-- folding `derive` over a non-empty list of sets ends in a derived model whose set is the last one -/
theorem foldl_derive (W : World) (tbl : Option SolTable) (sets : List ActiveSet) (m : Mdl) (last : ActiveSet)
    (h : sets.getLast? = some last) :
    let m' := sets.foldl (fun acc set => derive W tbl { acc with active := set }) m
    Shows W tbl m' ∧ m'.active = last ∧ m'.u = m.u ∧ m'.id = m.id := by
  obtain ⟨ys, rfl⟩ := List.getLast?_eq_some_iff.mp h
  clear h
  simp only [List.foldl_append, List.foldl_cons, List.foldl_nil]
  refine ⟨derive_shows _ _ _, by simp [derive_active], ?_, ?_⟩
  · rw [derive_u]
    simp only
    induction ys generalizing m with
    | nil => rfl
    | cons y ys ih => simp only [List.foldl_cons]; rw [ih]; rw [derive_u]
  · rw [derive_id]
    simp only
    induction ys generalizing m with
    | nil => rfl
    | cons y ys ih => simp only [List.foldl_cons]; rw [ih]; rw [derive_id]


/-- installing a derived model as both live model and snapshot keeps the invariant (table unchanged) -/
theorem inv_install {W : World} {s : State} (h : Inv W s) (hl : s.live.isSome = true) (m' : Mdl)
    (hs : Shows W s.table m') (hlen : m'.active.length = m'.u.acts.length) :
    Inv W { s with live := some m', snap := some m' } := by
  constructor
  · rfl
  · simpa [hl] using h.text_iff
  · simpa [hl] using h.name_iff
  · exact h.sol_iff
  · intro _; rfl
  · intro m hm
    simp only [Option.some.injEq] at hm
    subst hm
    exact ⟨hs, hlen⟩

theorem inv_postScenario (W : World) (s : State) (r : Request) (h : Inv W s) :
    Inv W (postScenario Quirks.spec W s r).2 := by
  unfold postScenario
  split
  · exact h
  · split
    · rename_i name u _
      simp only [Quirks.spec, Bool.false_and, Bool.false_eq_true, ↓reduceIte]
      constructor
      · rfl
      · rfl
      · rfl
      · exact h.sol_iff
      · intro _; rfl
      · intro m hm
        simp only [Option.some.injEq] at hm
        subst hm
        refine ⟨derive_shows _ _ _, ?_⟩
        simp [freshModel, derive_active, derive_u, allInactive]
    · simp only [Quirks.spec, Bool.false_eq_true, ↓reduceIte]; exact h
    · exact h

theorem inv_postSolutions (W : World) (s : State) (r : Request) (h : Inv W s) :
    Inv W (postSolutions Quirks.spec W s r).2 := by
  unfold postSolutions
  split
  · exact h
  · split
    · exact h
    · split
      · rename_i c m hfacts hlive
        split
        · rename_i t _
          simp only [Quirks.spec, Bool.false_eq_true, ↓reduceIte]
          have hm := (h.shows m hlive).2
          constructor
          · rfl
          · simpa [hlive] using h.text_iff
          · simpa [hlive] using h.name_iff
          · rfl
          · intro _; rfl
          · intro m' hm'
            simp only [Option.some.injEq] at hm'
            subst hm'
            exact ⟨derive_shows _ _ _, by simp [derive_active, derive_u, hm]⟩
        · exact h
      · exact h

theorem inv_patchModel (W : World) (s : State) (r : Request) (h : Inv W s) :
    Inv W (patchModel Quirks.spec W s r).2 := by
  unfold patchModel
  split
  · rename_i sn m hsnap hlive
    have hm := (h.shows m hlive).2
    have hl : s.live.isSome = true := by simp [hlive]
    split
    · exact h
    · split
      · rename_i entries _
        simp only [Quirks.spec, Bool.false_eq_true, ↓reduceIte]
        split
        · exact h
        · rename_i sets hsets
          split
          · exact inv_install h hl _ (derive_shows _ _ _) (by simp [derive_active, derive_u, hm])
          · rename_i hne
            cases hlast : sets.getLast? with
            | none => simp [List.getLast?_eq_none_iff] at hlast; simp [hlast] at hne
            | some last =>
              have hf := foldl_derive W s.table sets
                { m with attrs := join m.attrs (List.map (fun (e : PatchEntry) => ({ name := e.name, val := e.val } : Attr)) entries) } last hlast
              obtain ⟨hshow, hact, hu, _⟩ := hf
              refine inv_install h hl _ hshow ?_
              rw [hact, hu]
              have := decodeEntries_lengths hsets last (List.mem_of_getLast? hlast)
              simpa using this
      · exact h
  · exact h

theorem inv_putActive (W : World) (s : State) (r : Request) (h : Inv W s) :
    Inv W (putActive W s r).2 := by
  unfold putActive
  split
  · rename_i sn m hsnap hlive
    have hm := (h.shows m hlive).2
    have hl : s.live.isSome = true := by simp [hlive]
    split
    · exact h
    · split
      · split
        · exact inv_install h hl _ (derive_shows _ _ _)
            (by simp [derive_active, derive_u, applyTable_length _ _ _ _ hm])
        · exact h
      · exact h
  · exact h

theorem inv_putSub (W : World) (s : State) (r : Request) (id : String) (h : Inv W s) :
    Inv W (putSub Quirks.spec W s r id).2 := by
  unfold putSub
  split
  · rename_i sn m hsnap hlive
    have hm := (h.shows m hlive).2
    have hl : s.live.isSome = true := by simp [hlive]
    split
    · exact h
    · split
      · exact h
      · split
        · split
          · exact h
          · split
            · exact h
            · simp only [Quirks.spec, Bool.false_eq_true, ↓reduceIte]
              exact inv_install h hl _ (derive_shows _ _ _)
                (by simp [derive_active, derive_u, applySub_length _ _ _ _ hm])
        · exact h
  · exact h

/-- the invariant is preserved by every request -/
theorem inv_step (W : World) (s : State) (r : Request) (h : Inv W s) : Inv W (step Quirks.spec W s r).2 := by
  by_cases hg : r.method = .get
  · rw [step_get _ _ _ _ hg]; exact h
  · unfold step
    split
    · exact h
    · split <;> exact h
    · split
      · exact inv_postScenario W s r h
      · simp only [getScenario]; split <;> exact h
      · exact h
    · split
      · exact inv_postSolutions W s r h
      · rename_i hm; exact absurd hm hg
      · exact h
    · split
      · rename_i hm; exact absurd hm hg
      · exact h
    · split
      · rename_i hm; exact absurd hm hg
      · exact inv_patchModel W s r h
      · exact h
    · split
      · exact inv_putActive W s r h
      · rename_i hm; exact absurd hm hg
      · exact h
    · split
      · rename_i hm; exact absurd hm hg
      · exact h
    · split
      · rename_i hm; exact absurd hm hg
      · exact inv_putSub W s r _ h
      · exact h

theorem inv_exec (W : World) (s : State) (rs : List Request) (h : Inv W s) : Inv W (exec Quirks.spec W s rs) := by
  induction rs generalizing s with
  | nil => simpa [exec, run] using h
  | cons r rs ih =>
    have := ih (step Quirks.spec W s r).2 (inv_step W s r h)
    simpa [exec, run] using this


/-! ## which handlers touch the text resources -/

theorem postSolutions_scenText (W : World) (s : State) (r : Request) :
    (postSolutions Quirks.spec W s r).2.scenText = s.scenText := by
  unfold postSolutions
  simp only [Quirks.spec, Bool.false_eq_true, ↓reduceIte]
  repeat' split
  all_goals rfl

theorem patchModel_texts (W : World) (s : State) (r : Request) :
    (patchModel Quirks.spec W s r).2.scenText = s.scenText ∧ (patchModel Quirks.spec W s r).2.solText = s.solText := by
  unfold patchModel
  simp only [Quirks.spec, Bool.false_eq_true, ↓reduceIte]
  repeat' split
  all_goals (first | exact ⟨rfl, rfl⟩ | (simp only []; exact ⟨rfl, rfl⟩))

theorem putActive_texts (W : World) (s : State) (r : Request) :
    (putActive W s r).2.scenText = s.scenText ∧ (putActive W s r).2.solText = s.solText := by
  unfold putActive
  repeat' split
  all_goals (first | exact ⟨rfl, rfl⟩ | (simp only []; exact ⟨rfl, rfl⟩))

theorem putSub_texts (W : World) (s : State) (r : Request) (id : String) :
    (putSub Quirks.spec W s r id).2.scenText = s.scenText ∧ (putSub Quirks.spec W s r id).2.solText = s.solText := by
  unfold putSub
  simp only [Quirks.spec, Bool.false_eq_true, ↓reduceIte]
  repeat' split
  all_goals (first | exact ⟨rfl, rfl⟩ | (simp only []; exact ⟨rfl, rfl⟩))

theorem postScenario_solText (W : World) (s : State) (r : Request) :
    (postScenario Quirks.spec W s r).2.solText = s.solText := by
  unfold postScenario
  simp only [Quirks.spec, Bool.false_eq_true, ↓reduceIte, Bool.false_and]
  repeat' split
  all_goals (first | rfl | (simp only []; rfl))

/-- POST /scenario in the demanded behaviour: 200 exactly when the text is stored -/
theorem postScenario_scenText (W : World) (s : State) (r : Request) :
    (postScenario Quirks.spec W s r).2.scenText =
      if (postScenario Quirks.spec W s r).1.status = 200 then some r.text else s.scenText := by
  unfold postScenario
  split
  · simp [err]
  · split
    · simp [ok]
    · simp [Quirks.spec, err]
    · simp [err]

/-- POST /solutions in the demanded behaviour: answered 200, the text is stored -/
theorem postSolutions_solText_ok (W : World) (s : State) (r : Request)
    (h : (postSolutions Quirks.spec W s r).1.status = 200) :
    (postSolutions Quirks.spec W s r).2.solText = some r.text := by
  unfold postSolutions at h ⊢
  simp only [Quirks.spec, Bool.false_eq_true, ↓reduceIte] at h ⊢
  split
  · rename_i hc; simp [hc, err] at h
  · rename_i hc
    split
    · rename_i hct; simp [hc, hct, err] at h
    · rename_i hct
      split
      · rename_i c m hf hl
        split
        · rfl
        · rename_i hcl
          cases hcs : classifySols m.u.asIs c with
          | ok t => exact absurd hcs (hcl t)
          | _ => simp [hc, hct, hf, hl, hcs, err] at h
      · rename_i hno
        exfalso
        revert h
        simp only [hc, hct]
        simp [err]

end Crem.Engine
