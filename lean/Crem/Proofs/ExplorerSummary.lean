import Crem.Properties.C12
import Crem.Properties.C13
import Crem.Proofs.EngineSummary
import Crem.Proofs.Naming
import Crem.Properties.C09
import Crem.Proofs.BoolArchive
/-!
Helper lemmas for `Crem/Properties/C13Explorer.lean`: the tie between the CHAR / Rat level model of the
explorer's summary writer (C12: `Crem.SummaryCsv`, labels from `Crem.Naming`) and the BYTE level writer
model of C13 (`Crem.EngineSummary` §7: `renderSummary`, `wellFormed`).  No property theorem lives here.
-/
namespace Crem.EngineSummary
open Crem.Csv
open Crem.Naming (Str natStr Family)
open Crem.SummaryCsv (Entry fmtFixed joinSep headerOf rowOf renderCsv sortedRows memberEntries asIsEntry
  buildSummary memberNote asIsNote optimisedNote padLeft)

/-! ## 1. `ofChars` is a `List.map` -/

theorem ofChars_append (a b : List Char) : ofChars (a ++ b) = ofChars a ++ ofChars b := List.map_append ..

theorem ofChars_cons (c : Char) (s : List Char) : ofChars (c :: s) = c.toNat.toUInt8 :: ofChars s := rfl

theorem ofChars_nil : ofChars [] = [] := rfl

theorem mem_ofChars {b : UInt8} {s : List Char} : b ∈ ofChars s ↔ ∃ c ∈ s, c.toNat.toUInt8 = b := List.mem_map

theorem ofChars_eq_nil {s : List Char} : ofChars s = [] ↔ s = [] := List.map_eq_nil_iff

theorem ofChars_joinSep (xs : List Str) : ofChars (joinSep xs) = renderRow (xs.map ofChars) := by
  induction xs with
  | nil => rfl
  | cons x xs ih =>
    cases xs with
    | nil => rfl
    | cons y ys =>
      rw [show joinSep (x :: y :: ys) = x ++ ',' :: ' ' :: joinSep (y :: ys) from rfl, ofChars_append,
        ofChars_cons, ofChars_cons, ih]
      rfl

/-- `joinAttributes` joins the value cells first: with at least one value that is the flat join -/
theorem renderRow_nested (l e n : Bytes) (vs : List Bytes) (h : vs ≠ []) :
    renderRow [l, renderRow vs, e, n] = renderRow (l :: (vs ++ [e, n])) := by
  have key : ∀ vs : List Bytes, vs ≠ [] →
      renderRow vs ++ bComma :: bSpace :: renderRow [e, n] = renderRow (vs ++ [e, n]) := by
    intro vs
    induction vs with
    | nil => intro h; exact absurd rfl h
    | cons v vs ih =>
      intro _
      cases vs with
      | nil => rfl
      | cons w ws =>
        rw [show renderRow (v :: w :: ws) = v ++ bComma :: bSpace :: renderRow (w :: ws) from rfl,
          show (v :: w :: ws) ++ [e, n] = v :: (w :: (ws ++ [e, n])) from rfl,
          show renderRow (v :: (w :: (ws ++ [e, n]))) = v ++ bComma :: bSpace :: renderRow (w :: (ws ++ [e, n])) from rfl,
          ← show (w :: ws) ++ [e, n] = w :: (ws ++ [e, n]) from rfl, ← ih (by simp)]
        simp
  cases vs with
  | nil => exact absurd rfl h
  | cons v vs =>
    rw [show renderRow [l, renderRow (v :: vs), e, n] = l ++ bComma :: bSpace :: (renderRow (v :: vs) ++ bComma :: bSpace :: renderRow [e, n]) from rfl,
      key (v :: vs) (by simp)]
    rfl

/-! ## 2. one entry of the explorer's summary as a row of C13's writer model -/

/-- the `%.3f` cell of a decision-variable value -/
def valueCell (nv : Str × Rat) : Bytes := ofChars (fmtFixed 3 nv.2)

/-- the row of C13's writer model an entry of the summary map is written as -/
def toRow (e : Entry) : Row :=
  ⟨ofChars e.label, e.vars.map valueCell, ofChars e.actions, ofChars e.note⟩

theorem ofChars_rowOf (e : Entry) (h : e.vars ≠ []) : ofChars (rowOf e) = renderRow (toRow e).fields := by
  have hv : (toRow e).values ≠ [] := by simpa [toRow] using h
  rw [Row.fields_eq _ hv, ← renderRow_nested _ _ _ _ hv]
  unfold rowOf
  rw [ofChars_joinSep]
  simp only [List.map_cons, List.map_nil, ofChars_joinSep, List.map_map]
  rfl

theorem ofChars_headerOf (vars : List (Str × Rat)) :
    ofChars (headerOf vars) = renderRow (header ((vars.map (·.1)).map ofChars)) := by
  unfold headerOf
  rw [ofChars_joinSep]
  simp only [List.map_append, List.map_cons, List.map_nil, header, List.cons_append]
  rfl

theorem ofChars_rows (es : List Entry) (h : ∀ e ∈ es, e.vars ≠ []) :
    ofChars ((es.map fun e => rowOf e ++ ['\n']).flatten) = render ((es.map toRow).map Row.fields) := by
  induction es with
  | nil => rfl
  | cons e es ih =>
    simp only [List.map_cons, List.flatten_cons, ofChars_append, render]
    rw [ih (fun x hx => h x (by simp [hx])), ofChars_rowOf e (h e (by simp))]
    simp [ofChars]

/-- the text `renderCsv` writes is the text C13's `renderSummary` writes for the rows `toRow` makes -/
theorem ofChars_renderCsv (iter : List Entry) (y : Entry) (h : ∀ e ∈ sortedRows iter, e.vars ≠ []) :
    ofChars (renderCsv iter (some y)) =
      renderSummary ((y.vars.map (·.1)).map ofChars) ((sortedRows iter).map toRow) := by
  unfold renderCsv renderSummary
  simp only [ofChars_append, ofChars_headerOf, ofChars_rows _ h, render]
  simp [ofChars]

/-! ## 3. `ParseFloat` / `ParseBool` on the texts the writer produces for labels and notes -/

theorem forall_byte {P : UInt8 → Prop} (h : ∀ n < 256, P n.toUInt8) (b : UInt8) : P b := by
  have := h b.toNat (UInt8.toNat_lt b)
  simpa using this

theorem ne_of_isDigit {b k : UInt8} (h : isDigit b = true) (hk : isDigit k = false) : b ≠ k := by
  rintro rfl; rw [h] at hk; cases hk

set_option maxRecDepth 100000 in
theorem lower_ne_x_of_isDigit : ∀ b : UInt8, isDigit b = true → lower b ≠ 0x78 :=
  forall_byte (by decide)

theorem special_of_isDigit {c : UInt8} (t : Bytes) (h : isDigit c = true) : special (c :: t) = none := by
  have h1 := ne_of_isDigit (k := 0x2B) h (by decide)
  have h2 := ne_of_isDigit (k := 0x2D) h (by decide)
  have h3 := ne_of_isDigit (k := 0x69) h (by decide)
  have h4 := ne_of_isDigit (k := 0x49) h (by decide)
  have h5 := ne_of_isDigit (k := 0x6E) h (by decide)
  have h6 := ne_of_isDigit (k := 0x4E) h (by decide)
  simp [special, h1, h2, h3, h4, h5, h6]

/-- the mantissa loop runs over decimal digits -/
theorem scanMant_digits (ds : Bytes) (hd : ∀ b ∈ ds, isDigit b = true) (m : Mant) (rest : Bytes) :
    ∃ m', scanMant false m (ds ++ rest) = scanMant false m' rest := by
  induction ds generalizing m with
  | nil => exact ⟨m, rfl⟩
  | cons d ds ih =>
    have hdd := hd d (by simp)
    have h1 := ne_of_isDigit (k := 0x5F) hdd (by decide)
    have h2 := ne_of_isDigit (k := 0x2E) hdd (by decide)
    obtain ⟨m', hm'⟩ := ih (fun b hb => hd b (by simp [hb])) (m.add 10 (d - 0x30).toNat)
    refine ⟨m', ?_⟩
    rw [← hm']
    simp [scanMant, h1, h2, hdd]

/-- … and stops at the first byte that is neither `_`, `.` nor a digit -/
theorem scanMant_stop (m : Mant) (c : UInt8) (rest : Bytes) (h1 : c ≠ 0x5F) (h2 : c ≠ 0x2E)
    (h3 : isDigit c = false) : scanMant false m (c :: rest) = (m, c :: rest) := by
  simp [scanMant, h1, h2, h3]

/-- no sign, no `0x`, and the mantissa loop stops at a byte that is not `e` / `E`: a syntax error -/
theorem readFloat_none_of_stop (c0 c1 : UInt8) (t : Bytes) (h0 : c0 ≠ 0x2B) (h0' : c0 ≠ 0x2D)
    (h1 : lower c1 ≠ 0x78) (m : Mant) (c : UInt8) (s4 : Bytes)
    (hscan : scanMant false {} (c0 :: c1 :: t) = (m, c :: s4)) (hc : lower c ≠ 0x65) :
    readFloat (c0 :: c1 :: t) = none := by
  unfold readFloat
  simp only [h0, h0', beq_iff_eq, if_false]
  cases t with
  | nil => simp [hscan, hc]
  | cons c2 t => simp [h1, hscan, hc]

/-- no sign, no `0x`, and the mantissa loop saw no digit: a syntax error -/
theorem readFloat_none_of_noDigits (c0 : UInt8) (t : Bytes) (h0 : c0 ≠ 0x2B) (h0' : c0 ≠ 0x2D) (h1 : c0 ≠ 0x30)
    (m : Mant) (s3 : Bytes) (hscan : scanMant false {} (c0 :: t) = (m, s3))
    (hm : m.sawDigits = false) : readFloat (c0 :: t) = none := by
  unfold readFloat
  simp only [h0, h0', beq_iff_eq, if_false]
  rcases t with _ | ⟨c1, _ | ⟨c2, t⟩⟩ <;> simp [h1, hscan, hm]

/-- decimal digits followed by `-`: `ParseFloat` rejects (the labels `k-of-n`) -/
theorem isNumeric_digits_dash (ds rest : Bytes) (hne : ds ≠ []) (hd : ∀ b ∈ ds, isDigit b = true) :
    isNumeric (ds ++ 0x2D :: rest) = false := by
  obtain ⟨m', hm'⟩ := scanMant_digits ds hd {} (0x2D :: rest)
  rw [scanMant_stop m' 0x2D rest (by decide) (by decide) (by decide)] at hm'
  have hrf : readFloat (ds ++ 0x2D :: rest) = none := by
    rcases ds with _ | ⟨d, _ | ⟨d1, ds⟩⟩
    · exact absurd rfl hne
    · exact readFloat_none_of_stop d 0x2D rest (ne_of_isDigit (hd d (by simp)) (by decide))
        (ne_of_isDigit (hd d (by simp)) (by decide)) (by decide) m' 0x2D rest hm' (by decide)
    · exact readFloat_none_of_stop d d1 _ (ne_of_isDigit (hd d (by simp)) (by decide))
        (ne_of_isDigit (hd d (by simp)) (by decide)) (lower_ne_x_of_isDigit d1 (hd d1 (by simp))) m' 0x2D rest hm'
        (by decide)
  obtain ⟨d, ds', rfl⟩ := List.exists_cons_of_ne_nil hne
  have hsp : special (d :: ds' ++ 0x2D :: rest) = none := special_of_isDigit _ (hd d (by simp))
  rw [List.cons_append] at hrf hsp ⊢
  simp [isNumeric, parseFloat, parseLit, hsp, hrf]

/-- a field that starts with `P` is no number (the notes `Pareto front member k of n`) -/
theorem isNumeric_P (t : Bytes) : isNumeric (0x50 :: t) = false := by
  have hrf : readFloat (0x50 :: t) = none :=
    readFloat_none_of_noDigits 0x50 t (by decide) (by decide) (by decide) {} (0x50 :: t)
      (scanMant_stop {} 0x50 t (by decide) (by decide) (by decide)) rfl
  have hsp : special (0x50 :: t) = none := by simp [special]
  simp [isNumeric, parseFloat, parseLit, hsp, hrf]

/-- every spelling `ParseBool` accepts has at most five bytes -/
theorem parseBool_none_of_length (s : Bytes) (h : 6 ≤ s.length) : parseBool s = none := by
  have key : ∀ l : Bytes, l.length < 6 → (s == l) = false := by
    intro l hl
    rw [beq_eq_false_iff_ne]
    rintro rfl
    omega
  unfold parseBool
  simp only [key _ (show ([0x31] : Bytes).length < 6 by decide), key _ (show ([0x74] : Bytes).length < 6 by decide),
    key _ (show ([0x54] : Bytes).length < 6 by decide), key _ (show ([0x54, 0x52, 0x55, 0x45] : Bytes).length < 6 by decide),
    key _ (show ([0x74, 0x72, 0x75, 0x65] : Bytes).length < 6 by decide),
    key _ (show ([0x54, 0x72, 0x75, 0x65] : Bytes).length < 6 by decide),
    key _ (show ([0x30] : Bytes).length < 6 by decide), key _ (show ([0x66] : Bytes).length < 6 by decide),
    key _ (show ([0x46] : Bytes).length < 6 by decide),
    key _ (show ([0x46, 0x41, 0x4C, 0x53, 0x45] : Bytes).length < 6 by decide),
    key _ (show ([0x66, 0x61, 0x6C, 0x73, 0x65] : Bytes).length < 6 by decide),
    key _ (show ([0x46, 0x61, 0x6C, 0x73, 0x65] : Bytes).length < 6 by decide)]
  rfl

theorem noCastCollision_of (s : Bytes) (h1 : isNumeric s = false) (h2 : 6 ≤ s.length) :
    noCastCollision s = true := by
  simp [noCastCollision, boolSpelled, h1, parseBool_none_of_length s h2]

/-! ## 4. byte classes: what a plain field / a routable label may hold -/

/-- a byte the unquoted writer can carry anywhere in a field -/
def midByte (b : UInt8) : Bool := b != bComma && b != bQuote && b != bNL && b != bCR

/-- a byte it can carry at the start of a field too: no (first byte of a) Unicode space -/
def headByte (b : UInt8) : Bool :=
  midByte b && !isSpace1 b && b != 0xC2 && b != 0xE1 && b != 0xE2 && b != 0xE3

/-- a byte of the engine's label route `[\w\-]+` -/
def routeByte (b : UInt8) : Bool :=
  isDigit b || (0x41 ≤ b && b ≤ 0x5A) || (0x61 ≤ b && b ≤ 0x7A) || b == 0x5F || b == 0x2D

theorem midByte_of_headByte {b : UInt8} (h : headByte b = true) : midByte b = true := by
  simp only [headByte, Bool.and_eq_true] at h
  exact h.1.1.1.1.1

theorem plainField_cons {b : UInt8} {t : Bytes} (hb : headByte b = true) (ht : ∀ x ∈ t, midByte x = true) :
    plainField (b :: t) = true := by
  have hm := midByte_of_headByte hb
  simp only [headByte, Bool.and_eq_true, bne_iff_ne, ne_eq, Bool.not_eq_true'] at hb
  obtain ⟨⟨⟨⟨⟨_, h1⟩, h2⟩, h3⟩, h4⟩, h5⟩ := hb
  have hs : spaceLen (b :: t) = 0 := by simp [spaceLen, h1, h2, h3, h4, h5]
  simp only [plainField, hs, beq_self_eq_true, Bool.and_true, List.all_eq_true]
  intro x hx
  rcases List.mem_cons.mp hx with rfl | hx
  · exact hm
  · exact ht x hx

theorem plainField_of_all_head {f : Bytes} (h : ∀ b ∈ f, headByte b = true) : plainField f = true := by
  cases f with
  | nil => rfl
  | cons b t => exact plainField_cons (h b (by simp)) (fun x hx => midByte_of_headByte (h x (by simp [hx])))

theorem routableLabel_of {l : Bytes} (hne : l ≠ []) (h : ∀ b ∈ l, routeByte b = true) : routableLabel l = true := by
  cases l with
  | nil => exact absurd rfl hne
  | cons b t =>
    simp only [routableLabel, List.isEmpty_cons, Bool.not_false, Bool.true_and, List.all_eq_true]
    exact h

set_option maxRecDepth 100000 in
theorem headByte_of_isDigit : ∀ b : UInt8, isDigit b = true → headByte b = true := forall_byte (by decide)

set_option maxRecDepth 100000 in
theorem isHexPatByte_head : ∀ b : UInt8, isHexPatByte b = true → headByte b = true := forall_byte (by decide)

theorem routeByte_of_isDigit {b : UInt8} (h : isDigit b = true) : routeByte b = true := by simp [routeByte, h]

theorem isDigit_code {c : Char} (h : c.isDigit = true) : 48 ≤ c.toNat ∧ c.toNat ≤ 57 := by
  simp only [Char.isDigit, Bool.and_eq_true, decide_eq_true_eq] at h
  exact ⟨UInt32.le_iff_toNat_le.mp h.1, UInt32.le_iff_toNat_le.mp h.2⟩

theorem digit_code : ∀ n < 58, 48 ≤ n → isDigit n.toUInt8 = true := by decide

/-- a decimal-digit character is a decimal-digit byte -/
theorem isDigit_byte {c : Char} (h : c.isDigit = true) : isDigit c.toNat.toUInt8 = true := by
  have := isDigit_code h
  exact digit_code c.toNat (by omega) this.1

theorem digits_bytes {s : Str} (h : ∀ c ∈ s, c.isDigit = true) : ∀ b ∈ ofChars s, isDigit b = true := by
  intro b hb
  obtain ⟨c, hc, rfl⟩ := mem_ofChars.mp hb
  exact isDigit_byte (h c hc)

theorem natStr_bytes (n : Nat) : ∀ b ∈ ofChars (natStr n), isDigit b = true :=
  digits_bytes (Naming.natStr_isDigit n)

theorem natStr_ascii (n : Nat) : ∀ c ∈ natStr n, c.toNat < 128 := by
  intro c hc
  have := isDigit_code (Naming.natStr_isDigit n c hc)
  omega

theorem ofChars_natStr_ne_nil (n : Nat) : ofChars (natStr n) ≠ [] :=
  fun h => Naming.natStr_ne_nil n (ofChars_eq_nil.mp h)

theorem length_natStr_pos (n : Nat) : 1 ≤ (natStr n).length :=
  List.length_pos_iff.mpr (Naming.natStr_ne_nil n)

/-- `ofChars` is injective on ASCII strings -/
theorem ofChars_inj {a b : List Char} (ha : ∀ c ∈ a, c.toNat < 128) (hb : ∀ c ∈ b, c.toNat < 128)
    (h : ofChars a = ofChars b) : a = b := by
  rw [← toChars_ofChars a ha, ← toChars_ofChars b hb, h]

/-! ## 5. the labels -/

/-- label of member `i` (0-based) of a set of `n`: `Optimised` for the only one, else `(i+1)-of-n` -/
def memberLabel (n i : Nat) : Str :=
  if n = 1 then Naming.sOptimised else natStr (i + 1) ++ Naming.sOf ++ natStr n

/-- the labels of the non-as-is rows, in row order -/
def canonicalLabels : Family → Nat → List Str
  | .single, _ => [Naming.sOptimised]
  | .multi, n => (List.range n).map (memberLabel n)

/-- a label the explorer gives a row -/
def GoodLabel (l : Str) : Prop :=
  l = Naming.sAsIs ∨ l = Naming.sOptimised ∨ ∃ k n : Nat, l = natStr k ++ Naming.sOf ++ natStr n

theorem ofChars_sAsIs : ofChars Naming.sAsIs = sAsIs := by decide

theorem ofChars_dash (k n : Nat) :
    ofChars (natStr k ++ Naming.sOf ++ natStr n) =
      ofChars (natStr k) ++ 0x2D :: ([0x6F, 0x66, 0x2D] ++ ofChars (natStr n)) := by
  rw [ofChars_append, ofChars_append]
  simp only [List.append_assoc]
  rfl

theorem dash_bytes (k n : Nat) :
    ∀ b ∈ ofChars (natStr k ++ Naming.sOf ++ natStr n), isDigit b = true ∨ b = 0x2D ∨ b = 0x6F ∨ b = 0x66 := by
  intro b hb
  rw [ofChars_dash] at hb
  simp only [List.mem_append, List.mem_cons, List.not_mem_nil, or_false] at hb
  rcases hb with h | h | (h | h | h) | h
  · exact Or.inl (natStr_bytes k b h)
  · exact Or.inr (Or.inl h)
  · exact Or.inr (Or.inr (Or.inl h))
  · exact Or.inr (Or.inr (Or.inr h))
  · exact Or.inr (Or.inl h)
  · exact Or.inl (natStr_bytes n b h)

theorem dash_length (k n : Nat) : 6 ≤ (ofChars (natStr k ++ Naming.sOf ++ natStr n)).length := by
  have h1 := length_natStr_pos k
  have h2 := length_natStr_pos n
  simp only [ofChars, List.length_map, List.length_append, Naming.sOf, List.length_cons, List.length_nil]
  omega

structure LabelFacts (l : Bytes) : Prop where
  plain : plainField l = true
  route : routableLabel l = true
  text : noCastCollision l = true

theorem labelFacts_dash (k n : Nat) : LabelFacts (ofChars (natStr k ++ Naming.sOf ++ natStr n)) := by
  have hb := dash_bytes k n
  have hlen := dash_length k n
  refine ⟨?_, ?_, ?_⟩
  · apply plainField_of_all_head
    intro b h
    rcases hb b h with h | rfl | rfl | rfl
    · exact headByte_of_isDigit b h
    · decide
    · decide
    · decide
  · apply routableLabel_of
    · intro h; rw [h] at hlen; simp at hlen
    · intro b h
      rcases hb b h with h | rfl | rfl | rfl
      · exact routeByte_of_isDigit h
      · decide
      · decide
      · decide
  · apply noCastCollision_of _ _ hlen
    rw [ofChars_dash]
    exact isNumeric_digits_dash _ _ (ofChars_natStr_ne_nil k) (natStr_bytes k)

set_option maxRecDepth 100000 in
theorem labelFacts_asIs : LabelFacts (ofChars Naming.sAsIs) := ⟨by decide, by decide, by decide⟩

set_option maxRecDepth 100000 in
theorem labelFacts_optimised : LabelFacts (ofChars Naming.sOptimised) := ⟨by decide, by decide, by decide⟩

theorem labelFacts_of_good {l : Str} (h : GoodLabel l) : LabelFacts (ofChars l) := by
  rcases h with rfl | rfl | ⟨k, n, rfl⟩
  · exact labelFacts_asIs
  · exact labelFacts_optimised
  · exact labelFacts_dash k n

theorem good_ascii {l : Str} (h : GoodLabel l) : ∀ c ∈ l, c.toNat < 128 := by
  rcases h with rfl | rfl | ⟨k, n, rfl⟩
  · decide
  · decide
  · intro c hc
    simp only [List.mem_append] at hc
    rcases hc with (hc | hc) | hc
    · exact natStr_ascii k c hc
    · revert c; decide
    · exact natStr_ascii n c hc

theorem good_memberLabel (n i : Nat) : GoodLabel (memberLabel n i) := by
  unfold memberLabel
  split
  · exact Or.inr (Or.inl rfl)
  · exact Or.inr (Or.inr ⟨_, _, rfl⟩)

theorem good_canonicalLabels (f : Family) (n : Nat) : ∀ l ∈ canonicalLabels f n, GoodLabel l := by
  intro l hl
  cases f with
  | single =>
    simp only [canonicalLabels, List.mem_singleton] at hl
    exact Or.inr (Or.inl hl)
  | multi =>
    simp only [canonicalLabels, List.mem_map] at hl
    obtain ⟨i, _, rfl⟩ := hl
    exact good_memberLabel n i

/-- labels by specification: what `label_asIs(_all)` / `label_member(_all)` say, as one list equation -/
theorem keys_labels_of_spec (lab : Str → Str) (v : Naming.Variant) (f : Family) (rid : Str) (n : Nat)
    (hasis : lab (Naming.asIsKey v f rid) = Naming.sAsIs)
    (hmem : ∀ k m : Nat, lab (Naming.memberKey rid k m) =
      if k = 1 ∧ m = 1 then Naming.sOptimised else natStr k ++ Naming.sOf ++ natStr m) :
    (Naming.keys v f rid n).map lab = Naming.sAsIs :: canonicalLabels f n := by
  simp only [Naming.keys, List.map_cons, hasis]
  congr 1
  cases f with
  | single => simp [Naming.memberKeys, canonicalLabels, hmem]
  | multi =>
    simp only [Naming.memberKeys, canonicalLabels, List.map_map]
    apply List.map_congr_left
    intro i hi
    have hi' := List.mem_range.mp hi
    simp only [Function.comp, hmem, memberLabel]
    by_cases hn : n = 1
    · subst hn
      have : i = 0 := by omega
      simp [this]
    · simp [hn]

theorem keys_labels_anchored (f : Family) (rid : Str) (n : Nat) :
    (Naming.keys .anchored f rid n).map Naming.labelAnchored = Naming.sAsIs :: canonicalLabels f n :=
  keys_labels_of_spec _ .anchored f rid n (C12.label_asIs_all rid f) (C12.label_member_all rid)

theorem keys_labels_fixed (name : Str) (hc : Naming.Clean name) (r R : Nat) (f : Family) (n : Nat) :
    (Naming.keys .fixed f (Naming.runId name r R) n).map Naming.labelFixed =
      Naming.sAsIs :: canonicalLabels f n :=
  keys_labels_of_spec _ .fixed f _ n (C12.label_asIs name hc r R f) (C12.label_member name hc r R)

/-- `As-Is` and the member labels are pairwise different (C12 `labels_unique_all`, any run id) -/
theorem canonical_nodup (f : Family) (n : Nat) : (Naming.sAsIs :: canonicalLabels f n).Nodup := by
  rw [← keys_labels_anchored f [] n]
  exact C12.labels_unique_all [] n f

theorem allDistinct_of_nodup (L : List Str) (hn : L.Nodup) (ha : ∀ l ∈ L, ∀ c ∈ l, c.toNat < 128) :
    allDistinct (L.map ofChars) = true := by
  induction L with
  | nil => rfl
  | cons l L ih =>
    rw [List.nodup_cons] at hn
    simp only [List.map_cons, allDistinct, Bool.and_eq_true, Bool.not_eq_true', List.contains_eq_mem,
      decide_eq_false_iff_not]
    refine ⟨?_, ih hn.2 (fun x hx => ha x (by simp [hx]))⟩
    intro hmem
    obtain ⟨l', hl', heq⟩ := List.mem_map.mp hmem
    have := ofChars_inj (ha l' (by simp [hl'])) (ha l (by simp)) heq
    exact hn.1 (this ▸ hl')

/-! ## 6. the notes -/

/-- a note the Saver writes -/
def GoodNote (s : Str) : Prop := s = asIsNote ∨ s = optimisedNote ∨ ∃ k n : Nat, s = memberNote k n

structure NoteFacts (s : Bytes) : Prop where
  plain : plainField s = true
  text : noCastCollision s = true

def notePre : Str := "areto front member ".toList
def noteMid : Str := " of ".toList

theorem memberNote_eq (k n : Nat) : memberNote k n = 'P' :: (notePre ++ natStr k ++ noteMid ++ natStr n) := by
  have : "Pareto front member ".toList = 'P' :: notePre := by decide
  unfold memberNote
  rw [this]
  simp [noteMid]

set_option maxRecDepth 100000 in
theorem noteFacts_member (k n : Nat) : NoteFacts (ofChars (memberNote k n)) := by
  rw [memberNote_eq, ofChars_cons]
  refine ⟨?_, ?_⟩
  · apply plainField_cons (by decide)
    intro b hb
    simp only [ofChars_append, List.mem_append] at hb
    rcases hb with ((hb | hb) | hb) | hb
    · revert b; decide
    · exact midByte_of_headByte (headByte_of_isDigit b (natStr_bytes k b hb))
    · revert b; decide
    · exact midByte_of_headByte (headByte_of_isDigit b (natStr_bytes n b hb))
  · apply noCastCollision_of _ (isNumeric_P _)
    have : notePre.length = 19 := by decide
    simp only [List.length_cons, ofChars, List.length_map, List.length_append, this]
    omega

set_option maxRecDepth 100000 in
theorem noteFacts_asIs : NoteFacts (ofChars asIsNote) := ⟨by decide, by decide⟩

set_option maxRecDepth 100000 in
theorem noteFacts_optimised : NoteFacts (ofChars optimisedNote) := ⟨by decide, by decide⟩

theorem noteFacts_of_good {s : Str} (h : GoodNote s) : NoteFacts (ofChars s) := by
  rcases h with rfl | rfl | ⟨k, n, rfl⟩
  · exact noteFacts_asIs
  · exact noteFacts_optimised
  · exact noteFacts_member k n

/-! ## 7. the `%.3f` cells and the encodings -/

theorem mem_fmtFixed {p : Nat} {x : Rat} {c : Char} (h : c ∈ fmtFixed p x) :
    c = '-' ∨ c = '.' ∨ c.isDigit = true := by
  unfold fmtFixed at h
  simp only [List.mem_append] at h
  rcases h with (h | h) | h
  · split at h
    · simp only [List.mem_singleton] at h; exact Or.inl h
    · cases h
  · exact Or.inr (Or.inr (Naming.natStr_isDigit _ c h))
  · split at h
    · cases h
    · simp only [List.mem_cons, padLeft, List.mem_append, List.mem_replicate] at h
      rcases h with h | h | h
      · exact Or.inr (Or.inl h)
      · rw [h.2]; exact Or.inr (Or.inr (by decide))
      · exact Or.inr (Or.inr (Naming.natStr_isDigit _ c h))

/-- a `%.<p>f` rendering is a plain field -/
theorem plainField_fmtFixed (p : Nat) (x : Rat) : plainField (ofChars (fmtFixed p x)) = true := by
  apply plainField_of_all_head
  intro b hb
  obtain ⟨c, hc, rfl⟩ := mem_ofChars.mp hb
  rcases mem_fmtFixed hc with rfl | rfl | h
  · decide
  · decide
  · exact headByte_of_isDigit _ (isDigit_byte h)

theorem mem_toHex {n : Nat} {c : Char} (h : c ∈ BoolArchive.toHex n) : ∃ d, d < 16 ∧ c = BoolArchive.hexDigit d := by
  unfold BoolArchive.toHex at h
  split at h
  · simp only [List.mem_singleton] at h
    exact ⟨0, by omega, by rw [h]; decide⟩
  · rcases BoolArchive.mem_toHexAux _ _ _ _ h with h | h
    · cases h
    · exact h

theorem mem_joinWith {d : Char} {es : List (List Char)} {c : Char} (h : c ∈ BoolArchive.joinWith d es) :
    c = d ∨ ∃ e ∈ es, c ∈ e := by
  induction es with
  | nil => cases h
  | cons e es ih =>
    cases es with
    | nil => exact Or.inr ⟨e, by simp, by simpa [BoolArchive.joinWith] using h⟩
    | cons e' es' =>
      simp only [BoolArchive.joinWith, List.mem_append, List.mem_cons] at h
      rcases h with h | h | h
      · exact Or.inr ⟨e, by simp, h⟩
      · exact Or.inl h
      · rcases ih h with h | ⟨x, hx, hc⟩
        · exact Or.inl h
        · exact Or.inr ⟨x, by simp only [List.mem_cons] at hx ⊢; exact Or.inr hx, hc⟩

/-- `Encoding()` writes hexadecimal digits `0-9A-F` and `:` only -/
theorem mem_encode {bs : List Bool} {c : Char} (h : c ∈ BoolArchive.encode bs) :
    c = ':' ∨ ∃ d, d < 16 ∧ c = BoolArchive.hexDigit d := by
  unfold BoolArchive.encode at h
  rcases mem_joinWith h with h | ⟨e, he, hc⟩
  · exact Or.inl h
  · obtain ⟨w, _, rfl⟩ := List.mem_map.mp he
    exact Or.inr (mem_toHex hc)

theorem hexDigit_byte : ∀ d < 16, isHexPatByte (BoolArchive.hexDigit d).toNat.toUInt8 = true := by decide

theorem encode_bytes (bs : List Bool) : ∀ b ∈ ofChars (BoolArchive.encode bs), isHexPatByte b = true := by
  intro b hb
  obtain ⟨c, hc, rfl⟩ := mem_ofChars.mp hb
  rcases mem_encode hc with rfl | ⟨d, hd, rfl⟩
  · decide
  · exact hexDigit_byte d hd

structure EncFacts (n : Nat) (e : Bytes) : Prop where
  plain : plainField e = true
  hex : hexPattern e = true
  canon : canonicalEncoding n e = true

theorem decode_ofChars_encode (n : Nat) (hn : 1 ≤ n) (flags : List Bool) (hl : flags.length = n) :
    BoolArchive.decode n (toChars (ofChars (BoolArchive.encode flags))) = .ok flags := by
  rw [toChars_ofChars _ (encode_ascii flags)]
  exact BoolArchive.decode_encode n flags hn hl

theorem encFacts (n : Nat) (hn : 1 ≤ n) (flags : List Bool) (hl : flags.length = n) :
    EncFacts n (ofChars (BoolArchive.encode flags)) := by
  refine ⟨?_, ?_, ?_⟩
  · exact plainField_of_all_head (fun b hb => isHexPatByte_head b (encode_bytes flags b hb))
  · simp only [hexPattern, List.all_eq_true]
    exact encode_bytes flags
  · simp [canonicalEncoding, decode_ofChars_encode n hn flags hl]

/-! ## 8. rows made from entries are well-formed -/

theorem rowShapeOk_toRow (sc : Scenario) (hn : 1 ≤ sc.nActions) (vnames : List Str) (hne : vnames ≠ []) (e : Entry)
    (hlab : GoodLabel e.label) (hnote : GoodNote e.note) (hvars : e.vars.map (·.1) = vnames)
    (hnum : ∀ nv ∈ e.vars, isNumeric (valueCell nv) = true)
    (henc : ∃ flags : List Bool, flags.length = sc.nActions ∧ e.actions = BoolArchive.encode flags) :
    rowShapeOk sc (vnames.map ofChars) (toRow e) = true := by
  obtain ⟨flags, hfl, hact⟩ := henc
  have hL := labelFacts_of_good hlab
  have hN := noteFacts_of_good hnote
  have hE := encFacts sc.nActions hn flags hfl
  have hvl : (toRow e).values.length = (vnames.map ofChars).length := by
    simp only [toRow, List.length_map]
    rw [← hvars, List.length_map]
  have hvne : (toRow e).values ≠ [] := by
    intro h
    rw [h] at hvl
    exact hne (List.map_eq_nil_iff.mp (List.eq_nil_of_length_eq_zero hvl.symm))
  unfold rowShapeOk
  simp only [Bool.and_eq_true, beq_iff_eq, List.all_eq_true]
  refine ⟨⟨⟨⟨⟨⟨⟨hvl, ?_⟩, ?_⟩, ?_⟩, ?_⟩, ?_⟩, ?_⟩, ?_⟩
  · intro fld hf
    rw [Row.fields_eq _ hvne] at hf
    simp only [List.mem_cons, List.mem_append, List.not_mem_nil, or_false] at hf
    rcases hf with rfl | hf | rfl | rfl
    · exact hL.plain
    · simp only [toRow, List.mem_map] at hf
      obtain ⟨nv, _, rfl⟩ := hf
      exact plainField_fmtFixed 3 nv.2
    · simp only [toRow, hact]; exact hE.plain
    · exact hN.plain
  · intro fld hf
    simp only [toRow, List.mem_map] at hf
    obtain ⟨nv, hnv, rfl⟩ := hf
    exact hnum nv hnv
  · exact hL.text
  · exact hL.route
  · exact hN.text
  · simp only [toRow, hact]; exact hE.hex
  · simp only [toRow, hact]; exact hE.canon

/-- **the assembly**: entries with the explorer's labels, notes, variables and encodings make a summary that is
`wellFormed` in C13's sense -/
theorem wellFormed_toRows (sc : Scenario) (hn : 1 ≤ sc.nActions) (vnames : List Str) (hne : vnames ≠ [])
    (hlen : vnames.length = sc.vars.length)
    (hnames : ∀ n ∈ vnames, plainField (ofChars n) = true ∧ ofChars n ≠ sSolution ∧ ofChars n ≠ sActions ∧
      ofChars n ≠ sSummary)
    (e0 : Entry) (rest : List Entry) (L : List Str)
    (hlabels : (e0 :: rest).map (·.label) = Naming.sAsIs :: L)
    (hL : ∀ l ∈ L, GoodLabel l) (hnd : (Naming.sAsIs :: L).Nodup)
    (hnotes : ∀ e ∈ e0 :: rest, GoodNote e.note)
    (hvars : ∀ e ∈ e0 :: rest, e.vars.map (·.1) = vnames)
    (hnum : ∀ e ∈ e0 :: rest, ∀ nv ∈ e.vars, isNumeric (valueCell nv) = true)
    (hB : asIsValuesOk sc (vnames.map ofChars) (e0.vars.map valueCell) = true)
    (henc0 : e0.actions = BoolArchive.encode (List.replicate sc.nActions false))
    (henc : ∀ e ∈ rest, ∃ flags : List Bool, flags.length = sc.nActions ∧ e.actions = BoolArchive.encode flags) :
    wellFormed sc (vnames.map ofChars) ((e0 :: rest).map toRow) = true := by
  have hgood : ∀ l ∈ Naming.sAsIs :: L, GoodLabel l := by
    intro l hl
    rcases List.mem_cons.mp hl with rfl | hl
    · exact Or.inl rfl
    · exact hL l hl
  have hlab0 : e0.label = Naming.sAsIs := by
    simp only [List.map_cons, List.cons.injEq] at hlabels
    exact hlabels.1
  have hlabR : rest.map (·.label) = L := by
    simp only [List.map_cons, List.cons.injEq] at hlabels
    exact hlabels.2
  have hrowlabels : ((e0 :: rest).map toRow).map (·.label) = (Naming.sAsIs :: L).map ofChars := by
    rw [← hlabels, List.map_map, List.map_map]
    rfl
  unfold wellFormed
  simp only [Bool.and_eq_true, beq_iff_eq, List.all_eq_true, bne_iff_ne, ne_eq, Bool.not_eq_true',
    List.isEmpty_eq_false_iff]
  refine ⟨⟨⟨⟨⟨?_, ?_⟩, ?_⟩, ?_⟩, ?_⟩, ?_⟩
  · exact fun h => hne (List.map_eq_nil_iff.mp h)
  · rw [List.length_map]; exact hlen
  · intro n hnm
    obtain ⟨nm, hnm', rfl⟩ := List.mem_map.mp hnm
    obtain ⟨a, b, c, d⟩ := hnames nm hnm'
    exact ⟨⟨⟨a, b⟩, c⟩, d⟩
  · simp only [List.map_cons, Bool.and_eq_true, beq_iff_eq, List.all_eq_true, bne_iff_ne, ne_eq]
    refine ⟨⟨⟨?_, ?_⟩, ?_⟩, ?_⟩
    · simp only [toRow, hlab0]; exact ofChars_sAsIs
    · exact hB
    · simp only [toRow, henc0, decode_ofChars_encode sc.nActions hn _ (List.length_replicate ..)]
      simp
    · intro r hr
      obtain ⟨e, he, rfl⟩ := List.mem_map.mp hr
      intro heq
      have hmem : e.label ∈ L := hlabR ▸ List.mem_map_of_mem he
      have : e.label = Naming.sAsIs := by
        apply ofChars_inj (good_ascii (hL _ hmem)) (good_ascii (Or.inl rfl))
        rw [ofChars_sAsIs]; exact heq
      rw [List.nodup_cons] at hnd
      exact hnd.1 (this ▸ hmem)
  · intro r hr
    obtain ⟨e, he, rfl⟩ := List.mem_map.mp hr
    apply rowShapeOk_toRow sc hn vnames hne e ?_ (hnotes e he) (hvars e he) (hnum e he)
    · rcases List.mem_cons.mp he with rfl | he'
      · exact ⟨_, List.length_replicate .., henc0⟩
      · exact henc e he'
    · apply hgood
      rw [← hlabels]
      exact List.mem_map_of_mem he
  · rw [hrowlabels]
    exact allDistinct_of_nodup _ hnd (fun l hl => good_ascii (hgood l hl))

/-! ## 9. the entries the Saver makes -/

theorem memberEntries_labels (v : Naming.Variant) (f : Family) (rid : Str) (n i : Nat) (ms : List SummaryCsv.Row) :
    (memberEntries v f rid n i ms).map (·.label) =
      (List.range' i ms.length).map
        (fun j => Naming.label v (Naming.memberKey rid (j + 1) (SummaryCsv.idSize f n))) := by
  induction ms generalizing i with
  | nil => rfl
  | cons m ms ih =>
    simp only [memberEntries, List.map_cons, List.length_cons, List.range'_succ, ih (i + 1)]
    cases f <;> rfl

theorem memberEntries_actions (v : Naming.Variant) (f : Family) (rid : Str) (n i : Nat) (ms : List SummaryCsv.Row) :
    (memberEntries v f rid n i ms).map (·.actions) = ms.map (·.actions) := by
  induction ms generalizing i with
  | nil => rfl
  | cons m ms ih => simp only [memberEntries, List.map_cons, ih (i + 1)]

theorem memberEntries_length (v : Naming.Variant) (f : Family) (rid : Str) (n i : Nat) (ms : List SummaryCsv.Row) :
    (memberEntries v f rid n i ms).length = ms.length := by
  induction ms generalizing i with
  | nil => rfl
  | cons m ms ih => simp only [memberEntries, List.length_cons, ih (i + 1)]

theorem memberEntries_mem (v : Naming.Variant) (f : Family) (rid : Str) (n i : Nat) (ms : List SummaryCsv.Row)
    (e : Entry) (he : e ∈ memberEntries v f rid n i ms) :
    GoodNote e.note ∧ ∃ m ∈ ms, e.vars = m.vars ∧ e.actions = m.actions := by
  induction ms generalizing i with
  | nil => cases he
  | cons m ms ih =>
    simp only [memberEntries, List.mem_cons] at he
    rcases he with rfl | he
    · refine ⟨?_, m, by simp, rfl, rfl⟩
      cases f
      · exact Or.inr (Or.inl rfl)
      · exact Or.inr (Or.inr ⟨_, _, rfl⟩)
    · obtain ⟨a, m', hm', b⟩ := ih (i + 1) he
      exact ⟨a, m', by simp [hm'], b⟩

/-- the labels of the written rows are the labels of the keys -/
theorem entries_labels (v : Naming.Variant) (f : Family) (rid : Str) (asIs : SummaryCsv.Row)
    (members : List SummaryCsv.Row) (hf : f = .single → members.length = 1) :
    (asIsEntry v f rid asIs :: memberEntries v f rid members.length 0 members).map (·.label) =
      (Naming.keys v f rid members.length).map (Naming.label v) := by
  simp only [List.map_cons, Naming.keys, memberEntries_labels]
  congr 1
  cases f with
  | single =>
    rw [hf rfl]
    rfl
  | multi =>
    simp only [Naming.memberKeys, List.map_map, List.range_eq_range']
    rfl

/-! ## 10. the tie -/

/-- what `explorer_summary_wellFormed_of_labels` (Properties/C13Explorer.lean) states -/
theorem explorer_core (sc : Scenario) (hn : 1 ≤ sc.nActions)
    (v : Naming.Variant) (f : Family) (rid : Str) (asIs : SummaryCsv.Row) (members : List SummaryCsv.Row)
    (hf : f = .single → members.length = 1)
    (hlab : (Naming.keys v f rid members.length).map (Naming.label v) =
      Naming.sAsIs :: canonicalLabels f members.length)
    (vnames : List Str) (hne : vnames ≠ [])
    (hvars : ∀ row ∈ asIs :: members, row.vars.map (·.1) = vnames)
    (hlen : vnames.length = sc.vars.length)
    (hnames : ∀ n ∈ vnames, plainField (ofChars n) = true ∧ ofChars n ≠ sSolution ∧ ofChars n ≠ sActions ∧
      ofChars n ≠ sSummary)
    (henc0 : asIs.actions = BoolArchive.encode (List.replicate sc.nActions false))
    (henc : ∀ m ∈ members, ∃ flags : List Bool, flags.length = sc.nActions ∧ m.actions = BoolArchive.encode flags)
    (hA : ∀ row ∈ asIs :: members, ∀ nv ∈ row.vars, isNumeric (ofChars (fmtFixed 3 nv.2)) = true)
    (hB : asIsValuesOk sc (vnames.map ofChars) (asIs.vars.map fun nv => ofChars (fmtFixed 3 nv.2)) = true)
    (iter : List Entry) (hiter : iter.Perm (buildSummary v f rid asIs members))
    (y : Option Entry) (e : Entry) (hy : y = some e) (he : e ∈ buildSummary v f rid asIs members) :
    ∃ names rows, ofChars (renderCsv iter y) = renderSummary names rows ∧ wellFormed sc names rows = true ∧
      rows.map (·.encoding) = (asIs :: members).map (fun r => ofChars r.actions) ∧
      rows.map (·.label) = (Naming.sAsIs :: canonicalLabels f members.length).map ofChars ∧
      rows.length = 1 + members.length := by
  have hsorted := C12.rows_are_asis_then_members v f rid asIs members iter hiter
  have hmem := memberEntries_mem v f rid members.length 0 members
  have hevars : ∀ x ∈ asIsEntry v f rid asIs :: memberEntries v f rid members.length 0 members,
      ∃ row ∈ asIs :: members, x.vars = row.vars := by
    intro x hx
    rcases List.mem_cons.mp hx with rfl | hx
    · exact ⟨asIs, by simp, rfl⟩
    · obtain ⟨_, m, hm, h1, _⟩ := hmem x hx
      exact ⟨m, by simp [hm], h1⟩
  have hvn : ∀ x ∈ asIsEntry v f rid asIs :: memberEntries v f rid members.length 0 members,
      x.vars.map (·.1) = vnames := by
    intro x hx
    obtain ⟨row, hrow, h⟩ := hevars x hx
    rw [h]; exact hvars row hrow
  have hvne : ∀ x ∈ asIsEntry v f rid asIs :: memberEntries v f rid members.length 0 members, x.vars ≠ [] := by
    intro x hx h
    have := hvn x hx
    rw [h] at this
    exact hne this.symm
  have hey : e.vars.map (·.1) = vnames := by
    rw [SummaryCsv.buildSummary_eq] at he
    exact hvn e he
  have hlabels := (entries_labels v f rid asIs members hf).trans hlab
  refine ⟨vnames.map ofChars,
    (asIsEntry v f rid asIs :: memberEntries v f rid members.length 0 members).map toRow, ?_, ?_, ?_, ?_, ?_⟩
  · subst hy
    rw [ofChars_renderCsv iter e (by rw [hsorted]; exact hvne), hsorted, hey]
  · apply wellFormed_toRows sc hn vnames hne hlen hnames _ _ _ hlabels (good_canonicalLabels f _)
      (canonical_nodup f _) ?_ hvn ?_ hB henc0 ?_
    · intro x hx
      rcases List.mem_cons.mp hx with rfl | hx
      · exact Or.inl rfl
      · exact (hmem x hx).1
    · intro x hx nv hnv
      obtain ⟨row, hrow, h⟩ := hevars x hx
      rw [h] at hnv
      exact hA row hrow nv hnv
    · intro x hx
      obtain ⟨_, m, hm, _, h2⟩ := hmem x hx
      rw [h2]; exact henc m hm
  · rw [List.map_map]
    simp only [List.map_cons, Function.comp, toRow, asIsEntry]
    congr 1
    have h := congrArg (List.map ofChars) (memberEntries_actions v f rid members.length 0 members)
    rw [List.map_map, List.map_map] at h
    exact h
  · rw [← hlabels, List.map_map, List.map_map]
    rfl
  · simp only [List.length_map, List.length_cons, memberEntries_length]
    omega

/-! ## 11. composition with C13: what the engine serves for the written text -/

theorem canonicalLabels_eq (f : Family) (n : Nat) (hf : f = .single → n = 1) :
    canonicalLabels f n = (List.range n).map (memberLabel n) := by
  cases f with
  | single => rw [hf rfl]; rfl
  | multi => rfl

theorem served_core (sc : Scenario) (hn : 1 ≤ sc.nActions) (names : List Bytes) (rows : List Row)
    (h : wellFormed sc names rows = true) (asIs : SummaryCsv.Row) (members : List SummaryCsv.Row) (L : List Str)
    (henc : rows.map (·.encoding) = (asIs :: members).map (fun r => ofChars r.actions))
    (hlabel : rows.map (·.label) = (Naming.sAsIs :: L).map ofChars) :
    ∃ t, loadSummary .fixed sc (renderSummary names rows) = .ok t ∧
      served .fixed sc sAsIs t = some (List.replicate sc.nActions false) ∧
      ∀ (i : Nat) (hi : i < members.length) (hi' : i < L.length) (flags : List Bool),
        flags.length = sc.nActions → members[i].actions = BoolArchive.encode flags →
        served .fixed sc (ofChars L[i]) t = some flags ∧
        paretoMember sc t (ofChars (BoolArchive.encode flags)) = some true := by
  obtain ⟨t, ht, hs⟩ := decoded_set_encode sc names rows h hn
  obtain ⟨t', ht', hp⟩ := pareto_flag sc names rows h
  have htt : t' = t := by
    rw [ht] at ht'
    injection ht' with h'
    exact h'.symm
  subst htt
  obtain ⟨r0, rest, hrows, hlab0, _, hdec0, _⟩ := (wfacts h).first
  refine ⟨t', ht, ?_, ?_⟩
  · have h0 : r0 ∈ rows := by rw [hrows]; simp
    have := (decoded_set sc names rows h)
    obtain ⟨t2, ht2, hs2⟩ := this
    rw [ht] at ht2
    injection ht2 with h'
    subst h'
    rw [← hlab0]
    exact hs2 r0 h0 _ hdec0
  · intro i hi hi' flags hfl hact
    have hlenE := congrArg List.length henc
    have hlenL := congrArg List.length hlabel
    simp only [List.length_map, List.length_cons] at hlenE hlenL
    have hi1 : i + 1 < rows.length := by omega
    have hE : rows[i + 1].encoding = ofChars members[i].actions := by
      have := List.getElem_of_eq henc (i := i + 1) (by simp only [List.length_map]; exact hi1)
      simpa using this
    have hLb : rows[i + 1].label = ofChars L[i] := by
      have := List.getElem_of_eq hlabel (i := i + 1) (by simp only [List.length_map]; exact hi1)
      simpa using this
    have hmem : rows[i + 1] ∈ rows := List.getElem_mem hi1
    have hmemt : rows[i + 1] ∈ rows.tail := by
      subst hrows
      simp only [List.getElem_cons_succ, List.tail_cons]
      exact List.getElem_mem _
    refine ⟨?_, ?_⟩
    · rw [← hLb]
      exact hs _ hmem flags hfl (by rw [hE, hact])
    · have := hp _ hmemt
      rw [hE, hact] at this
      exact this

/-- the same over request sequences (C13 `history`) -/
theorem history_core (e₀ : Engine) (hn : 1 ≤ e₀.sc.nActions) (names : List Bytes) (rows : List Row)
    (h : wellFormed e₀.sc names rows = true) (asIs : SummaryCsv.Row) (members : List SummaryCsv.Row) (L : List Str)
    (henc : rows.map (·.encoding) = (asIs :: members).map (fun r => ofChars r.actions))
    (hlabel : rows.map (·.label) = (Naming.sAsIs :: L).map ofChars)
    (later : List Req) (hq : Quiet .fixed (step .fixed e₀ (.post (renderSummary names rows))).1 later) :
    (step .fixed e₀ (.post (renderSummary names rows))).2 = .ok ∧
    (step .fixed (exec .fixed (step .fixed e₀ (.post (renderSummary names rows))).1 later) (.get sAsIs)).2
      = .found (asIsCached e₀.sc) ∧
    ∀ (i : Nat) (hi : i < members.length) (hi' : i < L.length) (flags : List Bool),
      flags.length = e₀.sc.nActions → members[i].actions = BoolArchive.encode flags →
      (∃ note, (step .fixed (exec .fixed (step .fixed e₀ (.post (renderSummary names rows))).1 later)
          (.get (ofChars L[i]))).2 = .found ⟨ofChars (BoolArchive.encode flags), some note, true, some flags⟩) ∧
      (step .fixed (exec .fixed (step .fixed e₀ (.post (renderSummary names rows))).1 later)
          (.patch (ofChars (BoolArchive.encode flags)))).2 = .member (some true) := by
  obtain ⟨hok, hasis, hget, hpatch⟩ := history e₀ names rows h later hq
  refine ⟨hok, hasis, ?_⟩
  intro i hi hi' flags hfl hact
  obtain ⟨r0, rest, hrows, _⟩ := (wfacts h).first
  have hlenE := congrArg List.length henc
  simp only [List.length_map, List.length_cons] at hlenE
  have hi1 : i + 1 < rows.length := by omega
  have hE : rows[i + 1].encoding = ofChars members[i].actions := by
    have := List.getElem_of_eq henc (i := i + 1) (by simp only [List.length_map]; exact hi1)
    simpa using this
  have hLb : rows[i + 1].label = ofChars L[i] := by
    have := List.getElem_of_eq hlabel (i := i + 1) (by simp only [List.length_map]; exact hi1)
    simpa using this
  have hmemt : rows[i + 1] ∈ rows.tail := by
    subst hrows
    simp only [List.getElem_cons_succ, List.tail_cons]
    exact List.getElem_mem _
  have hdec : BoolArchive.decode e₀.sc.nActions (toChars rows[i + 1].encoding) = .ok flags := by
    rw [hE, hact]
    exact decode_ofChars_encode _ hn flags hfl
  refine ⟨⟨rows[i + 1].note, ?_⟩, ?_⟩
  · have := hget _ hmemt flags hdec
    rw [hLb, hE, hact] at this
    exact this
  · have := hpatch _ hmemt
    rw [hE, hact] at this
    exact this

/-! ## 12. ASSUMPTION A from a magnitude bound: a `%.3f` cell is a number `ParseFloat` accepts

### 12.1 the rounding to binary64 does not overflow below 2^1020 -/

/-- `num < den * 2^k` for an integer exponent -/
def Lt2 (num den : Nat) (k : Int) : Prop :=
  if k ≥ 0 then num < den * 2 ^ k.toNat else num * 2 ^ (-k).toNat < den

theorem pow2_split {x y z : Nat} (h : x = y + z) : 2 ^ x = 2 ^ y * 2 ^ z := by
  subst h; exact Nat.pow_add 2 y z

theorem Lt2_mono {num den : Nat} {k k' : Int} (hk : k ≤ k') (h : Lt2 num den k) : Lt2 num den k' := by
  unfold Lt2 at *
  by_cases h1 : k ≥ 0
  · have h2 : k' ≥ 0 := by omega
    rw [if_pos h1] at h
    rw [if_pos h2]
    exact Nat.lt_of_lt_of_le h (Nat.mul_le_mul_left _ (Nat.pow_le_pow_right (by decide) (by omega)))
  · rw [if_neg h1] at h
    by_cases h2 : k' ≥ 0
    · rw [if_pos h2]
      have p1 : 0 < 2 ^ (-k).toNat := Nat.pow_pos (by decide)
      have p2 : 0 < 2 ^ k'.toNat := Nat.pow_pos (by decide)
      calc num ≤ num * 2 ^ (-k).toNat := Nat.le_mul_of_pos_right _ p1
        _ < den := h
        _ ≤ den * 2 ^ k'.toNat := Nat.le_mul_of_pos_right _ p2
    · rw [if_neg h2]
      exact Nat.lt_of_le_of_lt (Nat.mul_le_mul_left _ (Nat.pow_le_pow_right (by decide) (by omega))) h

theorem floorLog2Ratio_le (num den : Nat) : floorLog2Ratio num den ≤ (num.log2 : Int) := by
  unfold floorLog2Ratio
  simp only
  split <;> omega

theorem floorLog2Ratio_up (num den : Nat) (hd : den ≠ 0) :
    Lt2 num den (floorLog2Ratio num den + 1) := by
  have a2 := @Nat.lt_log2_self num
  have b1 := Nat.log2_self_le hd
  unfold floorLog2Ratio
  simp only
  generalize num.log2 = a at *
  generalize den.log2 = b at *
  by_cases hab : (a : Int) - (b : Int) ≥ 0
  · simp only [hab, if_true]
    have ht : ((a : Int) - (b : Int)).toNat = a - b := by omega
    by_cases hge : num ≥ den * 2 ^ (a - b)
    · simp only [ht, hge, decide_true, if_true]
      unfold Lt2
      rw [if_pos (by omega)]
      have ht' : ((a : Int) - (b : Int) + 1).toNat = a - b + 1 := by omega
      rw [ht']
      calc num < 2 ^ (a + 1) := a2
        _ = 2 ^ b * 2 ^ (a - b + 1) := pow2_split (by omega)
        _ ≤ den * 2 ^ (a - b + 1) := Nat.mul_le_mul_right _ b1
    · simp only [ht, hge, decide_false, Bool.false_eq_true, if_false]
      unfold Lt2
      have : (a : Int) - (b : Int) - 1 + 1 = (a : Int) - (b : Int) := by omega
      rw [this, if_pos hab, ht]
      omega
  · simp only [hab, if_false]
    have ht : (-((a : Int) - (b : Int))).toNat = b - a := by omega
    by_cases hge : num * 2 ^ (b - a) ≥ den
    · simp only [ht, hge, decide_true, if_true]
      unfold Lt2
      by_cases h1 : (a : Int) - (b : Int) + 1 ≥ 0
      · rw [if_pos h1]
        have ht' : ((a : Int) - (b : Int) + 1).toNat = 0 := by omega
        rw [ht', Nat.pow_zero, Nat.mul_one]
        calc num < 2 ^ (a + 1) := a2
          _ = 2 ^ b := by congr 1; omega
          _ ≤ den := b1
      · rw [if_neg h1]
        have ht' : (-((a : Int) - (b : Int) + 1)).toNat = b - a - 1 := by omega
        rw [ht']
        calc num * 2 ^ (b - a - 1) < 2 ^ (a + 1) * 2 ^ (b - a - 1) :=
              Nat.mul_lt_mul_of_pos_right a2 (Nat.pow_pos (by decide))
          _ = 2 ^ b := (pow2_split (by omega)).symm
          _ ≤ den := b1
    · simp only [ht, hge, decide_false, Bool.false_eq_true, if_false]
      unfold Lt2
      have : (a : Int) - (b : Int) - 1 + 1 = (a : Int) - (b : Int) := by omega
      rw [this, if_neg hab, ht]
      omega

theorem roundHalfEven_le (a b K : Nat) (h : a < b * K) : roundHalfEven a b ≤ K := by
  have hq : a / b < K := Nat.div_lt_of_lt_mul h
  unfold roundHalfEven
  simp only
  split <;> omega

theorem roundBits_lt_inf (num den : Nat) (hn : num ≠ 0) (hd : den ≠ 0) (h : num < 2 ^ 1020) :
    roundBits num den < bitsInf := by
  have he : floorLog2Ratio num den ≤ 1019 := by
    have := floorLog2Ratio_le num den
    have := (Nat.log2_lt hn).mpr h
    omega
  have hup := floorLog2Ratio_up num den hd
  unfold roundBits
  simp only
  generalize floorLog2Ratio num den = e at *
  generalize heb : (if e < -1022 then (-1022 : Int) else e) = eb
  have heb1 : e ≤ eb := by rw [← heb]; split <;> omega
  have heb2 : -1022 ≤ eb := by rw [← heb]; split <;> omega
  have heb3 : eb ≤ 1019 := by rw [← heb]; split <;> omega
  have hup' : Lt2 num den (eb + 1) := Lt2_mono (by omega) hup
  have hm : (if eb - 52 ≥ 0 then roundHalfEven num (den * 2 ^ (eb - 52).toNat)
      else roundHalfEven (num * 2 ^ (-(eb - 52)).toNat) den) ≤ 2 ^ 53 := by
    unfold Lt2 at hup'
    split
    · rename_i hs
      rw [if_pos (by omega)] at hup'
      apply roundHalfEven_le
      rw [Nat.mul_assoc, ← pow2_split (show (eb + 1).toNat = (eb - 52).toNat + 53 by omega)]
      exact hup'
    · rename_i hs
      apply roundHalfEven_le
      by_cases h1 : eb + 1 ≥ 0
      · rw [if_pos h1] at hup'
        calc num * 2 ^ (-(eb - 52)).toNat < den * 2 ^ (eb + 1).toNat * 2 ^ (-(eb - 52)).toNat :=
              Nat.mul_lt_mul_of_pos_right hup' (Nat.pow_pos (by decide))
          _ = den * 2 ^ 53 := by
              rw [Nat.mul_assoc, ← pow2_split (show 53 = (eb + 1).toNat + (-(eb - 52)).toNat by omega)]
      · rw [if_neg h1] at hup'
        calc num * 2 ^ (-(eb - 52)).toNat = num * 2 ^ (-(eb + 1)).toNat * 2 ^ 53 := by
              rw [Nat.mul_assoc, ← pow2_split (show (-(eb - 52)).toNat = (-(eb + 1)).toNat + 53 by omega)]
          _ < den * 2 ^ 53 := Nat.mul_lt_mul_of_pos_right hup' (Nat.pow_pos (by decide))
  have h1 : (eb + 1022).toNat ≤ 2041 := by omega
  have h2 : (eb + 1022).toNat * 2 ^ 52 ≤ 2041 * 2 ^ 52 := Nat.mul_le_mul_right _ h1
  have h3 : (2041 * 2 ^ 52 + 2 ^ 53 : Nat) < bitsInf := by decide
  exact Nat.lt_of_le_of_lt (Nat.add_le_add h2 hm) h3

/-! ### 12.2 the mantissa loop over `digits.ddd`, `readFloat`, `Lit.bits` -/

set_option maxRecDepth 100000 in
theorem digitVal_le : ∀ c : UInt8, isDigit c = true → (c - 0x30).toNat ≤ 9 := forall_byte (by decide)

/-- what the mantissa loop did over `k` decimal digits -/
structure ScanOut (m m' : Mant) (k : Nat) : Prop where
  sawDot : m'.sawDot = m.sawDot
  und : m'.underscores = m.underscores
  frac : m'.frac = if m.sawDot then m.frac + k else m.frac
  mant : m'.mant + 1 ≤ (m.mant + 1) * 10 ^ k
  nd : m'.nd ≤ m.nd + k
  saw : (m.sawDigits = true ∨ 0 < k) → m'.sawDigits = true

theorem scanMant_digits_spec (ds : Bytes) (hd : ∀ b ∈ ds, isDigit b = true) (m : Mant) (rest : Bytes) :
    ∃ m', scanMant false m (ds ++ rest) = scanMant false m' rest ∧ ScanOut m m' ds.length := by
  induction ds generalizing m with
  | nil => exact ⟨m, rfl, ⟨rfl, rfl, by split <;> rfl, by simp, by simp, by simp⟩⟩
  | cons d ds ih =>
    have hdd := hd d (by simp)
    have h1 := ne_of_isDigit (k := 0x5F) hdd (by decide)
    have h2 := ne_of_isDigit (k := 0x2E) hdd (by decide)
    have h9 := digitVal_le d hdd
    obtain ⟨m', hm', o⟩ := ih (fun b hb => hd b (by simp [hb])) (m.add 10 (d - 0x30).toNat)
    refine ⟨m', ?_, ?_⟩
    · rw [← hm']
      simp [scanMant, h1, h2, hdd]
    · generalize (d - 0x30).toNat = v at *
      obtain ⟨o1, o2, o3, o4, o5, o6⟩ := o
      simp only [Mant.add] at o1 o2 o3 o4 o5 o6
      refine ⟨o1, o2, ?_, ?_, ?_, ?_⟩
      · rw [o3, List.length_cons]
        split <;> omega
      · rw [List.length_cons, Nat.pow_succ]
        calc m'.mant + 1 ≤ (m.mant * 10 + v + 1) * 10 ^ ds.length := o4
          _ ≤ ((m.mant + 1) * 10) * 10 ^ ds.length := Nat.mul_le_mul_right _ (by omega)
          _ = (m.mant + 1) * (10 ^ ds.length * 10) := by
              rw [Nat.mul_assoc, Nat.mul_comm 10]
      · rw [List.length_cons]
        have : (if (v == 0 && m.nd == 0) = true then 0 else m.nd + 1) ≤ m.nd + 1 := by split <;> omega
        omega
      · intro _; exact o6 (Or.inl trivial)

/-- the mantissa loop over `digits . digits` -/
theorem scanMant_fixed (D1 D2 : Bytes) (h1 : ∀ b ∈ D1, isDigit b = true) (h2 : ∀ b ∈ D2, isDigit b = true)
    (hne : D1 ≠ []) :
    ∃ m, scanMant false {} (D1 ++ 0x2E :: D2) = (m, []) ∧ m.sawDigits = true ∧ m.underscores = false ∧
      m.frac = D2.length ∧ m.mant < 10 ^ (D1.length + D2.length) ∧ m.nd ≤ D1.length + D2.length := by
  obtain ⟨m1, e1, o1⟩ := scanMant_digits_spec D1 h1 {} (0x2E :: D2)
  obtain ⟨m2, e2, o2⟩ := scanMant_digits_spec D2 h2 { m1 with sawDot := true } []
  have hdot : m1.sawDot = false := o1.sawDot
  have hstep : scanMant false m1 (0x2E :: D2) = scanMant false { m1 with sawDot := true } D2 := by
    simp [scanMant, hdot]
  rw [List.append_nil] at e2
  refine ⟨m2, ?_, ?_, ?_, ?_, ?_, ?_⟩
  · rw [e1, hstep, e2]; rfl
  · apply o2.saw
    left
    exact o1.saw (Or.inr (List.length_pos_iff.mpr hne))
  · rw [o2.und]; exact o1.und
  · have := o2.frac
    simp only [if_true] at this
    rw [this, o1.frac]
    simp
  · have a := o1.mant
    have b := o2.mant
    simp only [Nat.zero_add, Nat.one_mul] at a
    have : m2.mant + 1 ≤ 10 ^ D1.length * 10 ^ D2.length :=
      Nat.le_trans b (Nat.mul_le_mul_right _ a)
    rw [Nat.pow_add]
    omega
  · have a := o1.nd
    have b := o2.nd
    simp only at a b
    omega

/-- no sign, no `0x`, the mantissa loop consumes everything: a decimal literal without exponent -/
theorem readFloat_dec (c0 c1 : UInt8) (u : Bytes) (hu : u ≠ []) (h0 : c0 ≠ 0x2B) (h0' : c0 ≠ 0x2D)
    (h1 : lower c1 ≠ 0x78) (m : Mant) (hscan : scanMant false {} (c0 :: c1 :: u) = (m, []))
    (hd : m.sawDigits = true) (hund : m.underscores = false) :
    readFloat (c0 :: c1 :: u) = some (.dec false m.mant m.nd (-(m.frac : Int))) := by
  obtain ⟨c2, t, rfl⟩ := List.exists_cons_of_ne_nil hu
  unfold readFloat
  simp [h0, h0', h1, hscan, hd, hund]

/-- the same after a `-` -/
theorem readFloat_dec_neg (c0 c1 : UInt8) (u : Bytes) (hu : u ≠ [])
    (h1 : lower c1 ≠ 0x78) (m : Mant) (hscan : scanMant false {} (c0 :: c1 :: u) = (m, []))
    (hd : m.sawDigits = true) (hund : m.underscores = false) :
    readFloat (0x2D :: c0 :: c1 :: u) = some (.dec true m.mant m.nd (-(m.frac : Int))) := by
  obtain ⟨c2, t, rfl⟩ := List.exists_cons_of_ne_nil hu
  unfold readFloat
  simp [h1, hscan, hd, hund]

set_option maxRecDepth 100000 in
theorem digit_not_upper : ∀ c : UInt8, isDigit c = true → (0x41 ≤ c && c ≤ 0x5A) = false := forall_byte (by decide)

theorem special_neg_digit (d : UInt8) (t : Bytes) (h : isDigit d = true) : special (0x2D :: d :: t) = none := by
  have h1 := digit_not_upper d h
  have h2 := ne_of_isDigit (k := 0x69) h (by decide)
  simp [special, commonPrefixLen, strInfinity, h1, h2]

/-- a decimal literal `± mant × 10^-3` below 2^1020 with at most 313 counted digits is in range -/
theorem bits_dec_isSome (neg : Bool) (mant nd : Nat) (hnd : nd ≤ 313) (hm : mant < 2 ^ 1020) :
    (Lit.bits (.dec neg mant nd (-(3 : Int)))).isSome = true := by
  unfold Lit.bits
  by_cases h0 : mant = 0
  · simp [h0]
  · have hb := roundBits_lt_inf mant (10 ^ 3) h0 (by decide) hm
    have h310 : ¬ ((nd : Int) + -3 > 310) := by omega
    have e : (-(-(3 : Int))).toNat = 3 := by decide
    have hneg : ¬ ((-3 : Int) ≥ 0) := by decide
    simp only [beq_iff_eq, h0, if_false, h310, hneg, e, Nat.not_le.mpr hb]
    split <;> rfl

theorem parseFloat_of (s : Bytes) (l : Lit) (h1 : special s = none) (h2 : readFloat s = some l) :
    parseFloat s = l.bits := by
  simp [parseFloat, parseLit, h1, h2]

set_option exponentiation.threshold 2000 in
theorem pow10_303_lt : (10 : Nat) ^ 303 < 2 ^ 1020 := by
  have h3 : ((10 : Nat) ^ 3) ^ 101 < (2 ^ 10) ^ 101 := Nat.pow_lt_pow_left (by decide) (by decide)
  rw [← Nat.pow_mul, ← Nat.pow_mul] at h3
  exact Nat.lt_of_lt_of_le h3 (Nat.pow_le_pow_right (by decide) (by decide))

/-- `[-]digits.ddd` with at most 300 integer digits is a number `ParseFloat` accepts -/
theorem isNumeric_of_shape (neg : Bool) (D1 D2 : Bytes) (h1 : ∀ b ∈ D1, isDigit b = true)
    (h2 : ∀ b ∈ D2, isDigit b = true) (hne : D1 ≠ []) (hl2 : D2.length = 3) (hl1 : D1.length ≤ 300) :
    isNumeric ((if neg then [0x2D] else []) ++ (D1 ++ 0x2E :: D2)) = true := by
  obtain ⟨m, hscan, hsaw, hund, hfrac, hmant, hnd⟩ := scanMant_fixed D1 D2 h1 h2 hne
  rw [hl2] at hfrac hmant hnd
  have hm : m.mant < 2 ^ 1020 := by
    exact Nat.lt_of_lt_of_le hmant
      (Nat.le_trans (Nat.pow_le_pow_right (by decide) (by omega)) (Nat.le_of_lt pow10_303_lt))
  have hbits := bits_dec_isSome neg m.mant m.nd (by omega) hm
  obtain ⟨d, D1', rfl⟩ := List.exists_cons_of_ne_nil hne
  have hd := h1 d (by simp)
  have n1 := ne_of_isDigit (k := 0x2B) hd (by decide)
  have n2 := ne_of_isDigit (k := 0x2D) hd (by decide)
  have key : ∃ c1 u, D1' ++ 0x2E :: D2 = c1 :: u ∧ u ≠ [] ∧ lower c1 ≠ 0x78 := by
    cases D1' with
    | nil =>
      refine ⟨0x2E, D2, rfl, ?_, by decide⟩
      intro h; rw [h] at hl2; cases hl2
    | cons d1 D1'' =>
      exact ⟨d1, D1'' ++ 0x2E :: D2, rfl, by simp, lower_ne_x_of_isDigit d1 (h1 d1 (by simp))⟩
  obtain ⟨c1, u, hcu, hu, hx⟩ := key
  rw [List.cons_append, hcu] at hscan ⊢
  have hf3 : (-(m.frac : Int)) = -(3 : Int) := by rw [hfrac]; rfl
  cases neg with
  | false =>
    have hr := readFloat_dec d c1 u hu n1 n2 hx m hscan hsaw hund
    rw [hf3] at hr
    simp only [Bool.false_eq_true, if_false, List.nil_append]
    rw [isNumeric, parseFloat_of _ _ (special_of_isDigit _ hd) hr]
    exact hbits
  | true =>
    have hr := readFloat_dec_neg d c1 u hu hx m hscan hsaw hund
    rw [hf3] at hr
    simp only [if_true, List.singleton_append]
    rw [isNumeric, parseFloat_of _ _ (special_neg_digit d _ hd) hr]
    exact hbits

theorem padLeft_bytes (n : Nat) (hn : n < 10 ^ 3) :
    (ofChars (padLeft 3 '0' (natStr n))).length = 3 ∧ ∀ b ∈ ofChars (padLeft 3 '0' (natStr n)), isDigit b = true := by
  have hl : (natStr n).length ≤ 3 := (Nat.length_toDigits_le_iff (by decide) (by decide)).mpr hn
  constructor
  · simp only [ofChars, List.length_map, padLeft, List.length_append, List.length_replicate]
    omega
  · apply digits_bytes
    intro c hc
    simp only [padLeft, List.mem_append, List.mem_replicate] at hc
    rcases hc with hc | hc
    · rw [hc.2]; decide
    · exact Naming.natStr_isDigit n c hc

/-- **ASSUMPTION A discharged**: the `%.3f` rendering of `x` is a number `ParseFloat` accepts as soon as its
integer part has at most 300 digits -/
theorem isNumeric_fmtFixed (x : Rat)
    (h : (roundHA (x * ((10 ^ 3 : Nat) : Rat))).natAbs / 10 ^ 3 < 10 ^ 300) :
    isNumeric (ofChars (fmtFixed 3 x)) = true := by
  have hshape : ofChars (fmtFixed 3 x) =
      (if decide (x < 0) = true then [0x2D] else []) ++
        (ofChars (natStr ((roundHA (x * ((10 ^ 3 : Nat) : Rat))).natAbs / 10 ^ 3)) ++
          0x2E :: ofChars (padLeft 3 '0' (natStr ((roundHA (x * ((10 ^ 3 : Nat) : Rat))).natAbs % 10 ^ 3)))) := by
    unfold fmtFixed
    simp only [ofChars_append, List.append_assoc]
    congr 1
    · by_cases hx : x < 0 <;> simp [hx, ofChars]
  rw [hshape]
  generalize (roundHA (x * ((10 ^ 3 : Nat) : Rat))).natAbs = a at *
  obtain ⟨l2, d2⟩ := padLeft_bytes (a % 10 ^ 3) (Nat.mod_lt _ (by decide))
  apply isNumeric_of_shape _ _ _ (natStr_bytes _) d2 (ofChars_natStr_ne_nil _) l2
  simp only [ofChars, List.length_map]
  exact (Nat.length_toDigits_le_iff (by decide) (by decide)).mpr h

/-! ### 12.3 from a bound on the value -/

theorem cast_bound (B : Nat) : (((B : Int) * 1000 + 1 : Int) : Rat) = (B : Rat) * 1000 + 1 := by
  rw [Rat.intCast_add, Rat.intCast_mul, Rat.intCast_natCast]
  simp

theorem roundHA_natAbs_le (x : Rat) (B : Nat) (h1 : -(B : Rat) < x) (h2 : x < (B : Rat)) :
    (roundHA (x * ((10 ^ 3 : Nat) : Rat))).natAbs ≤ B * 1000 := by
  have e : ((10 ^ 3 : Nat) : Rat) = 1000 := by simp
  rw [e]
  unfold roundHA
  split
  · rename_i hy
    have ha : (0 : Int) ≤ (x * 1000 + 1 / 2).floor := by
      rw [Rat.le_floor_iff]
      grind
    have hb : (x * 1000 + 1 / 2).floor < (B : Int) * 1000 + 1 := by
      rw [Rat.floor_lt_iff, cast_bound]
      grind
    omega
  · rename_i hy
    have ha : (0 : Int) ≤ (-(x * 1000) + 1 / 2).floor := by
      rw [Rat.le_floor_iff]
      grind
    have hb : (-(x * 1000) + 1 / 2).floor < (B : Int) * 1000 + 1 := by
      rw [Rat.floor_lt_iff, cast_bound]
      grind
    omega

/-- ASSUMPTION A for every value of magnitude below `B < 10^300` -/
theorem isNumeric_fmtFixed_of_abs_lt (x : Rat) (B : Nat) (hB : B < 10 ^ 300) (h1 : -(B : Rat) < x)
    (h2 : x < (B : Rat)) : isNumeric (ofChars (fmtFixed 3 x)) = true := by
  apply isNumeric_fmtFixed
  have h := roundHA_natAbs_le x B h1 h2
  have e3 : (10 : Nat) ^ 3 = 1000 := by decide
  rw [e3]
  have : (roundHA (x * ((1000 : Nat) : Rat))).natAbs / 1000 ≤ B := by
    apply Nat.div_le_of_le_mul
    rw [e3] at h
    omega
  omega

/-! ## 13. the written text is ASCII: `ofChars` of it is the file's content -/

/-- a string of ASCII characters: `ofChars` of it is its UTF-8 encoding -/
def Ascii (s : Str) : Prop := ∀ c ∈ s, c.toNat < 128

theorem Ascii.append {a b : Str} (ha : Ascii a) (hb : Ascii b) : Ascii (a ++ b) := by
  intro c hc
  rcases List.mem_append.mp hc with h | h
  · exact ha c h
  · exact hb c h

theorem joinSep_ascii (xs : List Str) (h : ∀ x ∈ xs, Ascii x) : Ascii (joinSep xs) := by
  induction xs with
  | nil => intro c hc; cases hc
  | cons x xs ih =>
    cases xs with
    | nil => exact h x (by simp)
    | cons y ys =>
      rw [show joinSep (x :: y :: ys) = x ++ ',' :: ' ' :: joinSep (y :: ys) from rfl]
      apply Ascii.append (h x (by simp))
      intro c hc
      simp only [List.mem_cons] at hc
      rcases hc with rfl | rfl | hc
      · decide
      · decide
      · exact ih (fun z hz => h z (by simp [hz])) c hc

theorem fmtFixed_ascii (p : Nat) (x : Rat) : Ascii (fmtFixed p x) := by
  intro c hc
  rcases mem_fmtFixed hc with rfl | rfl | h
  · decide
  · decide
  · have := isDigit_code h; omega

theorem goodNote_ascii {s : Str} (h : GoodNote s) : Ascii s := by
  rcases h with rfl | rfl | ⟨k, n, rfl⟩
  · unfold Ascii; decide
  · unfold Ascii; decide
  · unfold memberNote
    refine Ascii.append (Ascii.append (Ascii.append ?_ (natStr_ascii k)) ?_) (natStr_ascii n)
    · unfold Ascii; decide
    · unfold Ascii; decide

theorem rowOf_ascii (e : Entry) (hl : GoodLabel e.label) (hn : GoodNote e.note) (ha : Ascii e.actions) :
    Ascii (rowOf e) := by
  unfold rowOf
  apply joinSep_ascii
  intro x hx
  simp only [List.mem_cons, List.not_mem_nil, or_false] at hx
  rcases hx with rfl | rfl | rfl | rfl
  · exact good_ascii hl
  · apply joinSep_ascii
    intro z hz
    obtain ⟨nv, _, rfl⟩ := List.mem_map.mp hz
    exact fmtFixed_ascii 3 nv.2
  · exact ha
  · exact goodNote_ascii hn

theorem headerOf_ascii (vars : List (Str × Rat)) (h : ∀ n ∈ vars.map (·.1), Ascii n) : Ascii (headerOf vars) := by
  unfold headerOf
  apply joinSep_ascii
  intro x hx
  simp only [List.cons_append, List.mem_cons, List.mem_append, List.not_mem_nil, or_false] at hx
  rcases hx with rfl | hx | rfl | rfl
  · unfold Ascii; decide
  · exact h x hx
  · unfold Ascii; decide
  · unfold Ascii; decide

theorem rows_ascii (es : List Entry) (h : ∀ e ∈ es, Ascii (rowOf e)) :
    Ascii ((es.map fun e => rowOf e ++ ['\n']).flatten) := by
  intro c hc
  simp only [List.mem_flatten, List.mem_map] at hc
  obtain ⟨l, ⟨e, he, rfl⟩, hcl⟩ := hc
  rcases List.mem_append.mp hcl with h' | h'
  · exact h e he c h'
  · simp only [List.mem_singleton] at h'; subst h'; decide

/-- the written text is ASCII when the variable names are -/
theorem explorer_ascii_core (v : Naming.Variant) (f : Family) (rid : Str) (asIs : SummaryCsv.Row)
    (members : List SummaryCsv.Row) (hf : f = .single → members.length = 1)
    (hlab : (Naming.keys v f rid members.length).map (Naming.label v) =
      Naming.sAsIs :: canonicalLabels f members.length)
    (vnames : List Str) (hvars : ∀ row ∈ asIs :: members, row.vars.map (·.1) = vnames)
    (hascii : ∀ n ∈ vnames, ∀ c ∈ n, c.toNat < 128)
    (henc : ∀ m ∈ asIs :: members, ∃ flags : List Bool, m.actions = BoolArchive.encode flags)
    (iter : List Entry) (hiter : iter.Perm (buildSummary v f rid asIs members))
    (y : Option Entry) (e : Entry) (hy : y = some e) (he : e ∈ buildSummary v f rid asIs members) :
    ∀ c ∈ renderCsv iter y, c.toNat < 128 := by
  have hsorted := C12.rows_are_asis_then_members v f rid asIs members iter hiter
  have hmem := memberEntries_mem v f rid members.length 0 members
  have hlabels := (entries_labels v f rid asIs members hf).trans hlab
  have hrow : ∀ x ∈ asIsEntry v f rid asIs :: memberEntries v f rid members.length 0 members,
      (∃ row ∈ asIs :: members, x.vars = row.vars ∧ x.actions = row.actions) ∧ GoodNote x.note := by
    intro x hx
    rcases List.mem_cons.mp hx with rfl | hx
    · exact ⟨⟨asIs, by simp, rfl, rfl⟩, Or.inl rfl⟩
    · obtain ⟨hn, m, hm, h1, h2⟩ := hmem x hx
      exact ⟨⟨m, by simp [hm], h1, h2⟩, hn⟩
  subst hy
  unfold renderCsv
  simp only
  rw [hsorted]
  refine Ascii.append (Ascii.append ?_ (by unfold Ascii; decide)) (rows_ascii _ ?_)
  · apply headerOf_ascii
    rw [SummaryCsv.buildSummary_eq] at he
    obtain ⟨⟨row, hrow', h1, _⟩, _⟩ := hrow e he
    rw [h1, hvars row hrow']
    exact hascii
  · intro x hx
    obtain ⟨⟨row, hrow', _, h2⟩, hn⟩ := hrow x hx
    apply rowOf_ascii x ?_ hn
    · obtain ⟨flags, hfl⟩ := henc row hrow'
      rw [h2, hfl]
      exact encode_ascii flags
    · have : x.label ∈ Naming.sAsIs :: canonicalLabels f members.length := by
        rw [← hlabels]; exact List.mem_map_of_mem hx
      rcases List.mem_cons.mp this with h | h
      · exact Or.inl h
      · exact good_canonicalLabels f _ _ h

end Crem.EngineSummary
