import Crem.Model.EngineGo
import Crem.Proofs.Engine
/-!
Helper lemmas about the Go-shaped transcription (`Crem/Model/EngineGo.lean`), used by `Properties/C15.lean`:
one lemma per guard (guard holds ⇒ the protected partial operation answers `.ok`), and per handler
`handlerGo … = .ok (handler …)` under the weakest hypothesis on the state that handler needs.
-/
namespace Crem.EngineGo
open Crem.Engine

/-! ## the outcome monad -/

@[simp] theorem ok_bind {α β : Type} (a : α) (f : α → Go β) : (Except.ok a >>= f) = f a := rfl
@[simp] theorem error_bind {α β : Type} (e : Panic) (f : α → Go β) : ((Except.error e : Go α) >>= f) = .error e := rfl
@[simp] theorem pure_eq_ok {α : Type} (a : α) : (pure a : Go α) = .ok a := rfl
@[simp] theorem throw_eq_error {α : Type} (e : Panic) : (throw e : Go α) = .error e := rfl

/-! ## the primitives answer `.ok` where they are defined -/

theorem attrString_some {α : Type} (x : α) (site : String) : attrString (some x) site = .ok x := rfl
theorem attrString_none {α : Type} (site : String) : attrString (none : Option α) site = .error (.typeAssertion site) := rfl
theorem deref_some {α : Type} (x : α) (site : String) : deref (some x) site = .ok x := rfl
theorem deref_none {α : Type} (site : String) : deref (none : Option α) site = .error (.nilDereference site) := rfl

theorem attrString_isSome {α : Type} {v : Option α} (h : v.isSome = true) (site : String) :
    ∃ x, v = some x ∧ attrString v site = .ok x := by
  cases v with
  | none => simp at h
  | some x => exact ⟨x, rfl, rfl⟩

theorem index_eq_ok {α : Type} {xs : List α} {i : Nat} {x : α} (h : xs[i]? = some x) (site : String) :
    index xs i site = .ok x := by
  simp [index, h]

theorem index_lt {α : Type} (xs : List α) (i : Nat) (h : i < xs.length) (site : String) :
    index xs i site = .ok xs[i] := by
  simp [index, List.getElem?_eq_getElem h]

theorem index_ge {α : Type} (xs : List α) (i : Nat) (h : xs.length ≤ i) (site : String) :
    index xs i site = .error (.indexOutOfRange site) := by
  simp [index, List.getElem?_eq_none h]

theorem indexInt_eq_ok {α : Type} {xs : List α} {i : Nat} {x : α} (h : xs[i]? = some x) (site : String) :
    indexInt xs (i : Int) site = .ok x := by
  unfold indexInt
  have : ¬ ((i : Int) < 0) := by omega
  simp only [this, ↓reduceIte, Int.toNat_natCast]
  exact index_eq_ok h site

theorem usub_le {a b : Nat} (h : b ≤ a) : usub a b = a - b := by simp [usub, h]


/-! ## `deriveExtraModelAttributes`: the accepted table protects `colSize - 2` -/

theorem tableWf_iff {t : SolTable} : tableWf t = true ↔ 2 ≤ t.colSize ∧ ∀ row ∈ t.rows, row.length = t.colSize := by
  simp [tableWf]

theorem paretoLoop_eq (idx : Nat) (enc : String) (rows : List (List String)) (h : ∀ row ∈ rows, idx < row.length) :
    paretoLoop idx enc rows = .ok (rows.any (fun row => row.getD idx "" == enc)) := by
  induction rows with
  | nil => rfl
  | cons row rest ih =>
    have hr : idx < row.length := h row (by simp)
    simp only [paretoLoop, index_lt row idx hr, ok_bind, ih (fun r hr' => h r (by simp [hr'])), pure_eq_ok,
      List.any_cons]
    simp [List.getD_eq_getElem?_getD, List.getElem?_eq_getElem hr]

/-- GUARD (state invariant `tableWf`, established by `headerLength < 2 ⇒ reject` when the table was accepted):
`colSize - 2` does not wrap and `CellString(colSize-2, row)` is in range -/
theorem accepted_table_protects_encoding_index (t : SolTable) (enc : String) (h : tableWf t = true) :
    encodingPresentInParetoFront t enc = .ok (paretoHas t enc) := by
  obtain ⟨h2, hrows⟩ := tableWf_iff.mp h
  unfold encodingPresentInParetoFront paretoHas
  rw [usub_le h2]
  apply paretoLoop_eq
  intro row hrow
  rw [hrows row (List.mem_of_mem_drop hrow)]
  omega

theorem deriveGo_eq (q : Quirks) (W : World) (tbl : Option SolTable) (m : Mdl) (h : ∀ t, tbl = some t → tableWf t = true) :
    deriveGo q W tbl m = .ok (derive q W tbl m) := by
  cases tbl with
  | none => rfl
  | some t =>
    simp only [deriveGo, accepted_table_protects_encoding_index t _ (h t rfl), ok_bind, pure_eq_ok]
    rfl


/-! ## GET handlers: the scenario name is there whenever the guard lets the request through -/

/-- GUARD + INVARIANT: `HasAttribute(scenarioTextKey)` protects `Attribute(scenarioNameKey).(string)` only because text
and name are stored together -/
theorem getScenarioGo_eq (q : Quirks) (s : State) (h : s.scenText.isSome = true → s.scenName.isSome = true) :
    getScenarioGo q s = .ok (getScenario q s) := by
  unfold getScenarioGo getScenario
  cases ht : s.scenText with
  | none => simp
  | some t =>
    obtain ⟨n, hn, _⟩ := attrString_isSome (h (by simp [ht])) ""
    simp [hn, attrString]

theorem getSolutionsGo_eq (q : Quirks) (s : State) (h : s.scenText.isSome = true → s.scenName.isSome = true) :
    getSolutionsGo q s = .ok (getSolutions q s) := by
  unfold getSolutionsGo getSolutions
  cases ht : s.scenText with
  | none => simp
  | some t =>
    obtain ⟨n, hn, _⟩ := attrString_isSome (h (by simp [ht])) ""
    cases hs : s.solText with
    | none => simp
    | some t' => simp [hn, attrString]

theorem getModelGo_eq (s : State) (h : s.snap.isSome = true → s.scenName.isSome = true) :
    getModelGo s = .ok (getModel s) := by
  unfold getModelGo getModel
  cases hs : s.snap with
  | none => simp
  | some m =>
    obtain ⟨n, hn, _⟩ := attrString_isSome (h (by simp [hs])) ""
    simp [hn, attrString]

theorem getActiveGo_eq (s : State) (h : s.snap.isSome = true → s.scenName.isSome = true) :
    getActiveGo s = .ok (getActive s) := by
  unfold getActiveGo getActive
  cases hs : s.snap with
  | none => simp
  | some m =>
    obtain ⟨n, hn, _⟩ := attrString_isSome (h (by simp [hs])) ""
    simp [hn, attrString]

theorem getApplicableGo_eq (s : State) (h : s.snap.isSome = true → s.scenName.isSome = true) :
    getApplicableGo s = .ok (getApplicable s) := by
  unfold getApplicableGo getApplicable
  cases hs : s.snap with
  | none => simp
  | some m =>
    obtain ⟨n, hn, _⟩ := attrString_isSome (h (by simp [hs])) ""
    simp [hn, attrString]

theorem getSubGo_eq (s : State) (id : String) (h : s.snap.isSome = true → s.scenName.isSome = true) :
    getSubGo s id = .ok (getSub s id) := by
  unfold getSubGo getSub
  cases hs : s.snap with
  | none => simp
  | some m =>
    obtain ⟨n, hn, _⟩ := attrString_isSome (h (by simp [hs])) ""
    cases ha : atoi? id with
    | none => simp
    | some pu =>
      rcases Bool.eq_false_or_eq_true (m.u.pus.contains pu) with hc | hc
      · simp only [hc, ↓reduceIte, hn, attrString, ok_bind, pure_eq_ok]
      · simp only [hc, Bool.false_eq_true, ↓reduceIte, pure_eq_ok]

/-! ## GET /solutions/<label> -/

theorem containsEntry_eq (label : String) (rows : List (List String)) (h : ∀ row ∈ rows, 0 < row.length) :
    containsEntry label rows = .ok (rows.any (fun row => row.getD 0 "" == label)) := by
  induction rows with
  | nil => rfl
  | cons row rest ih =>
    have hr : 0 < row.length := h row (by simp)
    have hg : row.getD 0 "" = row[0] := by simp [List.getD_eq_getElem?_getD, List.getElem?_eq_getElem hr]
    simp only [containsEntry, index_lt row 0 hr, ok_bind, List.any_cons, hg]
    rcases Bool.eq_false_or_eq_true (row[0] == label) with hc | hc
    · simp [hc]
    · simp [hc, ih (fun r hr' => h r (by simp [hr']))]

theorem detailLoop_found (label : String) (ei si : Nat) (rows : List (List String))
    (hlen : ∀ row ∈ rows, 0 < row.length ∧ ei < row.length ∧ si < row.length)
    (hfound : rows.any (fun row => row.getD 0 "" == label) = true) :
    ∃ d, detailLoop label ei si rows = .ok (some d) := by
  induction rows with
  | nil => simp at hfound
  | cons row rest ih =>
    obtain ⟨h0, he, hs⟩ := hlen row (by simp)
    have hg : row.getD 0 "" = row[0] := by simp [List.getD_eq_getElem?_getD, List.getElem?_eq_getElem h0]
    simp only [detailLoop, index_lt row 0 h0, ok_bind]
    rcases Bool.eq_false_or_eq_true (row[0] == label) with hc | hc
    · simp only [hc, ↓reduceIte, index_lt row ei he, index_lt row si hs, ok_bind, pure_eq_ok]
      exact ⟨_, rfl⟩
    · simp only [hc, Bool.false_eq_true, ↓reduceIte]
      apply ih (fun r hr' => hlen r (by simp [hr']))
      rw [List.any_cons, hg, hc, Bool.false_or] at hfound
      exact hfound

/-- GUARD `solutionSetTableContainsEntry(label)` (with the accepted table's shape) protects the dereference of what
`getSolutionDetail` returns, and the `colSize - 2` / `colSize - 1` cell reads inside it -/
theorem containment_guard_protects_detail (t : SolTable) (label : String) (hwf : tableWf t = true)
    (hfound : containsEntry label t.rows = .ok true) : ∃ d, solutionDetailOf t label = .ok d := by
  obtain ⟨h2, hrows⟩ := tableWf_iff.mp hwf
  have h0 : ∀ row ∈ t.rows, 0 < row.length := fun row hr => by rw [hrows row hr]; omega
  rw [containsEntry_eq label t.rows h0] at hfound
  obtain ⟨d, hd⟩ := detailLoop_found label (usub t.colSize 2) (usub t.colSize 1) t.rows
    (fun row hr => by
      rw [hrows row hr, usub_le h2, usub_le (by omega : 1 ≤ t.colSize)]
      omega)
    (by simpa using hfound)
  exact ⟨d, by simp [solutionDetailOf, getSolutionDetail, hd, deref]⟩

theorem getSolutionGo_eq (s : State) (label : String) (hwf : ∀ t, s.table = some t → tableWf t = true) :
    getSolutionGo s label = .ok (getSolution s label) := by
  unfold getSolutionGo getSolution
  cases hn : s.scenName with
  | none => simp
  | some n =>
    cases ht : s.table with
    | none => simp
    | some t =>
      have hw := hwf t ht
      obtain ⟨h2, hrows⟩ := tableWf_iff.mp hw
      have h0 : ∀ row ∈ t.rows, 0 < row.length := fun row hr => by rw [hrows row hr]; omega
      have hc := containsEntry_eq label t.rows h0
      simp only [Option.isNone_some, Bool.false_eq_true, ↓reduceIte, hc, ok_bind]
      rcases Bool.eq_false_or_eq_true (t.rows.any (fun row => row.getD 0 "" == label)) with hf | hf
      · obtain ⟨d, hd⟩ := containment_guard_protects_detail t label hw (by rw [hc, hf])
        rw [hf]
        simp [hd, attrString]
      · rw [hf]
        simp


/-! ## PUT /model/actions/active: the cell loop of `deriveSolutionTable` protects `processTableCell` -/

theorem flag_state {bits : Nat} {str : String} (h : isFlagCell (.num bits str) = true) :
    (!(isZeroBits bits)) = flagOf (.num bits str) := by
  simp only [isFlagCell, Bool.or_eq_true, decide_eq_true_eq] at h
  simp only [isZeroBits, flagOf]
  rcases h with (h | h) | h <;> subst h <;> decide

/-- GUARD `cellGuard` (the type switch over columns 1..: a float64 equal to 0 or 1) protects
`CellFloat64(colIndex,rowIndex)` in `deriveSuppliedActionState` -/
theorem cell_guard_protects_cellFloat64 {row : List Cell} {col : Nat} {c : Cell} (hc : row[col]? = some c)
    (hflag : isFlagCell c = true) : deriveSuppliedActionState row col = .ok (flagOf c) := by
  cases c with
  | num bits str =>
    simp only [deriveSuppliedActionState, index_eq_ok hc, ok_bind, assertFloat64, pure_eq_ok, flag_state hflag]
  | bool => simp [isFlagCell] at hflag
  | text t => simp [isFlagCell] at hflag

/-- a model without actions: the action loop evaluates nothing, whatever the cells are -/
theorem forActions_nil (header : List String) (row : List Cell) (col : Nat) (state : Bool) (set : ActiveSet) :
    forActions header row col state [] set = .ok [] := by
  unfold forActions; rfl

/-- GUARDS `firstColumnGuard` (first cell a number when there is more than one column) and the loop bound
`colIndex < colSize = len(Header())` protect `CellFloat64(0,rowIndex)` and `Header()[colIndex]` in the action loop -/
theorem first_column_guard_protects_cellFloat64 {header : List String} {row : List Cell} {col : Nat} {bits : Nat} {str ty : String}
    (h0 : row[0]? = some (.num bits str)) (hty : header[col]? = some ty) (state : Bool)
    (acts : List (Nat × String)) (set : ActiveSet) :
    forActions header row col state acts set =
      .ok (List.zipWith (fun (a : Nat × String) x => if floatToId bits = some a.1 ∧ a.2 = ty then state else x) acts set) := by
  induction acts generalizing set with
  | nil => unfold forActions; rfl
  | cons a as ih =>
    cases set with
    | nil => unfold forActions; rfl
    | cons x xs =>
      simp only [forActions, index_eq_ok h0, ok_bind, assertFloat64, pure_eq_ok, index_eq_ok hty, ih xs, List.zipWith_cons_cons]

theorem zipWith_setWhere (u : Universe) (set : ActiveSet) (bits : Nat) (ty : String) (state : Bool)
    (hlen : set.length = u.acts.length) :
    List.zipWith (fun (a : Nat × String) x => if floatToId bits = some a.1 ∧ a.2 = ty then state else x) u.acts set =
      match floatToId bits with
      | none => set
      | some pu => setWhere u set pu ty state := by
  cases hf : floatToId bits with
  | none =>
    simp only [reduceCtorEq, false_and, ↓reduceIte]
    generalize u.acts = acts at hlen
    induction acts generalizing set with
    | nil => cases set with
      | nil => rfl
      | cons => simp at hlen
    | cons a as ih =>
      cases set with
      | nil => simp at hlen
      | cons x xs => simp only [List.zipWith_cons_cons, ih xs (by simpa using hlen)]
  | some pu =>
    simp only [setWhere, Option.some.injEq]
    congr 1
    funext a x
    by_cases h : a.1 = pu
    · simp [h]
    · have h' : ¬ pu = a.1 := fun e => h e.symm
      simp [h, h']


theorem processTableCell_eq (u : Universe) {header : List String} {row : List Cell} {col : Nat} {bits : Nat} {str ty : String}
    {c : Cell} (h0 : row[0]? = some (.num bits str)) (hty : header[col]? = some ty) (hc : row[col]? = some c)
    (hflag : isFlagCell c = true) (set : ActiveSet) (hlen : set.length = u.acts.length) :
    processTableCell u header row col set =
      .ok (match floatToId bits with
           | none => set
           | some pu => setWhere u set pu ty (flagOf c)) := by
  simp only [processTableCell, cell_guard_protects_cellFloat64 hc hflag, ok_bind,
    first_column_guard_protects_cellFloat64 h0 hty, zipWith_setWhere u set bits ty (flagOf c) hlen]

/-- the column loop from column `k` on: `hs`, `cs` are the headings and cells still to come -/
theorem forCols_eq (u : Universe) (header : List String) (row : List Cell) {bits : Nat} {str : String}
    (h0 : row[0]? = some (.num bits str)) (n : Nat) :
    ∀ (k : Nat) (hs : List String) (cs : List Cell) (set : ActiveSet),
      header.drop k = hs → row.drop k = cs → hs.length = n → cs.length = n → cs.all isFlagCell = true →
      set.length = u.acts.length →
      forCols u header row (List.range' k n) set =
        .ok (match floatToId bits with
             | none => set
             | some pu => (hs.zip (cs.map flagOf)).foldl (fun acc (tf : String × Bool) => setWhere u acc pu tf.1 tf.2) set) := by
  induction n with
  | zero =>
    intro k hs cs set _ _ hhs hcs _ _
    have e1 : hs = [] := List.length_eq_zero_iff.mp hhs
    have e2 : cs = [] := List.length_eq_zero_iff.mp hcs
    subst e1 e2
    simp only [List.range'_zero, forCols, pure_eq_ok, List.map_nil, List.zip_nil_right, List.foldl_nil]
    cases floatToId bits <;> rfl
  | succ n ih =>
    intro k hs cs set hh hr hhs hcs hall hlen
    cases hs with
    | nil => simp at hhs
    | cons ty hs' =>
      cases cs with
      | nil => simp at hcs
      | cons c cs' =>
        have hty : header[k]? = some ty := by
          have := congrArg List.head? hh
          simpa [List.head?_drop] using this
        have hc : row[k]? = some c := by
          have := congrArg List.head? hr
          simpa [List.head?_drop] using this
        have hh' : header.drop (k + 1) = hs' := by
          have := congrArg List.tail hh
          simpa [List.tail_drop] using this
        have hr' : row.drop (k + 1) = cs' := by
          have := congrArg List.tail hr
          simpa [List.tail_drop] using this
        simp only [List.all_cons, Bool.and_eq_true] at hall
        simp only [List.range'_succ, forCols, processTableCell_eq u h0 hty hc hall.1 set hlen, ok_bind]
        cases hf : floatToId bits with
        | none =>
          have := ih (k + 1) hs' cs' set hh' hr' (by simpa using hhs) (by simpa using hcs) hall.2 hlen
          simpa [hf] using this
        | some pu =>
          have := ih (k + 1) hs' cs' (setWhere u set pu ty (flagOf c)) hh' hr' (by simpa using hhs) (by simpa using hcs)
            hall.2 (setWhere_length u set pu ty _ hlen)
          simpa [hf] using this

/-- one row of `processRequestTable` is `applyRow` of the spec, given what `deriveSolutionTable` checked of that row -/
theorem processRow_eq (u : Universe) (header : List String) (row : List Cell) (set : ActiveSet)
    (hne : header ≠ []) (hrect : row.length = header.length)
    (hcells : (row.drop 1).all isFlagCell = true) (hfirst : header.length > 1 → firstIsNum row = true)
    (hlen : set.length = u.acts.length) :
    forCols u header row (List.range' 1 (header.length - 1)) set = .ok (applyRow u (header.drop 1) set (rowOf row)) := by
  by_cases h1 : header.length > 1
  · -- at least two columns: the first cell is a number
    cases row with
    | nil => simp at hrect; omega
    | cons c0 rest =>
      cases c0 with
      | num bits str =>
        have := forCols_eq u header (.num bits str :: rest) (bits := bits) (str := str) (by simp) (header.length - 1) 1
          (header.drop 1) rest set rfl (by simp) (by simp) (by simp at hrect; omega) (by simpa using hcells) hlen
        rw [this]
        simp only [applyRow, rowOf]
        cases floatToId bits <;> rfl
      | bool => simp [firstIsNum] at hfirst; omega
      | text t => simp [firstIsNum] at hfirst; omega
  · -- one column: no cell is processed
    have hl : header.length = 1 := by
      have : header.length ≠ 0 := fun e => hne (List.length_eq_zero_iff.mp e)
      omega
    have hd : header.drop 1 = [] := by
      apply List.drop_eq_nil_of_le; omega
    simp only [hl, Nat.sub_self, List.range'_zero, forCols, pure_eq_ok, hd, applyRow, List.zip_nil_left, List.foldl_nil]
    cases (rowOf row).1 <;> rfl

/-- GUARDS ⇒ the whole of `processRequestTable` answers `.ok`, with the spec's `applyTable` -/
theorem processRequestTable_eq (u : Universe) (header : List String) (rows : List (List Cell)) (set : ActiveSet)
    (hne : header ≠ []) (hrect : ∀ row ∈ rows, row.length = header.length)
    (hcells : cellGuard rows = true) (hfirst : firstColumnGuard header rows = true)
    (hlen : set.length = u.acts.length) :
    processRequestTable u header rows set = .ok (applyTable u (header.drop 1) (rows.map rowOf) set) := by
  induction rows generalizing set with
  | nil => rfl
  | cons row rows ih =>
    simp only [cellGuard, List.all_cons, Bool.and_eq_true] at hcells
    simp only [firstColumnGuard, List.all_cons, Bool.and_eq_true] at hfirst
    have hrow := processRow_eq u header row set hne (hrect row (by simp)) hcells.1
      (fun h1 => by simpa [h1] using hfirst.1) hlen
    simp only [processRequestTable, hrow, ok_bind, applyTable, List.map_cons, List.foldl_cons]
    exact ih _ (fun r hr => hrect r (by simp [hr])) hcells.2 hfirst.2 (applyRow_length u _ set _ hlen)


theorem csvRect_iff {header : List String} {rows : List (List Cell)} :
    csvRect (.table header rows) = true ↔ header ≠ [] ∧ ∀ row ∈ rows, row.length = header.length := by
  simp [csvRect]

/-- `classifyTable` of the spec, read as the three guards of `deriveSolutionTable` -/
theorem classifyTable_guards (header : List String) (rows : List (List Cell)) :
    classifyTable (.table header rows) =
      if header[0]? ≠ some "SubCatchment" then .badHeader
      else if cellGuard rows = false then .badCell
      else if firstColumnGuard header rows = false then .badFirstColumn
      else .ok (header.drop 1) (rows.map rowOf) := by
  have hfc : firstColumnGuard header rows = (!(decide (header.length ≥ 2) && !(rows.all firstIsNum))) := by
    unfold firstColumnGuard
    by_cases h : header.length > 1
    · have : header.length ≥ 2 := h
      simp [h, this]
    · have : ¬ header.length ≥ 2 := h
      simp [h, this]
  simp only [classifyTable, List.head?_eq_getElem?, hfc, cellGuard]
  split
  · rfl
  · rcases Bool.eq_false_or_eq_true (rows.all fun row => (row.drop 1).all isFlagCell) with hc | hc
    · rw [hc]
      rcases Bool.eq_false_or_eq_true (decide (header.length ≥ 2) && !(rows.all firstIsNum)) with hf | hf
      · rw [hf]; simp
      · rw [hf]; simp
    · rw [hc]; simp

theorem putActiveGo_eq (q : Quirks) (W : World) (s : State) (r : Request)
    (hsl : s.snap.isSome = true → s.live.isSome = true)
    (hlen : ∀ m, s.live = some m → m.active.length = m.u.acts.length)
    (hwf : ∀ t, s.table = some t → tableWf t = true) (hr : reqWf r = true) :
    putActiveGo q W s r = .ok (putActive q W s r) := by
  unfold putActiveGo putActive
  cases hs : s.snap with
  | none => simp
  | some sn =>
    have hl := hsl (by simp [hs])
    cases hlive : s.live with
    | none => simp [hlive] at hl
    | some m =>
      simp only []
      split
      · rfl
      · cases hf : r.facts with
        | csv c =>
          cases c with
          | error => simp [classifyTable]
          | table header rows =>
            have hrect : csvRect (.table header rows) = true := by simpa [reqWf, hf] using hr
            obtain ⟨hne, hrows⟩ := csvRect_iff.mp hrect
            have h0 : header[0]? = some (header[0]'(by
                cases header with
                | nil => exact absurd rfl hne
                | cons => simp)) := List.getElem?_eq_getElem _
            simp only [headingIsSubCatchment, index_eq_ok h0, ok_bind, pure_eq_ok, classifyTable_guards]
            by_cases hh : header[0]? = some "SubCatchment"
            · have hb : (header[0]'(by
                  cases header with
                  | nil => exact absurd rfl hne
                  | cons => simp) == "SubCatchment") = true := by
                rw [h0] at hh
                simpa using hh
              simp only [hb, Bool.not_true, Bool.false_eq_true, ↓reduceIte, hh, ne_eq, not_true_eq_false]
              rcases Bool.eq_false_or_eq_true (cellGuard rows) with hc | hc
              · rcases Bool.eq_false_or_eq_true (firstColumnGuard header rows) with hfc | hfc
                · simp only [hc, hfc, Bool.and_self, Bool.not_true, Bool.false_eq_true, ↓reduceIte, activeAccepted, hlive,
                    deref_some, ok_bind]
                  rw [processRequestTable_eq m.u header rows m.active hne hrows hc hfc (hlen m hlive)]
                  simp only [ok_bind, deriveGo_eq q W s.table _ hwf, pure_eq_ok]
                  simp
                · simp [hc, hfc]
              · simp [hc]
            · have hb : (header[0]'(by
                  cases header with
                  | nil => exact absurd rfl hne
                  | cons => simp) == "SubCatchment") = false := by
                rw [h0] at hh
                simpa using hh
              simp [hb, hh]
        | none => simp
        | scen b => simp
        | patch p => simp
        | sub p => simp


/-! ## PUT /model/subcatchment/<id> -/

theorem putSubGo_eq (q : Quirks) (W : World) (s : State) (r : Request) (id : String)
    (hsl : s.snap.isSome = true → s.live.isSome = true)
    (hsn : s.snap.isSome = true → s.scenName.isSome = true)
    (hwf : ∀ t, s.table = some t → tableWf t = true) :
    putSubGo q W s r id = .ok (putSub q W s r id) := by
  unfold putSubGo putSub
  cases hs : s.snap with
  | none => simp
  | some sn =>
    have hl := hsl (by simp [hs])
    have hattr : ∀ site, ∃ n, attrString s.scenName site = .ok n := fun site => by
      obtain ⟨n, _, h⟩ := attrString_isSome (hsn (by simp [hs])) site
      exact ⟨n, h⟩
    cases hlive : s.live with
    | none => simp [hlive] at hl
    | some m =>
      cases ha : atoi? id with
      | none => simp
      | some pu =>
        simp only []
        rcases Bool.eq_false_or_eq_true (sn.u.pus.contains pu) with hc | hc
        · obtain ⟨n, hn⟩ := hattr "processSubcatchmentPost: m.Attribute(scenarioNameKey).(string)"
          simp only [hc, Bool.not_true, Bool.false_eq_true, ↓reduceIte, hn, ok_bind, pure_eq_ok]
          cases hf : r.facts with
          | sub p =>
            cases p with
            | none => simp
            | some entries =>
              simp only []
              rcases Bool.eq_false_or_eq_true (subSyntaxOk entries) with hsy | hsy
              · simp only [hsy, Bool.not_true, Bool.false_eq_true, ↓reduceIte, subAccepted, hlive, deref_some, ok_bind]
                rcases Bool.eq_false_or_eq_true (subSupported m.u pu entries) with hsu | hsu
                · simp only [hsu, Bool.not_true, Bool.false_eq_true, ↓reduceIte, deriveGo_eq q W s.table _ hwf, ok_bind]
                  split <;> rfl
                · simp [hsu]
              · simp [hsy]
          | none => simp
          | scen b => simp
          | patch p => simp
          | csv c => simp
        · simp only [hc, Bool.not_false, ↓reduceIte, pure_eq_ok]

/-! ## POST /scenario -/

theorem postScenarioGo_eq (q : Quirks) (W : World) (s : State) (r : Request)
    (hwf : ∀ t, s.table = some t → tableWf t = true) :
    postScenarioGo q W s r = .ok (postScenario q W s r) := by
  unfold postScenarioGo
  split
  · rename_i hc; simp [postScenario, hc]
  · rename_i hc
    split
    · rename_i name u hf
      simp only [deriveGo_eq q W s.table _ hwf, ok_bind, pure_eq_ok, postScenario, hc, ↓reduceIte, hf, freshModel]
    · rfl


/-! ## PATCH /model: the pre-validation loop protects the second loop -/

/-- the pre-validation loop is the spec's `decodeEntries` (as a test) -/
theorem prevalidate_eq (m : Mdl) (es : List PatchEntry) :
    prevalidate (some m) es = .ok (decodeEntries m.u.acts.length es).isSome := by
  induction es with
  | nil => rfl
  | cons e es ih =>
    simp only [prevalidate, decodeEntries]
    cases e.enc with
    | notEncoding => exact ih
    | nonString => rfl
    | text t =>
      simp only [deref_some, ok_bind]
      cases Crem.BoolArchive.decode m.u.acts.length t.toList with
      | error _ => rfl
      | ok set =>
        simp only [ih]
        cases decodeEntries m.u.acts.length es <;> rfl

/-- the second loop after a successful pre-validation: no panic, no 400, every `Encoding` applied in order.
Pre-validation and application use THE SAME decoder on a model with the same action list (`derive` and `join` keep
`u`), which is why the second-loop 400 is dead. -/
theorem applyEncodings_eq (q : Quirks) (W : World) (tbl : Option SolTable) (hwf : ∀ t, tbl = some t → tableWf t = true)
    (n : Nat) (es : List PatchEntry) :
    ∀ (m : Mdl) (snap : Option Mdl) (applied : Bool) (sets : List ActiveSet),
      m.u.acts.length = n → decodeEntries n es = some sets →
      applyEncodings q W tbl m snap applied es =
        .ok ⟨true, sets.foldl (fun acc set => derive q W tbl { acc with active := set }) m,
             if sets.isEmpty then snap else some (sets.foldl (fun acc set => derive q W tbl { acc with active := set }) m),
             applied || !sets.isEmpty⟩ := by
  induction es with
  | nil =>
    intro m snap applied sets _ hd
    simp only [decodeEntries, Option.some.injEq] at hd
    subst hd
    simp [applyEncodings]
  | cons e es ih =>
    intro m snap applied sets hn hd
    simp only [decodeEntries] at hd
    simp only [applyEncodings]
    cases he : e.enc with
    | notEncoding =>
      rw [he] at hd
      exact ih m snap applied sets hn hd
    | nonString => rw [he] at hd; cases hd
    | text t =>
      rw [he] at hd
      simp only [] at hd ⊢
      rw [hn]
      cases hdec : Crem.BoolArchive.decode n t.toList with
      | error _ => rw [hdec] at hd; cases hd
      | ok set =>
        rw [hdec] at hd
        simp only [] at hd ⊢
        cases hrest : decodeEntries n es with
        | none => rw [hrest] at hd; cases hd
        | some sets' =>
          rw [hrest] at hd
          simp only [Option.some.injEq] at hd
          subst hd
          simp only [deriveGo_eq q W tbl _ hwf, ok_bind]
          rw [ih (derive q W tbl { m with active := set }) (some (derive q W tbl { m with active := set })) true sets'
            (by rw [derive_u]; exact hn) hrest]
          cases sets' with
          | nil => simp
          | cons x xs => simp

/-- GUARD `prevalidate` protects `entry.Value.(string)` in the second loop and kills its 400 -/
theorem prevalidation_protects_type_assertion (q : Quirks) (W : World) (tbl : Option SolTable)
    (hwf : ∀ t, tbl = some t → tableWf t = true) (m joined : Mdl) (hu : joined.u = m.u) (snap : Option Mdl)
    (es : List PatchEntry) (hpre : prevalidate (some m) es = .ok true) :
    ∃ l, applyEncodings q W tbl joined snap false es = .ok l ∧ l.fine = true := by
  rw [prevalidate_eq] at hpre
  cases hd : decodeEntries m.u.acts.length es with
  | none => simp [hd] at hpre
  | some sets =>
    exact ⟨_, applyEncodings_eq q W tbl hwf m.u.acts.length es joined snap false sets (by rw [hu]) hd, rfl⟩

/-- after a successful pre-validation the rest of the PATCH handler answers 200: neither the unchecked assertion nor
the second-loop 400 is reachable -/
theorem patchApply_ok (q : Quirks) (W : World) (s : State) (m : Mdl) (entries : List PatchEntry)
    (hlive : s.live = some m) (hwf : ∀ t, s.table = some t → tableWf t = true)
    (hpre : prevalidate s.live entries = .ok true) :
    ∃ s', patchApply q W s entries = .ok (ok .success, s') := by
  rw [hlive, prevalidate_eq] at hpre
  cases hd : decodeEntries m.u.acts.length entries with
  | none => simp [hd] at hpre
  | some sets =>
    simp only [patchApply, hlive, deref_some, ok_bind]
    rw [applyEncodings_eq q W s.table hwf m.u.acts.length entries
      { m with attrs := join q m.attrs (List.map (fun e => ({ name := e.name, val := e.val } : Attr)) entries) }
      s.snap false sets rfl hd]
    simp only [ok_bind, Bool.not_true, Bool.false_eq_true, ↓reduceIte, Bool.false_or]
    cases sets with
    | nil =>
      simp only [List.isEmpty_nil, Bool.not_true, Bool.false_eq_true, ↓reduceIte, List.foldl_nil]
      split
      · exact ⟨_, rfl⟩
      · simp only [deriveGo_eq q W s.table _ hwf, ok_bind, pure_eq_ok]
        exact ⟨_, rfl⟩
    | cons x xs =>
      simp only [List.isEmpty_cons, Bool.not_false, ↓reduceIte, pure_eq_ok]
      exact ⟨_, rfl⟩

theorem patchModelGo_eq (q : Quirks) (W : World) (s : State) (r : Request)
    (hsl : s.snap.isSome = true → s.live.isSome = true)
    (hwf : ∀ t, s.table = some t → tableWf t = true) :
    patchModelGo q W s r = .ok (patchModel q W s r) := by
  unfold patchModelGo
  rcases Bool.eq_false_or_eq_true q.patchEager with hq | hq
  · simp [hq]
  · simp only [hq, Bool.false_eq_true, ↓reduceIte]
    unfold patchModel
    cases hs : s.snap with
    | none => simp
    | some sn =>
      have hl := hsl (by simp [hs])
      cases hlive : s.live with
      | none => simp [hlive] at hl
      | some m =>
        simp only []
        split
        · rfl
        · cases hf : r.facts with
          | patch p =>
            cases p with
            | none => simp
            | some entries =>
              simp only [prevalidate_eq, ok_bind, hq, Bool.false_eq_true, ↓reduceIte]
              cases hd : decodeEntries m.u.acts.length entries with
              | none => simp
              | some sets =>
                simp only [Option.isSome_some, Bool.not_true, Bool.false_eq_true, ↓reduceIte, patchApply, hlive, deref_some,
                  ok_bind]
                rw [applyEncodings_eq q W s.table hwf m.u.acts.length entries
                  { m with attrs := join q m.attrs (List.map (fun e => ({ name := e.name, val := e.val } : Attr)) entries) }
                  s.snap false sets rfl hd]
                simp only [ok_bind, Bool.not_true, Bool.false_eq_true, ↓reduceIte, Bool.false_or]
                cases sets with
                | nil =>
                  simp only [List.isEmpty_nil, Bool.not_true, Bool.false_eq_true, ↓reduceIte, List.foldl_nil]
                  split
                  · simp only [pure_eq_ok, hs]
                  · simp only [deriveGo_eq q W s.table _ hwf, ok_bind, pure_eq_ok]
                | cons x xs =>
                  simp
          | none => simp
          | scen b => simp
          | sub p => simp
          | csv c => simp


/-! ## POST /solutions -/

/-- GUARD `headerLength < 2 ⇒ reject` protects `Header()[headerLength-2]` (and `[0]`, `[headerLength-1]`) -/
theorem header_length_guard_protects_headings (header : List String) (h2 : 2 ≤ header.length) :
    solHeadingsOk header =
      .ok (decide (header.head? = some "Solution" ∧ header[header.length - 2]? = some "Actions" ∧
                   header[header.length - 1]? = some "Summary")) := by
  have e2 : ((header.length : Nat) : Int) - 2 = ((header.length - 2 : Nat) : Int) := by omega
  have e1 : ((header.length : Nat) : Int) - 1 = ((header.length - 1 : Nat) : Int) := by omega
  have g0 : header[0]? = some (header[0]'(by omega)) := List.getElem?_eq_getElem _
  have g2 : header[header.length - 2]? = some (header[header.length - 2]'(by omega)) := List.getElem?_eq_getElem _
  have g1 : header[header.length - 1]? = some (header[header.length - 1]'(by omega)) := List.getElem?_eq_getElem _
  simp only [solHeadingsOk, e2, e1, index_eq_ok g0, indexInt_eq_ok g2, indexInt_eq_ok g1, ok_bind, pure_eq_ok,
    List.head?_eq_getElem?, g0, g2, g1, Option.some.injEq]
  congr 1
  rw [Bool.and_assoc, Bool.decide_and, Bool.decide_and]
  rfl

theorem any_false_find {asIs : List (String × Nat)} {name : String} (h : asIs.any (fun v => decide (v.1 = name)) = false) :
    asIs.find? (fun v => decide (v.1 = name)) = none := by
  rw [List.find?_eq_none]
  intro v hv
  have := List.any_eq_false.mp h v hv
  simpa using this

theorem any_true_find {asIs : List (String × Nat)} {name : String} (h : asIs.any (fun v => decide (v.1 = name)) = true) :
    ∃ v, asIs.find? (fun v => decide (v.1 = name)) = some v := by
  cases hf : asIs.find? (fun v => decide (v.1 = name)) with
  | some v => exact ⟨v, rfl⟩
  | none =>
    rw [List.find?_eq_none] at hf
    obtain ⟨v, hv, hp⟩ := List.any_eq_true.mp h
    exact absurd hp (hf v hv)

/-- GUARD `isModelVariable` (the `NameMappedVariables` look-up) protects `asIsModel.DecisionVariable(name)` -/
theorem as_is_variable_guard_protects_decisionVariable (asIs : List (String × Nat)) (name : String) (tableValue : Nat)
    (h : asIs.any (fun v => decide (v.1 = name)) = true) :
    ∃ v, asIs.find? (fun v => decide (v.1 = name)) = some v ∧
      asIsValueMatches asIs name tableValue = .ok (floatEq tableValue v.2) := by
  obtain ⟨v, hv⟩ := any_true_find h
  exact ⟨v, hv, by simp [asIsValueMatches, decisionVariable, hv]⟩

/-- GUARD `colIndex >= colSize ⇒ mismatch` protects `Header()[colIndex]` (and, the table being rectangular,
`Cell(colIndex,rowIndex)`): the cell test answers, with the spec's verdict for that column -/
theorem as_is_column_guard_protects_header_index (asIs : List (String × Nat)) (header : List String) (row : List Cell)
    (hrect : row.length = header.length) (col : Nat) (hlt : col < header.length) :
    asIsCellMatches asIs header row col =
      .ok (match header[col]?, row[col]? with
           | some h, some (.num b _) =>
             (match asIs.find? (fun v => decide (v.1 = h)) with
              | none => false
              | some v => floatEq b v.2)
           | _, _ => false) := by
  have gh : header[col]? = some (header[col]'hlt) := List.getElem?_eq_getElem _
  have gr : row[col]? = some (row[col]'(by omega)) := List.getElem?_eq_getElem _
  simp only [asIsCellMatches, index_eq_ok gh, index_eq_ok gr, ok_bind, gh, gr]
  generalize row[col]'(by omega) = c
  generalize header[col]'hlt = name
  cases c with
  | num bits str =>
    simp only [Bool.not_true, Bool.or_false]
    rcases Bool.eq_false_or_eq_true (asIs.any (fun v => decide (v.1 = name))) with ha | ha
    · obtain ⟨v, hv, hm⟩ := as_is_variable_guard_protects_decisionVariable asIs name bits ha
      simp only [ha, Bool.not_true, Bool.false_eq_true, ↓reduceIte, hm, hv]
    · simp [ha, any_false_find ha]
  | bool => simp
  | text t => simp

/-- the spec's verdict as a Boolean -/
def isFine : AsIs → Bool
  | .fine => true
  | _ => false

/-- both guards ⇒ an "As-Is" row is verified without panic, with the spec's verdict -/
theorem as_is_guards_protect_row (asIs : List (String × Nat)) (header : List String) (row : List Cell)
    (hrect : row.length = header.length) (fuel : Nat) :
    ∀ col, verifyAsIsRow asIs header row fuel col = .ok (isFine (checkAsIsRow asIs header row fuel col)) := by
  induction fuel with
  | zero => intro col; simp [verifyAsIsRow, checkAsIsRow, isFine]
  | succ fuel ih =>
    intro col
    simp only [verifyAsIsRow, checkAsIsRow]
    by_cases hcol : col ≥ header.length
    · simp [hcol, isFine]
    · have hlt : col < header.length := by omega
      have gh : header[col]? = some (header[col]'hlt) := List.getElem?_eq_getElem _
      have gr : row[col]? = some (row[col]'(by omega)) := List.getElem?_eq_getElem _
      simp only [hcol, ↓reduceIte, as_is_column_guard_protects_header_index asIs header row hrect col hlt, ok_bind, gh, gr]
      generalize row[col]'(by omega) = c
      generalize header[col]'hlt = h
      cases c with
      | num b str =>
        simp only []
        rcases hf : asIs.find? (fun v => decide (v.1 = h)) with _ | v
        · simp [hf, isFine]
        · simp only [hf]
          rcases Bool.eq_false_or_eq_true (floatEq b v.2) with hfe | hfe
          · simp only [hfe, Bool.not_true, Bool.false_eq_true, ↓reduceIte]
            exact ih (col + 1)
          · simp [hfe, isFine]
      | bool => simp [isFine]
      | text t => simp [isFine]

theorem verifySummary_eq (asIs : List (String × Nat)) (header : List String) (rows : List (List Cell))
    (hne : header ≠ []) (hrect : ∀ row ∈ rows, row.length = header.length) :
    verifySummary asIs header rows = .ok (isFine (checkAsIs asIs header rows)) := by
  induction rows with
  | nil => simp [verifySummary, checkAsIs, isFine]
  | cons row rest ih =>
    have hr := hrect row (by simp)
    have hpos : 0 < row.length := by
      have : header.length ≠ 0 := fun e => hne (List.length_eq_zero_iff.mp e)
      omega
    have g0 : row[0]? = some (row[0]'hpos) := List.getElem?_eq_getElem _
    have ih' := ih (fun r hr' => hrect r (by simp [hr']))
    simp only [verifySummary, checkAsIs, index_eq_ok g0, ok_bind, List.head?_eq_getElem?, g0, Option.map_some,
      Option.some.injEq, as_is_guards_protect_row asIs header row hr]
    by_cases hl : (row[0]'hpos).str = "As-Is"
    · simp only [hl, ↓reduceIte]
      cases hc : checkAsIsRow asIs header row asIs.length 1 with
      | fine => simpa [isFine] using ih'
      | unreadable => simp [isFine]
      | mismatch => simp [isFine]
    · simp only [hl, ↓reduceIte]
      exact ih'

/-- `classifySols` of the spec, read as the guards of `deriveSolutionsRequestTable` and the verdict of
`verifySolutionSummaryMatchesScenario` -/
theorem classifySols_table (asIs : List (String × Nat)) (header : List String) (rows : List (List Cell)) :
    classifySols asIs (.table header rows) =
      if header.length < 2 then .oneColumn
      else if ¬ (header.head? = some "Solution" ∧ header[header.length - 2]? = some "Actions" ∧
                 header[header.length - 1]? = some "Summary") then .structErr
      else if (rows.drop 1).all (solRowOk header) = false then .structErr
      else match checkAsIs asIs header rows with
        | .unreadable => .asIsUnreadable
        | .mismatch => .asIsMismatch
        | .fine => .ok { colSize := header.length, rows := rows.map (fun row => row.map Cell.str) } := by
  simp only [classifySols]
  split
  · rfl
  · by_cases hh : header.head? = some "Solution" ∧ header[header.length - 2]? = some "Actions" ∧
        header[header.length - 1]? = some "Summary"
    · have : ¬ (header.head? ≠ some "Solution" ∨ header[header.length - 2]? ≠ some "Actions" ∨
          header[header.length - 1]? ≠ some "Summary") := by
        intro h; rcases h with h | h | h
        · exact h hh.1
        · exact h hh.2.1
        · exact h hh.2.2
      simp only [↓reduceIte, hh, and_self, not_true_eq_false]
      rcases Bool.eq_false_or_eq_true ((rows.drop 1).all (solRowOk header)) with hc | hc
      · rw [hc]
        simp only [Bool.not_true, Bool.false_eq_true, ↓reduceIte, reduceCtorEq]
        cases checkAsIs asIs header rows <;> rfl
      · rw [hc]
        simp
    · have : (header.head? ≠ some "Solution" ∨ header[header.length - 2]? ≠ some "Actions" ∨
          header[header.length - 1]? ≠ some "Summary") := by
        by_cases h1 : header.head? = some "Solution"
        · by_cases h2 : header[header.length - 2]? = some "Actions"
          · right; right; exact fun h3 => hh ⟨h1, h2, h3⟩
          · right; left; exact h2
        · left; exact h1
      simp only [this, ↓reduceIte, hh, not_false_eq_true]

/-- a table accepted by `classifySols` from a rectangular CSV table has the shape later handlers rely on -/
theorem accepted_table_wf (header : List String) (rows : List (List Cell)) (h2 : 2 ≤ header.length)
    (hrect : ∀ row ∈ rows, row.length = header.length) :
    tableWf { colSize := header.length, rows := rows.map (fun row => row.map Cell.str) } = true := by
  rw [tableWf_iff]
  refine ⟨h2, ?_⟩
  intro row hrow
  obtain ⟨r0, hr0, rfl⟩ := List.mem_map.mp hrow
  simp [hrect r0 hr0]

theorem postSolutionsGo_eq (q : Quirks) (W : World) (s : State) (r : Request)
    (htl : s.scenText.isSome = true → s.live.isSome = true)
    (htn : s.scenText.isSome = true → s.scenName.isSome = true)
    (hls : s.live.isSome = true → s.snap.isSome = true)
    (hr : reqWf r = true) :
    postSolutionsGo q W s r = .ok (postSolutions q W s r) := by
  unfold postSolutionsGo postSolutions
  split
  · rfl
  · rename_i hst
    have hst' : s.scenText.isSome = true := by
      cases h : s.scenText with
      | none => simp [h] at hst
      | some _ => rfl
    split
    · rfl
    · have hl := htl hst'
      cases hlive : s.live with
      | none => simp [hlive] at hl
      | some m =>
        have hsnap := hls (by simp [hlive])
        cases hsn : s.snap with
        | none => simp [hsn] at hsnap
        | some sn =>
          obtain ⟨n, hn⟩ : ∃ n, attrString s.scenName
              "rememberSolutionsAttributeState: m.Attribute(scenarioNameKey).(string)" = .ok n := by
            obtain ⟨n, _, h⟩ := attrString_isSome (htn hst') "rememberSolutionsAttributeState: m.Attribute(scenarioNameKey).(string)"
            exact ⟨n, h⟩
          cases hf : r.facts with
          | csv c =>
            cases c with
            | error => simp [classifySols]
            | table header rows =>
              have hrect : csvRect (.table header rows) = true := by simpa [reqWf, hf] using hr
              obtain ⟨hne, hrows⟩ := csvRect_iff.mp hrect
              simp only [classifySols_table]
              by_cases h2 : header.length < 2
              · simp [h2]
              · have h2' : 2 ≤ header.length := by omega
                simp only [h2, ↓reduceIte, header_length_guard_protects_headings header h2', ok_bind]
                by_cases hh : header.head? = some "Solution" ∧ header[header.length - 2]? = some "Actions" ∧
                    header[header.length - 1]? = some "Summary"
                · simp only [hh, and_self, decide_true, Bool.not_true, Bool.false_or, not_true_eq_false, ↓reduceIte]
                  rcases Bool.eq_false_or_eq_true ((rows.drop 1).all (solRowOk header)) with hc | hc
                  · simp only [hc, Bool.not_true, Bool.false_eq_true, ↓reduceIte, solutionsAccepted, hlive, deref_some,
                      ok_bind, verifySummary_eq m.u.asIs header rows hne hrows]
                    cases hchk : checkAsIs m.u.asIs header rows with
                    | fine =>
                      simp only [isFine, Bool.not_true, Bool.false_eq_true, ↓reduceIte, hn, ok_bind, hsn]
                      have hd := deriveGo_eq q W
                        (some { colSize := header.length, rows := rows.map (fun row => row.map Cell.str) }) m (fun t ht => by
                          simp only [Option.some.injEq] at ht
                          subst ht
                          exact accepted_table_wf header rows h2' hrows)
                      split
                      · simp
                      · simp only [hd, ok_bind, pure_eq_ok]
                        simp
                    | unreadable => simp [isFine]
                    | mismatch => simp [isFine]
                  · simp only [hc, Bool.not_false, ↓reduceIte, pure_eq_ok]
                · simp [hh]
          | none => simp
          | scen b => simp
          | patch p => simp
          | sub p => simp


/-! ## the multiplexer -/

/-- what the Go-shaped handlers rely on BEYOND their own guards: facts about the engine's state that the guards do
not ask for (each field names the handlers that need it) -/
structure GoInv (s : State) : Prop where
  /-- `m.modelSolution != nil ⇒ m.model != nil`: PATCH /model, PUT active, PUT subcatchment dereference `m.model` after
  testing `m.modelSolution` -/
  snap_live : s.snap.isSome = true → s.live.isSome = true
  /-- POST /solutions: the spec re-derives whenever a live model exists, the code when BOTH pointers are non-nil -/
  live_snap : s.live.isSome = true → s.snap.isSome = true
  /-- every GET of the model resources and PUT subcatchment: `Attribute(scenarioNameKey).(string)` after
  `m.modelSolution == nil` -/
  snap_name : s.snap.isSome = true → s.scenName.isSome = true
  /-- GET /scenario, GET and POST /solutions: the name after `HasAttribute(scenarioTextKey)` -/
  text_name : s.scenText.isSome = true → s.scenName.isSome = true
  /-- POST /solutions: `m.model.DeepClone()` after `HasAttribute(scenarioTextKey)` -/
  text_live : s.scenText.isSome = true → s.live.isSome = true
  /-- PUT active: the model's action list and its action states have one length -/
  len : ∀ m, s.live = some m → m.active.length = m.u.acts.length
  /-- every `deriveExtraModelAttributes` and GET /solutions/<label>: the loaded table has ≥ 2 columns (`colSize - 2`) -/
  table_wf : ∀ t, s.table = some t → tableWf t = true

/-- the loaded solution table (if any) has the shape `deriveSolutionsRequestTable` accepted -/
def TableWf (s : State) : Prop := ∀ t, s.table = some t → tableWf t = true

theorem goInv_of_inv {W : World} {s : State} (h : Inv W s) (ht : TableWf s) : GoInv s where
  snap_live := by rw [h.snap_eq]; exact id
  live_snap := by rw [h.snap_eq]; exact id
  snap_name := by rw [h.snap_eq, h.name_iff]; exact id
  text_name := by rw [h.text_iff, h.name_iff]; exact id
  text_live := by rw [h.text_iff]; exact id
  len := fun m hm => (h.shows m hm).2
  table_wf := ht

/-- every handler, whatever the variant: the Go-shaped transcription answers, and answers what the total spec says -/
theorem stepGo_eq_of_goInv (q : Quirks) (W : World) (s : State) (r : Request) (h : GoInv s) (hr : reqWf r = true) :
    stepGo q W s r = .ok (step q W s r) := by
  unfold stepGo step
  cases classifyPath r.path with
  | other => rfl
  | root => simp only []; split <;> rfl
  | scenario =>
    cases r.method <;>
      first | rfl | exact postScenarioGo_eq q W s r h.table_wf | exact getScenarioGo_eq q s h.text_name
  | solutions =>
    cases r.method <;>
      first | rfl | exact postSolutionsGo_eq q W s r h.text_live h.text_name h.live_snap hr
            | exact getSolutionsGo_eq q s h.text_name
  | solution label =>
    cases r.method <;> first | rfl | exact getSolutionGo_eq s label h.table_wf
  | model =>
    cases r.method <;>
      first | rfl | exact getModelGo_eq s h.snap_name | exact patchModelGo_eq q W s r h.snap_live h.table_wf
  | active =>
    cases r.method <;>
      first | rfl | exact putActiveGo_eq q W s r h.snap_live h.len h.table_wf hr | exact getActiveGo_eq s h.snap_name
  | applicable =>
    cases r.method <;> first | rfl | exact getApplicableGo_eq s h.snap_name
  | sub id =>
    cases r.method <;>
      first | rfl | exact getSubGo_eq s id h.snap_name | exact putSubGo_eq q W s r id h.snap_live h.snap_name h.table_wf

/-! ## the table's shape is an invariant (demanded behaviour) -/

theorem classifySols_ok_wf {asIs : List (String × Nat)} {c : Csv} {t : SolTable} (hrect : csvRect c = true)
    (h : classifySols asIs c = .ok t) : tableWf t = true := by
  cases c with
  | error => simp [classifySols] at h
  | table header rows =>
    obtain ⟨_, hrows⟩ := csvRect_iff.mp hrect
    rw [classifySols_table] at h
    split at h
    · cases h
    · rename_i h2
      split at h
      · cases h
      · split at h
        · cases h
        · split at h
          · cases h
          · cases h
          · cases h
            exact accepted_table_wf header rows (by omega) hrows

theorem postScenario_table (W : World) (s : State) (r : Request) :
    (postScenario Quirks.spec W s r).2.table = s.table := by
  unfold postScenario
  simp only [Quirks.spec, Bool.false_eq_true, ↓reduceIte, Bool.false_and]
  repeat' split
  all_goals (first | rfl | (simp only []; rfl))

theorem patchModel_table (W : World) (s : State) (r : Request) :
    (patchModel Quirks.spec W s r).2.table = s.table := by
  unfold patchModel
  simp only [Quirks.spec, Bool.false_eq_true, ↓reduceIte]
  repeat' split
  all_goals (first | rfl | (simp only []; rfl))

theorem putActive_table (q : Quirks) (W : World) (s : State) (r : Request) :
    (putActive q W s r).2.table = s.table := by
  unfold putActive
  repeat' split
  all_goals (first | rfl | (simp only []; rfl))

theorem putSub_table (W : World) (s : State) (r : Request) (id : String) :
    (putSub Quirks.spec W s r id).2.table = s.table := by
  unfold putSub
  simp only [Quirks.spec, Bool.false_eq_true, ↓reduceIte]
  repeat' split
  all_goals (first | rfl | (simp only []; rfl))

theorem postSolutions_tableWf (W : World) (s : State) (r : Request) (ht : TableWf s) (hr : reqWf r = true) :
    TableWf (postSolutions Quirks.spec W s r).2 := by
  unfold postSolutions
  simp only [Quirks.spec, Bool.false_eq_true, ↓reduceIte]
  split
  · exact ht
  · split
    · exact ht
    · split
      · rename_i c m hf hl
        split
        · rename_i t hc
          intro t' ht'
          simp only [Option.some.injEq] at ht'
          subst ht'
          exact classifySols_ok_wf (by simpa [reqWf, hf] using hr) hc
        · exact ht
      · exact ht

theorem tableWf_step (W : World) (s : State) (r : Request) (ht : TableWf s) (hr : reqWf r = true) :
    TableWf (step Quirks.spec W s r).2 := by
  by_cases hg : r.method = .get
  · rw [step_get _ _ _ _ hg]; exact ht
  · unfold step
    split
    · exact ht
    · split <;> exact ht
    · split
      · unfold TableWf; rw [postScenario_table]; exact ht
      · rename_i hm; exact absurd hm hg
      · exact ht
    · split
      · exact postSolutions_tableWf W s r ht hr
      · rename_i hm; exact absurd hm hg
      · exact ht
    · split
      · rename_i hm; exact absurd hm hg
      · exact ht
    · split
      · rename_i hm; exact absurd hm hg
      · unfold TableWf; rw [patchModel_table]; exact ht
      · exact ht
    · split
      · unfold TableWf; rw [putActive_table]; exact ht
      · rename_i hm; exact absurd hm hg
      · exact ht
    · split
      · rename_i hm; exact absurd hm hg
      · exact ht
    · split
      · rename_i hm; exact absurd hm hg
      · unfold TableWf; rw [putSub_table]; exact ht
      · exact ht

theorem tableWf_init : TableWf State.init := by
  intro t ht; simp [State.init] at ht

theorem tableWf_exec (W : World) (s : State) (rs : List Request) (ht : TableWf s) (hrs : ∀ r ∈ rs, reqWf r = true) :
    TableWf (exec Quirks.spec W s rs) := by
  induction rs generalizing s with
  | nil => simpa [exec, run] using ht
  | cons r rs ih =>
    have := ih (step Quirks.spec W s r).2 (tableWf_step W s r ht (hrs r (by simp))) (fun r' hr' => hrs r' (by simp [hr']))
    simpa [exec, run] using this

/-- a whole request sequence: no panic anywhere, and the responses are the spec's -/
theorem runGo_eq_run (W : World) (rs : List Request) (s : State) (h : Inv W s) (ht : TableWf s)
    (hrs : ∀ r ∈ rs, reqWf r = true) : runGo Quirks.spec W s rs = .ok (run Quirks.spec W s rs) := by
  induction rs generalizing s with
  | nil => rfl
  | cons r rs ih =>
    have hr := hrs r (by simp)
    simp only [runGo, stepGo_eq_of_goInv Quirks.spec W s r (goInv_of_inv h ht) hr, ok_bind, run]
    rw [ih (step Quirks.spec W s r).2 (inv_step W s r h) (tableWf_step W s r ht hr) (fun r' hr' => hrs r' (by simp [hr']))]
    rfl

end Crem.EngineGo

/-! ## acceptance: when exactly a writing handler of the spec answers 200 -/
namespace Crem.Engine

theorem step_active_put (q : Quirks) (W : World) (s : State) (r : Request)
    (hp : classifyPath r.path = .active) (hm : r.method = .put) : step q W s r = putActive q W s r := by
  unfold step; rw [hp, hm]

theorem step_sub_put (q : Quirks) (W : World) (s : State) (r : Request) (id : String)
    (hp : classifyPath r.path = .sub id) (hm : r.method = .put) : step q W s r = putSub q W s r id := by
  unfold step; rw [hp, hm]

theorem step_model_patch (q : Quirks) (W : World) (s : State) (r : Request)
    (hp : classifyPath r.path = .model) (hm : r.method = .patch) : step q W s r = patchModel q W s r := by
  unfold step; rw [hp, hm]

theorem step_solutions_post (q : Quirks) (W : World) (s : State) (r : Request)
    (hp : classifyPath r.path = .solutions) (hm : r.method = .post) : step q W s r = postSolutions q W s r := by
  unfold step; rw [hp, hm]

theorem step_scenario_post (q : Quirks) (W : World) (s : State) (r : Request)
    (hp : classifyPath r.path = .scenario) (hm : r.method = .post) : step q W s r = postScenario q W s r := by
  unfold step; rw [hp, hm]

theorem putActive_200_iff (q : Quirks) (W : World) (s : State) (r : Request) :
    (putActive q W s r).1.status = 200 ↔
      s.snap.isSome = true ∧ s.live.isSome = true ∧ r.ctype = csvMime ∧
      ∃ c types rows, r.facts = .csv c ∧ classifyTable c = .ok types rows := by
  unfold putActive
  cases hs : s.snap with
  | none => simp [err]
  | some sn =>
    cases hl : s.live with
    | none => simp [err]
    | some m =>
      by_cases hc : r.ctype = csvMime
      · cases hf : r.facts with
        | csv c =>
          cases hcl : classifyTable c with
          | ok types rows => simp [hc, ok, hcl]
          | csvError => simp [hc, err, hcl]
          | badHeader => simp [hc, err, hcl]
          | badCell => simp [hc, err, hcl]
          | badFirstColumn => simp [hc, err, hcl]
        | none => simp [hc, err]
        | scen b => simp [hc, err]
        | patch p => simp [hc, err]
        | sub p => simp [hc, err]
      · simp [hc, err]

theorem putSub_200_iff (W : World) (s : State) (r : Request) (id : String) :
    (putSub Quirks.spec W s r id).1.status = 200 ↔
      ∃ sn m pu entries, s.snap = some sn ∧ s.live = some m ∧ atoi? id = some pu ∧ sn.u.pus.contains pu = true ∧
        r.facts = .sub (some entries) ∧ subSyntaxOk entries = true ∧ subSupported m.u pu entries = true := by
  unfold putSub
  cases hs : s.snap with
  | none => simp [err]
  | some sn =>
    cases hl : s.live with
    | none => simp [err]
    | some m =>
      cases ha : atoi? id with
      | none => simp [err]
      | some pu =>
        by_cases hc : pu ∈ sn.u.pus
        · cases hf : r.facts with
          | sub p =>
            cases p with
            | none => simp [hc, err]
            | some entries =>
              rcases Bool.eq_false_or_eq_true (subSyntaxOk entries) with hsy | hsy
              · rcases Bool.eq_false_or_eq_true (subSupported m.u pu entries) with hsu | hsu
                · simp [hc, hsy, hsu, ok, Quirks.spec]
                · simp [hc, hsy, hsu, err]
              · simp [hc, hsy, err]
          | none => simp [hc, err]
          | scen b => simp [hc, err]
          | patch p => simp [hc, err]
          | csv c => simp [hc, err]
        · simp [hc, err]

theorem patchModel_200_iff (W : World) (s : State) (r : Request) :
    (patchModel Quirks.spec W s r).1.status = 200 ↔
      ∃ m entries sets, s.snap.isSome = true ∧ s.live = some m ∧ r.ctype = jsonMime ∧
        r.facts = .patch (some entries) ∧ decodeEntries m.u.acts.length entries = some sets := by
  unfold patchModel
  cases hs : s.snap with
  | none => simp [err]
  | some sn =>
    cases hl : s.live with
    | none => simp [err]
    | some m =>
      by_cases hc : r.ctype = jsonMime
      · cases hf : r.facts with
        | patch p =>
          cases p with
          | none => simp [hc, err]
          | some entries =>
            cases hd : decodeEntries m.u.acts.length entries with
            | none => simp [hc, err, Quirks.spec, hd]
            | some sets =>
              simp only [hc, ne_eq, not_true_eq_false, ↓reduceIte, Quirks.spec, Bool.false_eq_true, hd]
              constructor
              · intro _; exact ⟨m, entries, sets, by simp, by simp, by simp, by simp, hd⟩
              · intro _; split <;> rfl
        | none => simp [hc, err]
        | scen b => simp [hc, err]
        | sub p => simp [hc, err]
        | csv c => simp [hc, err]
      · simp [hc, err]

theorem postSolutions_200_iff (W : World) (s : State) (r : Request) :
    (postSolutions Quirks.spec W s r).1.status = 200 ↔
      ∃ m c t, s.scenText.isSome = true ∧ r.ctype = csvMime ∧ s.live = some m ∧ r.facts = .csv c ∧
        classifySols m.u.asIs c = .ok t := by
  unfold postSolutions
  cases ht : s.scenText with
  | none => simp [err]
  | some txt =>
    by_cases hc : r.ctype = csvMime
    · cases hl : s.live with
      | none =>
        cases hf : r.facts <;> simp [hc, err]
      | some m =>
        cases hf : r.facts with
        | csv c =>
          cases hcl : classifySols m.u.asIs c with
          | ok t => simp [hc, ok, Quirks.spec, hcl]
          | csvError => simp [hc, err, hcl]
          | oneColumn => simp [hc, err, hcl]
          | structErr => simp [hc, err, hcl]
          | asIsUnreadable => simp [hc, err, hcl]
          | asIsMismatch => simp [hc, err, hcl]
        | none => simp [hc, err]
        | scen b => simp [hc, err]
        | patch p => simp [hc, err]
        | sub p => simp [hc, err]
    · simp [hc, err]

theorem postScenario_200_iff (W : World) (s : State) (r : Request) :
    (postScenario Quirks.spec W s r).1.status = 200 ↔
      r.ctype = tomlMime ∧ ∃ name u, r.facts = .scen (.ok name u) := by
  unfold postScenario
  by_cases hc : r.ctype = tomlMime
  · cases hf : r.facts with
    | scen b =>
      cases b with
      | ok name u => simp [hc, ok]
      | badToml => simp [hc, err]
      | interpErr => simp [hc, err]
      | nonCatchment name => simp [hc, err, Quirks.spec]
      | loadFail => simp [hc, err]
    | none => simp [hc, err]
    | patch p => simp [hc, err]
    | sub p => simp [hc, err]
    | csv c => simp [hc, err]
  · simp [hc, err]

end Crem.Engine

/-! ## JSON: every `JDoc` renders to a JSON text -/
namespace Crem.EngineGo
open Crem.Engine

theorem hexDig_isHex : ∀ n, n < 16 → isHex (hexDig n) = true := by decide

theorem jchars_append {a b : List Char} (ha : JChars a) (hb : JChars b) : JChars (a ++ b) := by
  induction ha with
  | nil => exact hb
  | plain h1 h2 h3 _ ih => exact JChars.plain h1 h2 h3 ih
  | esc h _ ih => exact JChars.esc h ih
  | uni h1 h2 h3 h4 _ ih => exact JChars.uni h1 h2 h3 h4 ih

theorem escChars_valid (c : Char) : JChars (escChars c) := by
  unfold escChars
  split
  · exact JChars.esc (by simp) JChars.nil
  · split
    · exact JChars.esc (by simp) JChars.nil
    · split
      · rename_i hlt
        exact JChars.uni (by decide) (by decide) (hexDig_isHex _ (by omega)) (hexDig_isHex _ (by omega)) JChars.nil
      · rename_i h1 h2 h3
        exact JChars.plain h1 h2 (by omega) JChars.nil

theorem escAll_valid (cs : List Char) : JChars (escAll cs) := by
  induction cs with
  | nil => exact JChars.nil
  | cons c cs ih => exact jchars_append (escChars_valid c) ih

theorem quoteChars_valid (s : String) : JsonText (quoteChars s) := JsonText.str (escAll_valid _)

theorem digitChar_ne_zero : ∀ n, n < 10 → 1 ≤ n → Nat.digitChar n ≠ '0' := by decide

theorem toDigits_head_ne_zero (n : Nat) (h1 : 1 ≤ n) : (Nat.toDigits 10 n).head? ≠ some '0' := by
  induction n using Nat.strongRecOn with
  | _ n ih =>
    rw [Nat.toDigits_eq_if (by omega : 1 < 10)]
    split
    · rename_i hlt
      simp only [List.head?_cons, ne_eq, Option.some.injEq]
      exact digitChar_ne_zero n hlt h1
    · rename_i hge
      have ih' := ih (n / 10) (by omega) (by omega)
      cases hd : Nat.toDigits 10 (n / 10) with
      | nil => exact absurd hd Nat.toDigits_ne_nil
      | cons a as =>
        rw [hd] at ih'
        simpa using ih'

theorem toDigits_jnat (n : Nat) : JNat (Nat.toDigits 10 n) := by
  refine ⟨Nat.toDigits_ne_nil, fun c hc => Nat.isDigit_of_mem_toDigits (by omega) (by omega) hc, ?_⟩
  intro h
  by_cases h0 : n = 0
  · subst h0; rfl
  · exact absurd h (toDigits_head_ne_zero n (by omega))

theorem intChars_jint (i : Int) : JInt (intChars i) := by
  cases i with
  | ofNat n => exact Or.inl (toDigits_jnat n)
  | negSucc n => exact Or.inr ⟨_, rfl, toDigits_jnat (n + 1)⟩

theorem intChars_jexp (i : Int) : JExpDigits (intChars i) := by
  cases i with
  | ofNat n => exact Or.inl ⟨(toDigits_jnat n).1, (toDigits_jnat n).2.1⟩
  | negSucc n => exact Or.inr ⟨_, rfl, (toDigits_jnat (n + 1)).1, (toDigits_jnat (n + 1)).2.1⟩

mutual
  /-- every document renders to a JSON text: there is no way to build a `JDoc` whose rendering is not JSON -/
  theorem render_valid : (d : JDoc) → JsonText d.render
    | .null => JsonText.null
    | .bool true => JsonText.true
    | .bool false => JsonText.false
    | .num m e => JsonText.num ⟨_, _, rfl, intChars_jint m, intChars_jexp e⟩
    | .str s => quoteChars_valid s
    | .arr [] => JsonText.arrEmpty
    | .arr (x :: xs) => JsonText.arr (renderElems_valid (x :: xs) (by simp))
    | .obj [] => JsonText.objEmpty
    | .obj (kv :: kvs) => JsonText.obj (renderMembers_valid (kv :: kvs) (by simp))
  theorem renderElems_valid : (xs : List JDoc) → xs ≠ [] → JsonElems (renderElems xs)
    | [], h => absurd rfl h
    | [x], _ => JsonElems.one (render_valid x)
    | x :: y :: rest, _ => JsonElems.cons (render_valid x) (renderElems_valid (y :: rest) (by simp))
  theorem renderMembers_valid : (kvs : List (String × JDoc)) → kvs ≠ [] → JsonMembers (renderMembers kvs)
    | [], h => absurd rfl h
    | [(_, v)], _ => JsonMembers.one (escAll_valid _) (render_valid v)
    | (_, v) :: kv' :: rest, _ =>
      JsonMembers.cons (escAll_valid _) (render_valid v) (renderMembers_valid (kv' :: rest) (by simp))
end

/-- JSON is declared exactly when `bodyDoc` is defined (whatever the interpretation of the abstract parts) -/
theorem bodyDoc_isSome (dv : Universe → ActiveSet → JDoc) (av : Tok → JDoc) (b : Body) :
    (bodyDoc dv av b).isSome = (b.ctype == CType.json) := by
  cases b with
  | text tt t m => cases tt <;> rfl
  | _ => rfl

end Crem.EngineGo
