import Crem.Model.CatchmentSpec
import Crem.Proofs.Round
import Mathlib.Tactic.Ring
/-!
Helper lemmas about the per-planning-unit stores of the catchment model
(`getC`, `putC`, `sumVals`, `sumS`, `pusDistinct`) and the keyed map `mapC`
used to describe canonical cells.
-/
namespace Crem.Catchment

/-! ### `foldl` sums as recursive sums -/

theorem foldl_add_start {α : Type} (f : α → Rat) (l : List α) (a : Rat) :
    l.foldl (fun t c => t + f c) a = a + l.foldl (fun t c => t + f c) 0 := by
  induction l generalizing a with
  | nil => simp
  | cons x xs ih =>
    simp only [List.foldl_cons]
    rw [ih (a + f x), ih (0 + f x)]
    ring

@[simp] theorem sumVals_nil : sumVals [] = 0 := rfl
@[simp] theorem sumS_nil : sumS [] = 0 := rfl

theorem sumVals_cons (c : PU × Cell) (cs : List (PU × Cell)) :
    sumVals (c :: cs) = c.2.val + sumVals cs := by
  unfold sumVals
  simp only [List.foldl_cons]
  rw [foldl_add_start (fun c : PU × Cell => c.2.val)]
  ring

theorem sumS_cons (c : PU × Rat) (cs : List (PU × Rat)) :
    sumS (c :: cs) = c.2 + sumS cs := by
  unfold sumS
  simp only [List.foldl_cons]
  rw [foldl_add_start (fun c : PU × Rat => c.2)]
  ring

theorem sumVals_onGrid {p : Nat} (cs : List (PU × Cell)) (h : ∀ c ∈ cs, OnGrid p c.2.val) :
    OnGrid p (sumVals cs) := by
  induction cs with
  | nil => exact OnGrid.zero p
  | cons c cs ih =>
    rw [sumVals_cons]
    exact (h c (by simp)).add (ih fun c' hc' => h c' (by simp [hc']))

theorem sumS_onGrid {p : Nat} (cs : List (PU × Rat)) (h : ∀ c ∈ cs, OnGrid p c.2) :
    OnGrid p (sumS cs) := by
  induction cs with
  | nil => exact OnGrid.zero p
  | cons c cs ih =>
    rw [sumS_cons]
    exact (h c (by simp)).add (ih fun c' hc' => h c' (by simp [hc']))

/-! ### `getC` / `putC` -/

variable {α β : Type}

@[simp] theorem getC_nil (p : PU) : getC ([] : List (PU × α)) p = none := rfl

theorem getC_cons (q : PU) (c : α) (rest : List (PU × α)) (p : PU) :
    getC ((q, c) :: rest) p = if q = p then some c else getC rest p := rfl

@[simp] theorem putC_nil (p : PU) (c : α) : putC ([] : List (PU × α)) p c = [] := rfl

theorem putC_cons (q : PU) (d : α) (rest : List (PU × α)) (p : PU) (c : α) :
    putC ((q, d) :: rest) p c = if q = p then (q, c) :: rest else (q, d) :: putC rest p c := rfl

/-- get after put, same key: the new value if the key is present -/
theorem getC_putC_same (s : List (PU × α)) (p : PU) (c : α) :
    getC (putC s p c) p = (getC s p).map (fun _ => c) := by
  induction s with
  | nil => rfl
  | cons h t ih =>
    obtain ⟨q, d⟩ := h
    rw [putC_cons, getC_cons]
    by_cases hq : q = p
    · simp [hq, getC_cons]
    · simp [hq, getC_cons, ih]

theorem getC_putC_same_of_some {s : List (PU × α)} {p : PU} {d : α} (c : α)
    (h : getC s p = some d) : getC (putC s p c) p = some c := by
  rw [getC_putC_same, h]; rfl

/-- get after put, other key -/
theorem getC_putC_other (s : List (PU × α)) {p q : PU} (c : α) (h : q ≠ p) :
    getC (putC s p c) q = getC s q := by
  induction s with
  | nil => rfl
  | cons hd t ih =>
    obtain ⟨r, d⟩ := hd
    rw [putC_cons]
    by_cases hr : r = p
    · subst hr
      have : ¬ r = q := fun e => h e.symm
      simp [getC_cons, this]
    · by_cases hrq : r = q
      · subst hrq
        simp [hr, getC_cons]
      · simp [hr, getC_cons, hrq, ih]

/-- keys are preserved by put -/
theorem keys_putC (s : List (PU × α)) (p : PU) (c : α) :
    (putC s p c).map (·.1) = s.map (·.1) := by
  induction s with
  | nil => rfl
  | cons hd t ih =>
    obtain ⟨r, d⟩ := hd
    rw [putC_cons]
    by_cases hr : r = p
    · simp [hr]
    · simp [hr, ih]

theorem putC_of_none {s : List (PU × α)} {p : PU} (c : α) (h : getC s p = none) :
    putC s p c = s := by
  induction s with
  | nil => rfl
  | cons hd t ih =>
    obtain ⟨r, d⟩ := hd
    rw [getC_cons] at h
    rw [putC_cons]
    by_cases hr : r = p
    · simp [hr] at h
    · simp only [hr, if_false] at h ⊢
      rw [ih h]

theorem getC_isSome_iff (s : List (PU × α)) (p : PU) :
    (getC s p).isSome = true ↔ p ∈ s.map (·.1) := by
  induction s with
  | nil => simp
  | cons hd t ih =>
    obtain ⟨r, d⟩ := hd
    rw [getC_cons]
    by_cases hr : r = p
    · simp [hr]
    · have : ¬ p = r := fun e => hr e.symm
      simp [hr, ih, this]

/-- key presence depends only on the key list -/
theorem getC_isSome_of_keys_eq {s : List (PU × α)} {t : List (PU × β)}
    (hk : s.map (·.1) = t.map (·.1)) (p : PU) : (getC s p).isSome = (getC t p).isSome := by
  rw [Bool.eq_iff_iff, getC_isSome_iff, getC_isSome_iff, hk]

theorem getC_mem {s : List (PU × α)} {p : PU} {c : α} (h : getC s p = some c) : (p, c) ∈ s := by
  induction s with
  | nil => simp at h
  | cons hd t ih =>
    obtain ⟨r, d⟩ := hd
    rw [getC_cons] at h
    by_cases hr : r = p
    · simp only [hr, if_true, Option.some.injEq] at h
      simp [hr, h]
    · simp only [hr, if_false] at h
      exact List.mem_cons_of_mem _ (ih h)

theorem pusDistinct_cons (q : PU) (c : α) (rest : List (PU × α)) :
    pusDistinct ((q, c) :: rest) = (rest.all (fun r => r.1 ≠ q) && pusDistinct rest) := rfl

/-- with pairwise distinct ids, membership determines lookup -/
theorem getC_of_mem {s : List (PU × α)} {p : PU} {c : α} (hd : pusDistinct s = true)
    (h : (p, c) ∈ s) : getC s p = some c := by
  induction s with
  | nil => simp at h
  | cons hd' t ih =>
    obtain ⟨r, d⟩ := hd'
    rw [pusDistinct_cons, Bool.and_eq_true, List.all_eq_true] at hd
    rw [getC_cons]
    rcases List.mem_cons.mp h with e | e
    · simp only [Prod.mk.injEq] at e
      simp [e.1, e.2]
    · have := hd.1 (p, c) e
      have hne : ¬ r = p := by
        intro e'; subst e'; simp at this
      simp only [hne, if_false]
      exact ih hd.2 e

/-! ### sums after a put -/

theorem sumVals_putC {s : List (PU × Cell)} {p : PU} {old : Cell} (c : Cell)
    (h : getC s p = some old) : sumVals (putC s p c) = sumVals s - old.val + c.val := by
  induction s with
  | nil => simp at h
  | cons hd t ih =>
    obtain ⟨r, d⟩ := hd
    rw [getC_cons] at h
    rw [putC_cons]
    by_cases hr : r = p
    · simp only [hr, if_true, Option.some.injEq] at h ⊢
      rw [sumVals_cons, sumVals_cons, ← h]; simp only; ring
    · simp only [hr, if_false] at h ⊢
      rw [sumVals_cons, sumVals_cons, ih h]; simp only; ring

theorem sumS_putC {s : List (PU × Rat)} {p : PU} {old : Rat} (c : Rat)
    (h : getC s p = some old) : sumS (putC s p c) = sumS s - old + c := by
  induction s with
  | nil => simp at h
  | cons hd t ih =>
    obtain ⟨r, d⟩ := hd
    rw [getC_cons] at h
    rw [putC_cons]
    by_cases hr : r = p
    · simp only [hr, if_true, Option.some.injEq] at h ⊢
      rw [sumS_cons, sumS_cons, ← h]; simp only; ring
    · simp only [hr, if_false] at h ⊢
      rw [sumS_cons, sumS_cons, ih h]; simp only; ring

/-! ### keyed map -/

/-- map every entry's payload, keeping the key (the shape of all canonical cell lists) -/
def mapC (g : PU → α → β) (s : List (PU × α)) : List (PU × β) := s.map fun e => (e.1, g e.1 e.2)

@[simp] theorem mapC_nil (g : PU → α → β) : mapC g [] = [] := rfl
theorem mapC_cons (g : PU → α → β) (q : PU) (x : α) (s : List (PU × α)) :
    mapC g ((q, x) :: s) = (q, g q x) :: mapC g s := rfl

theorem keys_mapC (g : PU → α → β) (s : List (PU × α)) : (mapC g s).map (·.1) = s.map (·.1) := by
  simp [mapC, List.map_map, Function.comp_def]

theorem getC_mapC (g : PU → α → β) (s : List (PU × α)) (p : PU) :
    getC (mapC g s) p = (getC s p).map (g p) := by
  induction s with
  | nil => rfl
  | cons hd t ih =>
    obtain ⟨r, d⟩ := hd
    rw [mapC_cons, getC_cons, getC_cons]
    by_cases hr : r = p
    · simp [hr]
    · simp [hr, ih]

theorem mem_mapC {g : PU → α → β} {s : List (PU × α)} {e : PU × β} (h : e ∈ mapC g s) :
    ∃ x, (e.1, x) ∈ s ∧ e.2 = g e.1 x := by
  simp only [mapC, List.mem_map] at h
  obtain ⟨⟨q, x⟩, hm, rfl⟩ := h
  exact ⟨x, hm, rfl⟩

theorem mapC_congr {g g' : PU → α → β} {s : List (PU × α)}
    (h : ∀ e ∈ s, g e.1 e.2 = g' e.1 e.2) : mapC g s = mapC g' s := by
  unfold mapC
  apply List.map_congr_left
  intro e he
  rw [h e he]

theorem pusDistinct_mapC (g : PU → α → β) (s : List (PU × α)) :
    pusDistinct (mapC g s) = pusDistinct s := by
  induction s with
  | nil => rfl
  | cons hd t ih =>
    obtain ⟨r, d⟩ := hd
    rw [mapC_cons, pusDistinct_cons, pusDistinct_cons, ih]
    congr 1
    simp [mapC, List.all_map, Function.comp_def]

/-- changing the payload function at one key only = a single put (ids pairwise distinct) -/
theorem mapC_update {g g' : PU → α → β} {s : List (PU × α)} {p : PU} {x : α}
    (hd : pusDistinct s = true) (hx : getC s p = some x)
    (hother : ∀ q y, q ≠ p → g' q y = g q y) :
    mapC g' s = putC (mapC g s) p (g' p x) := by
  induction s with
  | nil => simp at hx
  | cons hd' t ih =>
    obtain ⟨r, d⟩ := hd'
    rw [pusDistinct_cons, Bool.and_eq_true, List.all_eq_true] at hd
    rw [getC_cons] at hx
    rw [mapC_cons, mapC_cons, putC_cons]
    by_cases hr : r = p
    · simp only [hr, if_true, Option.some.injEq] at hx ⊢
      subst hx
      congr 1
      apply mapC_congr
      intro e he
      have := hd.1 e he
      apply hother
      intro e'
      simp [hr, e'] at this
    · simp only [hr, if_false] at hx ⊢
      rw [hother r d hr, ih hd.2 hx]

/-! ### a total as the sum of the unit values -/

theorem sum_map_add {ι : Type} (l : List ι) (f g : ι → Rat) :
    (l.map (fun x => f x + g x)).sum = (l.map f).sum + (l.map g).sum := by
  induction l with
  | nil => simp
  | cons x xs ih => simp only [List.map_cons, List.sum_cons, ih]; ring

theorem sumS_eq_sum_units {s : List (PU × Rat)} (hd : pusDistinct s = true) :
    sumS s = ((s.map (·.1)).map (fun p => (getC s p).getD 0)).sum := by
  induction s with
  | nil => rfl
  | cons hd' t ih =>
    obtain ⟨q, c⟩ := hd'
    rw [pusDistinct_cons, Bool.and_eq_true, List.all_eq_true] at hd
    rw [sumS_cons, ih hd.2]
    simp only [List.map_cons, List.sum_cons, getC_cons, if_true, Option.getD_some, List.map_map]
    congr 1
    apply congrArg
    apply List.map_congr_left
    intro e he
    have hne : ¬ q = e.1 := by
      have := hd.1 e he
      intro e'; simp [e'] at this
    simp [hne]

theorem sumVals_eq_sumS (cs : List (PU × Cell)) : sumVals cs = sumS (mapC (fun _ c => c.val) cs) := by
  induction cs with
  | nil => rfl
  | cons hd t ih =>
    obtain ⟨q, c⟩ := hd
    rw [sumVals_cons, mapC_cons, sumS_cons, ih]

end Crem.Catchment
